(* C07: the descriptor-ownership invariant and the routing theorem. *)
From Coq Require Import ZArith List Bool Lia Arith.
Import ListNotations.
Require Import SV.C07.Fds.

(* ------------------------------------------------------------ tables *)
Lemma keys_cons k o (t : fdtab) : keys ((k, o) :: t) = k :: keys t.
Proof. reflexivity. Qed.

Lemma lookup_in : forall t fd o, lookup fd t = Some o -> In (fd, o) t.
Proof.
  induction t as [|[k v] t IH]; simpl; intros fd o H; [discriminate|].
  destruct (Nat.eqb_spec k fd) as [->|N].
  - inversion H; subst. auto.
  - right. auto.
Qed.

Lemma in_keys (t : fdtab) k o : In (k, o) t -> In k (keys t).
Proof. intros H. unfold keys. change k with (fst (k, o)). apply in_map. exact H. Qed.

Lemma in_lookup : forall t fd o, NoDup (keys t) -> In (fd, o) t -> lookup fd t = Some o.
Proof.
  induction t as [|[k v] t IH]; simpl; intros fd o N H; [contradiction|].
  inversion N as [|? ? Nk Nt]; subst.
  destruct H as [H|H].
  - inversion H; subst. rewrite Nat.eqb_refl. reflexivity.
  - destruct (Nat.eqb_spec k fd) as [->|Ne]; auto.
    exfalso. apply Nk. eapply in_keys; eauto.
Qed.

Lemma is_open_in fd t : is_open fd t = true <-> In fd (keys t).
Proof.
  unfold is_open. rewrite existsb_exists. split.
  - intros (x & I & E). apply Nat.eqb_eq in E. subst. exact I.
  - intros I. exists fd. split; auto. apply Nat.eqb_refl.
Qed.

Lemma alloc_fresh t : ~ In (alloc t) (keys t).
Proof.
  unfold alloc. destruct (find _ _) as [n|] eqn:F.
  - apply find_some in F. destruct F as [_ F]. apply negb_true_iff in F.
    intros I. apply is_open_in in I. congruence.
  - intros I. pose proof (proj1 (list_max_le (keys t) (list_max (keys t))) (le_n _)) as L.
    rewrite Forall_forall in L. apply L in I. lia.
Qed.

Lemma keys_filter f (t : fdtab) :
  keys (filter (fun e => f (fst e)) t) = filter f (keys t).
Proof.
  induction t as [|[k v] t IH]; simpl; auto.
  destruct (f k); simpl; rewrite IH; reflexivity.
Qed.

Lemma close_fd_nodup fd t : NoDup (keys t) -> NoDup (keys (close_fd fd t)).
Proof.
  intros N. unfold close_fd.
  rewrite (keys_filter (fun k => negb (Nat.eqb k fd))). apply NoDup_filter. exact N.
Qed.

Lemma close_fd_in fd t e : In e (close_fd fd t) <-> In e t /\ fst e <> fd.
Proof.
  unfold close_fd. rewrite filter_In. rewrite negb_true_iff, Nat.eqb_neq. tauto.
Qed.

Lemma close_all_nodup : forall xs t, NoDup (keys t) -> NoDup (keys (close_all xs t)).
Proof.
  induction xs as [|x xs IH]; simpl; intros t N; auto.
  apply IH. apply close_fd_nodup. exact N.
Qed.

Lemma close_all_in : forall xs t e, In e (close_all xs t) <-> In e t /\ ~ In (fst e) xs.
Proof.
  induction xs as [|x xs IH]; simpl; intros t e; [tauto|].
  rewrite IH, close_fd_in. intuition.
Qed.

(* lookups in tables with unique keys, through In *)
Lemma lookup_close_all xs t fd o :
  NoDup (keys t) -> lookup fd t = Some o -> ~ In fd xs -> lookup fd (close_all xs t) = Some o.
Proof.
  intros N L NI. apply in_lookup; [apply close_all_nodup; exact N|].
  apply close_all_in. split; [apply lookup_in; exact L | exact NI].
Qed.

Lemma nodup_functional (t : fdtab) k o1 o2 :
  NoDup (keys t) -> In (k, o1) t -> In (k, o2) t -> o1 = o2.
Proof.
  intros N I1 I2. apply (in_lookup _ _ _ N) in I1. apply (in_lookup _ _ _ N) in I2. congruence.
Qed.

Lemma nodup_app_disjoint (l1 l2 : list nat) x : NoDup (l1 ++ l2) -> In x l1 -> In x l2 -> False.
Proof.
  induction l1 as [|a l1 IH]; simpl; intros N I1 I2; [contradiction|].
  inversion N; subst. destruct I1 as [->|I1]; [|eauto].
  apply H1. apply in_or_app. right. exact I2.
Qed.

(* ------------------------------------------------------------ make_pipes *)
Section Proofs.
  Variable redirect : nat -> bool.

  Lemma make_pipes_spec p g limit t par chi t' complete :
    make_pipes redirect p g limit t = (par, chi, t', complete) -> NoDup (keys t) ->
    exists added, t' = added ++ t /\ NoDup (keys t') /\
      (forall fd c, In (fd, c) par -> In (fd, OParent p g c) added) /\
      (forall x, In x chi -> exists c, In (x, OChild p g c) added).
  Proof.
    intros H N. unfold make_pipes, os_pipe, open_obj in H.
    destruct limit as [|[|[|l]]]; try destruct (redirect p); inversion H; subst; clear H.
    all: first [ exists []; split; [reflexivity|]
               | eexists [_; _]; split; [reflexivity|]
               | eexists [_; _; _; _]; split; [reflexivity|]
               | eexists [_; _; _; _; _; _]; split; [reflexivity|] ].
    all: split; [repeat (rewrite keys_cons; constructor; [apply alloc_fresh|]); exact N|].
    all: split; [intros fd c I | intros x I]; simpl in I.
    all: repeat match goal with H : _ \/ _ |- _ => destruct H as [H|H] end; try contradiction.
    all: try (inversion I; subst; simpl; tauto).
    all: subst; eexists; simpl; eauto 10.
  Qed.

  (* ---------------------------------------------------------- invariant *)
  Definition Inv (s : fstate) : Prop :=
    NoDup (keys (f_tab s)) /\ (0 < f_nextpid s)%Z /\
    forall p,
      (forall fd c, In (fd, c) (p_disp (f_procs s p)) ->
                    lookup fd (f_tab s) = Some (OParent p (p_gen (f_procs s p)) c)) /\
      p_parent (f_procs s p) = map fst (p_disp (f_procs s p)) /\
      (p_pid (f_procs s p) = 0%Z -> p_disp (f_procs s p) = []).

  Lemma Inv_init n : Inv (init_f n).
  Proof.
    split.
    - unfold init_f, init_tab, keys. simpl. rewrite map_map. simpl. rewrite map_id. apply seq_NoDup.
    - split; [simpl; lia|]. intros p. simpl. repeat split; auto. intros fd c [].
  Qed.

  Lemma upd_same f p v : upd f p v p = v.
  Proof. unfold upd. rewrite Nat.eqb_refl. reflexivity. Qed.
  Lemma upd_other f p v q : q <> p -> upd f p v q = f q.
  Proof. intros N. unfold upd. apply Nat.eqb_neq in N. rewrite N. reflexivity. Qed.

  (* descriptors of other processes survive additions and the closing of
     descriptors whose object belongs to p *)
  Lemma other_survives (s : fstate) (p : nat) added xs q fd c :
    Inv s -> q <> p -> NoDup (keys (added ++ f_tab s)) ->
    (forall x, In x xs -> exists o, In (x, o) added) ->
    In (fd, c) (p_disp (f_procs s q)) ->
    lookup fd (close_all xs (added ++ f_tab s)) = Some (OParent q (p_gen (f_procs s q)) c).
  Proof.
    intros (N & NP & I) Nq N' X D. destruct (I q) as (Iq & _ & _). specialize (Iq _ _ D).
    assert (L : lookup fd (added ++ f_tab s) = Some (OParent q (p_gen (f_procs s q)) c)).
    { apply in_lookup; auto. apply in_or_app. right. apply lookup_in. exact Iq. }
    apply lookup_close_all; auto.
    intros Ix. destruct (X _ Ix) as (o & Io).
    apply (nodup_app_disjoint (keys added) (keys (f_tab s)) fd).
    - unfold keys in *. rewrite <- map_app. exact N'.
    - eapply in_keys; eauto.
    - eapply in_keys. apply lookup_in. eauto.
  Qed.

  Lemma fstep_inv s o : Inv s -> Inv (fstep redirect s o).
  Proof.
    intros HI. pose proof HI as (N & NP & I). destruct o as [p oc|p| |fd]; simpl.
    - (* Spawn *)
      destruct (p_pid (f_procs s p) =? 0)%Z eqn:Z; simpl; [|exact HI].
      apply Z.eqb_eq in Z.
      destruct (make_pipes redirect p (S (p_gen (f_procs s p))) (match oc with PipeFail k => k | _ => 3 end) (f_tab s))
        as [[[par chi] t1] complete] eqn:M.
      destruct (make_pipes_spec _ _ _ _ _ _ _ _ M N) as (added & -> & N1 & Par & Chi).
      assert (X : forall x, In x (map fst par ++ chi) -> exists o, In (x, o) added).
      { intros x Ix. apply in_app_or in Ix. destruct Ix as [Ix|Ix].
        - apply in_map_iff in Ix. destruct Ix as ([fd c] & <- & Ix). eexists. apply Par. exact Ix.
        - destruct (Chi _ Ix) as (c & Ic). eexists. exact Ic. }
      assert (Xc : forall x, In x chi -> exists o, In (x, o) added).
      { intros x Ix. apply X. apply in_or_app. right. exact Ix. }
      destruct (I p) as (_ & _ & Ip3). specialize (Ip3 Z).
      destruct complete; simpl.
      + destruct oc as [k| |].
        * (* all pipes made although a pipe failure was scripted late: success path *)
          split; [apply close_all_nodup; exact N1|]. split; [simpl; lia|]. intros q. simpl.
          destruct (Nat.eq_dec q p) as [->|Nq].
          { rewrite upd_same. simpl. repeat split; auto.
            - intros fd c D. apply lookup_close_all; auto.
              + apply in_lookup; auto. apply in_or_app. left. apply Par. exact D.
              + intros Ic. destruct (Chi _ Ic) as (c' & Ic').
                pose proof (nodup_functional _ _ _ _ N1 (in_or_app _ _ _ (or_introl (Par _ _ D)))
                                             (in_or_app _ _ _ (or_introl Ic'))) as E. discriminate.
            - intros E. exfalso. lia. }
          { rewrite upd_other by exact Nq. destruct (I q) as (Iq1 & Iq2 & Iq3). repeat split; auto.
            intros fd c D. eapply other_survives; eauto. }
        * (* fork failed *)
          split; [apply close_all_nodup; exact N1|]. split; [simpl; lia|]. intros q. simpl.
          destruct (Nat.eq_dec q p) as [->|Nq].
          { rewrite upd_same. simpl. repeat split; auto. intros fd c []. }
          { rewrite upd_other by exact Nq. destruct (I q) as (Iq1 & Iq2 & Iq3). repeat split; auto.
            intros fd c D. eapply other_survives; eauto. }
        * split; [apply close_all_nodup; exact N1|]. split; [simpl; lia|]. intros q. simpl.
          destruct (Nat.eq_dec q p) as [->|Nq].
          { rewrite upd_same. simpl. repeat split; auto.
            - intros fd c D. apply lookup_close_all; auto.
              + apply in_lookup; auto. apply in_or_app. left. apply Par. exact D.
              + intros Ic. destruct (Chi _ Ic) as (c' & Ic').
                pose proof (nodup_functional _ _ _ _ N1 (in_or_app _ _ _ (or_introl (Par _ _ D)))
                                             (in_or_app _ _ _ (or_introl Ic'))) as E. discriminate.
            - intros E. exfalso. lia. }
          { rewrite upd_other by exact Nq. destruct (I q) as (Iq1 & Iq2 & Iq3). repeat split; auto.
            intros fd c D. eapply other_survives; eauto. }
      + (* make_pipes failed part-way *)
        split; [apply close_all_nodup; exact N1|]. split; [simpl; lia|]. intros q. simpl.
        destruct (Nat.eq_dec q p) as [->|Nq].
        { rewrite upd_same. simpl. destruct (I p) as (_ & Ip2 & _). rewrite Ip3 in *. repeat split; auto.
          intros fd c []. }
        { rewrite upd_other by exact Nq. destruct (I q) as (Iq1 & Iq2 & Iq3). repeat split; auto.
          intros fd c D. eapply other_survives; eauto. }
    - (* Finish *)
      destruct (p_pid (f_procs s p) =? 0)%Z eqn:Z; simpl; [exact HI|].
      split; [apply close_all_nodup; exact N|]. split; [simpl; lia|]. intros q. simpl.
      destruct (Nat.eq_dec q p) as [->|Nq].
      { rewrite upd_same. simpl. repeat split; auto. intros fd c []. }
      { rewrite upd_other by exact Nq. destruct (I q) as (Iq1 & Iq2 & Iq3). repeat split; auto.
        intros fd c D. specialize (Iq1 _ _ D). apply lookup_close_all; auto.
        destruct (I p) as (Ip1 & Ip2 & _). rewrite Ip2. intros Ix.
        apply in_map_iff in Ix. destruct Ix as ([fd' c'] & E & Ix). simpl in E. subst fd'.
        specialize (Ip1 _ _ Ix). rewrite Ip1 in Iq1. inversion Iq1. congruence. }
    - (* OpenOther *)
      split.
      + simpl. constructor; [apply alloc_fresh | exact N].
      + split; [simpl; lia|]. intros q. simpl. destruct (I q) as (Iq1 & Iq2 & Iq3). repeat split; auto.
        intros fd' c D. specialize (Iq1 _ _ D).
        destruct (Nat.eqb_spec (alloc (f_tab s)) fd') as [E|E]; [|exact Iq1].
        exfalso. apply (alloc_fresh (f_tab s)). rewrite E. eapply in_keys. apply lookup_in. exact Iq1.
    - (* CloseOther *)
      destruct (lookup fd (f_tab s)) as [[| |]|] eqn:L; try exact HI.
      split; [apply close_fd_nodup; exact N|]. split; [simpl; lia|]. intros q. simpl.
      destruct (I q) as (Iq1 & Iq2 & Iq3). repeat split; auto.
      intros fd' c D. specialize (Iq1 _ _ D).
      apply in_lookup; [apply close_fd_nodup; exact N|].
      apply close_fd_in. split; [apply lookup_in; exact Iq1|]. simpl. intros ->. congruence.
  Qed.

  (* after any history of spawns (successful, fork failures, pipe failures),
     exits and unrelated opens/closes *)
  Theorem fd_ownership : forall ops s, Inv s -> Inv (frun redirect s ops).
  Proof.
    induction ops as [|o ops IH]; intros s HI; simpl; auto.
    apply IH. apply fstep_inv. exact HI.
  Qed.

  Lemma combined_in : forall n procs fd q c,
    In (fd, (q, c)) (combined procs n) <-> q < n /\ In (fd, c) (p_disp (procs q)).
  Proof.
    induction n as [|n IH]; intros procs fd q c; simpl.
    - split; [contradiction | lia].
    - rewrite in_app_iff, IH, in_map_iff. split.
      + intros [[L I]|([fd' c'] & E & I)].
        * split; [lia | exact I].
        * inversion E; subst. simpl. split; [lia | exact I].
      + intros [L I]. destruct (Nat.eq_dec q n) as [->|Nq].
        * right. exists (fd, c). split; auto.
        * left. split; [lia | exact I].
  Qed.

  Lemma lookup_last_in {A} : forall (l : list (nat * A)) fd v, lookup_last fd l = Some v -> In (fd, v) l.
  Proof.
    induction l as [|[k x] l IH]; simpl; intros fd v H; [discriminate|].
    destruct (lookup_last fd l) as [y|] eqn:L.
    - inversion H; subst. right. apply IH. exact L.
    - destruct (Nat.eqb_spec k fd) as [->|N]; [|discriminate]. inversion H; subst. left. reflexivity.
  Qed.

  Lemma lookup_last_some {A} : forall (l : list (nat * A)) fd v, In (fd, v) l -> exists w, lookup_last fd l = Some w.
  Proof.
    induction l as [|[k x] l IH]; simpl; intros fd v H; [contradiction|].
    destruct H as [H|H].
    - inversion H; subst. destruct (lookup_last fd l); [eauto|]. rewrite Nat.eqb_refl. eauto.
    - destruct (IH _ _ H) as (w & ->). eauto.
  Qed.

  (* c07_fd_ownership, routing form: the dispatcher the main loop finds for a
     readable descriptor belongs to the process (and incarnation, and channel)
     whose child holds the other end of that pipe *)
  Theorem route_owner s n fd q c :
    Inv s -> route s n fd = Some (q, c) ->
    q < n /\ lookup fd (f_tab s) = Some (OParent q (p_gen (f_procs s q)) c).
  Proof.
    intros (N & NP & I) R. unfold route in R. apply lookup_last_in in R.
    apply combined_in in R. destruct R as [L D]. split; auto.
    destruct (I q) as (Iq & _). auto.
  Qed.

  (* key sets of distinct processes are disjoint *)
  Theorem disp_disjoint s p q fd c c' :
    Inv s -> In (fd, c) (p_disp (f_procs s p)) -> In (fd, c') (p_disp (f_procs s q)) -> p = q /\ c = c'.
  Proof.
    intros (N & NP & I) D1 D2.
    destruct (I p) as (Ip & _). destruct (I q) as (Iq & _).
    specialize (Ip _ _ D1). specialize (Iq _ _ D2). rewrite Ip in Iq. inversion Iq. auto.
  Qed.

  (* every dispatcher is reachable through its own descriptor, and only it *)
  Theorem route_complete s n p fd c :
    Inv s -> p < n -> In (fd, c) (p_disp (f_procs s p)) -> route s n fd = Some (p, c).
  Proof.
    intros HI L D.
    assert (Ic : In (fd, (p, c)) (combined (f_procs s) n)) by (apply combined_in; auto).
    destruct (lookup_last_some _ _ _ Ic) as ([q c'] & R). unfold route. rewrite R.
    pose proof R as R'. apply lookup_last_in in R'. apply combined_in in R'. destruct R' as [_ D'].
    destruct (disp_disjoint _ _ _ _ _ _ HI D D') as [-> ->]. reflexivity.
  Qed.

  (* a process without a child has no dispatchers: nothing can be routed to it *)
  Theorem no_child_no_dispatchers s p : Inv s -> p_pid (f_procs s p) = 0%Z -> p_disp (f_procs s p) = [].
  Proof. intros (_ & _ & I) Z. destruct (I p) as (_ & _ & H). auto. Qed.
End Proofs.
