(* C07: descriptor ownership.  Model of
     options.make_pipes / close_parent_pipes / close_child_pipes (lowest-free
       descriptor allocation by the kernel),
     ProcessConfig.make_dispatchers (dispatchers keyed by descriptor),
     Subprocess.spawn (success, fork failure -> closes and forgets (b950ca0),
       pipe failure -> closes what it opened, nothing assigned),
     Subprocess.finish (closes the parent ends and forgets),
     Supervisor.get_process_map (dict.update over the processes, in order).

   Descriptor table: association list descriptor -> kernel object.  A pipe end
   is labelled with the process, the incarnation (spawn count) and the channel
   it was created for; this label is what "the bytes of p" means: only the
   child forked in that incarnation holds the other end. *)
From Coq Require Import ZArith List Bool Lia Arith.
Import ListNotations.

Inductive chan := CIn | COut | CErr.
Definition chan_eqb (a b : chan) : bool :=
  match a, b with CIn, CIn | COut, COut | CErr, CErr => true | _, _ => false end.

(* what a descriptor refers to: the parent's end of the pipe of (process,
   incarnation, channel), the child's end of it, or anything else (log files,
   sockets, ...) *)
Inductive obj := OParent (p g : nat) (c : chan) | OChild (p g : nat) (c : chan) | OOther.

Definition fdtab := list (nat * obj).

Fixpoint lookup (fd : nat) (t : fdtab) : option obj :=
  match t with
  | [] => None
  | (k, o) :: r => if Nat.eqb k fd then Some o else lookup fd r
  end.
Definition keys (t : fdtab) : list nat := map fst t.
Definition is_open (fd : nat) (t : fdtab) : bool := existsb (Nat.eqb fd) (keys t).

(* os.pipe()/open(): the lowest descriptor not in use *)
Definition alloc (t : fdtab) : nat :=
  match find (fun n => negb (is_open n t)) (seq 0 (S (length t))) with
  | Some n => n
  | None => S (list_max (keys t))
  end.
Definition open_obj (t : fdtab) (o : obj) : nat * fdtab :=
  let fd := alloc t in (fd, (fd, o) :: t).
Definition close_fd (fd : nat) (t : fdtab) : fdtab :=
  filter (fun e => negb (Nat.eqb (fst e) fd)) t.
Definition close_all (fds : list nat) (t : fdtab) : fdtab := fold_left (fun t fd => close_fd fd t) fds t.

Record pstate := mkP {
  p_pid : Z;                       (* 0 = no child *)
  p_gen : nat;                     (* number of spawn attempts that created pipes *)
  p_disp : list (nat * chan);      (* Subprocess.dispatchers, in insertion order *)
  p_parent : list nat;             (* parent ends in Subprocess.pipes *)
  p_child : list nat               (* child ends in Subprocess.pipes *)
}.
Definition p0 : pstate := mkP 0 0 [] [] [].

Record fstate := mkF {
  f_tab : fdtab;
  f_procs : nat -> pstate;
  f_nextpid : Z
}.

Definition upd (f : nat -> pstate) (p : nat) (v : pstate) : nat -> pstate :=
  fun q => if Nat.eqb q p then v else f q.

(* outcome of a spawn: os.pipe() raises at its k-th call / fork raises / fork succeeds *)
Inductive outcome := PipeFail (k : nat) | ForkFail | ForkOk.
Inductive fop := Spawn (p : nat) (o : outcome) | Finish (p : nat) | OpenOther | CloseOther (fd : nat).

(* os.pipe(): read end first, then write end; returns (r, w, table) *)
Definition os_pipe (t : fdtab) (ro wo : obj) : nat * nat * fdtab :=
  let '(r, t1) := open_obj t ro in
  let '(w, t2) := open_obj t1 wo in (r, w, t2).

Section Cfg.
  Variable redirect : nat -> bool.     (* redirect_stderr of process p *)

  (* make_pipes(use_stderr) up to `limit` successful os.pipe() calls;
     returns (parent ends as (fd, chan) in dict order stdout, stderr, stdin;
              child ends; table; whether all pipes were made) *)
  Definition make_pipes (p g : nat) (limit : nat) (t : fdtab)
    : list (nat * chan) * list nat * fdtab * bool :=
    match limit with
    | O => ([], [], t, false)
    | S l1 =>
      (* stdin: the child reads, the parent writes *)
      let '(cin, pin, t1) := os_pipe t (OChild p g CIn) (OParent p g CIn) in
      match l1 with
      | O => ([(pin, CIn)], [cin], t1, false)
      | S l2 =>
        let '(pout, cout, t2) := os_pipe t1 (OParent p g COut) (OChild p g COut) in
        if redirect p then ([(pout, COut); (pin, CIn)], [cin; cout], t2, true)
        else
          match l2 with
          | O => ([(pout, COut); (pin, CIn)], [cin; cout], t2, false)
          | S _ =>
            let '(perr, cerr, t3) := os_pipe t2 (OParent p g CErr) (OChild p g CErr) in
            ([(pout, COut); (perr, CErr); (pin, CIn)], [cin; cout; cerr], t3, true)
          end
      end
    end.

  Definition fstep (s : fstate) (o : fop) : fstate :=
    match o with
    | Spawn p oc =>
      let ps := f_procs s p in
      if negb (p_pid ps =? 0)%Z then s            (* spawn(): already running *)
      else
        let g := S (p_gen ps) in
        let limit := match oc with PipeFail k => k | _ => 3 end in
        let '(par, chi, t1, complete) := make_pipes p g limit (f_tab s) in
        if negb complete then
          (* make_pipes closes what it opened and raises; nothing is assigned *)
          mkF (close_all (map fst par ++ chi) t1)
              (upd (f_procs s) p (mkP 0 g (p_disp ps) (p_parent ps) (p_child ps))) (f_nextpid s)
        else
          match oc with
          | ForkFail =>
            (* close_parent_pipes, close_child_pipes, pipes = {}, dispatchers = {} *)
            mkF (close_all (map fst par ++ chi) t1) (upd (f_procs s) p (mkP 0 g [] [] [])) (f_nextpid s)
          | _ =>
            (* _spawn_as_parent: close_child_pipes *)
            mkF (close_all chi t1)
                (upd (f_procs s) p (mkP (f_nextpid s) g par (map fst par) chi))
                (f_nextpid s + 1)%Z
          end
    | Finish p =>
      let ps := f_procs s p in
      if (p_pid ps =? 0)%Z then s
      else mkF (close_all (p_parent ps) (f_tab s)) (upd (f_procs s) p (mkP 0 (p_gen ps) [] [] [])) (f_nextpid s)
    | OpenOther => mkF (snd (open_obj (f_tab s) OOther)) (f_procs s) (f_nextpid s)
    | CloseOther fd =>
      match lookup fd (f_tab s) with
      | Some OOther => mkF (close_fd fd (f_tab s)) (f_procs s) (f_nextpid s)
      | _ => s
      end
    end.

  Definition frun (s : fstate) (ops : list fop) : fstate := fold_left fstep ops s.

  (* Supervisor.get_process_map over processes 0..n-1: dict.update in order, so
     for a descriptor present in several maps the last process wins *)
  Fixpoint combined (procs : nat -> pstate) (n : nat) : list (nat * (nat * chan)) :=
    match n with
    | O => []
    | S k => combined procs k ++ map (fun e => (fst e, (k, snd e))) (p_disp (procs k))
    end.
  Fixpoint lookup_last {A} (fd : nat) (l : list (nat * A)) : option A :=
    match l with
    | [] => None
    | (k, v) :: r => match lookup_last fd r with
                     | Some x => Some x
                     | None => if Nat.eqb k fd then Some v else None
                     end
    end.
  Definition route (s : fstate) (n : nat) (fd : nat) : option (nat * chan) :=
    lookup_last fd (combined (f_procs s) n).
End Cfg.

(* the label a dispatcher entry (fd, c) of process p must have *)
Definition label (p g : nat) (c : chan) : obj := OParent p g c.

Definition init_tab (n : nat) : fdtab := map (fun k => (k, OOther)) (seq 0 n).
Definition init_f (nopen : nat) : fstate := mkF (init_tab nopen) (fun _ => p0) 1000.
