(* C07: per-channel theorems (one dispatcher = one pipe = one log), reusing the
   C08 model and refinement, plus the stripEscapes laws. *)
From Coq Require Import ZArith List Bool Lia Arith.
Import ListNotations.
Require Import SV.Common SV.C08.Gen_tokens SV.C08.Stream SV.C08.StreamProofs SV.C08.CaptureProofs SV.C08.Instance.
Require Import SV.C07.Strip.

(* ------------------------------------------------------------ stripEscapes *)
Lemma strip_from_cons sh x r :
  strip_from sh (x :: r) =
  if sh then (if is_prefix esc (x :: r) then strip_from false r else x :: strip_from true r)
  else strip_from (is_term x) r.
Proof. reflexivity. Qed.
Lemma strip_end_cons sh x r :
  strip_end sh (x :: r) =
  if sh then (if is_prefix esc (x :: r) then strip_end false r else strip_end true r)
  else strip_end (is_term x) r.
Proof. reflexivity. Qed.
Lemma esc_cut_cons sh x r b :
  esc_cut sh (x :: r) b =
  if sh then xorb (is_prefix esc ((x :: r) ++ b)) (is_prefix esc (x :: r)) ||
             (if is_prefix esc (x :: r) then esc_cut false r b else esc_cut true r b)
  else esc_cut (is_term x) r b.
Proof. reflexivity. Qed.

(* composition law of stripEscapes over a chunk boundary that no escape
   sequence spans *)
Lemma strip_app : forall a sh b, esc_cut sh a b = false ->
  strip_from sh (a ++ b) = strip_from sh a ++ strip_from (strip_end sh a) b.
Proof.
  induction a as [|x a IH]; intros sh b H; [reflexivity|].
  rewrite esc_cut_cons in H. rewrite <- app_comm_cons.
  rewrite !strip_from_cons, strip_end_cons. destruct sh.
  - apply orb_false_elim in H. destruct H as [X C]. apply xorb_eq in X.
    rewrite <- app_comm_cons in X. rewrite X.
    destruct (is_prefix esc (x :: a)).
    + apply IH. exact C.
    + simpl. f_equal. apply IH. exact C.
  - apply IH. exact H.
Qed.

Theorem strip_split_ok a b : spans a b = false ->
  strip_escapes (a ++ b) = strip_escapes a ++ strip_escapes b.
Proof.
  unfold spans, strip_escapes. intros H. apply orb_false_elim in H. destruct H as [E C].
  apply negb_false_iff in E. rewrite strip_app by exact C. rewrite E. reflexivity.
Qed.

Theorem strip_concat : forall chunks, clean chunks = true ->
  strip_escapes (concat chunks) = concat (map strip_escapes chunks).
Proof.
  induction chunks as [|c r IH]; simpl; intros H; [reflexivity|].
  apply andb_true_iff in H. destruct H as [S C]. apply negb_true_iff in S.
  rewrite strip_split_ok by exact S. rewrite IH by exact C. reflexivity.
Qed.

(* the law fails when an escape sequence is cut by a read: known finding *)
Theorem ansi_split_refuted : exists a b,
  spans a b = true /\ strip_escapes (a ++ b) <> strip_escapes a ++ strip_escapes b.
Proof.
  exists [27; 91; 51]%Z, [49; 109; 104; 105]%Z. split; [vm_compute; reflexivity|].
  vm_compute. discriminate.
Qed.

Theorem strip_no_escape : forall s, (forall i, is_prefix esc (skipn i s) = false) -> strip_escapes s = s.
Proof.
  unfold strip_escapes. induction s as [|x s IH]; intros H; [reflexivity|].
  rewrite strip_from_cons. pose proof (H 0) as H0. simpl skipn in H0. rewrite H0.
  f_equal. apply IH. intros i. apply (H (S i)).
Qed.

Theorem strip_shorter : forall s sh, length (strip_from sh s) <= length s.
Proof.
  induction s as [|x s IH]; intros sh; [simpl; lia|].
  rewrite strip_from_cons. destruct sh.
  - destruct (is_prefix esc (x :: s)); simpl; [pose proof (IH false) | pose proof (IH true)]; lia.
  - simpl. pose proof (IH (is_term x)). lia.
Qed.

Example strip_example :
  strip_escapes ([27; 91; 51; 49; 109] ++ [104; 105] ++ [27; 91; 48; 109] ++ [27; 120])%Z = [104; 105; 27; 120]%Z.
Proof. vm_compute. reflexivity. Qed.

(* ---------------------------------------------- one channel, any transform *)
Definition log_chunks (l : list eff) : list bytes :=
  flat_map (fun e => match e with Log d => [d] | _ => [] end) l.

Lemma logfile_chunks tr l : eff_logfile tr l = concat (map tr (log_chunks l)).
Proof. induction l as [|e l IH]; simpl; auto. destruct e; simpl; rewrite IH; auto. Qed.

Lemma chunks_olog : forall l o, o_log (interp o (map sym_of l)) = o_log o ++ concat (log_chunks l).
Proof.
  induction l as [|e l IH]; intros o; simpl; [rewrite app_nil_r; reflexivity|].
  rewrite IH. destruct e; simpl; auto. rewrite app_assoc. reflexivity.
Qed.

(* PROCESS_LOG events outside capture mode carry exactly the bytes written to
   the log, chunk by chunk *)
Lemma plog_is_logfile tr l : concat (eff_plog tr false l) = eff_logfile tr l.
Proof. induction l as [|e l IH]; simpl; auto. destruct e; simpl; rewrite IH; auto. Qed.

Lemma olog_app : forall l1 l2 o, o_log (interp o (l1 ++ l2)) = o_log (interp o l1) ++ o_log (interp obs0 l2).
Proof.
  intros l1 l2 o. rewrite interp_app. generalize (interp o l1) as o1. clear o l1.
  induction l2 as [|s l2 IH]; intros o1; simpl; [rewrite app_nil_r; reflexivity|].
  rewrite IH. rewrite (IH (istep obs0 s)). destruct s; simpl; auto. rewrite app_assoc. reflexivity.
Qed.

Section Channel.
  Variable capmax : Z.
  Variable tr : bytes -> bytes.
  Notation feed := (feed_all BT ET capmax tr).
  Notation runc := (run_d BT ET capmax tr).

  (* c07_complete_at_eof (any strip setting): after the final flush the
     concatenation of the chunks passed to the log is exactly the stream minus
     the capture sections -- nothing missing, nothing twice, in order *)
  Theorem complete_at_eof : capmax <> 0%Z -> forall frags,
    exists s out, runc frags = Ok s out /\
      concat (log_chunks out) = o_log (ref_observation (concat frags)) /\ buf s = [].
  Proof.
    intros Hc frags.
    destruct (refines_total BT ET begin_nonempty end_nonempty capmax tr Hc frags) as (s & out & R & E & B).
    exists s, out. repeat split; auto.
    pose proof (chunks_olog out obs0) as C. simpl in C. rewrite <- C.
    unfold ref_observation, ref_obs. rewrite (E obs0). reflexivity.
  Qed.

  (* before EOF: what has been logged is a prefix of what the whole stream
     will log, whatever the child writes next *)
  Theorem logged_is_prefix : capmax <> 0%Z -> forall frags rest,
    exists s out, feed init_d frags = Ok s out /\
      exists more, o_log (ref_observation (concat frags ++ rest)) = concat (log_chunks out) ++ more.
  Proof.
    intros Hc frags rest.
    destruct (refines_continuation BT ET begin_nonempty end_nonempty capmax tr Hc frags rest) as (s & out & F & E).
    exists s, out. split; auto.
    exists (o_log (interp obs0 (split_ref BT ET (capmode s) (buf s ++ rest)))).
    unfold ref_observation, ref_obs. rewrite <- (E obs0). rewrite olog_app.
    pose proof (chunks_olog out obs0) as C. simpl in C. rewrite C. reflexivity.
  Qed.

  (* the log file itself, when the logged chunks are not cut inside an escape
     sequence (or strip_ansi is off, see below) *)
  Theorem logfile_complete : capmax <> 0%Z -> forall frags s out,
    runc frags = Ok s out ->
    eff_logfile tr out = concat (map tr (log_chunks out)) /\
    concat (log_chunks out) = o_log (ref_observation (concat frags)).
  Proof.
    intros Hc frags s out R. split; [apply logfile_chunks|].
    destruct (complete_at_eof Hc frags) as (s' & out' & R' & C & _).
    rewrite R in R'. inversion R'; subst. exact C.
  Qed.
End Channel.

(* strip_ansi on: the log is stripEscapes of the stream minus capture sections,
   under the negation of the known finding's signature *)
Theorem strip_log : forall capmax, capmax <> 0%Z -> forall frags s out,
  run_d BT ET capmax strip_escapes frags = Ok s out ->
  clean (log_chunks out) = true ->
  eff_logfile strip_escapes out = strip_escapes (o_log (ref_observation (concat frags))).
Proof.
  intros capmax Hc frags s out R C.
  destruct (logfile_complete capmax strip_escapes Hc frags s out R) as [L1 L2].
  rewrite L1, <- L2. symmetry. apply strip_concat. exact C.
Qed.

(* capture off (c07_plain): after every read the log holds tr of each read *)
Theorem plain_log : forall tr frags,
  exists s, feed_all BT ET 0 tr init_d frags = Ok s (map Log (nonempty frags)) /\
    eff_logfile tr (map Log (nonempty frags)) = concat (map tr (nonempty frags)) /\
    concat (nonempty frags) = concat frags /\ buf s = [].
Proof.
  intros tr frags. destruct (capmax_zero BT ET tr frags init_d eq_refl eq_refl) as (s & F & B & M).
  exists s. repeat split; auto.
  - apply logfile_map_log.
  - clear. induction frags as [|c r IH]; simpl; auto. destruct c; simpl; rewrite IH; reflexivity.
Qed.

Theorem plain_strip_log : forall frags, clean (nonempty frags) = true ->
  eff_logfile strip_escapes (map Log (nonempty frags)) = strip_escapes (concat frags).
Proof.
  intros frags C. rewrite logfile_map_log. rewrite <- strip_concat by exact C.
  f_equal. clear. induction frags as [|c r IH]; simpl; auto. destruct c; simpl; rewrite IH; reflexivity.
Qed.

Example ex_strip_leak :
  let frags := [[104; 27; 91; 51]; [49; 109; 105]]%Z in
  clean (nonempty frags) = false /\
  eff_logfile strip_escapes (map Log (nonempty frags)) = [104; 49; 109; 105]%Z /\
  strip_escapes (concat frags) = [104; 105]%Z.
Proof. vm_compute. repeat split; reflexivity. Qed.

(* fragmentation invariance of what reaches the log *)
Theorem frag_invariant_log : forall capmax tr, capmax <> 0%Z -> forall f1 f2, concat f1 = concat f2 ->
  exists s1 o1 s2 o2, run_d BT ET capmax tr f1 = Ok s1 o1 /\ run_d BT ET capmax tr f2 = Ok s2 o2 /\
    concat (log_chunks o1) = concat (log_chunks o2).
Proof.
  intros capmax tr Hc f1 f2 E.
  destruct (complete_at_eof capmax tr Hc f1) as (s1 & o1 & R1 & C1 & _).
  destruct (complete_at_eof capmax tr Hc f2) as (s2 & o2 & R2 & C2 & _).
  exists s1, o1, s2, o2. repeat split; auto. rewrite C1, C2, E. reflexivity.
Qed.
