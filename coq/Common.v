(* Shared helpers for the correspondence step: Coq itself compares the
   model's answer with what the implementation produced and reports only the
   indices of disagreeing cases. *)
From Coq Require Import ZArith List Bool.
Import ListNotations.

Fixpoint bad_indices_from {A : Type} (f : A -> bool) (l : list A) (i : N) : list N :=
  match l with
  | [] => []
  | x :: r => if f x then bad_indices_from f r (N.succ i)
              else i :: bad_indices_from f r (N.succ i)
  end.

Definition bad_indices {A : Type} (f : A -> bool) (l : list A) : list N :=
  bad_indices_from f l 0%N.

Fixpoint list_eqb {A : Type} (eqb : A -> A -> bool) (a b : list A) : bool :=
  match a, b with
  | [], [] => true
  | x :: a', y :: b' => eqb x y && list_eqb eqb a' b'
  | _, _ => false
  end.

Definition zlist_eqb := list_eqb Z.eqb.

Definition option_eqb {A : Type} (eqb : A -> A -> bool) (a b : option A) : bool :=
  match a, b with
  | None, None => true
  | Some x, Some y => eqb x y
  | _, _ => false
  end.

Lemma list_eqb_spec {A} (eqb : A -> A -> bool)
      (H : forall x y, eqb x y = true <-> x = y) :
  forall a b, list_eqb eqb a b = true <-> a = b.
Proof.
  induction a as [|x a IH]; destruct b as [|y b]; simpl; split; intro E;
    try reflexivity; try discriminate.
  - apply andb_true_iff in E. destruct E as [E1 E2].
    apply H in E1. apply IH in E2. subst. reflexivity.
  - inversion E; subst. apply andb_true_iff. split; [apply H; reflexivity | apply IH; reflexivity].
Qed.

Lemma zlist_eqb_eq a b : zlist_eqb a b = true <-> a = b.
Proof. apply list_eqb_spec. intros; apply Z.eqb_eq. Qed.
