(* C01, the observer's view: the sequence of states one process is reported in,
   read off the PROCESS_STATE notifications alone (oldest report = STOPPED, the
   state a process object is created in), is a walk in the documented graph:
   two consecutive reports differ, and the later one is reached by a documented
   edge or is UNKNOWN.  A corollary of trace_ok, stated on what a subscriber sees. *)
From Coq Require Import ZArith List Bool Arith.
Import ListNotations.
Require Import SV.Life.Model SV.Life.Inv.

(* newest first, like the trace *)
Fixpoint seen (o : list effect) (i : nat) : list pstate :=
  match o with
  | [] => [STOPPED]
  | EState j _ t _ _ :: r => if Nat.eqb j i then t :: seen r i else seen r i
  | _ :: r => seen r i
  end.

Fixpoint walk_ok (l : list pstate) : Prop :=
  match l with
  | b :: r => match r with
              | a :: _ => a <> b /\ (edge a b = true \/ b = UNKNOWN) /\ walk_ok r
              | [] => True
              end
  | [] => True
  end.

Lemma seen_head o i : exists l, seen o i = last_state o i :: l.
Proof.
  induction o as [|e o IH]; cbn.
  - exists []. reflexivity.
  - destruct e; try exact IH. destruct (Nat.eqb who i).
    + exists (seen o i). reflexivity.
    + exact IH.
Qed.

Lemma seen_walk o i : trace_ok o -> walk_ok (seen o i).
Proof.
  induction o as [|e o IH]; cbn; intro H.
  - exact I.
  - destruct e; try (apply IH; exact H).
    destruct H as [Hf [Hne [He Hr]]].
    destruct (Nat.eqb_spec who i) as [E|E].
    + subst who. pose proof (IH Hr) as Hw. destruct (seen_head o i) as [l El].
      rewrite El in *. rewrite <- Hf in *. cbn. split; [exact Hne|]. split; [|exact Hw].
      destruct He as [He|[Hu _]]; [left; exact He | right; exact Hu].
    + apply IH. exact Hr.
Qed.

Lemma seen_first o i : last (seen o i) STOPPED = STOPPED.
Proof.
  induction o as [|e o IH]; cbn.
  - reflexivity.
  - destruct e; try exact IH. destruct (Nat.eqb who i); [|exact IH].
    destruct (seen_head o i) as [l El]. rewrite El in *. exact IH.
Qed.

Require Import SV.Life.Trace.

Lemma observer_run U pconfs gconfs ops i :
  let w := Model.run U pconfs gconfs ops in
  walk_ok (seen (out w) i) /\ hd STOPPED (seen (out w) i) = sts w i /\
  last (seen (out w) i) STOPPED = STOPPED.
Proof.
  cbv zeta. destruct (TI_run U pconfs gconfs ops) as [H1 H2]. split; [apply seen_walk; exact H1|]. split.
  - destruct (seen_head (out (Model.run U pconfs gconfs ops)) i) as [l El]. rewrite El. cbn. apply H2.
  - apply seen_first.
Qed.
