(* Process lifecycle core shared by C01-C06 and C13.

   Executable model of supervisor.process.Subprocess (state machine part),
   ProcessGroupBase.stop_all, supervisor.supervisord.Supervisor.runforever /
   reap / handle_signal, the process-control methods of
   supervisor.rpcinterface (startProcess, stopProcess, signalProcess, their
   all/group forms via make_allfunc, shutdown, restart), and of the kernel the
   harness simulates (fork / kill / waitpid).

   Transcribed statement by statement from the code; Python exceptions are
   values (a crashed world stops executing); every decision of the environment
   is an explicit oracle carried by the operation.  Times are integers in
   ticks, U ticks per second.  No proofs in this file. *)
From Coq Require Import ZArith List Bool Lia.
Import ListNotations.
Open Scope Z_scope.

Inductive pstate := STOPPED | STARTING | RUNNING | BACKOFF | STOPPING | EXITED | FATAL | UNKNOWN.

Definition pstate_eqb (a b : pstate) : bool :=
  match a, b with
  | STOPPED, STOPPED | STARTING, STARTING | RUNNING, RUNNING | BACKOFF, BACKOFF
  | STOPPING, STOPPING | EXITED, EXITED | FATAL, FATAL | UNKNOWN, UNKNOWN => true
  | _, _ => false
  end.

(* numeric codes of supervisor/states.py (checked against the source by gen/life_states.py) *)
Definition pstate_code (s : pstate) : Z :=
  match s with
  | STOPPED => 0 | STARTING => 10 | RUNNING => 20 | BACKOFF => 30
  | STOPPING => 40 | EXITED => 100 | FATAL => 200 | UNKNOWN => 1000
  end.

Definition in_running_states (s : pstate) : bool :=
  match s with RUNNING | BACKOFF | STARTING => true | _ => false end.
Definition in_stopped_states (s : pstate) : bool :=
  match s with STOPPED | EXITED | FATAL | UNKNOWN => true | _ => false end.
Definition in_signallable_states (s : pstate) : bool :=
  match s with RUNNING | STARTING | STOPPING => true | _ => false end.

Inductive autor := ARNever | ARUnexpected | ARAlways.
Inductive cmdk := CmdOk | CmdNotFound | CmdNotExec.

Record pconf := mkConf {
  c_startsecs : Z; c_startretries : Z; c_stopwaitsecs : Z; c_stopsignal : Z; c_priority : Z;
  c_autostart : bool; c_autorestart : autor; c_exitcodes : list Z;
  c_stopasgroup : bool; c_killasgroup : bool; c_cmd : cmdk; c_group : nat }.

Record gconf := mkG { g_priority : Z; g_procs : list nat (* process indices, in dict order *) }.

(* the process state itself is kept apart (world.sts) so that change_state is
   its only writer by construction, as in the code *)
Record proc := mkProc {
  pid : Z; killing : bool; delay : Z; backoff : Z;
  laststart : Z; laststop : Z; exitstatus : option Z; spawnerr : bool;
  admin_stop : bool; system_stop : bool }.

Definition proc0 : proc :=
  mkProc 0 false 0 0 0 0 None false false false.

Inductive effect :=
| EFork (who : nat) (p : Z)
| ESpawnFail (who : nat) (kind : Z)       (* 1 command not found/not executable, 2 pipes, 3 fork *)
| EKill (target sig res : Z)              (* res: 0 delivered, 1 ESRCH, 2 other error *)
| EWait (p sts : Z)
| EState (who : nat) (from to : pstate) (x : Z) (expected : bool)
| ESup (s : Z)                            (* 1 SupervisorRunningEvent, 2 SupervisorStoppingEvent *)
| EAns (req : Z) (ans : Z)                (* 0 = true, otherwise the fault code *)
| EAnsAll (req : Z) (ans : list (nat * Z))
| ECrash (site : Z)
| EExitNow.

(* deferred RPC answers *)
Inductive dkind := DStart | DStop.
Inductive deferred :=
| DOne (req : Z) (k : dkind) (i : nat)
| DAll (req : Z) (k : dkind) (wait : bool) (todo : option (list nat)) (cbs : list nat) (results : list (nat * Z)).

Record world := mkW {
  sts : nat -> pstate;          (* Subprocess.state of every process *)
  procs : nat -> proc;
  live : list Z;                (* kernel: live children, fork order *)
  zombies : list (Z * Z);       (* kernel: dead, not yet waited for: (pid, wait status), FIFO *)
  nextpid : Z;
  pidhist : list (Z * nat);     (* options.pidhistory *)
  mood : Z;                     (* 1 RUNNING, 0 RESTARTING, -1 SHUTDOWN *)
  stopping : bool;
  stop_groups : list nat;
  now : Z;
  forkq : list Z;               (* per spawn attempt: 0 ok, 1 pipe EMFILE, 2 pipe other, 3 fork EAGAIN, 4 fork other *)
  killq : list Z;               (* per kill call: 0 delivered+dies, 1 delivered but ignored (not SIGKILL), 2 EPERM, 3 ESRCH *)
  sigq : list Z;
  pend : list deferred;
  out : list effect;            (* newest first *)
  crashed : bool;
  exited : bool }.

Section WithConfig.
Variable U : Z.                       (* ticks per second *)
Variable pconfs : list pconf.
Variable gconfs : list gconf.

Definition conf0 : pconf := mkConf 1 3 10 15 999 true ARUnexpected [0] false false CmdOk 0%nat.
Definition cf (i : nat) : pconf := nth i pconfs conf0.

(* ---- state monad with crash *)
Definition M (A : Type) := world -> option A * world.
Definition ret {A} (a : A) : M A := fun w => (Some a, w).
Definition bind {A B} (m : M A) (f : A -> M B) : M B :=
  fun w => match m w with
           | (Some a, w') => f a w'
           | (None, w') => (None, w')
           end.
Notation "x <- m ;; k" := (bind m (fun x => k)) (at level 61, m at next level, right associativity).
Notation "m ;;; k" := (bind m (fun _ => k)) (at level 61, right associativity).

Definition set_out (o : list effect) (w : world) : world := mkW (sts w) (procs w) (live w) (zombies w) (nextpid w) (pidhist w) (mood w) (stopping w) (stop_groups w) (now w) (forkq w) (killq w) (sigq w) (pend w) (o) (crashed w) (exited w).
Definition set_crashed (w : world) : world := mkW (sts w) (procs w) (live w) (zombies w) (nextpid w) (pidhist w) (mood w) (stopping w) (stop_groups w) (now w) (forkq w) (killq w) (sigq w) (pend w) (out w) (true) (exited w).
Definition emit (e : effect) : M unit := fun w => (Some tt, set_out (e :: out w) w).
Definition crash {A} (site : Z) : M A := fun w => (None, set_crashed (set_out (ECrash site :: out w) w)).
Definition getw : M world := fun w => (Some w, w).

Definition set_sts (f : nat -> pstate) (w : world) : world := mkW (f) (procs w) (live w) (zombies w) (nextpid w) (pidhist w) (mood w) (stopping w) (stop_groups w) (now w) (forkq w) (killq w) (sigq w) (pend w) (out w) (crashed w) (exited w).
Definition set_procs (ps : nat -> proc) (w : world) : world := mkW (sts w) (ps) (live w) (zombies w) (nextpid w) (pidhist w) (mood w) (stopping w) (stop_groups w) (now w) (forkq w) (killq w) (sigq w) (pend w) (out w) (crashed w) (exited w).
Definition set_kernel (l : list Z) (z : list (Z * Z)) (np : Z) (w : world) : world := mkW (sts w) (procs w) (l) (z) (np) (pidhist w) (mood w) (stopping w) (stop_groups w) (now w) (forkq w) (killq w) (sigq w) (pend w) (out w) (crashed w) (exited w).
Definition set_pidhist (h : list (Z * nat)) (w : world) : world := mkW (sts w) (procs w) (live w) (zombies w) (nextpid w) (h) (mood w) (stopping w) (stop_groups w) (now w) (forkq w) (killq w) (sigq w) (pend w) (out w) (crashed w) (exited w).
Definition set_mood (m : Z) (w : world) : world := mkW (sts w) (procs w) (live w) (zombies w) (nextpid w) (pidhist w) (m) (stopping w) (stop_groups w) (now w) (forkq w) (killq w) (sigq w) (pend w) (out w) (crashed w) (exited w).
Definition set_stopping (b : bool) (sg : list nat) (w : world) : world := mkW (sts w) (procs w) (live w) (zombies w) (nextpid w) (pidhist w) (mood w) (b) (sg) (now w) (forkq w) (killq w) (sigq w) (pend w) (out w) (crashed w) (exited w).
Definition set_pass (t : Z) (fq kq : list Z) (w : world) : world := mkW (sts w) (procs w) (live w) (zombies w) (nextpid w) (pidhist w) (mood w) (stopping w) (stop_groups w) (t) (fq) (kq) (sigq w) (pend w) (out w) (crashed w) (exited w).
Definition set_forkq (fq : list Z) (w : world) : world := mkW (sts w) (procs w) (live w) (zombies w) (nextpid w) (pidhist w) (mood w) (stopping w) (stop_groups w) (now w) (fq) (killq w) (sigq w) (pend w) (out w) (crashed w) (exited w).
Definition set_killq (kq : list Z) (w : world) : world := mkW (sts w) (procs w) (live w) (zombies w) (nextpid w) (pidhist w) (mood w) (stopping w) (stop_groups w) (now w) (forkq w) (kq) (sigq w) (pend w) (out w) (crashed w) (exited w).
Definition set_sigq (q : list Z) (w : world) : world := mkW (sts w) (procs w) (live w) (zombies w) (nextpid w) (pidhist w) (mood w) (stopping w) (stop_groups w) (now w) (forkq w) (killq w) (q) (pend w) (out w) (crashed w) (exited w).
Definition set_pend (d : list deferred) (w : world) : world := mkW (sts w) (procs w) (live w) (zombies w) (nextpid w) (pidhist w) (mood w) (stopping w) (stop_groups w) (now w) (forkq w) (killq w) (sigq w) (d) (out w) (crashed w) (exited w).
Definition set_exited (w : world) : world := mkW (sts w) (procs w) (live w) (zombies w) (nextpid w) (pidhist w) (mood w) (stopping w) (stop_groups w) (now w) (forkq w) (killq w) (sigq w) (pend w) (EExitNow :: out w) (crashed w) (true).

Definition modw (f : world -> world) : M unit := fun w => (Some tt, f w).

Definition upd {A} (f : nat -> A) (i : nat) (x : A) : nat -> A :=
  fun j => if Nat.eqb j i then x else f j.

Definition getp (i : nat) : M proc := fun w => (Some (procs w i), w).
Definition setp (i : nat) (p : proc) : M unit := modw (fun w => set_procs (upd (procs w) i p) w).
Definition gets (i : nat) : M pstate := fun w => (Some (sts w i), w).

(* field setters on proc *)
Definition p_pid (p : proc) (x : Z) : proc := mkProc (x) (killing p) (delay p) (backoff p) (laststart p) (laststop p) (exitstatus p) (spawnerr p) (admin_stop p) (system_stop p).
Definition p_killing (p : proc) (x : bool) : proc := mkProc (pid p) (x) (delay p) (backoff p) (laststart p) (laststop p) (exitstatus p) (spawnerr p) (admin_stop p) (system_stop p).
Definition p_delay (p : proc) (x : Z) : proc := mkProc (pid p) (killing p) (x) (backoff p) (laststart p) (laststop p) (exitstatus p) (spawnerr p) (admin_stop p) (system_stop p).
Definition p_backoff (p : proc) (x : Z) : proc := mkProc (pid p) (killing p) (delay p) (x) (laststart p) (laststop p) (exitstatus p) (spawnerr p) (admin_stop p) (system_stop p).
Definition p_laststart (p : proc) (x : Z) : proc := mkProc (pid p) (killing p) (delay p) (backoff p) (x) (laststop p) (exitstatus p) (spawnerr p) (admin_stop p) (system_stop p).
Definition p_laststop (p : proc) (x : Z) : proc := mkProc (pid p) (killing p) (delay p) (backoff p) (laststart p) (x) (exitstatus p) (spawnerr p) (admin_stop p) (system_stop p).
Definition p_exitstatus (p : proc) (x : option Z) : proc := mkProc (pid p) (killing p) (delay p) (backoff p) (laststart p) (laststop p) (x) (spawnerr p) (admin_stop p) (system_stop p).
Definition p_spawnerr (p : proc) (x : bool) : proc := mkProc (pid p) (killing p) (delay p) (backoff p) (laststart p) (laststop p) (exitstatus p) (x) (admin_stop p) (system_stop p).
Definition p_admin (p : proc) (x : bool) : proc := mkProc (pid p) (killing p) (delay p) (backoff p) (laststart p) (laststop p) (exitstatus p) (spawnerr p) (x) (system_stop p).
Definition p_system (p : proc) (x : bool) : proc := mkProc (pid p) (killing p) (delay p) (backoff p) (laststart p) (laststop p) (exitstatus p) (spawnerr p) (admin_stop p) (x).

(* ---- Subprocess.change_state (process.py:162-177) *)
Definition extra_value (s : pstate) (p : proc) : Z :=
  match s with
  | STARTING | BACKOFF => backoff p
  | RUNNING | STOPPING | STOPPED | EXITED => pid p
  | FATAL | UNKNOWN => 0
  end.

Definition change_state (i : nat) (new : pstate) (expected : bool) : M unit :=
  old <- gets i ;;
  if pstate_eqb new old then ret tt
  else
    w <- getw ;;
    p <- getp i ;;
    modw (fun w => set_sts (upd (sts w) i new) w) ;;;
    let p2 := if pstate_eqb new BACKOFF
              then p_delay (p_backoff p (backoff p + 1)) (now w + (backoff p + 1) * U)
              else p in
    setp i p2 ;;;
    emit (EState i old new (extra_value new p2) expected).

Definition assert_in (i : nat) (site : Z) (ok : pstate -> bool) : M unit :=
  s <- gets i ;; if ok s then ret tt else crash site.

Definition modp (i : nat) (f : proc -> proc) : M unit := p <- getp i ;; setp i (f p).

(* the recurring shape `self._assertInState(...); [self.x = ...;] self.change_state(new)` *)
Definition move (i : nat) (site : Z) (ok : pstate -> bool) (f : proc -> proc) (new : pstate) (expected : bool) : M unit :=
  assert_in i site ok ;;; modp i f ;;; change_state i new expected.

(* ---- kernel *)
Definition pop {A} (l : list A) (d : A) : A * list A :=
  match l with [] => (d, []) | x :: r => (x, r) end.

Definition remove_z (x : Z) (l : list Z) : list Z := filter (fun y => negb (y =? x)) l.
Definition mem_z (x : Z) (l : list Z) : bool := existsb (fun y => y =? x) l.

(* os.kill(target, sig): target > 0 a pid, target < 0 the process group -target *)
Definition k_kill (target sig : Z) : M Z :=
  w <- getw ;;
  let '(o, kq) := pop (killq w) 0 in
  modw (set_killq kq) ;;;
  let p := Z.abs target in
  if o =? 2 then emit (EKill target sig 2) ;;; ret 2
  else if o =? 3 then emit (EKill target sig 1) ;;; ret 1
  else
    w <- getw ;;
    if mem_z p (live w) then
      (if (o =? 1) && negb (sig =? 9) then emit (EKill target sig 0) ;;; ret 0
       else
         modw (fun w => set_kernel (remove_z p (live w)) (zombies w ++ [(p, sig)]) (nextpid w) w) ;;;
         emit (EKill target sig 0) ;;; ret 0)
    else if existsb (fun z => fst z =? p) (zombies w) then emit (EKill target sig 0) ;;; ret 0
    else emit (EKill target sig 1) ;;; ret 1.

(* os.kill and the `except: ... change_state(UNKNOWN)` clause shared by kill() and signal() *)
Definition kill_mark (i : nat) (target sig : Z) : M Z :=
  r <- k_kill target sig ;;
  if r =? 2 then change_state i UNKNOWN true ;;; ret r else ret r.

(* ---- Subprocess.spawn (process.py:191-273) *)
Definition spawn (i : nat) : M unit :=
  p <- getp i ;;
  if negb (pid p =? 0) then ret tt
  else
    w <- getw ;;
    let p1 := p_laststart (p_admin (p_system (p_exitstatus (p_spawnerr (p_killing p false) false) None) false) false) (now w) in
    setp i p1 ;;;
    move i 1 (fun s => match s with EXITED | FATAL | BACKOFF | STOPPED => true | _ => false end)
         (fun p => p) STARTING true ;;;
    match c_cmd (cf i) with
    | CmdNotFound | CmdNotExec =>
      modp i (fun p => p_spawnerr p true) ;;;
      emit (ESpawnFail i 1) ;;;
      move i 2 (fun s => pstate_eqb s STARTING) (fun p => p) BACKOFF true
    | CmdOk =>
      w <- getw ;;
      let '(o, fq) := pop (forkq w) 0 in
      modw (set_forkq fq) ;;;
      if (o =? 1) || (o =? 2) then
        modp i (fun p => p_spawnerr p true) ;;;
        emit (ESpawnFail i 2) ;;;
        move i 3 (fun s => pstate_eqb s STARTING) (fun p => p) BACKOFF true
      else if (o =? 3) || (o =? 4) then
        modp i (fun p => p_spawnerr p true) ;;;
        emit (ESpawnFail i 3) ;;;
        move i 4 (fun s => pstate_eqb s STARTING) (fun p => p) BACKOFF true
      else
        w <- getw ;;
        let newpid := nextpid w in
        modw (fun w => set_kernel (live w ++ [newpid]) (zombies w) (nextpid w + 1) w) ;;;
        emit (EFork i newpid) ;;;
        (* _spawn_as_parent *)
        modp i (fun p => p_delay (p_spawnerr (p_pid p newpid) false) (now w + c_startsecs (cf i) * U)) ;;;
        modw (fun w => set_pidhist ((newpid, i) :: filter (fun e => negb (fst e =? newpid)) (pidhist w)) w)
    end.

(* ---- _check_and_adjust_for_system_clock_rollback (process.py:357-377); laststopreport is log-only *)
Definition adjust_times (s : pstate) (c : pconf) (t : Z) (p : proc) : proc :=
  match s with
  | STARTING =>
    let p1 := if t <? laststart p then p_laststart p t else p in
    if (delay p1 >? 0) && (t <? delay p1 - c_startsecs c * U)
    then p_delay p1 (t + c_startsecs c * U) else p1
  | RUNNING =>
    if (t >? laststart p) && (t <? laststart p + c_startsecs c * U)
    then p_laststart p (t - c_startsecs c * U) else p
  | STOPPING =>
    if (delay p >? 0) && (t <? delay p - c_stopwaitsecs c * U)
    then p_delay p (t + c_stopwaitsecs c * U) else p
  | BACKOFF =>
    if (delay p >? 0) && (t <? delay p - backoff p * U)
    then p_delay p (t + backoff p * U) else p
  | _ => p
  end.

Definition rollback_adjust (i : nat) (t : Z) : M unit :=
  p <- getp i ;;
  s <- gets i ;;
  setp i (adjust_times s (cf i) t p).

(* ---- the pure decisions taken by finish / transition / kill (characterised in Life/Policy.v) *)
Definition too_quickly (now ls startsecs : Z) : bool :=
  if now >? ls then now - ls <? startsecs * U else false.
Definition running_due (now ls startsecs : Z) : bool := now - ls >? startsecs * U.
Definition retry_due (c : pconf) (p : proc) (now : Z) : bool :=
  (backoff p <=? c_startretries c) && (now >? delay p).
Definition give_up_due (c : pconf) (p : proc) : bool := backoff p >? c_startretries c.
Definition kill_due (p : proc) (now : Z) : bool := delay p - now <=? 0.
Definition should_restart (c : pconf) (es : option Z) : bool :=
  match c_autorestart c with
  | ARNever => false
  | ARAlways => true
  | ARUnexpected => match es with Some e => negb (mem_z e (c_exitcodes c)) | None => true end
  end.
Definition autostart_due (c : pconf) (p : proc) : bool := (laststart p =? 0) && c_autostart c.
Definition kill_target (c : pconf) (s : pstate) (pid : Z) : Z :=
  if (if pstate_eqb s STOPPING then c_killasgroup c else c_stopasgroup c) then - pid else pid.

(* ---- Subprocess.give_up (397-402) *)
Definition give_up (i : nat) : M unit :=
  modp i (fun p => p_system (p_backoff (p_delay p 0) 0) true) ;;;
  move i 5 (fun s => pstate_eqb s BACKOFF) (fun p => p) FATAL true.

(* ---- Subprocess.kill (404-487); returns true when an error message is returned *)
Definition kill (i : nat) (sig : Z) : M bool :=
  w <- getw ;;
  p <- getp i ;;
  s <- gets i ;;
  if pstate_eqb s BACKOFF then
    (* `if self.state == BACKOFF: change_state(STOPPED)`: the guard plays the role of the assertion *)
    move i 0 (fun s => pstate_eqb s BACKOFF) (fun p => p) STOPPED true ;;; ret false
  else if pid p =? 0 then ret true
  else
    setp i (p_delay (p_killing p true) (now w + c_stopwaitsecs (cf i) * U)) ;;;
    move i 6 (fun s => match s with RUNNING | STARTING | STOPPING => true | _ => false end)
         (fun p => p) STOPPING true ;;;
    let target := kill_target (cf i) s (pid p) in
    r <- kill_mark i target sig ;;
    if r =? 2 then
      modp i (fun p => p_delay (p_killing p false) 0) ;;;
      ret true
    else ret false.

(* ---- Subprocess.stop (379-383) *)
Definition stop (i : nat) : M bool :=
  modp i (fun p => p_admin p true) ;;; kill i (c_stopsignal (cf i)).

(* ---- Subprocess.signal (489-534) *)
Definition signal (i : nat) (sig : Z) : M bool :=
  p <- getp i ;;
  if pid p =? 0 then ret true
  else
    assert_in i 7 (fun s => match s with RUNNING | STARTING | STOPPING => true | _ => false end) ;;;
    r <- kill_mark i (pid p) sig ;;
    if r =? 2 then ret true else ret false.

(* decode_wait_status: our kernel produces exit code c as c*256 and death by signal s as s (0 < s < 128) *)
Definition decode_es (sts : Z) : Z :=
  if (Z.land sts 127) =? 0 then Z.land (Z.shiftr sts 8) 255 else -1.

(* ---- Subprocess.finish (536-627), without the dispatcher/drain part *)
Definition finish (i : nat) (sts : Z) : M unit :=
  let es := decode_es sts in
  w <- getw ;;
  rollback_adjust i (now w) ;;;
  modp i (fun p => p_laststop p (now w)) ;;;
  p <- getp i ;;
  s <- gets i ;;
  let too_quickly := too_quickly (now w) (laststart p) (c_startsecs (cf i)) in
  let exit_expected := mem_z es (c_exitcodes (cf i)) in
  (if pstate_eqb s UNKNOWN then
     setp i (p_exitstatus (p_delay (p_killing p false) 0) (Some es))
   else if killing p then
     setp i (p_exitstatus (p_delay (p_killing p false) 0) (Some es)) ;;;
     move i 8 (fun s => pstate_eqb s STOPPING) (fun p => p) STOPPED true
   else if too_quickly then
     setp i (p_spawnerr (p_exitstatus p None) true) ;;;
     move i 9 (fun s => pstate_eqb s STARTING) (fun p => p) BACKOFF true
   else
     setp i (p_exitstatus (p_backoff (p_delay p 0) 0) (Some es)) ;;;
     (* `if self.state == STARTING: change_state(RUNNING)`: guard = assertion *)
     (if pstate_eqb s STARTING then move i 0 (fun s => pstate_eqb s STARTING) (fun p => p) RUNNING true else ret tt) ;;;
     (if exit_expected then move i 10 (fun s => pstate_eqb s RUNNING) (fun p => p) EXITED true
      else move i 10 (fun s => pstate_eqb s RUNNING) (fun p => p_spawnerr p true) EXITED false)) ;;;
  modp i (fun p => p_pid p 0).

(* ---- Subprocess.transition (656-718) *)
Definition transition (i : nat) : M unit :=
  w <- getw ;;
  state <- gets i ;;
  let c := cf i in
  rollback_adjust i (now w) ;;;
  (if mood w >? 0 then
     match state with
     | EXITED =>
       p <- getp i ;;
       if should_restart c (exitstatus p) then spawn i else ret tt
     | STOPPED =>
       p <- getp i ;;
       if autostart_due c p then spawn i else ret tt
     | BACKOFF =>
       p <- getp i ;;
       if retry_due c p (now w) then spawn i else ret tt
     | _ => ret tt
     end
   else ret tt) ;;;
  (if pstate_eqb state STARTING then
     p <- getp i ;;
     if running_due (now w) (laststart p) (c_startsecs c) then
       setp i (p_backoff (p_delay p 0) 0) ;;;
       move i 11 (fun s => pstate_eqb s STARTING) (fun p => p) RUNNING true
     else ret tt
   else ret tt) ;;;
  (if pstate_eqb state BACKOFF then
     p <- getp i ;;
     if give_up_due c p then give_up i else ret tt
   else if pstate_eqb state STOPPING then
     p <- getp i ;;
     if kill_due p (now w) then b <- kill i 9 ;; ret tt else ret tt
   else ret tt).

(* ---- Supervisor.reap (supervisord.py:285-300) *)
Definition lookup_hist (p : Z) (h : list (Z * nat)) : option nat :=
  match find (fun e => fst e =? p) h with Some e => Some (snd e) | None => None end.

Fixpoint reap (fuel : nat) : M unit :=
  match fuel with
  | O => ret tt
  | S f =>
    w <- getw ;;
    match zombies w with
    | [] => ret tt
    | (zp, sts) :: rest =>
      modw (fun w => set_kernel (live w) rest (nextpid w) w) ;;;
      emit (EWait zp sts) ;;;
      match lookup_hist zp (pidhist w) with
      | None => reap f
      | Some i =>
        finish i sts ;;;
        modw (fun w => set_pidhist (filter (fun e => negb (fst e =? zp)) (pidhist w)) w) ;;;
        reap f
      end
    end
  end.

(* ---- list helpers: stable sort of indices by a key (Python list.sort is stable) *)
Fixpoint insert_by (key : nat -> Z) (x : nat) (l : list nat) : list nat :=
  match l with
  | [] => [x]
  | y :: r => if key x <=? key y then x :: l else y :: insert_by key x r
  end.
Definition sort_by (key : nat -> Z) (l : list nat) : list nat :=
  fold_right (fun x acc => insert_by key x acc) [] l.
(* fold_right inserts later elements first, so placing x before elements with an equal key keeps the original order: the sort is stable *)

Definition gc (g : nat) : gconf := nth g gconfs (mkG 999 []).
Definition all_groups : list nat := seq 0 (length gconfs).
Definition sorted_groups : list nat := sort_by (fun g => g_priority (gc g)) all_groups.
Definition procs_by_priority (g : nat) : list nat := sort_by (fun i => c_priority (cf i)) (g_procs (gc g)).

Fixpoint mapM_ {A} (f : A -> M unit) (l : list A) : M unit :=
  match l with [] => ret tt | x :: r => f x ;;; mapM_ f r end.

(* ---- ProcessGroupBase.stop_all (process.py:813-828) *)
Definition stop_all (g : nat) : M unit :=
  mapM_ (fun i =>
           s <- gets i ;;
           match s with
           | RUNNING | STARTING => b <- stop i ;; ret tt
           | BACKOFF => give_up i
           | _ => ret tt
           end) (rev (procs_by_priority g)).

Definition unstopped (g : nat) (w : world) : bool :=
  existsb (fun i => negb (in_stopped_states (sts w i))) (g_procs (gc g)).

(* ---- handle_signal (supervisord.py:302-328) *)
Definition handle_signal : M unit :=
  w <- getw ;;
  match sigq w with
  | [] => ret tt
  | s :: r =>
    modw (set_sigq r) ;;;
    if (s =? 15) || (s =? 2) || (s =? 3) then modw (set_mood (-1))
    else if s =? 1 then (if mood w =? -1 then ret tt else modw (set_mood 0))
    else ret tt
  end.

(* ---- RPC layer (rpcinterface.py) ; fault codes from xmlrpc.Faults *)
Definition F_SHUTDOWN_STATE := 6.
Definition F_BAD_NAME := 10.
Definition F_BAD_SIGNAL := 11.
Definition F_NO_FILE := 20.
Definition F_NOT_EXECUTABLE := 21.
Definition F_FAILED := 30.
Definition F_ABNORMAL_TERMINATION := 40.
Definition F_SPAWN_ERROR := 50.
Definition F_ALREADY_STARTED := 60.
Definition F_NOT_RUNNING := 70.
Definition F_SUCCESS := 80.

Definition nprocs : nat := length pconfs.

(* result of one call: Done code (0 = True / SUCCESS) or Deferred *)
Inductive callres := CDone (code : Z) | CDefer.

Definition reap_all : M unit := reap 100.

Definition start_process (i : nat) (wait : bool) : M callres :=
  w <- getw ;;
  if mood w <? 1 then ret (CDone F_SHUTDOWN_STATE)
  else if negb (Nat.ltb i nprocs) then ret (CDone F_BAD_NAME)
  else
    match c_cmd (cf i) with
    | CmdNotFound => ret (CDone F_NO_FILE)
    | CmdNotExec => ret (CDone F_NOT_EXECUTABLE)
    | CmdOk =>
      s <- gets i ;;
      if in_running_states s then ret (CDone F_ALREADY_STARTED)
      else if pstate_eqb s UNKNOWN then ret (CDone F_FAILED)
      else
        spawn i ;;;
        reap_all ;;;
        p <- getp i ;;
        if spawnerr p then ret (CDone F_SPAWN_ERROR)
        else
          transition i ;;;
          s <- gets i ;;
          if wait && negb (pstate_eqb s RUNNING) then ret CDefer
          else ret (CDone 0)
    end.

Definition start_onwait (i : nat) : M (option Z) :=   (* None = NOT_DONE_YET *)
  p <- getp i ;;
  s <- gets i ;;
  if spawnerr p then ret (Some F_SPAWN_ERROR)
  else match s with
       | RUNNING => ret (Some 0)
       | STARTING => ret None
       | _ => ret (Some F_ABNORMAL_TERMINATION)
       end.

Definition stop_process (i : nat) (wait : bool) : M callres :=
  w <- getw ;;
  if mood w <? 1 then ret (CDone F_SHUTDOWN_STATE)
  else if negb (Nat.ltb i nprocs) then ret (CDone F_BAD_NAME)
  else
    s <- gets i ;;
    if negb (in_running_states s) then ret (CDone F_NOT_RUNNING)
    else
      err <- stop i ;;
      if err then ret (CDone F_FAILED)
      else
        reap_all ;;;
        s <- gets i ;;
        if wait && negb (in_stopped_states s) then ret CDefer
        else ret (CDone 0).

Definition stop_onwait (i : nat) : M (option Z) :=
  w <- getw ;;
  s <- gets i ;;
  (if pstate_eqb s STOPPING then rollback_adjust i (now w) else ret tt) ;;;   (* stop_report *)
  if in_stopped_states s then ret (Some 0) else ret None.

Definition signal_process (i : nat) (sig : Z) (sigok : bool) : M callres :=
  w <- getw ;;
  if mood w <? 1 then ret (CDone F_SHUTDOWN_STATE)
  else if negb (Nat.ltb i nprocs) then ret (CDone F_BAD_NAME)
  else if negb sigok then ret (CDone F_BAD_SIGNAL)
  else
    s <- gets i ;;
    if negb (in_signallable_states s) then ret (CDone F_NOT_RUNNING)
    else
      err <- signal i sig ;;
      if err then ret (CDone F_FAILED) else ret (CDone 0).

(* make_allfunc (rpcinterface.py:934-1000): one invocation of the closure *)
Definition call_one (k : dkind) (wait : bool) (i : nat) : M callres :=
  match k with DStart => start_process i wait | DStop => stop_process i wait end.
Definition poll_one (k : dkind) (i : nat) : M (option Z) :=
  match k with DStart => start_onwait i | DStop => stop_onwait i end.
Definition pred_one (k : dkind) (s : pstate) : bool :=
  match k with DStart => negb (in_running_states s) | DStop => in_running_states s end.

Fixpoint all_first (k : dkind) (wait : bool) (l : list nat) (cbs : list nat) (res : list (nat * Z))
  : M (list nat * list (nat * Z)) :=
  match l with
  | [] => ret (cbs, res)
  | i :: r =>
    s <- gets i ;;
    if pred_one k s then
      c <- call_one k wait i ;;
      match c with
      | CDone 0 => all_first k wait r cbs (res ++ [(i, F_SUCCESS)])
      | CDone code => all_first k wait r cbs (res ++ [(i, code)])
      | CDefer => all_first k wait r (cbs ++ [i]) res
      end
    else all_first k wait r cbs res
  end.

Fixpoint all_poll (k : dkind) (l : list nat) (cbs : list nat) (res : list (nat * Z))
  : M (list nat * list (nat * Z)) :=
  match l with
  | [] => ret (cbs, res)
  | i :: r =>
    v <- poll_one k i ;;
    match v with
    | None => all_poll k r (cbs ++ [i]) res
    | Some 0 => all_poll k r cbs (res ++ [(i, F_SUCCESS)])
    | Some code => all_poll k r cbs (res ++ [(i, code)])
    end
  end.

(* returns the updated deferred, or None when it answered *)
Definition poll_deferred (d : deferred) : M (option deferred) :=
  match d with
  | DOne req k i =>
    v <- poll_one k i ;;
    match v with
    | None => ret (Some d)
    | Some code => emit (EAns req code) ;;; ret None
    end
  | DAll req k wait todo cbs res =>
    st1 <- match todo with
           | Some l => all_first k wait l [] []
           | None => ret (cbs, res)
           end ;;
    let '(cbs1, res1) := st1 in
    match cbs1 with
    | [] => emit (EAnsAll req res1) ;;; ret None
    | _ =>
      st2 <- all_poll k cbs1 [] res1 ;;
      let '(cbs2, res2) := st2 in
      match cbs2 with
      | [] => emit (EAnsAll req res2) ;;; ret None
      | _ => ret (Some (DAll req k wait None cbs2 res2))
      end
    end
  end.

Fixpoint poll_pending (l : list deferred) (keep : list deferred) : M (list deferred) :=
  match l with
  | [] => ret keep
  | d :: r =>
    o <- poll_deferred d ;;
    match o with
    | None => poll_pending r keep
    | Some d' => poll_pending r (keep ++ [d'])
    end
  end.

(* all processes in priority order (rpcinterface._getAllProcesses, lexical=False) *)
Definition all_procs_sorted : list nat := flat_map procs_by_priority sorted_groups.

Inductive rpc :=
| RStart (i : nat) (wait : bool)
| RStop (i : nat) (wait : bool)
| RSignal (i : nat) (sig : Z) (sigok : bool)
| RStartGroup (g : nat) (wait : bool)
| RStopGroup (g : nat) (wait : bool)
| RStartAll (wait : bool)
| RStopAll (wait : bool)
| RShutdown
| RRestart.

Definition add_pending (d : deferred) : M unit := modw (fun w => set_pend (pend w ++ [d]) w).

(* a deferred answer is polled once immediately (asynchat push_with_producer -> initiate_send) *)
Definition defer_now (d : deferred) : M unit :=
  o <- poll_deferred d ;;
  match o with None => ret tt | Some d' => add_pending d' end.

Definition do_rpc (req : Z) (r : rpc) : M unit :=
  w <- getw ;;
  match r with
  | RStart i wait =>
    c <- start_process i wait ;;
    match c with CDone code => emit (EAns req code) | CDefer => defer_now (DOne req DStart i) end
  | RStop i wait =>
    c <- stop_process i wait ;;
    match c with CDone code => emit (EAns req code) | CDefer => defer_now (DOne req DStop i) end
  | RSignal i sig sigok =>
    c <- signal_process i sig sigok ;;
    match c with CDone code => emit (EAns req code) | CDefer => ret tt end
  | RStartGroup g wait =>
    if mood w <? 1 then emit (EAns req F_SHUTDOWN_STATE)
    else if negb (Nat.ltb g (length gconfs)) then emit (EAns req F_BAD_NAME)
    else defer_now (DAll req DStart wait (Some (procs_by_priority g)) [] [])
  | RStopGroup g wait =>
    if mood w <? 1 then emit (EAns req F_SHUTDOWN_STATE)
    else if negb (Nat.ltb g (length gconfs)) then emit (EAns req F_BAD_NAME)
    else defer_now (DAll req DStop wait (Some (procs_by_priority g)) [] [])
  | RStartAll wait =>
    if mood w <? 1 then emit (EAns req F_SHUTDOWN_STATE)
    else defer_now (DAll req DStart wait (Some all_procs_sorted) [] [])
  | RStopAll wait =>
    if mood w <? 1 then emit (EAns req F_SHUTDOWN_STATE)
    else defer_now (DAll req DStop wait (Some all_procs_sorted) [] [])
  | RShutdown =>
    if mood w <? 1 then emit (EAns req F_SHUTDOWN_STATE)
    else modw (set_mood (-1)) ;;; emit (EAns req 0)
  | RRestart =>
    if mood w <? 1 then emit (EAns req F_SHUTDOWN_STATE)
    else modw (set_mood 0) ;;; emit (EAns req 0)
  end.

(* ---- what the script can do at poll() *)
Inductive act :=
| AExit (k : nat) (code : Z)       (* the k-th live child (fork order, modulo) exits with this code *)
| ASigDie (k : nat) (sig : Z)      (* ... is killed from outside by this signal *)
| AUnknown (sts : Z)               (* a child supervisord does not know becomes a zombie *)
| ASignal (s : Z)                  (* supervisord receives a signal *)
| ARpc (req : Z) (r : rpc)
| APoll.                           (* the HTTP channel polls every pending deferred answer once *)

Definition child_dies (k : nat) (sts : Z) : M unit :=
  w <- getw ;;
  match live w with
  | [] => ret tt
  | _ =>
    let p := nth (Nat.modulo k (length (live w))) (live w) 0 in
    modw (fun w => set_kernel (remove_z p (live w)) (zombies w ++ [(p, sts)]) (nextpid w) w)
  end.

Definition do_act (a : act) : M unit :=
  match a with
  | AExit k code => child_dies k (Z.land code 255 * 256)
  | ASigDie k sig => child_dies k sig
  | AUnknown sts =>
    modw (fun w => set_kernel (live w) (zombies w ++ [(nextpid w, sts)]) (nextpid w + 1) w)
  | ASignal s =>
    modw (fun w => if mem_z s (sigq w) then w else set_sigq (sigq w ++ [s]) w)
  | ARpc req r => do_rpc req r
  | APoll =>
    w <- getw ;;
    modw (set_pend []) ;;;
    keep <- poll_pending (pend w) [] ;;
    modw (fun w => set_pend (keep ++ pend w) w)
  end.

(* ---- one iteration of runforever, cut at poll():
   [poll: clock, script actions] ; transition of every group ; reap ;
   handle_signal ; phase 2 ; then the head of the next iteration (shutdown
   test, phase 1, ExitNow) *)
Definition transition_group (g : nat) : M unit := mapM_ transition (g_procs (gc g)).

Definition any_unstopped (w : world) : bool := existsb (fun g => unstopped g w) all_groups.

Definition loop_head : M unit :=
  w <- getw ;;
  if mood w <? 1 then
    (if stopping w then ret tt
     else modw (set_stopping true sorted_groups) ;;; emit (ESup 2)) ;;;
    w <- getw ;;
    match rev (stop_groups w) with
    | [] => ret tt
    | g :: _ => stop_all g
    end ;;;
    w <- getw ;;
    if any_unstopped w then ret tt else modw set_exited
  else ret tt.

Definition phase2 : M unit :=
  w <- getw ;;
  if mood w <? 1 then
    match rev (stop_groups w) with
    | [] => ret tt
    | g :: r => if unstopped g w then ret tt else modw (fun w1 => set_stopping (stopping w1) (rev r) w1)
    end
  else ret tt.

Record passop := mkPass { p_now : Z; p_acts : list act; p_forkq : list Z; p_killq : list Z }.

Definition do_pass (o : passop) : M unit :=
  modw (set_pass (p_now o) (p_forkq o) (p_killq o)) ;;;
  mapM_ do_act (p_acts o) ;;;
  mapM_ transition_group sorted_groups ;;;
  reap_all ;;;
  handle_signal ;;;
  phase2 ;;;
  loop_head.

Definition world0 : world :=
  mkW (fun _ => STOPPED) (fun _ => proc0) [] [] 1000 [] 1 false [] 0 [] [] [] [] [ESup 1] false false.

Definition step (w : world) (o : passop) : world :=
  if crashed w || exited w then w else snd (do_pass o w).

Definition run (ops : list passop) : world := fold_left step ops world0.

(* boundary snapshot compared with the implementation at every poll() *)
Definition snapshot (w : world) : list (Z * Z) :=
  map (fun i => (pstate_code (sts w i), pid (procs w i))) (seq 0 nprocs).

End WithConfig.
