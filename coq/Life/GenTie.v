(* Ties between the lifecycle model and tables regenerated from the current
   source on every run (gen/c01_states.py -> C01/Gen_states.v).  A changed
   state code, state tuple, event_map entry, assertion or signal set makes one
   of these computed equalities fail, i.e. breaks the build of every property
   that depends on the model. *)
From Coq Require Import ZArith List Bool String Lia ZifyBool.
Import ListNotations.
Require Import SV.Life.Model SV.C01.Gen_states.
Open Scope Z_scope.
Open Scope string_scope.

Definition model_states : list (string * pstate) :=
  [("STOPPED", STOPPED); ("STARTING", STARTING); ("RUNNING", RUNNING); ("BACKOFF", BACKOFF);
   ("STOPPING", STOPPING); ("EXITED", EXITED); ("FATAL", FATAL); ("UNKNOWN", UNKNOWN)].

Lemma model_states_complete : forall s, In s (map snd model_states).
Proof. destruct s; cbn; auto 10. Qed.

Lemma state_codes_match :
  gen_process_states = map (fun ns => (fst ns, pstate_code (snd ns))) model_states.
Proof. reflexivity. Qed.

Definition mem_str (x : string) (l : list string) : bool := existsb (String.eqb x) l.

Lemma state_tuples_match :
  forallb (fun ns => Bool.eqb (in_running_states (snd ns)) (mem_str (fst ns) gen_running_states)
                  && Bool.eqb (in_stopped_states (snd ns)) (mem_str (fst ns) gen_stopped_states)
                  && Bool.eqb (in_signallable_states (snd ns)) (mem_str (fst ns) gen_signallable_states))
          model_states = true.
Proof. reflexivity. Qed.

(* every state has an event class (no change is silent) and it is the class named after the state *)
Definition expected_event (n : string) : string :=
  "ProcessState" ++ match n with
                    | "STOPPED" => "Stopped" | "STARTING" => "Starting" | "RUNNING" => "Running"
                    | "BACKOFF" => "Backoff" | "STOPPING" => "Stopping" | "EXITED" => "Exited"
                    | "FATAL" => "Fatal" | "UNKNOWN" => "Unknown" | _ => "?"
                    end ++ "Event".

Lemma event_map_total :
  forallb (fun ns => existsb (fun kv => String.eqb (fst kv) (fst ns) && String.eqb (snd kv) (expected_event (fst ns)))
                             gen_event_map) model_states = true
  /\ List.length gen_event_map = List.length model_states.
Proof. split; reflexivity. Qed.

(* the _assertInState calls of Subprocess, in source order, are the assertion sites 1..11 of the model
   (Model.spawn: 1-4, give_up: 5, kill: 6, signal: 7, finish: 8-10, transition: 11) *)
Definition model_asserts : list (string * list string) :=
  [("spawn", ["EXITED"; "FATAL"; "BACKOFF"; "STOPPED"]);
   ("spawn", ["STARTING"]); ("spawn", ["STARTING"]); ("spawn", ["STARTING"]);
   ("give_up", ["BACKOFF"]);
   ("kill", ["RUNNING"; "STARTING"; "STOPPING"]);
   ("signal", ["RUNNING"; "STARTING"; "STOPPING"]);
   ("finish", ["STOPPING"]); ("finish", ["STARTING"]); ("finish", ["RUNNING"]);
   ("transition", ["STARTING"])].

Lemma asserts_match : gen_asserts = model_asserts.
Proof. reflexivity. Qed.

Lemma supervisor_moods_match :
  gen_supervisor_states = [("FATAL", 2); ("RUNNING", 1); ("RESTARTING", 0); ("SHUTDOWN", -1)].
Proof. reflexivity. Qed.

Lemma shutdown_signals_match :
  forall s : Z, ((s =? 15) || (s =? 2) || (s =? 3))%Z = existsb (Z.eqb s) gen_shutdown_signals.
Proof. intros s. cbn. destruct (s =? 15)%Z eqn:A, (s =? 2)%Z eqn:B, (s =? 3)%Z eqn:C; cbn; try reflexivity; lia. Qed.
