(* C05, termination part: once a shutdown or restart request has been observed
   the main loop exits, provided every child dies on SIGKILL, the clock moves
   forward, and each pass finds at most 100 children to reap.

   Fairness of a continuation (fair / fair_pass, checked along the run):
     - the clock reading of each pass is positive and strictly above the
       previous one;
     - the kill oracle only answers 0 (delivered, the child dies) or 1
       (delivered, ignored unless SIGKILL): no EPERM, no forced ESRCH;
     - the script may let children exit or be killed from outside, create
       unknown zombies, deliver signals and send RPCs (all refused by then);
       only APoll (polling of deferred RPC answers) is excluded;
     - when the pass reaches `reap` there are at most 100 zombies (reap's own
       bound; with more, some would wait for the next pass).

   Main theorem (shutdown_terminates, shutdown_terminates_run): from every
   reachable boundary (LB, proved for every run by LB_run) with the mood below
   RUNNING, every fair continuation of at least `bound` passes ends exited,
   where `bound` depends on the configuration only:
     bound = sum over the groups g of
             (1 + sum over the processes i of g of (max 0 (stopwaitsecs i * U) + 3)).

   Proof: a measure mu(w) = sum over the groups still in stop_groups of
   (1 + sum of the costs of its processes), cost = 0 for a stopped process,
   1 + min(delay - now, max 0 S + 1) for a process in STOPPING, the cap
   max 0 S + 3 otherwise.  Each fair pass started at a boundary that has not
   exited strictly decreases mu (mu_decrease):
     - a process in STOPPING (pass_focus, stopping_progress) is followed through
       the pass: the transition phase either finds the deadline passed and
       sends SIGKILL, after which the pid is not live any more, or leaves a
       deadline that is not postponed (adjust_times never moves it later when
       the clock moves forward); the reap phase, which empties the zombie
       queue, then calls `finish` for it (STOPPED) if its child is dead; nothing
       after `reap` touches it;
     - stopped states are absorbing (Order.stopped_absorbing_step);
     - the last group of stop_groups consists of STOPPING / stopped processes
       (stop_all at every loop head, ALLS), and is removed by phase 2 once all
       of them are stopped (Order.pop_step);
     - with stop_groups empty nothing is unstopped, so the loop has exited.
   Frames: FR (an operation on process j leaves process i <> j alone) and BN
   (clock, mood, oracle fairness, pids known not to be live) are preserved by
   every operation of a shutdown pass; the operations on the process itself
   are followed by hand (kill9_stopping, transition_stopping, finish_stopping,
   kill_live). *)
From Coq Require Import ZArith List Bool Lia Arith ZifyBool.
Import ListNotations.
Require Import SV.Life.Model SV.Life.Inv SV.Life.ProcLemmas SV.Life.Trace SV.Life.Quiet
               SV.Life.Shutdown SV.Life.InvProofs SV.Life.InvRun SV.Life.Order.
Open Scope Z_scope.

Local Arguments Model.change_state : simpl never.

(* ---------- worlds that differ only where the per-process analysis does not look *)
Definition fair_q (q : list Z) : Prop := Forall (fun o => o = 0 \/ o = 1) q.

Record sub (w w' : world) : Prop := mkSub {
  s_sts : sts w' = sts w;
  s_procs : procs w' = procs w;
  s_now : now w' = now w;
  s_killq : killq w' = killq w;
  s_mood : mood w < 1 -> mood w' < 1;
  s_live : incl (live w') (live w) }.

Lemma sub_refl w : sub w w.
Proof. constructor; auto. apply incl_refl. Qed.
Lemma sub_trans a b c : sub a b -> sub b c -> sub a c.
Proof. intros [] []. constructor; try congruence; auto. eapply incl_tran; eassumption. Qed.

Definition mild {A} (m : Model.M A) : Prop := forall w, sub w (snd (m w)).
Definition respects2 (I : world -> Prop) : Prop := forall w w', sub w w' -> I w -> I w'.

Lemma mild_ret {A} (a : A) : mild (ret a).
Proof. intros w. apply sub_refl. Qed.
Lemma mild_bind {A B} (m : Model.M A) (k : A -> Model.M B) : mild m -> (forall a, mild (k a)) -> mild (bind m k).
Proof.
  intros Hm Hk w. unfold bind. specialize (Hm w). destruct (m w) as [[a|] w1]; cbn in *; [|exact Hm].
  eapply sub_trans; [exact Hm | apply Hk].
Qed.
Lemma mild_getw {B} (k : world -> Model.M B) : (forall w0, mild (k w0)) -> mild (bind getw k).
Proof. intros H w. unfold bind, getw. apply H. Qed.
Lemma mild_gets {B} i (k : pstate -> Model.M B) : (forall s, mild (k s)) -> mild (bind (gets i) k).
Proof. intros H w. unfold bind, gets. apply H. Qed.
Lemma mild_getp {B} i (k : proc -> Model.M B) : (forall p, mild (k p)) -> mild (bind (getp i) k).
Proof. intros H w. unfold bind, getp. apply H. Qed.
Lemma mild_modw (g : world -> world) : (forall w, sub w (g w)) -> mild (modw g).
Proof. intros H w. apply H. Qed.
Lemma mild_emit e : mild (emit e).
Proof. intros w. constructor; cbn; auto. apply incl_refl. Qed.
Lemma mild_crash {A} site : mild (@crash A site).
Proof. intros w. constructor; cbn; auto. apply incl_refl. Qed.
Lemma mild_mapM {A} (f : A -> Model.M unit) l : (forall x, mild (f x)) -> mild (mapM_ f l).
Proof.
  intros H. induction l as [|x l IH]; cbn [mapM_]; [apply mild_ret | apply mild_bind; [apply H | intros _; exact IH]].
Qed.
Lemma inv_mild {A} (I : world -> Prop) (m : Model.M A) : respects2 I -> mild m -> inv I m.
Proof. intros HR HC w Hw. specialize (HC w). destruct (m w) as [[a|] w1]; [|exact Logic.I]. exact (HR _ _ HC Hw). Qed.

Lemma incl_remove_z p l : incl (remove_z p l) l.
Proof. intros x Hx. unfold remove_z in Hx. apply filter_In in Hx. tauto. Qed.

Ltac sub_prim :=
  let w := fresh "w" in
  intros w; repeat match goal with |- context [if ?c then _ else _] => destruct c end;
  first [ apply sub_refl
        | constructor; cbn; auto; first [ apply incl_refl | apply incl_remove_z | lia ] ].

Ltac mtac :=
  repeat match goal with
    | |- mild (ret _) => apply mild_ret
    | |- mild (bind getw _) => apply mild_getw; intros ?w0
    | |- mild (bind (gets _) _) => apply mild_gets; intros ?s
    | |- mild (bind (getp _) _) => apply mild_getp; intros ?p
    | |- mild (assert_in _ _ _) => unfold assert_in
    | |- mild (modw _) => apply mild_modw; sub_prim
    | |- mild (emit _) => apply mild_emit
    | |- mild (crash _) => apply mild_crash
    | |- mild (mapM_ _ _) => apply mild_mapM; intros
    | |- mild (if ?c then _ else _) => destruct c
    | |- mild (match ?x with _ => _ end) => destruct x
    | |- mild (bind _ _) => apply mild_bind; [ | intros ? ]
    end.

Lemma mild_child_dies k st : mild (child_dies k st).
Proof. unfold child_dies. mtac. Qed.
Lemma mild_handle_signal : mild handle_signal.
Proof. unfold handle_signal. mtac. Qed.
Lemma mild_assert i site ok : mild (assert_in i site ok).
Proof. mtac. Qed.

Lemma inv_and {A} (I J : world -> Prop) (m : Model.M A) : inv I m -> inv J m -> inv (fun w => I w /\ J w) m.
Proof.
  intros HI HJ w [H1 H2]. specialize (HI w H1). specialize (HJ w H2). destruct (m w) as [[a|] w1]; auto.
Qed.

Definition obsSP (w : world) := (sts w, procs w).
Definition obsBN (w : world) := (now w, mood w, killq w, live w).

Section WithConfig.
Variable U : Z.
Variable pconfs : list pconf.
Variable gconfs : list gconf.

Notation cf := (Model.cf pconfs).
Notation gc := (Model.gc gconfs).
Notation sorted_groups := (Model.sorted_groups gconfs).
Notation step := (Model.step U pconfs gconfs).
Notation run := (Model.run U pconfs gconfs).

(* ---------- family 1: what an operation on process j leaves alone of process i <> j *)
Definition FR (i : nat) (P : pstate -> proc -> Prop) (w : world) : Prop := P (sts w i) (procs w i).

Lemma FR_quiet {A} i P (m : Model.M A) : quiet obsSP m -> inv (FR i P) m.
Proof.
  intros Hq w Hw. specialize (Hq w). destruct (m w) as [[a|] w1]; [|exact Logic.I]. cbn in Hq.
  unfold obsSP in Hq. inversion Hq as [[E1 E2]]. unfold FR. rewrite E1, E2. exact Hw.
Qed.
Lemma FR_setp i P j p : j <> i -> inv (FR i P) (setp j p).
Proof. intros Hj w Hw. cbn. unfold FR in *. cbn. rewrite upd_other by congruence. exact Hw. Qed.
Lemma FR_modp i P j f : j <> i -> inv (FR i P) (modp j f).
Proof. intros Hj w Hw. unfold modp, bind, getp. apply (FR_setp i P j _ Hj w Hw). Qed.
Lemma FR_cs i P j new e : j <> i -> inv (FR i P) (Model.change_state U j new e).
Proof.
  intros Hj w Hw. unfold Model.change_state, bind, gets, getw, getp, setp, modw, emit, ret.
  destruct (pstate_eqb new (sts w j)); [exact Hw|]. cbn. unfold FR in *. cbn.
  rewrite !upd_other by congruence. exact Hw.
Qed.
Lemma FR_move i P j site ok f new e : j <> i -> inv (FR i P) (Model.move U j site ok f new e).
Proof.
  intros Hj. unfold Model.move. apply inv_bind; [apply FR_quiet; qtac|]. intros _.
  apply inv_bind; [apply FR_modp; exact Hj | intros _; apply FR_cs; exact Hj].
Qed.

Create HintDb frdb.

Ltac ftac :=
  repeat match goal with
    | |- inv _ (ret _) => apply inv_ret
    | |- inv _ (bind getw _) => apply inv_getw; intros ?w0 _
    | |- inv _ (bind (gets _) _) => apply inv_gets; intros ?s
    | |- inv _ (bind (getp _) _) => apply inv_getp; intros ?p
    | |- inv _ (crash _) => apply inv_crash
    | |- inv (FR _ _) (setp _ _) => apply FR_setp; assumption
    | |- inv (FR _ _) (modp _ _) => apply FR_modp; assumption
    | |- inv (FR _ _) (Model.change_state _ _ _ _) => apply FR_cs; assumption
    | |- inv (FR _ _) (Model.move _ _ _ _ _ _ _) => apply FR_move; assumption
    | |- inv (FR _ _) (Model.kill_mark _ _ _ _) => unfold Model.kill_mark
    | |- inv (FR _ _) (Model.rollback_adjust _ _ _ _) => unfold Model.rollback_adjust
    | |- inv (FR _ _) (emit _) => apply FR_quiet; qtac
    | |- inv (FR _ _) (modw _) => apply FR_quiet; qtac
    | |- inv (FR _ _) (k_kill _ _) => apply FR_quiet; qtac
    | |- inv (FR _ _) (assert_in _ _ _) => apply FR_quiet; qtac
    | |- inv _ (mapM_ _ _) => apply inv_mapM; intros
    | |- inv _ _ => solve [eauto with frdb]
    | |- inv _ (if ?c then _ else _) => destruct c
    | |- inv _ (match ?x with _ => _ end) => destruct x
    | |- inv _ (bind _ _) => apply inv_bind; [ | intros ? ]
    end.

Lemma F_spawn i P j : j <> i -> inv (FR i P) (Model.spawn U pconfs j).
Proof. intros Hj. unfold Model.spawn. ftac. Qed.
Lemma F_give_up i P j : j <> i -> inv (FR i P) (Model.give_up U j).
Proof. intros Hj. unfold Model.give_up. ftac. Qed.
Lemma F_kill i P j sig : j <> i -> inv (FR i P) (Model.kill U pconfs j sig).
Proof. intros Hj. unfold Model.kill. ftac. Qed.
Lemma F_stop i P j : j <> i -> inv (FR i P) (Model.stop U pconfs j).
Proof. intros Hj. pose proof (F_kill i P j) as Hk. unfold Model.stop. ftac. Qed.
Lemma F_finish i P j st : j <> i -> inv (FR i P) (Model.finish U pconfs j st).
Proof. intros Hj. unfold Model.finish. ftac. Qed.
Lemma F_transition i P j : j <> i -> inv (FR i P) (Model.transition U pconfs j).
Proof.
  intros Hj. pose proof (F_spawn i P j Hj) as H1. pose proof (F_give_up i P j Hj) as H2.
  pose proof (F_kill i P j) as H3. unfold Model.transition. ftac.
Qed.

(* ---------- family 2: the clock reading, the mood, the fairness of the kill oracle, and a set X
   of pids that are no longer live, through every operation of a shutdown pass *)
Definition BN (t : Z) (X : Z -> Prop) (w : world) : Prop :=
  now w = t /\ mood w < 1 /\ fair_q (killq w) /\ forall x, X x -> ~ In x (live w).

Lemma BN_mood t X w : BN t X w -> mood w < 1.
Proof. intros (_ & H & _). exact H. Qed.
Lemma BN_resp t X : respects2 (BN t X).
Proof.
  intros w w' [] (H1 & H2 & H3 & H4). repeat split; try congruence; auto.
  intros x Hx Hin. apply (H4 x Hx). apply s_live0. exact Hin.
Qed.
Lemma BN_quiet {A} t X (m : Model.M A) : quiet obsBN m -> inv (BN t X) m.
Proof.
  intros Hq w Hw. specialize (Hq w). destruct (m w) as [[a|] w1]; [|exact Logic.I]. cbn in Hq.
  unfold obsBN in Hq. inversion Hq as [[E1 E2 E3 E4]]. unfold BN. rewrite E1, E2, E3, E4. exact Hw.
Qed.
Lemma BN_set_mood t X m : m < 1 -> inv (BN t X) (modw (set_mood m)).
Proof. intros Hm w (H1 & H2 & H3 & H4). cbn. repeat split; assumption. Qed.

Lemma fair_q_pop q : fair_q q -> fair_q (snd (pop q 0)) /\ (fst (pop q 0) = 0 \/ fst (pop q 0) = 1).
Proof. intros H. destruct q as [|o q]; cbn; [split; [constructor | auto]|]. inversion H; subst. auto. Qed.

Lemma BN_kkill t X target sig : inv (BN t X) (k_kill target sig).
Proof.
  intros w (H1 & H2 & H3 & H4). unfold k_kill, bind, getw, modw, emit, ret.
  destruct (fair_q_pop _ H3) as [Hq _]. destruct (pop (killq w) 0) as [o kq]. cbn [snd] in Hq. cbn -[mem_z].
  assert (Hsame : forall w', now w' = now w -> mood w' = mood w -> killq w' = kq -> incl (live w') (live w) -> BN t X w').
  { intros w' E1 E2 E3 E4. repeat split; try congruence. intros x Hx Hin. apply (H4 x Hx). apply E4. exact Hin. }
  repeat (match goal with |- context [if ?c then _ else _] => destruct c end; cbn -[mem_z]);
    apply Hsame; try reflexivity; first [apply incl_refl | apply incl_remove_z].
Qed.

Create HintDb bndb.
Hint Resolve BN_resp : bndb.

Ltac bquiet := apply BN_quiet; solve [qtac].
Ltac btac :=
  repeat match goal with
    | |- inv _ (ret _) => apply inv_ret
    | |- inv _ (bind getw _) => apply inv_getw; intros ?w0 ?Hw0
    | |- inv _ (bind (gets _) _) => apply inv_gets; intros ?s
    | |- inv _ (bind (getp _) _) => apply inv_getp; intros ?p
    | |- inv _ (crash _) => apply inv_crash
    | |- inv (BN _ _) (k_kill _ _) => apply BN_kkill
    | |- inv (BN _ _) (modw (set_mood _)) => apply BN_set_mood; lia
    | |- inv (BN _ _) (child_dies _ _) => apply inv_mild; [apply BN_resp | apply mild_child_dies]
    | |- inv (BN _ _) (setp _ _) => bquiet
    | |- inv (BN _ _) (modp _ _) => bquiet
    | |- inv (BN _ _) (Model.change_state _ _ _ _) => bquiet
    | |- inv (BN _ _) (Model.move _ _ _ _ _ _ _) => bquiet
    | |- inv (BN _ _) (Model.rollback_adjust _ _ _ _) => unfold Model.rollback_adjust; bquiet
    | |- inv (BN _ _) (Model.kill_mark _ _ _ _) => unfold Model.kill_mark
    | |- inv (BN _ _) (emit _) => bquiet
    | |- inv (BN _ _) (assert_in _ _ _) => bquiet
    | |- inv (BN _ _) (modw _) => bquiet
    | |- inv _ (mapM_ _ _) => apply inv_mapM; intros
    | Hm : BN _ _ ?w0 |- inv _ (if mood ?w0 >? 0 then _ else _) =>
        replace (mood w0 >? 0) with false by (pose proof (BN_mood _ _ _ Hm); lia)
    | Hm : BN _ _ ?w0 |- inv _ (if mood ?w0 <? 1 then _ else _) =>
        replace (mood w0 <? 1) with true by (pose proof (BN_mood _ _ _ Hm); lia)
    | |- inv _ _ => solve [eauto with bndb]
    | |- inv _ (if ?c then _ else _) => destruct c
    | |- inv _ (match ?x with _ => _ end) => destruct x
    | |- inv _ (bind _ _) => apply inv_bind; [ | intros ? ]
    end.

Lemma N_give_up t X i : inv (BN t X) (Model.give_up U i).
Proof. unfold Model.give_up. btac. Qed.
Lemma N_kill t X i sig : inv (BN t X) (Model.kill U pconfs i sig).
Proof. unfold Model.kill. btac. Qed.
Hint Resolve N_give_up N_kill : bndb.
Lemma N_stop t X i : inv (BN t X) (Model.stop U pconfs i).
Proof. unfold Model.stop. btac. Qed.
Lemma N_finish t X i st : inv (BN t X) (Model.finish U pconfs i st).
Proof. unfold Model.finish. btac. Qed.
Hint Resolve N_stop N_finish : bndb.
Lemma N_transition t X i : inv (BN t X) (Model.transition U pconfs i).
Proof. unfold Model.transition. btac. Qed.
Hint Resolve N_transition : bndb.
Lemma N_reap t X fuel : inv (BN t X) (Model.reap U pconfs fuel).
Proof. induction fuel as [|f IH]; cbn [Model.reap]; btac. Qed.
Lemma N_stop_all t X g : inv (BN t X) (Model.stop_all U pconfs gconfs g).
Proof. unfold Model.stop_all. btac. Qed.
Lemma N_handle_signal t X : inv (BN t X) handle_signal.
Proof. unfold handle_signal. btac. Qed.
Lemma N_phase2 t X : inv (BN t X) (Model.phase2 gconfs).
Proof. unfold Model.phase2. btac. Qed.
Lemma N_loop_head t X : inv (BN t X) (Model.loop_head U pconfs gconfs).
Proof. pose proof (N_stop_all t X) as Hs. unfold Model.loop_head. btac. Qed.

(* ---------- the operations on the process i itself *)
Lemma tri_and {A} (P : world -> Prop) (m : Model.M A) (Q1 Q2 : A -> world -> Prop) :
  tri P m Q1 -> tri P m Q2 -> tri P m (fun a w => Q1 a w /\ Q2 a w).
Proof. intros H1 H2 w Hw. specialize (H1 w Hw). specialize (H2 w Hw). destruct (m w) as [[a|] w1]; auto. Qed.
Lemma tri_weak {A} (P P' : world -> Prop) (m : Model.M A) Q : tri P' m Q -> (forall w, P w -> P' w) -> tri P m Q.
Proof. intros H HP. eapply tri_conseq; [exact H | exact HP | auto]. Qed.
Lemma tri_post {A} (P : world -> Prop) (m : Model.M A) (Q Q' : A -> world -> Prop) :
  tri P m Q' -> (forall a w, Q' a w -> Q a w) -> tri P m Q.
Proof. intros H HQ. eapply tri_conseq; [exact H | auto | exact HQ]. Qed.
Lemma tri_seq {A B} (P R : world -> Prop) (m : Model.M A) (k : A -> Model.M B) Q :
  tri P m (fun _ => R) -> (forall a, tri R (k a) Q) -> tri P (bind m k) Q.
Proof. intros H1 H2. eapply tri_bind; [exact H1 | exact H2]. Qed.
Lemma tri_getp_eq {B} (P : world -> Prop) i (k : proc -> Model.M B) Q :
  (forall p, tri (fun w => P w /\ procs w i = p) (k p) Q) -> tri P (bind (getp i) k) Q.
Proof. apply tri_getp. Qed.

Definition S_ (i : nat) : Z := c_stopwaitsecs (cf i) * U.
Definition P_K (x : Z) (D : Z -> Prop) (s : pstate) (p : proc) : Prop :=
  s = STOPPING /\ pid p = x /\ killing p = true /\ D (delay p).
Definition adjd (t S v : Z) : Z := if (v >? 0) && (t <? v - S) then t + S else v.

Lemma adj_stopping i t p :
  let p' := adjust_times U STOPPING (cf i) t p in
  pid p' = pid p /\ killing p' = killing p /\ delay p' = adjd t (S_ i) (delay p).
Proof.
  cbv zeta. unfold adjust_times, adjd, S_.
  destruct ((delay p >? 0) && (t <? delay p - c_stopwaitsecs (cf i) * U)); autorewrite with procdb; auto.
Qed.
Lemma adj_killing s c t p : killing (adjust_times U s c t p) = killing p.
Proof. destruct (adjust_shape U s c t p) as (d & ls & E & _). rewrite E. reflexivity. Qed.

(* a setp / modp on i itself, when the new record is known to be fine *)
Lemma FR_setp_i i (P P' : pstate -> proc -> Prop) p' :
  (forall s p, P s p -> P' s p') -> tri (FR i P) (setp i p') (fun _ => FR i P').
Proof. intros H w Hw. cbn. unfold FR in *. cbn. rewrite upd_same. eapply H. exact Hw. Qed.
Lemma FR_modp_i i (P P' : pstate -> proc -> Prop) f :
  (forall s p, P s p -> P' s (f p)) -> tri (FR i P) (modp i f) (fun _ => FR i P').
Proof. intros H w Hw. unfold modp, bind, getp. cbn. unfold FR in *. cbn. rewrite upd_same. apply H. exact Hw. Qed.

(* rollback_adjust on a process in STOPPING *)
Lemma rollback_stopping i t x (D D' : Z -> Prop) :
  (forall v, D v -> D' (adjd t (S_ i) v)) ->
  tri (FR i (P_K x D)) (Model.rollback_adjust U pconfs i t) (fun _ => FR i (P_K x D')).
Proof.
  intros HD w Hw. unfold Model.rollback_adjust, bind, getp, gets, setp, modw. cbn.
  unfold FR in *. cbn. rewrite upd_same. destruct Hw as (Hs & Hp & Hk & Hd). rewrite Hs.
  destruct (adj_stopping i t (procs w i)) as (E1 & E2 & E3).
  repeat split; try congruence. rewrite E3. apply HD. exact Hd.
Qed.

(* move to the state the process is already in: nothing happens *)
Lemma move_noop i (P : pstate -> proc -> Prop) site ok new e :
  ok new = true -> (forall s p, P s p -> s = new) ->
  inv (FR i P) (Model.move U i site ok (fun p => p) new e).
Proof.
  intros Hok HP w Hw. unfold Model.move, assert_in, modp, bind, gets, getp, setp, modw, ret. cbn.
  pose proof (HP _ _ Hw) as Es. rewrite Es, Hok. cbn.
  unfold Model.change_state, bind, gets, ret. cbn. rewrite Es.
  replace (pstate_eqb new new) with true by (symmetry; apply pstate_eqb_eq; reflexivity).
  unfold FR in *. cbn. rewrite upd_same. exact Hw.
Qed.

(* a move that is allowed: the state becomes the new one *)
Lemma move_to i (P : pstate -> proc -> Prop) site ok f new e :
  (forall s p, P s p -> ok s = true) ->
  tri (FR i P) (Model.move U i site ok f new e) (fun _ => FR i (fun s _ => s = new)).
Proof.
  intros HP w Hw. unfold Model.move, assert_in, modp, bind, gets, getp, setp, modw, ret. cbn.
  rewrite (HP _ _ Hw). cbn.
  match goal with |- match Model.change_state U i new e ?w1 with _ => _ end =>
    destruct (cs_cases U i new e w1) as [[Es ->] | [_ (w' & x & -> & _ & Es & _)]] end.
  - exact Es.
  - unfold FR. rewrite Es. apply upd_same.
Qed.

(* SIGKILL with a fair oracle: the target is not live afterwards, and the call reports no error *)
Lemma kkill9 target :
  tri (fun w => fair_q (killq w)) (k_kill target 9)
      (fun r w => (r = 0 \/ r = 1) /\ ~ In (Z.abs target) (live w)).
Proof.
  intros w Hq. unfold k_kill, bind, getw, modw, emit, ret.
  destruct (fair_q_pop _ Hq) as [_ Ho]. destruct (pop (killq w) 0) as [o kq]. cbn [fst] in Ho. cbn -[mem_z].
  replace (o =? 2) with false by lia. replace (o =? 3) with false by lia. cbn -[mem_z].
  destruct (mem_z (Z.abs target) (live w)) eqn:El; cbn -[mem_z].
  - rewrite andb_false_r. cbn. split; [auto|]. intros Hin. apply remove_z_in in Hin. destruct Hin as [_ Hne]. congruence.
  - assert (Hn : ~ In (Z.abs target) (live w)).
    { intros Hin. assert (mem_z (Z.abs target) (live w) = true); [|congruence].
      apply existsb_exists. exists (Z.abs target). split; [exact Hin | apply Z.eqb_refl]. }
    destruct (existsb _ (zombies w)); cbn; auto.
Qed.

Lemma tri_pure {A} (P : world -> Prop) (F : Prop) (m : Model.M A) Q :
  (forall w, P w -> F) -> (F -> tri P m Q) -> tri P m Q.
Proof. intros H1 H2 w Hw. exact (H2 (H1 w Hw) w Hw). Qed.

Definition fairw (w : world) : Prop := fair_q (killq w).
Lemma fairw_quiet {A} (m : Model.M A) : quiet obsBN m -> inv fairw m.
Proof.
  intros Hq w Hw. specialize (Hq w). destruct (m w) as [[a|] w1]; [|exact Logic.I]. cbn in Hq.
  unfold obsBN in Hq. inversion Hq as [[E1 E2 E3 E4]]. unfold fairw. rewrite E3. exact Hw.
Qed.
Lemma J_lift {A} i (P P' : pstate -> proc -> Prop) (m : Model.M A) :
  quiet obsBN m -> tri (FR i P) m (fun _ => FR i P') ->
  tri (fun w => fairw w /\ FR i P w) m (fun _ w => fairw w /\ FR i P' w).
Proof.
  intros Hq H. apply tri_and.
  - eapply tri_weak; [apply (fairw_quiet _ Hq) | intros w [Hw _]; exact Hw].
  - eapply tri_weak; [exact H | intros w [_ Hw]; exact Hw].
Qed.

Definition anyD : Z -> Prop := fun _ => True.

Lemma kill9_stopping i x (D : Z -> Prop) :
  1 <= x ->
  tri (fun w => fairw w /\ FR i (P_K x D) w) (Model.kill U pconfs i 9)
      (fun _ w => FR i (P_K x anyD) w /\ ~ In x (live w)).
Proof.
  intros Hx. unfold Model.kill. apply tri_getw_any. intros w0 _. apply tri_getp_eq. intros p.
  apply (tri_gets_known _ i STOPPING); [intros w [[_ (H & _)] _]; exact H|]. cbn [pstate_eqb]. cbv iota.
  apply (tri_pure _ (pid p = x /\ killing p = true)).
  { intros w [[_ (_ & H1 & H2 & _)] E]. rewrite <- E. auto. }
  intros [Hp Hk]. replace (pid p =? 0) with false by lia.
  apply (tri_seq _ (fun w => fairw w /\ FR i (P_K x anyD) w)).
  { eapply tri_weak; [apply (J_lift i (P_K x D) (P_K x anyD)); [qtac|] | intros w [H _]; exact H].
    apply FR_setp_i. intros s q (H1 & _). repeat split; autorewrite with procdb; auto. }
  intros _. apply (tri_seq _ (fun w => fairw w /\ FR i (P_K x anyD) w)).
  { apply (J_lift i (P_K x anyD) (P_K x anyD)); [unfold Model.move; qtac|].
    apply move_noop; [reflexivity | intros s q (H & _); exact H]. }
  intros _. cbv zeta. unfold Model.kill_mark.
  assert (Habs : Z.abs (kill_target (cf i) STOPPING (pid p)) = x).
  { unfold kill_target. cbn [pstate_eqb]. destruct (c_killasgroup (cf i)); lia. }
  eapply tri_bind.
  - eapply tri_bind.
    + apply tri_and; [eapply tri_weak; [apply kkill9 | intros w [H _]; exact H]|].
      eapply tri_weak; [apply (FR_quiet i (P_K x anyD)); qtac | intros w [_ H]; exact H].
    + intros r. cbv beta. apply (tri_pure _ (r = 0 \/ r = 1)); [intros w [[H _] _]; exact H|]. intros Hr.
      replace (r =? 2) with false by lia. apply tri_ret. intros w H. exact (conj Hr H).
  - intros r. cbv beta. apply (tri_pure _ (r = 0 \/ r = 1)); [intros w [H _]; exact H|]. intros Hr.
    replace (r =? 2) with false by lia. apply tri_ret. intros w [_ [[_ Hn] Hf]]. rewrite Habs in Hn. auto.
Qed.

(* transition of a process in STOPPING during a shutdown pass at time t *)
Lemma transition_stopping i x t X (D D' : Z -> Prop) :
  1 <= x ->
  (forall v, D v -> 0 < adjd t (S_ i) v - t -> D' (adjd t (S_ i) v)) ->
  tri (fun w => BN t X w /\ FR i (P_K x D) w) (Model.transition U pconfs i)
      (fun _ w => FR i (P_K x D') w \/ (FR i (P_K x anyD) w /\ ~ In x (live w))).
Proof.
  intros Hx Hstep. unfold Model.transition. apply tri_getw_any. intros w0 [(Hn & Hm & _) _].
  apply (tri_gets_known _ i STOPPING); [intros w [_ (H & _)]; exact H|]. cbv zeta.
  replace (mood w0 >? 0) with false by lia. cbn [pstate_eqb]. cbv iota. rewrite Hn.
  set (Dadj := fun v => exists v0, D v0 /\ v = adjd t (S_ i) v0).
  apply (tri_seq _ (fun w => fairw w /\ FR i (P_K x Dadj) w)).
  { eapply tri_weak; [apply (J_lift i (P_K x D) (P_K x Dadj)); [unfold Model.rollback_adjust; qtac|] | intros w [(_ & _ & H & _) H']; exact (conj H H')].
    apply rollback_stopping. intros v Hv. exists v. auto. }
  intros _. apply (tri_seq _ (fun w => fairw w /\ FR i (P_K x Dadj) w)); [apply tri_ret; auto|].
  intros _. apply (tri_seq _ (fun w => fairw w /\ FR i (P_K x Dadj) w)); [apply tri_ret; auto|].
  intros _. apply tri_getp_eq. intros p.
  apply (tri_pure _ (Dadj (delay p))); [intros w [[_ (_ & _ & _ & H)] E]; rewrite <- E; exact H|].
  intros (v0 & Hv0 & Ed). unfold kill_due. destruct (delay p - t <=? 0) eqn:Edue.
  - eapply tri_bind; [eapply tri_weak; [apply (kill9_stopping i x Dadj Hx) | intros w [H _]; exact H]|].
    intros b. apply tri_ret. intros w H. right. exact H.
  - apply tri_ret. intros w [[_ (H1 & H2 & H3 & _)] E]. left. unfold FR. rewrite E.
    rewrite E in H2, H3. repeat split; auto. rewrite Ed. apply Hstep; [exact Hv0 | lia].
Qed.

(* finish of a process in STOPPING: STOPPED *)
Lemma finish_stopping i x st :
  tri (FR i (P_K x anyD)) (Model.finish U pconfs i st) (fun _ => FR i (fun s _ => s = STOPPED)).
Proof.
  unfold Model.finish. cbv zeta. apply tri_getw_any. intros w0 _.
  set (PS := fun (s : pstate) (p : proc) => s = STOPPING /\ killing p = true).
  apply (tri_seq _ (FR i PS)).
  { intros w Hw. unfold Model.rollback_adjust, bind, getp, gets, setp, modw. cbn. unfold FR in *. cbn.
    rewrite upd_same. destruct Hw as (H1 & _ & H3 & _). split; [exact H1 | rewrite adj_killing; exact H3]. }
  intros _. apply (tri_seq _ (FR i PS)).
  { apply FR_modp_i. intros s p [H1 H2]. split; [exact H1 | autorewrite with procdb; exact H2]. }
  intros _. apply tri_getp_eq. intros p. apply (tri_gets_known _ i STOPPING); [intros w [[H _] _]; exact H|].
  cbn [pstate_eqb]. cbv iota.
  apply (tri_pure _ (killing p = true)); [intros w [[_ H] E]; rewrite <- E; exact H|]. intros ->.
  cbv iota.
  set (PSs := fun (s : pstate) (_ : proc) => s = STOPPING).
  apply (tri_seq _ (FR i (fun s _ => s = STOPPED))).
  - apply (tri_seq _ (FR i PSs)).
    { eapply tri_weak; [apply (FR_setp_i i PS PSs) | intros w [H _]; exact H]. intros s q [H1 _]. exact H1. }
    intros _. apply move_to. intros s q ->. reflexivity.
  - intros _. apply FR_modp_i. auto.
Qed.

Lemma mapM_reach {A} (W W' : world -> Prop) (f : A -> Model.M unit) l :
  (forall a, inv W (f a)) -> (forall a, inv W' (f a)) ->
  (exists a, In a l /\ tri W (f a) (fun _ => W')) -> tri W (mapM_ f l) (fun _ => W').
Proof.
  intros H1 H2. induction l as [|b l IH]; intros (a & Hin & Ha); [destruct Hin|]. cbn [mapM_].
  destruct Hin as [<-|Hin].
  - eapply tri_bind; [exact Ha | intros ?u; cbv beta; apply inv_mapM; exact H2].
  - eapply tri_bind; [apply H1 | intros ?u; cbv beta; apply IH; eauto].
Qed.

(* ---------- the transition phase of a fair shutdown pass, seen from a process i in STOPPING
   with pid x, whose deadline was d at the boundary *)
Section Focus.
Variables (i : nat) (x t d : Z).
Hypothesis Hx : 1 <= x.
Hypothesis Ht : 0 < t.

Definition nox : Z -> Prop := fun _ => False.
Definition DCd (v : Z) : Prop := 0 < v - t <= S_ i /\ v <= d.
Definition DAC (v : Z) : Prop := v = d \/ DCd v.
Definition Wk (D : Z -> Prop) (w : world) : Prop :=
  (BN t nox w /\ FR i (P_K x D) w) \/ (BN t (eq x) w /\ FR i (P_K x anyD) w).

Lemma Wk_mono (D D' : Z -> Prop) w : (forall v, D v -> D' v) -> Wk D w -> Wk D' w.
Proof.
  intros H [[H1 (a & b & c & e)] | H2]; [left; split; [exact H1 | repeat split; auto] | right; exact H2].
Qed.

Lemma Wk_other D j : j <> i -> inv (Wk D) (Model.transition U pconfs j).
Proof.
  intros Hj. apply inv_or; apply inv_and; first [apply N_transition | apply F_transition; exact Hj].
Qed.

Lemma adj_step v : DAC v -> 0 < adjd t (S_ i) v - t -> DCd (adjd t (S_ i) v).
Proof.
  unfold DAC, DCd, adjd. intros H. destruct ((v >? 0) && (t <? v - S_ i)) eqn:E; intros H1; lia.
Qed.

Lemma Wk_self : tri (Wk DAC) (Model.transition U pconfs i) (fun _ => Wk DCd).
Proof.
  intros w [[H1 H2] | [H1 H2]].
  - pose proof (N_transition t nox i w H1) as HN.
    pose proof (transition_stopping i x t nox DAC DCd Hx adj_step w (conj H1 H2)) as HT.
    destruct (Model.transition U pconfs i w) as [[a|] w1]; [|exact Logic.I].
    destruct HT as [HT | [HT Hn]]; [left; auto | right]. split; [|exact HT].
    destruct HN as (a1 & a2 & a3 & _). repeat split; auto. intros y <-. exact Hn.
  - pose proof (N_transition t (eq x) i w H1) as HN.
    pose proof (transition_stopping i x t (eq x) anyD anyD Hx (fun _ _ _ => Logic.I) w (conj H1 H2)) as HT.
    destruct (Model.transition U pconfs i w) as [[a|] w1]; [|exact Logic.I].
    right. split; [exact HN | destruct HT as [HT | [HT _]]; exact HT].
Qed.

Lemma Wk_any D j : (D = DAC \/ D = DCd) -> inv (Wk D) (Model.transition U pconfs j).
Proof.
  intros HD. destruct (Nat.eq_dec j i) as [->|Hj]; [|apply Wk_other; exact Hj].
  destruct HD as [-> | ->].
  - eapply tri_post; [apply Wk_self | intros a w H; cbv beta in *; eapply Wk_mono; [|exact H]; intros v Hv; right; exact Hv].
  - eapply tri_weak; [apply Wk_self | intros w H; eapply Wk_mono; [|exact H]; intros v Hv; right; exact Hv].
Qed.

Lemma transitions_focus g :
  In g sorted_groups -> In i (g_procs (gc g)) ->
  tri (Wk DAC) (mapM_ (Model.transition_group U pconfs gconfs) sorted_groups) (fun _ => Wk DCd).
Proof.
  intros Hg Hi. unfold transition_group. apply mapM_reach.
  - intros a. apply inv_mapM. intros j. apply Wk_any. auto.
  - intros a. apply inv_mapM. intros j. apply Wk_any. auto.
  - exists g. split; [exact Hg|]. apply mapM_reach.
    + intros j. apply Wk_any. auto.
    + intros j. apply Wk_any. auto.
    + exists i. split; [exact Hi | exact Wk_self].
Qed.

(* ---------- the reap phase *)
Definition Rk (w : world) : Prop :=
  (BN t nox w /\ FR i (fun s _ => s = STOPPED) w) \/ Wk DCd w.

Lemma Rk_obs w w' :
  sts w' = sts w -> procs w' = procs w -> now w' = now w -> mood w' = mood w -> killq w' = killq w ->
  live w' = live w -> Rk w -> Rk w'.
Proof.
  intros E1 E2 E3 E4 E5 E6. unfold Rk, Wk, BN, FR. rewrite E1, E2, E3, E4, E5, E6. auto.
Qed.

Lemma Rk_finish_other j st : j <> i -> inv Rk (Model.finish U pconfs j st).
Proof.
  intros Hj. repeat apply inv_or; apply inv_and; first [apply N_finish | apply F_finish; exact Hj].
Qed.

Lemma Rk_finish_self st :
  tri (fun w => Rk w /\ 1000 <= pid (procs w i) /\ K w) (Model.finish U pconfs i st) (fun _ => Rk).
Proof.
  intros w (HR & Hp & HK).
  assert (HS : BN t nox w /\ FR i (P_K x anyD) w).
  { destruct HR as [[H1 H2] | [[H1 (a & b & c & _)] | [(a1 & a2 & a3 & _) H2]]].
    - exfalso. unfold FR in H2. destruct (k_pi w HK i) as (_ & _ & _ & Hd). rewrite H2 in Hd. specialize (Hd eq_refl). lia.
    - split; [exact H1 | repeat split; auto].
    - split; [repeat split; auto; intros y [] | exact H2]. }
  destruct HS as [H1 H2].
  pose proof (N_finish t nox i st w H1) as HN. pose proof (finish_stopping i x st w H2) as HF.
  destruct (Model.finish U pconfs i st w) as [[a|] w1]; [|exact Logic.I]. left. auto.
Qed.

Lemma reap_focus fuel : forall w,
  K w -> TR w -> Rk w ->
  exists w', Model.reap U pconfs fuel w = (Some tt, w') /\ K w' /\ TR w' /\ Rk w' /\
             ((length (zombies w) <= fuel)%nat -> zombies w' = []).
Proof.
  induction fuel as [|f IH]; intros w HK [HG HT] HR.
  { exists w. split; [reflexivity|]. split; [exact HK|]. split; [split; assumption|]. split; [exact HR|].
    intros Hl. destruct (zombies w); [reflexivity | cbn in Hl; lia]. }
  cbn [Model.reap]. unfold bind at 1. unfold getw at 1.
  destruct (zombies w) as [|[zp st] rest] eqn:Ez.
  { exists w. split; [reflexivity|]. split; [exact HK|]. split; [split; assumption|]. split; [exact HR|]. rewrite Ez. reflexivity. }
  unfold bind at 1. unfold modw at 1. unfold bind at 1. unfold emit at 1.
  set (w1 := set_out _ _).
  assert (I1 : inertw w w1) by (subst w1; repeat split; cbn; lia).
  assert (K1 : K w1) by (eapply K_inert; eassumption).
  assert (R1 : Rk w1) by (subst w1; eapply Rk_obs; [..|exact HR]; reflexivity).
  assert (Hlen : (length ((zp, st) :: rest) <= S f)%nat -> (length rest <= f)%nat) by (cbn; lia).
  destruct (lookup_hist zp (pidhist w)) as [j|] eqn:EL.
  - apply lookup_hist_in in EL.
    destruct (finish_run U pconfs j zp st w1 K1 EL) as (w2 & E2 & Ep0 & K3).
    unfold bind at 1. rewrite E2. unfold bind at 1. unfold modw at 1.
    pose proof (finish_quiet U pconfs j st w1) as Eq. rewrite E2 in Eq. cbn [snd] in Eq. unfold obsG in Eq.
    inversion Eq as [[Eh El Ezz En]]. 
    assert (R2 : Rk w2).
    { destruct (Nat.eq_dec j i) as [->|Hj].
      - destruct (k_hist w1 K1 zp i EL) as [Epid Hr].
        assert (Hp : 1000 <= pid (procs w1 i)) by lia.
        pose proof (Rk_finish_self st w1 (conj R1 (conj Hp K1))) as H. rewrite E2 in H. exact H.
      - pose proof (Rk_finish_other j st Hj w1 R1) as H. rewrite E2 in H. exact H. }
    subst w1. cbn in Eh, El, Ezz, En.
    assert (T2 : TC w2).
    { pose proof (finish_TC U pconfs j st _ (conj (HT : T1 (set_out _ (set_kernel _ _ _ w))) (K_C1 _ K1))) as H. rewrite E2 in H. exact H. }
    destruct (IH (set_pidhist (filter (fun e => negb (fst e =? zp)) (pidhist w2)) w2)) as (w' & E' & K' & T' & R' & Z').
    + exact K3.
    + split.
      * apply (G0_pop w zp st rest (filter (fun e => negb (fst e =? zp)) (pidhist w2)) _ HG Ez); cbn; rewrite ?Eh; auto.
        -- apply NoDup_keys_filter. apply HG.
        -- apply keys_filter_in.
      * intros j' Hj'. cbn in *. destruct T2 as [T2 _]. specialize (T2 j' Hj'). rewrite Eh in *.
        apply filter_In. split; [exact T2|]. cbn. apply negb_true_iff. apply Z.eqb_neq. intros Eq'.
        rewrite Eq' in T2. assert (j' = j) by (eapply NoDup_keys_inj; [apply HG | exact T2 | exact EL]).
        subst j'. congruence.
    + eapply Rk_obs; [..|exact R2]; reflexivity.
    + exists w'. split; [exact E'|]. split; [exact K'|]. split; [exact T'|]. split; [exact R'|].
      intros Hl. apply Z'. cbn. rewrite Ezz in *. apply Hlen. exact Hl.
  - destruct (IH w1) as (w' & E' & K' & T' & R' & Z').
    + exact K1.
    + split.
      * subst w1. apply (G0_pop w zp st rest (pidhist w) _ HG Ez); cbn; auto.
        -- apply HG.
        -- intros q Hq. split; [exact Hq|]. intros ->. exact (lookup_hist_none _ _ EL Hq).
      * exact HT.
    + exact R1.
    + exists w'. split; [exact E'|]. split; [exact K'|]. split; [exact T'|]. split; [exact R'|].
      intros Hl. apply Z'. subst w1. cbn. apply Hlen. exact Hl.
Qed.

(* after the reap phase, provided it emptied the zombie queue *)
Definition P_F (s : pstate) (p : proc) : Prop := s = STOPPED \/ (s = STOPPING /\ DCd (delay p)).

Lemma reap_end w :
  K w -> TR w -> Rk w -> zombies w = [] -> BN t nox w /\ FR i P_F w.
Proof.
  intros HK [HG HT] HR Hz. destruct HR as [[H1 H2] | [[H1 (a & b & c & e)] | [H1 (a & b & c & _)]]].
  - split; [exact H1 | left; exact H2].
  - split; [exact H1 | right; auto].
  - exfalso. destruct H1 as (_ & _ & _ & Hn). apply (Hn x eq_refl).
    assert (Hp : pid (procs w i) <> 0) by lia.
    pose proof (HT i Hp) as Hin. rewrite b in Hin.
    assert (Hk : In x (kern w)) by (apply (g_B w HG); unfold keys; apply in_map_iff; exists (x, i); auto).
    unfold kern in Hk. rewrite Hz in Hk. cbn in Hk. rewrite app_nil_r in Hk. exact Hk.
Qed.

(* fair actions *)
Definition fair_act (a : act) : bool :=
  match a with AExit _ _ | ASigDie _ _ | AUnknown _ | ASignal _ | ARpc _ _ => true | APoll => false end.

Lemma Wk_resp D : respects2 (Wk D).
Proof.
  intros w w' X [[H1 H2] | [H1 H2]]; [left | right]; (split; [eapply BN_resp; eassumption|]);
    destruct X; unfold FR; rewrite s_sts0, s_procs0; exact H2.
Qed.

Lemma Wk_act D a : fair_act a = true -> inv (Wk D) (Model.do_act U pconfs gconfs a).
Proof.
  destruct a; cbn [fair_act Model.do_act]; intros Hf; try discriminate Hf.
  - apply inv_mild; [apply Wk_resp | apply mild_child_dies].
  - apply inv_mild; [apply Wk_resp | apply mild_child_dies].
  - apply inv_mild; [apply Wk_resp | mtac].
  - apply inv_mild; [apply Wk_resp | mtac].
  - intros w Hw. assert (Hm : mood w < 1) by (destruct Hw as [[(_ & H & _) _] | [(_ & H & _) _]]; exact H).
    rewrite (rpc_refused U pconfs gconfs req r w Hm). eapply Wk_resp; [|exact Hw].
    constructor; cbn; auto. apply incl_refl.
Qed.

(* after the reap phase nothing touches a process that is STOPPED or STOPPING *)
Lemma F_stop_all_elem (P : pstate -> proc -> Prop) j :
  (forall s p, P s p -> s <> RUNNING /\ s <> STARTING /\ s <> BACKOFF) ->
  inv (FR i P)
    (bind (gets j) (fun s => match s with
                             | RUNNING | STARTING => bind (Model.stop U pconfs j) (fun _ => ret tt)
                             | BACKOFF => Model.give_up U j
                             | _ => ret tt end)).
Proof.
  intros HP. destruct (Nat.eq_dec j i) as [->|Hj].
  - apply tri_gets. intros s w [Hw Es]. destruct (HP _ _ Hw) as (H1 & H2 & H3).
    destruct s; try congruence; exact Hw.
  - pose proof (F_stop i P j Hj) as Hs. pose proof (F_give_up i P j Hj) as Hg. ftac.
Qed.

Lemma F_stop_all (P : pstate -> proc -> Prop) g :
  (forall s p, P s p -> s <> RUNNING /\ s <> STARTING /\ s <> BACKOFF) ->
  inv (FR i P) (Model.stop_all U pconfs gconfs g).
Proof. intros HP. unfold Model.stop_all. apply inv_mapM. intros j. apply F_stop_all_elem. exact HP. Qed.

Lemma F_loop_head (P : pstate -> proc -> Prop) :
  (forall s p, P s p -> s <> RUNNING /\ s <> STARTING /\ s <> BACKOFF) ->
  inv (FR i P) (Model.loop_head U pconfs gconfs).
Proof. intros HP. pose proof (fun g => F_stop_all P g HP) as Hs. unfold Model.loop_head. ftac. Qed.

Lemma P_F_quiet s p : P_F s p -> s <> RUNNING /\ s <> STARTING /\ s <> BACKOFF.
Proof. intros [-> | [-> _]]; repeat split; discriminate. Qed.

Definition Ek (w : world) : Prop := BN t nox w /\ FR i P_F w.

Lemma tail_focus :
  inv Ek (bind handle_signal (fun _ => bind (Model.phase2 gconfs) (fun _ => Model.loop_head U pconfs gconfs))).
Proof.
  apply inv_and.
  - apply inv_bind; [apply N_handle_signal|]. intros _. apply inv_bind; [apply N_phase2 | intros _; apply N_loop_head].
  - apply inv_bind; [apply FR_quiet; unfold handle_signal; qtac|]. intros _.
    apply inv_bind; [apply FR_quiet; unfold Model.phase2; qtac | intros _; apply F_loop_head; exact P_F_quiet].
Qed.

(* ---------- one fair pass, seen from process i *)
Definition pre_reap (o : passop) (w : world) : world :=
  snd (bind (modw (set_pass (p_now o) (p_forkq o) (p_killq o))) (fun _ =>
       bind (mapM_ (Model.do_act U pconfs gconfs) (p_acts o)) (fun _ =>
       mapM_ (Model.transition_group U pconfs gconfs) sorted_groups)) w).

Lemma TR_same w w' :
  pidhist w' = pidhist w -> live w' = live w -> zombies w' = zombies w -> nextpid w' = nextpid w ->
  procs w' = procs w -> TR w -> TR w'.
Proof.
  intros E1 E2 E3 E4 E5 [HG HT]. split.
  - apply (G0_obs w); [unfold obsG; congruence | exact HG].
  - intros j. rewrite E5, E1. apply HT.
Qed.

Lemma pass_focus w o g :
  K w -> TR w -> mood w < 1 -> exited w = false ->
  sts w i = STOPPING -> pid (procs w i) = x -> delay (procs w i) = d ->
  p_now o = t -> fair_q (p_killq o) -> forallb fair_act (p_acts o) = true ->
  (length (zombies (pre_reap o w)) <= 100)%nat ->
  In g sorted_groups -> In i (g_procs (gc g)) ->
  Ek (step w o).
Proof.
  intros HK HT Hm Hex Hs Hp Hd Hnow Hq Hacts Hz Hg Hi.
  unfold Model.step. rewrite (k_nc w HK), Hex. cbn [orb].
  unfold pre_reap in Hz. unfold Model.do_pass, reap_all.
  unfold bind at 1, modw at 1. unfold bind at 1, modw at 1 in Hz.
  set (wa := set_pass (p_now o) (p_forkq o) (p_killq o) w) in *.
  assert (Ka : K wa) by (apply (K_inert w); [exact HK | repeat split; cbn; lia]).
  assert (Ta : TR wa) by (apply (TR_same w); auto).
  assert (Wa : Wk DAC wa).
  { left. split.
    - repeat split; cbn; auto; intros y [].
    - unfold FR. cbn. repeat split; auto; [|left; exact Hd].
      destruct (k_pi w HK i) as (H1 & _). auto. }
  (* the actions *)
  destruct (kt_mapM (fun _ => True) (Model.do_act U pconfs gconfs) (p_acts o)
              (do_act_kt U pconfs gconfs) wa Ka Ta Logic.I) as ([] & wb & Eb & Kb & Tb).
  assert (Wb : Wk DAC wb).
  { assert (H : inv (Wk DAC) (mapM_ (Model.do_act U pconfs gconfs) (p_acts o))).
    { apply inv_mapM_in. intros a Ha. apply Wk_act. rewrite forallb_forall in Hacts. auto. }
    specialize (H wa Wa). rewrite Eb in H. exact H. }
  unfold bind at 1. rewrite Eb. unfold bind at 1 in Hz. rewrite Eb in Hz.
  (* the transitions *)
  destruct (kt_mapM (fun _ => True) (Model.transition_group U pconfs gconfs) sorted_groups
              (fun g0 => kt_mapM (fun _ => True) _ _ (transition_kt U pconfs)) wb Kb Tb Logic.I)
    as ([] & wc & Ec & Kc & Tc).
  assert (Wc : Wk DCd wc).
  { pose proof (transitions_focus g Hg Hi wb Wb) as H. rewrite Ec in H. exact H. }
  unfold bind at 1. rewrite Ec. rewrite Ec in Hz. cbn [snd] in Hz.
  (* reap *)
  destruct (reap_focus 100 wc Kc Tc (or_intror Wc)) as (wd & Ed & Kd & Td & Rd & Zd).
  unfold bind at 1. rewrite Ed.
  pose proof (reap_end wd Kd Td Rd (Zd Hz)) as He.
  pose proof (tail_focus wd He) as Hf.
  match goal with |- Ek (snd ?r) => destruct r as [[a|] w'] eqn:Er end; cbn [snd].
  - exact Hf.
  - exfalso. destruct (handle_signal_kt wd Kd Td Logic.I) as (a1 & w1 & E1 & K1 & T1').
    unfold bind at 1 in Er. rewrite E1 in Er.
    destruct (phase2_kt gconfs w1 K1 T1' Logic.I) as (a2 & w2 & E2 & K2 & T2).
    unfold bind at 1 in Er. rewrite E2 in Er.
    destruct (loop_head_kt U pconfs gconfs w2 K2 T2 Logic.I) as (a3 & w3 & E3 & _).
    rewrite E3 in Er. discriminate Er.
Qed.

End Focus.

(* ---------- stop_all leaves every process of the group in STOPPING or in a stopped state *)
Definition Pok (s : pstate) : Prop := s = STOPPING \/ in_stopped_states s = true.
Definition PokP (s : pstate) (_ : proc) : Prop := Pok s.

Lemma cs_to i new e : tri (fun _ => True) (Model.change_state U i new e) (fun _ w => sts w i = new).
Proof.
  intros w _. destruct (cs_cases U i new e w) as [[Es ->] | [_ (w' & x & -> & _ & Es & _)]]; [exact Es|].
  rewrite Es. apply upd_same.
Qed.

Lemma FRs_setp i (Q : pstate -> Prop) j p : inv (FR i (fun s _ => Q s)) (setp j p).
Proof. intros w Hw. exact Hw. Qed.
Lemma FRs_modp i (Q : pstate -> Prop) j f : inv (FR i (fun s _ => Q s)) (modp j f).
Proof. intros w Hw. exact Hw. Qed.

Definition stop_elem (j : nat) : Model.M unit :=
  bind (gets j) (fun s => match s with
                          | RUNNING | STARTING => bind (Model.stop U pconfs j) (fun _ => ret tt)
                          | BACKOFF => Model.give_up U j
                          | _ => ret tt end).

Lemma kill_live i sig :
  tri (fun w => (sts w i = RUNNING \/ sts w i = STARTING) /\ pid (procs w i) <> 0)
      (Model.kill U pconfs i sig) (fun _ => FR i PokP).
Proof.
  unfold Model.kill. apply tri_getw_any. intros w0 _. apply tri_getp_eq. intros p. apply tri_gets. intros s.
  apply (tri_pure _ ((s = RUNNING \/ s = STARTING) /\ pid p <> 0)).
  { intros w [[[H1 H2] E] Es]. rewrite <- E, <- Es. auto. }
  intros [Hs Hp]. replace (pstate_eqb s BACKOFF) with false by (destruct Hs as [-> | ->]; reflexivity).
  replace (pid p =? 0) with false by lia.
  apply (tri_seq _ (FR i (fun s' _ => s' = s))).
  { intros w [[_ E] Es]. cbn. exact Es. }
  intros ?u; cbv beta. apply (tri_seq _ (FR i (fun s' _ => s' = STOPPING))).
  { apply move_to. intros s' q ->. destruct Hs as [-> | ->]; reflexivity. }
  intros ?u; cbv beta. cbv zeta. unfold Model.kill_mark.
  apply (tri_seq _ (FR i PokP)).
  - apply (tri_seq _ (FR i (fun s' _ => s' = STOPPING))); [apply FR_quiet; qtac|].
    intros r. destruct (r =? 2).
    + apply (tri_seq _ (fun w => sts w i = UNKNOWN)); [eapply tri_weak; [apply cs_to | intros; exact Logic.I]|].
      intros ?u; cbv beta. apply tri_ret.
      intros w Hw. unfold FR, PokP, Pok. rewrite Hw. right. reflexivity.
    + apply tri_ret. intros w Hw. left. exact Hw.
  - intros r. destruct (r =? 2); [|apply inv_ret].
    apply inv_bind; [apply (FRs_modp i Pok) | intros ?u; cbv beta; apply inv_ret].
Qed.

Lemma stop_elem_self i : tri K (stop_elem i) (fun _ => FR i PokP).
Proof.
  unfold stop_elem. apply tri_gets. intros s.
  destruct s; try (apply tri_ret; intros w [_ Es]; unfold FR, PokP, Pok; rewrite Es; cbn; auto).
  - (* STARTING *)
    eapply tri_seq; [|intros ?u; cbv beta; apply inv_ret]. unfold Model.stop.
    apply (tri_seq _ (fun w => (sts w i = RUNNING \/ sts w i = STARTING) /\ pid (procs w i) <> 0)); [|intros ?u; cbv beta; apply kill_live].
    intros w [HK Es]. unfold modp, bind, getp. cbn. rewrite upd_same. autorewrite with procdb.
    split; [auto|]. destruct (k_pi w HK i) as (_ & _ & Hl & _). apply Hl. rewrite Es. reflexivity.
  - (* RUNNING *)
    eapply tri_seq; [|intros ?u; cbv beta; apply inv_ret]. unfold Model.stop.
    apply (tri_seq _ (fun w => (sts w i = RUNNING \/ sts w i = STARTING) /\ pid (procs w i) <> 0)); [|intros ?u; cbv beta; apply kill_live].
    intros w [HK Es]. unfold modp, bind, getp. cbn. rewrite upd_same. autorewrite with procdb.
    split; [auto|]. destruct (k_pi w HK i) as (_ & _ & Hl & _). apply Hl. rewrite Es. reflexivity.
  - (* BACKOFF *)
    unfold Model.give_up. apply (tri_seq _ (FR i (fun s _ => s = BACKOFF))); [intros w [_ Es]; exact Es|].
    intros ?u; cbv beta. eapply tri_post; [apply move_to; intros s q ->; reflexivity|].
    intros a w Hw. unfold FR, PokP, Pok in *. cbv beta in Hw. rewrite Hw. right. reflexivity.
Qed.

Lemma ipre_tri {A} (P : world -> Prop) (m : Model.M A) : ipre P m -> tri (fun w => K w /\ P w) m (fun _ => K).
Proof. intros H w [HK HP]. destruct (H w HK HP) as (a & w' & -> & K'). exact K'. Qed.

Lemma stop_elem_ipre j : ipre (fun _ => True) (stop_elem j).
Proof.
  unfold stop_elem. apply ipre_gets. intros s.
  destruct s; try apply ipre_ret.
  - apply ipre_bind; [apply stop_ipre; reflexivity | intros; apply ipre_ret].
  - apply ipre_bind; [apply stop_ipre; reflexivity | intros; apply ipre_ret].
  - apply give_up_ipre.
Qed.
Lemma stop_elem_K j : inv K (stop_elem j).
Proof. eapply tri_weak; [apply (ipre_tri _ _ (stop_elem_ipre j)) | intros w H; split; [exact H | exact Logic.I]]. Qed.

Lemma insert_by_in_conv key x y l : y = x \/ In y l -> In y (insert_by key x l).
Proof.
  induction l as [|a l IH]; cbn; [intros [H|[]]; auto|].
  destruct (key x <=? key a); cbn; [intros [H|[H|H]]; auto|]. intros [H|[H|H]]; auto.
Qed.
Lemma sort_by_in_conv key y l : In y l -> In y (sort_by key l).
Proof.
  induction l as [|a l IH]; cbn; [auto|]. intros [->|H]; apply insert_by_in_conv; auto.
Qed.

Lemma stop_all_pok g i :
  In i (g_procs (gc g)) ->
  tri K (Model.stop_all U pconfs gconfs g) (fun _ w => K w /\ FR i PokP w).
Proof.
  intros Hi. unfold Model.stop_all. fold stop_elem.
  change (mapM_ _ (rev (procs_by_priority pconfs gconfs g))) with (mapM_ stop_elem (rev (procs_by_priority pconfs gconfs g))).
  apply (mapM_reach K (fun w => K w /\ FR i PokP w)).
  - intros j. apply stop_elem_K.
  - intros j. apply inv_and; [apply stop_elem_K|]. apply F_stop_all_elem.
    intros s p [-> | H]; repeat split; try discriminate; intros ->; discriminate H.
  - exists i. split; [apply in_rev; rewrite rev_involutive; apply sort_by_in_conv; exact Hi|].
    apply tri_and; [apply stop_elem_K | apply stop_elem_self].
Qed.

Definition obsSG (w : world) := (stop_groups w, stopping w).
Lemma qSG_stop_all g : quiet obsSG (Model.stop_all U pconfs gconfs g).
Proof.
  assert (Hk : forall i sig, quiet obsSG (Model.kill U pconfs i sig)) by (intros; unfold Model.kill; qtac).
  assert (Hg : forall i, quiet obsSG (Model.give_up U i)) by (intros; unfold Model.give_up; qtac).
  unfold Model.stop_all, Model.stop. qtac.
Qed.

(* every process of the group being stopped is in STOPPING or stopped *)
Definition ALLS (w : world) : Prop :=
  stopping w = true -> forall r g, stop_groups w = r ++ [g] ->
  forall i, In i (g_procs (gc g)) -> Pok (sts w i).

Lemma ALLS_loop_head :
  tri (fun w => K w /\ (stopping w = true -> mood w < 1)) (Model.loop_head U pconfs gconfs) (fun _ => ALLS).
Proof.
  intros w [HK Hsm]. rewrite (loop_head_eq U pconfs gconfs).
  destruct (mood w <? 1) eqn:Em; [|intros Hs; specialize (Hsm Hs); lia].
  set (ann := if stopping w then ret tt else _).
  assert (Ha : exists w1, ann w = (Some tt, w1) /\ K w1).
  { subst ann. destruct (stopping w); [exists w; auto|].
    eexists. split; [reflexivity|]. eapply K_inert; [exact HK | repeat split; cbn; lia]. }
  destruct Ha as (w1 & Ea & K1). unfold bind at 1. rewrite Ea.
  unfold loop_tail. unfold bind at 1, getw at 1.
  destruct (rev (stop_groups w1)) as [|g r] eqn:Er.
  - unfold bind at 1, ret at 1. unfold bind, getw. 
    assert (Esg : stop_groups w1 = []) by (rewrite <- (rev_involutive (stop_groups w1)), Er; reflexivity).
    destruct (any_unstopped gconfs w1); unfold ALLS; cbn; intros _ r0 g0 E; rewrite Esg in E; destruct r0; discriminate E.
  - assert (Esg : stop_groups w1 = rev r ++ [g]) by (rewrite <- (rev_involutive (stop_groups w1)), Er; reflexivity).
    unfold bind at 1.
    destruct (Model.stop_all U pconfs gconfs g w1) as [[[]|] w2] eqn:E2; [|exact Logic.I].
    pose proof (qSG_stop_all g w1) as Hq. rewrite E2 in Hq. cbn in Hq. unfold obsSG in Hq. inversion Hq as [[Hq1 Hq2]].
    assert (Hpok : forall i, In i (g_procs (gc g)) -> Pok (sts w2 i)).
    { intros i Hi. pose proof (stop_all_pok g i Hi w1 K1) as H. rewrite E2 in H. apply H. }
    unfold bind, getw.
    assert (Hfin : forall w', sts w' = sts w2 -> stop_groups w' = stop_groups w2 -> ALLS w').
    { intros w' E1 E3 _ r0 g0 E i Hi. rewrite E3, Hq1, Esg in E. apply app_inj_tail in E. destruct E as [_ <-].
      rewrite E1. apply Hpok. exact Hi. }
    destruct (any_unstopped gconfs w2); cbn; apply Hfin; reflexivity.
Qed.

(* ---------- a pass = its prefix followed by loop_head *)
Lemma bind_assoc {A B C} (m : Model.M A) (f : A -> Model.M B) (g : B -> Model.M C) w :
  bind (bind m f) g w = bind m (fun a => bind (f a) g) w.
Proof. unfold bind. destruct (m w) as [[a|] w1]; reflexivity. Qed.
Lemma bind_ext {A B} (m : Model.M A) (f g : A -> Model.M B) w :
  (forall a w1, f a w1 = g a w1) -> bind m f w = bind m g w.
Proof. intros H. unfold bind. destruct (m w) as [[a|] w1]; auto. Qed.
Lemma do_pass_split o w :
  Model.do_pass U pconfs gconfs o w =
  bind (pass_prefix U pconfs gconfs o) (fun _ => Model.loop_head U pconfs gconfs) w.
Proof.
  unfold Model.do_pass, pass_prefix.
  rewrite bind_assoc. apply bind_ext. intros _ w1.
  rewrite bind_assoc. apply bind_ext. intros _ w2.
  rewrite bind_assoc. apply bind_ext. intros _ w3.
  rewrite bind_assoc. apply bind_ext. intros _ w4.
  rewrite bind_assoc. reflexivity.
Qed.

Lemma prefix_ipre o : ipre (fun _ => True) (pass_prefix U pconfs gconfs o).
Proof.
  unfold pass_prefix, transition_group, reap_all.
  apply ipre_bind; [apply ipre_inert; apply inertm_modw; intros w; repeat split; cbn; lia|]. intros _.
  apply ipre_bind; [apply ipre_mapM; intros a; apply do_act_ipre|]. intros _.
  apply ipre_bind; [apply ipre_mapM; intros g; apply ipre_mapM; intros i; apply transition_ipre|]. intros _.
  apply ipre_bind; [apply reap_ipre|]. intros _.
  apply ipre_bind; [apply handle_signal_ipre | intros _; apply phase2_ipre].
Qed.

Lemma ALLS_step w o : K w -> BI gconfs w -> ALLS w -> ALLS (step w o).
Proof.
  intros HK HB HA. unfold Model.step. destruct (crashed w || exited w) eqn:Ece; [exact HA|].
  apply orb_false_iff in Ece. destruct Ece as [_ Hex].
  destruct (K_pass U pconfs gconfs w o HK) as (w' & E & _). rewrite E. cbn [snd].
  rewrite do_pass_split in E. unfold bind in E.
  destruct (prefix_ipre o w HK Logic.I) as ([] & wp & Ep & Kp). rewrite Ep in E.
  assert (Hsm : stopping wp = true -> mood wp < 1).
  { destruct HB as [[HOS _] | (sg0 & [[HOB _] | HF])].
    - pose proof (A_prefix U pconfs gconfs o w HOS) as H. rewrite Ep in H. destruct H as (_ & _ & Hs & _). congruence.
    - pose proof (B_prefix U pconfs gconfs sg0 _ o w HOB) as H. rewrite Ep in H. intros _. eapply OB_mood; exact H.
    - destruct HF as (_ & Hx & _). congruence. }
  pose proof (ALLS_loop_head wp (conj Kp Hsm)) as H. rewrite E in H. exact H.
Qed.

(* ---------- the boundary invariant used by the termination argument *)
Definition LB (w : world) : Prop := K w /\ TR w /\ BI gconfs w /\ ALLS w.

Lemma LB_step w o : LB w -> LB (step w o).
Proof.
  intros (HK & HT & HB & HA). destruct (track_step U pconfs gconfs w o HK HT) as [HK' HT'].
  split; [exact HK' | split; [exact HT' | split; [apply BI_step; assumption | apply ALLS_step; assumption]]].
Qed.

Lemma LB_world0 : LB world0.
Proof.
  split; [apply K_world0 | split; [apply TR_world0 | split]].
  - left. split; [apply OS_world0 | cbn; lia].
  - intros Hs. discriminate Hs.
Qed.

Lemma LB_fold ops : forall w, LB w -> LB (fold_left step ops w).
Proof. induction ops as [|o ops IH]; intros w H; cbn [fold_left]; [exact H | apply IH; apply LB_step; exact H]. Qed.

Theorem LB_run ops : LB (run ops).
Proof. apply LB_fold. exact LB_world0. Qed.

(* ---------- fairness of the continuation *)
Record fair_pass (w : world) (o : passop) : Prop := mkFP {
  fp_clock : now w < p_now o;                              (* the clock moves forward *)
  fp_pos : 0 < p_now o;                                    (* and is positive, as time.time() is *)
  fp_acts : forallb fair_act (p_acts o) = true;            (* children may die, signals and RPCs may arrive *)
  fp_killq : fair_q (p_killq o);                           (* no kill fails: SIGKILL always kills *)
  fp_zomb : (length (zombies (pre_reap o w)) <= 100)%nat   (* reap's bound is enough for this pass *) }.

Fixpoint fair (w : world) (ops : list passop) : Prop :=
  match ops with [] => True | o :: r => fair_pass w o /\ fair (step w o) r end.

(* ---------- the measure *)
Definition capS (i : nat) : nat := Z.to_nat (Z.max 0 (S_ i)).
Definition cost (w : world) (i : nat) : nat :=
  match sts w i with
  | STOPPING => S (Z.to_nat (Z.min (delay (procs w i) - now w) (Z.max 0 (S_ i) + 1)))
  | s => if in_stopped_states s then 0%nat else (capS i + 3)%nat
  end.
Definition gcost (w : world) (g : nat) : nat := S (list_sum (map (cost w) (g_procs (gc g)))).
Definition mu (w : world) : nat := list_sum (map (gcost w) (stop_groups w)).
Definition gbound (g : nat) : nat := S (list_sum (map (fun i => (capS i + 3)%nat) (g_procs (gc g)))).
Definition bound : nat := list_sum (map gbound sorted_groups).

Lemma cost_cap w i : (cost w i <= capS i + 3)%nat.
Proof. unfold cost, capS. destruct (sts w i); cbn; lia. Qed.

Lemma cost_stopped w i : in_stopped_states (sts w i) = true -> cost w i = 0%nat.
Proof. unfold cost. destruct (sts w i); cbn; intros H; try discriminate H; reflexivity. Qed.

Lemma cost_stopping_dec w w' i t d :
  sts w i = STOPPING -> delay (procs w i) = d -> now w < t -> now w' = t ->
  P_F i t d (sts w' i) (procs w' i) -> (cost w' i < cost w i)%nat.
Proof.
  intros Hs Hd Hlt Hn [HF | [HF (H1 & H2)]]; unfold cost; rewrite Hs, HF; cbn [in_stopped_states].
  - lia.
  - rewrite Hn, Hd. unfold DCd in *.
    destruct (Z.max_spec 0 (S_ i)) as [[? ->]|[? ->]];
      repeat match goal with |- context [Z.min ?a ?b] => destruct (Z.min_spec a b) as [[? ->]|[? ->]] end; lia.
Qed.

Lemma list_sum_le {A} (f g : A -> nat) l :
  (forall a, In a l -> (f a <= g a)%nat) -> (list_sum (map f l) <= list_sum (map g l))%nat.
Proof.
  unfold list_sum. induction l as [|b l IH]; cbn; intros H; [lia|].
  pose proof (H b (or_introl eq_refl)). assert (fold_right Nat.add 0 (map f l) <= fold_right Nat.add 0 (map g l))%nat by (apply IH; auto). lia.
Qed.
Lemma list_sum_lt {A} (f g : A -> nat) l a :
  (forall b, In b l -> (f b <= g b)%nat) -> In a l -> (f a < g a)%nat ->
  (list_sum (map f l) < list_sum (map g l))%nat.
Proof.
  induction l as [|b l IH]; intros H Hin Hlt; [destruct Hin|].
  pose proof (H b (or_introl eq_refl)).
  assert (Hle : (list_sum (map f l) <= list_sum (map g l))%nat) by (apply list_sum_le; intros; apply H; right; assumption).
  change (f b + list_sum (map f l) < g b + list_sum (map g l))%nat.
  destruct Hin as [->|Hin]; [lia|]. assert (list_sum (map f l) < list_sum (map g l))%nat by (apply IH; auto; intros; apply H; right; assumption). lia.
Qed.
Lemma list_sum_app_map {A} (f : A -> nat) l1 l2 :
  list_sum (map f (l1 ++ l2)) = (list_sum (map f l1) + list_sum (map f l2))%nat.
Proof. rewrite map_app, list_sum_app. reflexivity. Qed.

(* ---------- one fair pass: no cost grows, the cost of a process in STOPPING shrinks *)
Lemma cost_mono w o g i :
  LB w -> stopping w = true -> exited w = false -> fair_pass w o ->
  In g (stop_groups w) -> In i (g_procs (gc g)) ->
  (cost (step w o) i <= cost w i)%nat /\ (sts w i = STOPPING -> (cost (step w o) i < cost w i)%nat).
Proof.
  intros (HK & HT & HB & HA) Hs Hex [F1 F2 F3 F4 F5] Hg Hi.
  destruct (BI_core gconfs w HB Hs) as (_ & _ & _ & Hm & (done & Hd1 & _) & _).
  assert (Hgs : In g sorted_groups) by (rewrite Hd1; apply in_or_app; left; exact Hg).
  destruct (sts w i) eqn:Es.
  all: try (split; [|intros Hc; discriminate Hc];
            rewrite (cost_stopped (step w o) i), (cost_stopped w i); [lia | rewrite Es; reflexivity |];
            apply stopped_absorbing_step; [exact HK | exact HB | exact Hs | rewrite Es; reflexivity]).
  all: try (split; [|intros Hc; discriminate Hc];
            assert (Hc : cost w i = (capS i + 3)%nat) by (unfold cost; rewrite Es; reflexivity);
            rewrite Hc; apply cost_cap).
  (* STOPPING *)
  assert (Hx : 1 <= pid (procs w i)).
  { destruct (k_pi w HK i) as (_ & _ & Hl & _). rewrite Es in Hl. specialize (Hl eq_refl).
    destruct HT as [_ HT1]. destruct (k_hist w HK _ _ (HT1 i Hl)). lia. }
  pose proof (pass_focus i (pid (procs w i)) (p_now o) (delay (procs w i)) Hx F2 w o g
                HK HT Hm Hex Es eq_refl eq_refl eq_refl F4 F3 F5 Hgs Hi) as [(Hn & _) HF].
  assert (Hlt : (cost (step w o) i < cost w i)%nat).
  { eapply cost_stopping_dec; [exact Es | reflexivity | exact F1 | exact Hn | exact HF]. }
  split; [lia | intros _; exact Hlt].
Qed.

Lemma gcost_mono w o g :
  LB w -> stopping w = true -> exited w = false -> fair_pass w o -> In g (stop_groups w) ->
  (gcost (step w o) g <= gcost w g)%nat.
Proof.
  intros HL Hs Hex HF Hg. unfold gcost. apply le_n_S. apply list_sum_le. intros i Hi.
  apply (cost_mono w o g i); assumption.
Qed.

Lemma gcost_strict w o g i :
  LB w -> stopping w = true -> exited w = false -> fair_pass w o -> In g (stop_groups w) ->
  In i (g_procs (gc g)) -> sts w i = STOPPING ->
  (gcost (step w o) g < gcost w g)%nat.
Proof.
  intros HL Hs Hex HF Hg Hi Hst. unfold gcost. apply (proj1 (Nat.succ_lt_mono _ _)).
  apply (list_sum_lt _ _ _ i); [|exact Hi|].
  - intros j Hj. apply (cost_mono w o g j); assumption.
  - apply (cost_mono w o g i); assumption.
Qed.

Lemma pok_split w l :
  (forall i, In i l -> Pok (sts w i)) ->
  (exists i, In i l /\ sts w i = STOPPING) \/ (forall i, In i l -> in_stopped_states (sts w i) = true).
Proof.
  induction l as [|a l IH]; intros H; [right; intros i []|].
  destruct (H a (or_introl eq_refl)) as [Ha|Ha]; [left; exists a; split; [left; reflexivity | exact Ha]|].
  destruct IH as [(i & Hi & Hs) | Hall]; [intros i Hi; apply H; right; exact Hi | left; exists i; split; [right|]; assumption|].
  right. intros i [<-|Hi]; auto.
Qed.

Lemma stop_groups_nonempty w :
  BI gconfs w -> stopping w = true -> exited w = false -> exists r g, stop_groups w = r ++ [g].
Proof.
  intros HB Hs Hex. destruct HB as [[(_ & _ & E & _) _] | (sg0 & [[HOB Hu] | (_ & E & _)])]; [congruence | | congruence].
  destruct HOB as ((_ & _ & _ & _ & (done & Hd1 & Hd2) & _) & _).
  destruct (stop_groups w) as [|a l] eqn:Esg; [exfalso | destruct (exists_last (l := a :: l)) as (r & g & E); [discriminate | eauto]].
  unfold any_unstopped in Hu. apply existsb_exists in Hu. destruct Hu as (g & Hg & Hug).
  assert (Hin : In g done) by (cbn in Hd1; rewrite <- Hd1; apply sort_by_in_conv; exact Hg).
  rewrite (unstopped_intro gconfs g w) in Hug; [discriminate|]. intros j Hj. eapply Hd2; eassumption.
Qed.

Lemma gcost_pos w g : (1 <= gcost w g)%nat.
Proof. unfold gcost. lia. Qed.

Lemma mu_decrease w o :
  LB w -> stopping w = true -> exited w = false -> fair_pass w o -> (mu (step w o) < mu w)%nat.
Proof.
  intros HL Hs Hex HF. pose proof HL as (HK & HT & HB & HA).
  destruct (shrink_step U pconfs gconfs w o HK HB Hs) as (popped & Ep & _).
  destruct (stop_groups_nonempty w HB Hs Hex) as (r & g & Erg).
  unfold mu. rewrite Ep. rewrite list_sum_app_map.
  assert (M1 : (list_sum (map (gcost (step w o)) (stop_groups (step w o))) <=
                list_sum (map (gcost w) (stop_groups (step w o))))%nat).
  { apply list_sum_le. intros g' Hg'. apply gcost_mono; try assumption. rewrite Ep. apply in_or_app. left. exact Hg'. }
  destruct popped as [|p ps].
  - rewrite app_nil_r in Ep. cbn. rewrite Nat.add_0_r.
    assert (Hg : In g (stop_groups w)) by (rewrite Erg; apply in_or_app; right; left; reflexivity).
    destruct (pok_split w (g_procs (gc g)) (HA Hs r g Erg)) as [(i & Hi & Hst) | Hall].
    + rewrite <- Ep. apply (list_sum_lt _ _ _ g); [|exact Hg|].
      * intros g' Hg'. apply gcost_mono; assumption.
      * apply (gcost_strict w o g i); assumption.
    + exfalso. destruct (pop_step U pconfs gconfs w o r g HK HB Hs Hex Erg Hall) as (popped' & Ep').
      rewrite <- Ep, Erg in Ep'. apply (f_equal (@length nat)) in Ep'. rewrite !app_length in Ep'. cbn in Ep'. lia.
  - cbn [map list_sum fold_right]. pose proof (gcost_pos w p).
    change (fold_right Nat.add 0%nat (gcost w p :: map (gcost w) ps)) with (gcost w p + list_sum (map (gcost w) ps))%nat.
    lia.
Qed.

Lemma fold_exited ops : forall w, exited w = true -> fold_left step ops w = w.
Proof.
  induction ops as [|o ops IH]; intros w H; cbn [fold_left]; [reflexivity|].
  rewrite (step_exited U pconfs gconfs w o H). apply IH. exact H.
Qed.

Lemma terminates_from ops : forall w,
  LB w -> stopping w = true -> fair w ops -> (mu w <= length ops)%nat ->
  exited (fold_left step ops w) = true.
Proof.
  induction ops as [|o ops IH]; intros w HL Hs HF Hmu.
  - cbn in *. destruct (exited w) eqn:Hex; [reflexivity|]. exfalso.
    destruct HL as (_ & _ & HB & _). destruct (stop_groups_nonempty w HB Hs Hex) as (r & g & E).
    unfold mu in Hmu. rewrite E, list_sum_app_map in Hmu. cbn in Hmu. pose proof (gcost_pos w g). lia.
  - cbn [fold_left]. destruct (exited w) eqn:Hex.
    + rewrite (step_exited U pconfs gconfs w o Hex). rewrite fold_exited; assumption.
    + destruct HF as [HF1 HF2]. pose proof (mu_decrease w o HL Hs Hex HF1) as Hd.
      apply IH; [apply LB_step; exact HL | | exact HF2 | cbn in Hmu; lia].
      pose proof (LB_step w o HL) as (_ & _ & HB' & _). apply (BI_mood gconfs _ HB').
      destruct HL as (_ & _ & HB & _). destruct (BI_core gconfs w HB Hs) as (_ & _ & _ & Hm & _).
      apply (no_fork_step U pconfs gconfs w o Hm).
Qed.

Lemma mu_bound w : BI gconfs w -> stopping w = true -> (mu w <= bound)%nat.
Proof.
  intros HB Hs. destruct (BI_core gconfs w HB Hs) as (_ & _ & _ & _ & (done & Hd1 & _) & _).
  unfold mu, bound. rewrite Hd1, list_sum_app_map.
  assert (list_sum (map (gcost w) (stop_groups w)) <= list_sum (map gbound (stop_groups w)))%nat; [|lia].
  apply list_sum_le. intros g _. unfold gcost, gbound. apply le_n_S. apply list_sum_le. intros i _. apply cost_cap.
Qed.

(* ---------- the theorem *)
Theorem shutdown_terminates w ops :
  LB w -> mood w < 1 -> fair w ops -> (bound <= length ops)%nat ->
  exited (fold_left step ops w) = true.
Proof.
  intros HL Hm HF Hlen. pose proof HL as (_ & _ & HB & _). pose proof (BI_mood gconfs w HB Hm) as Hs.
  apply terminates_from; [exact HL | exact Hs | exact HF |]. pose proof (mu_bound w HB Hs). lia.
Qed.

(* for every run of the model: once the mood is below RUNNING at a boundary, every fair
   continuation of at least `bound` passes ends with the loop exited *)
Corollary shutdown_terminates_run ops0 ops :
  mood (run ops0) < 1 -> fair (run ops0) ops -> (bound <= length ops)%nat ->
  exited (run (ops0 ++ ops)) = true.
Proof.
  intros Hm HF Hlen. unfold Model.run. rewrite fold_left_app. apply shutdown_terminates; auto. apply LB_run.
Qed.

(* ---------- the single-pass progress facts, in plain terms *)

(* a process in STOPPING of a group still to be stopped: after one fair pass it is STOPPED, or
   still in STOPPING with a deadline that was not postponed and lies within stopwaitsecs of the clock *)
Lemma stopping_progress w o g i :
  LB w -> stopping w = true -> exited w = false -> fair_pass w o ->
  In g (stop_groups w) -> In i (g_procs (gc g)) -> sts w i = STOPPING ->
  let w' := step w o in
  now w' = p_now o /\
  (sts w' i = STOPPED \/
   (sts w' i = STOPPING /\ 0 < delay (procs w' i) - now w' <= S_ i /\ delay (procs w' i) <= delay (procs w i))).
Proof.
  intros (HK & HT & HB & HA) Hs Hex [F1 F2 F3 F4 F5] Hg Hi Es. cbv zeta.
  destruct (BI_core gconfs w HB Hs) as (_ & _ & _ & Hm & (done & Hd1 & _) & _).
  assert (Hgs : In g sorted_groups) by (rewrite Hd1; apply in_or_app; left; exact Hg).
  assert (Hx : 1 <= pid (procs w i)).
  { destruct (k_pi w HK i) as (_ & _ & Hl & _). rewrite Es in Hl. specialize (Hl eq_refl).
    destruct HT as [_ HT1]. destruct (k_hist w HK _ _ (HT1 i Hl)). lia. }
  pose proof (pass_focus i (pid (procs w i)) (p_now o) (delay (procs w i)) Hx F2 w o g
                HK HT Hm Hex Es eq_refl eq_refl eq_refl F4 F3 F5 Hgs Hi) as [(Hn & _) HF].
  split; [exact Hn|]. destruct HF as [HF | [HF (H1 & H2)]]; [left; exact HF | right].
  rewrite Hn. auto.
Qed.

(* SIGKILL escalation and reaping happen in the same pass: a process in STOPPING whose deadline
   has passed is STOPPED at the end of the pass *)
Corollary stopping_killed_when_due w o g i :
  LB w -> stopping w = true -> exited w = false -> fair_pass w o ->
  In g (stop_groups w) -> In i (g_procs (gc g)) -> sts w i = STOPPING ->
  delay (procs w i) <= p_now o ->
  sts (step w o) i = STOPPED.
Proof.
  intros HL Hs Hex HF Hg Hi Es Hdue.
  destruct (stopping_progress w o g i HL Hs Hex HF Hg Hi Es) as [Hn [H | (_ & H1 & H2)]]; [exact H|]. lia.
Qed.

(* stop_all at every loop head: the group being stopped consists of STOPPING / stopped processes *)
Corollary stop_all_puts_group_in_stopping ops r g i :
  let w := run ops in
  stopping w = true -> stop_groups w = r ++ [g] -> In i (g_procs (gc g)) ->
  sts w i = STOPPING \/ in_stopped_states (sts w i) = true.
Proof. cbv zeta. intros Hs E Hi. destruct (LB_run ops) as (_ & _ & _ & HA). exact (HA Hs r g E i Hi). Qed.

(* phase 2 removes the last group in the pass after all of its processes are stopped *)
Corollary phase2_pops_when_group_stopped ops o r g :
  let w := run ops in
  stopping w = true -> exited w = false -> stop_groups w = r ++ [g] ->
  (forall i, In i (g_procs (gc g)) -> in_stopped_states (sts w i) = true) ->
  exists popped, r = stop_groups (step w o) ++ popped.
Proof.
  cbv zeta. intros Hs Hex E Hall. destruct (LB_run ops) as (HK & _ & HB & _).
  exact (pop_step U pconfs gconfs _ o r g HK HB Hs Hex E Hall).
Qed.

(* a boolean test for fairness, to exhibit fair continuations by computation *)
Definition fair_passb (w : world) (o : passop) : bool :=
  (now w <? p_now o) && (0 <? p_now o) && forallb fair_act (p_acts o) &&
  forallb (fun q => (q =? 0) || (q =? 1)) (p_killq o) &&
  (length (zombies (pre_reap o w)) <=? 100)%nat.
Fixpoint fairb (w : world) (ops : list passop) : bool :=
  match ops with [] => true | o :: r => fair_passb w o && fairb (step w o) r end.

Lemma fairb_sound ops : forall w, fairb w ops = true -> fair w ops.
Proof.
  induction ops as [|o ops IH]; intros w H; cbn in *; [exact Logic.I|].
  apply andb_true_iff in H. destruct H as [H1 H2]. split; [|apply IH; exact H2].
  unfold fair_passb in H1. repeat (apply andb_true_iff in H1; destruct H1 as [H1 ?]).
  match goal with Ha : (now w <? p_now o) = true, Hb : (0 <? p_now o) = true, Hc : forallb fair_act _ = true,
                    Hd : forallb _ (p_killq o) = true, He : (_ <=? 100)%nat = true |- _ =>
    constructor; [lia | lia | exact Hc | | apply Nat.leb_le; exact He];
    unfold fair_q; apply Forall_forall; intros q Hq; rewrite forallb_forall in Hd; specialize (Hd q Hq); lia end.
Qed.

End WithConfig.

(* ---------- examples: the configuration of Order.v (two groups, stopwaitsecs 10, U = 10);
   the shutdown request arrives in pass 3 *)
Definition ex_history : list passop := firstn 3 ex_ops.

(* a short fair continuation: the first child ignores SIGTERM and is killed at the deadline *)
Example liveness_example_short :
  let w := Model.run 10 ex_pconfs ex_gconfs ex_history in
  let cont := skipn 3 ex_ops in
  mood w < 1 /\ fairb 10 ex_pconfs ex_gconfs w cont = true /\
  exited (Model.run 10 ex_pconfs ex_gconfs (ex_history ++ cont)) = true.
Proof. vm_compute. repeat split. Qed.

(* the hypotheses of the theorem are satisfiable: a fair continuation of `bound` passes in which
   every child ignores SIGTERM; the theorem gives the exit, and the computation agrees *)
Definition ex_long : list passop := map (fun k => mkPass (31 + Z.of_nat k) [] [] [1; 1]) (seq 1 (bound 10 ex_pconfs ex_gconfs)).

Example liveness_example_bound : bound 10 ex_pconfs ex_gconfs = 208%nat.
Proof. vm_compute. reflexivity. Qed.

Example liveness_example_long :
  exited (Model.run 10 ex_pconfs ex_gconfs (ex_history ++ ex_long)) = true.
Proof.
  apply shutdown_terminates_run.
  - vm_compute. reflexivity.
  - apply fairb_sound. vm_compute. reflexivity.
  - vm_compute. repeat constructor.
Qed.
