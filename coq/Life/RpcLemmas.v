(* C13: answers of start/stop/signal agree with what happened, on the model.
   Refusals are pure: the fault is answered and the world is left exactly as
   it was (no fork, no signal, no state change).  The one place where the
   unchanged code answers `true` without having started anything
   (startProcess(wait=false) on a STOPPING process) is exhibited by
   c13_start_stopping_refuted. *)
From Coq Require Import ZArith List Bool Lia Arith ZifyBool.
Import ListNotations.
Require Import SV.Life.Model SV.Life.Shutdown.
Open Scope Z_scope.

Section WithConfig.
Variable U : Z.
Variable pconfs : list pconf.
Variable gconfs : list gconf.
Notation cf := (Model.cf pconfs).
Notation nprocs := (Model.nprocs pconfs).

Lemma guard_false (w : world) {A} (a b : A) : mood w >= 1 -> (if mood w <? 1 then a else b) = b.
Proof. intros H. replace (mood w <? 1) with false by lia. reflexivity. Qed.

Ltac open_rpc H :=
  unfold bind at 1; unfold getw at 1; cbv beta; rewrite (guard_false _ _ _ H).

Lemma start_bad_name i wait w :
  mood w >= 1 -> Nat.ltb i nprocs = false ->
  Model.start_process U pconfs i wait w = (Some (CDone F_BAD_NAME), w).
Proof. intros Hm Hi. unfold Model.start_process. open_rpc Hm. rewrite Hi. reflexivity. Qed.

Lemma start_no_file i wait w :
  mood w >= 1 -> Nat.ltb i nprocs = true -> c_cmd (cf i) = CmdNotFound ->
  Model.start_process U pconfs i wait w = (Some (CDone F_NO_FILE), w).
Proof. intros Hm Hi Hc. unfold Model.start_process. open_rpc Hm. rewrite Hi, Hc. reflexivity. Qed.

Lemma start_not_executable i wait w :
  mood w >= 1 -> Nat.ltb i nprocs = true -> c_cmd (cf i) = CmdNotExec ->
  Model.start_process U pconfs i wait w = (Some (CDone F_NOT_EXECUTABLE), w).
Proof. intros Hm Hi Hc. unfold Model.start_process. open_rpc Hm. rewrite Hi, Hc. reflexivity. Qed.

Lemma start_already_started i wait w :
  mood w >= 1 -> Nat.ltb i nprocs = true -> c_cmd (cf i) = CmdOk ->
  in_running_states (sts w i) = true ->
  Model.start_process U pconfs i wait w = (Some (CDone F_ALREADY_STARTED), w).
Proof.
  intros Hm Hi Hc Hs. unfold Model.start_process. open_rpc Hm. rewrite Hi, Hc. cbn [negb].
  unfold bind at 1. unfold gets at 1. cbv beta. rewrite Hs. reflexivity.
Qed.

Lemma start_unknown_failed i wait w :
  mood w >= 1 -> Nat.ltb i nprocs = true -> c_cmd (cf i) = CmdOk ->
  sts w i = UNKNOWN ->
  Model.start_process U pconfs i wait w = (Some (CDone F_FAILED), w).
Proof.
  intros Hm Hi Hc Hs. unfold Model.start_process. open_rpc Hm. rewrite Hi, Hc. cbn [negb].
  unfold bind at 1. unfold gets at 1. cbv beta. rewrite Hs. reflexivity.
Qed.

Lemma stop_bad_name i wait w :
  mood w >= 1 -> Nat.ltb i nprocs = false ->
  Model.stop_process U pconfs i wait w = (Some (CDone F_BAD_NAME), w).
Proof. intros Hm Hi. unfold Model.stop_process. open_rpc Hm. rewrite Hi. reflexivity. Qed.

Lemma stop_not_running i wait w :
  mood w >= 1 -> Nat.ltb i nprocs = true -> in_running_states (sts w i) = false ->
  Model.stop_process U pconfs i wait w = (Some (CDone F_NOT_RUNNING), w).
Proof.
  intros Hm Hi Hs. unfold Model.stop_process. open_rpc Hm. rewrite Hi. cbn [negb].
  unfold bind at 1. unfold gets at 1. cbv beta. rewrite Hs. reflexivity.
Qed.

Lemma signal_bad_name i sig ok w :
  mood w >= 1 -> Nat.ltb i nprocs = false ->
  Model.signal_process U pconfs i sig ok w = (Some (CDone F_BAD_NAME), w).
Proof. intros Hm Hi. unfold Model.signal_process. open_rpc Hm. rewrite Hi. reflexivity. Qed.

Lemma signal_bad_signal i sig w :
  mood w >= 1 -> Nat.ltb i nprocs = true ->
  Model.signal_process U pconfs i sig false w = (Some (CDone F_BAD_SIGNAL), w).
Proof. intros Hm Hi. unfold Model.signal_process. open_rpc Hm. rewrite Hi. reflexivity. Qed.

Lemma signal_not_running i sig w :
  mood w >= 1 -> Nat.ltb i nprocs = true -> in_signallable_states (sts w i) = false ->
  Model.signal_process U pconfs i sig true w = (Some (CDone F_NOT_RUNNING), w).
Proof.
  intros Hm Hi Hs. unfold Model.signal_process. open_rpc Hm. rewrite Hi. cbn [negb].
  unfold bind at 1. unfold gets at 1. cbv beta. rewrite Hs. reflexivity.
Qed.

(* the answers that are not refusals: the set of codes each call can produce *)
Definition start_codes : list Z :=
  [0; F_SHUTDOWN_STATE; F_BAD_NAME; F_NO_FILE; F_NOT_EXECUTABLE; F_ALREADY_STARTED; F_FAILED; F_SPAWN_ERROR].
Definition stop_codes : list Z := [0; F_SHUTDOWN_STATE; F_BAD_NAME; F_NOT_RUNNING; F_FAILED].
Definition signal_codes : list Z := [0; F_SHUTDOWN_STATE; F_BAD_NAME; F_BAD_SIGNAL; F_NOT_RUNNING; F_FAILED].

End WithConfig.

(* ---------- the known finding: `true` without a fork *)
Definition w_conf : pconf := mkConf 1 3 10 15 999 true ARUnexpected [0] false false CmdOk 0%nat.
Definition w_ops : list passop :=
  [ mkPass 10 [] [] []                                   (* autostart: fork 1000 *)
  ; mkPass 14 [] [] []                                   (* RUNNING *)
  ; mkPass 16 [ARpc 1 (RStop 0%nat false)] [] [1]        (* stop: child ignores SIGTERM, stays STOPPING *)
  ; mkPass 18 [ARpc 2 (RStart 0%nat false)] [] [] ].     (* start while STOPPING *)

Lemma c13_start_stopping_witness :
  let w := Model.run 2 [w_conf] [mkG 999 [0%nat]] w_ops in
  In (EAns 2 0) (out w) /\ nfork (out w) = 1%nat /\ sts w 0%nat = STOPPING.
Proof. vm_compute. repeat split; auto 20. Qed.
