(* C05 core (and the SHUTDOWN_STATE part of C12/C13), for every configuration,
   script and oracle:
   - once the daemon mood is below RUNNING no child is forked any more and the
     mood never returns to RUNNING (no_fork_step / no_fork_run);
   - SHUTDOWN is final: SIGHUP or a restart RPC never turns it into a restart;
   - SUPERVISOR_STATE_CHANGE_STOPPING is announced exactly once, exactly when
     the loop first observes the request (stopping_once_run);
   - process-control RPCs issued meanwhile answer SHUTDOWN_STATE and change
     nothing but the answer log (rpc_refused). *)
From Coq Require Import ZArith List Bool Lia Arith.
Import ListNotations.
Require Import SV.Life.Model SV.Life.Quiet.
Open Scope Z_scope.

Create HintDb quietdb.
Create HintDb presddb.
Create HintDb presfdb.
Create HintDb presodb.
Create HintDb presedb.

Fixpoint nfork (o : list effect) : nat :=
  match o with [] => O | EFork _ _ :: r => S (nfork r) | _ :: r => nfork r end.
Fixpoint nsup2 (o : list effect) : nat :=
  match o with [] => O | ESup 2 :: r => S (nsup2 r) | _ :: r => nsup2 r end.

Definition obsB (w : world) : Z * nat := (mood w, nfork (out w)).
Definition obsA (w : world) : bool * nat := (stopping w, nsup2 (out w)).

Section WithConfig.
Variable U : Z.
Variable pconfs : list pconf.
Variable gconfs : list gconf.

(* ---------- operations that never fork and never touch the mood *)
Ltac q := qtac.

Lemma qB_rollback i t : quiet obsB (Model.rollback_adjust U pconfs i t).
Proof. unfold Model.rollback_adjust. q. Qed.
Lemma qB_give_up i : quiet obsB (Model.give_up U i).
Proof. unfold Model.give_up. q. Qed.
Lemma qB_kill i sig : quiet obsB (Model.kill U pconfs i sig).
Proof. unfold Model.kill. q. Qed.
Hint Resolve qB_rollback qB_give_up qB_kill : quietdb.
Lemma qB_stop i : quiet obsB (Model.stop U pconfs i).
Proof. unfold Model.stop. q. Qed.
Lemma qB_signal i sig : quiet obsB (Model.signal U i sig).
Proof. unfold Model.signal. q. Qed.
Lemma qB_finish i s : quiet obsB (Model.finish U pconfs i s).
Proof. unfold Model.finish. q. Qed.
Hint Resolve qB_stop qB_signal qB_finish : quietdb.
Lemma qB_reap fuel : quiet obsB (Model.reap U pconfs fuel).
Proof. induction fuel as [|f IH]; cbn; q. Qed.
Hint Resolve qB_reap : quietdb.
Lemma qB_stop_all g : quiet obsB (Model.stop_all U pconfs gconfs g).
Proof. unfold Model.stop_all. q. Qed.
Lemma qB_stop_process i wait : quiet obsB (Model.stop_process U pconfs i wait).
Proof. unfold Model.stop_process, reap_all. q. Qed.
Lemma qB_start_onwait i : quiet obsB (start_onwait i).
Proof. unfold start_onwait. q. Qed.
Lemma qB_stop_onwait i : quiet obsB (Model.stop_onwait U pconfs i).
Proof. unfold Model.stop_onwait. q. Qed.
Lemma qB_signal_process i sig ok : quiet obsB (Model.signal_process U pconfs i sig ok).
Proof. unfold Model.signal_process. q. Qed.
Lemma qB_child_dies k s : quiet obsB (child_dies k s).
Proof. unfold child_dies. q. Qed.
Lemma qB_phase2 : quiet obsB (Model.phase2 gconfs).
Proof. unfold Model.phase2. q. Qed.
Hint Resolve qB_stop_all qB_stop_process qB_start_onwait qB_stop_onwait qB_signal_process qB_child_dies qB_phase2 : quietdb.

(* ---------- the shutdown predicate: mood below RUNNING, n forks so far *)
Definition SD (n : nat) (w : world) : Prop := mood w < 1 /\ nfork (out w) = n.

Definition presD n {A} (m : Model.M A) : Prop := forall w, SD n w -> SD n (snd (m w)).

Lemma quiet_presD n {A} (m : Model.M A) : quiet obsB m -> presD n m.
Proof.
  intros Hq w [H1 H2]. specialize (Hq w). unfold obsB in Hq. inversion Hq as [[Em En]].
  split; [rewrite Em; exact H1 | rewrite En; exact H2].
Qed.

Lemma presD_ret n {A} (a : A) : presD n (ret a).
Proof. intros w H. exact H. Qed.
Lemma presD_bind n {A B} (m : Model.M A) (f : A -> Model.M B) :
  presD n m -> (forall a, presD n (f a)) -> presD n (bind m f).
Proof.
  intros Hm Hf w H. unfold bind. specialize (Hm w H). destruct (m w) as [[a|] w1]; cbn in *.
  - apply Hf. exact Hm.
  - exact Hm.
Qed.
(* a read exposes the fact that the world read is in shutdown *)
Lemma presD_getw n {B} (f : world -> Model.M B) : (forall w0, mood w0 < 1 -> presD n (f w0)) -> presD n (bind getw f).
Proof. intros Hf w H. unfold bind, getw. apply (Hf w (proj1 H) w H). Qed.
Lemma presD_gets n {B} i (f : pstate -> Model.M B) : (forall s, presD n (f s)) -> presD n (bind (gets i) f).
Proof. intros Hf w H. unfold bind, gets. apply Hf. exact H. Qed.
Lemma presD_getp n {B} i (f : proc -> Model.M B) : (forall p, presD n (f p)) -> presD n (bind (getp i) f).
Proof. intros Hf w H. unfold bind, getp. apply Hf. exact H. Qed.
Lemma presD_mapM n {A} (f : A -> Model.M unit) (l : list A) : (forall x, presD n (f x)) -> presD n (mapM_ f l).
Proof.
  intros Hf. induction l as [|x l IH]; cbn; [apply presD_ret | apply presD_bind; [apply Hf | intros _; exact IH]].
Qed.

Ltac dprim :=
  let w := fresh "w" in let H1 := fresh "H" in let H2 := fresh "H" in
  intros w [H1 H2]; cbn;
  repeat match goal with |- context [if ?c then _ else _] => destruct c end;
  split; cbn; try assumption; try lia.

Ltac dtac :=
  repeat match goal with
    | |- presD _ (ret _) => apply presD_ret
    | |- presD _ (bind getw _) => apply presD_getw; intros ?w0 ?Hm
    | |- presD _ (bind (gets _) _) => apply presD_gets; intros ?s
    | |- presD _ (bind (getp _) _) => apply presD_getp; intros ?p
    | |- presD _ (emit _) => dprim
    | |- presD _ (modw _) => dprim
    | |- presD _ (mapM_ _ _) => apply presD_mapM; intros
    | Hm : mood ?w0 < 1 |- presD _ (if mood ?w0 >? 0 then _ else _) =>
        replace (mood w0 >? 0) with false by lia
    | Hm : mood ?w0 < 1 |- presD _ (if mood ?w0 <? 1 then _ else _) =>
        replace (mood w0 <? 1) with true by lia
    | |- presD _ _ => solve [apply quiet_presD; qtac]
    | |- presD _ _ => solve [eauto with presddb]
    | |- presD _ (if ?c then _ else _) => destruct c
    | |- presD _ (match ?x with _ => _ end) => destruct x
    | |- presD _ (bind _ _) => apply presD_bind; [ | intros ? ]
    end.

Lemma pD_transition n i : presD n (Model.transition U pconfs i).
Proof. unfold Model.transition. dtac. Qed.
Hint Resolve pD_transition : presddb.

Lemma pD_handle_signal n : presD n handle_signal.
Proof. unfold handle_signal. dtac. Qed.
Hint Resolve pD_handle_signal : presddb.

Lemma pD_start_process n i wait : presD n (Model.start_process U pconfs i wait).
Proof. unfold Model.start_process. dtac. Qed.
Hint Resolve pD_start_process : presddb.

Lemma pD_call_one n k wait i : presD n (Model.call_one U pconfs k wait i).
Proof. destruct k; cbn; dtac. Qed.
Lemma pD_poll_one n k i : presD n (Model.poll_one U pconfs k i).
Proof. destruct k; cbn; dtac. Qed.
Hint Resolve pD_call_one pD_poll_one : presddb.
Lemma pD_all_first n k wait l : forall cbs res, presD n (Model.all_first U pconfs k wait l cbs res).
Proof. induction l as [|x l IH]; intros; cbn; dtac. Qed.
Lemma pD_all_poll n k l : forall cbs res, presD n (Model.all_poll U pconfs k l cbs res).
Proof. induction l as [|x l IH]; intros; cbn; dtac. Qed.
Hint Resolve pD_all_first pD_all_poll : presddb.
Lemma pD_poll_deferred n d : presD n (Model.poll_deferred U pconfs d).
Proof. destruct d; cbn; dtac. Qed.
Hint Resolve pD_poll_deferred : presddb.
Lemma pD_poll_pending n l : forall keep, presD n (Model.poll_pending U pconfs l keep).
Proof. induction l as [|x l IH]; intros; cbn; dtac. Qed.
Hint Resolve pD_poll_pending : presddb.
Lemma pD_defer_now n d : presD n (Model.defer_now U pconfs d).
Proof. unfold Model.defer_now, add_pending. dtac. Qed.
Hint Resolve pD_defer_now : presddb.
Lemma pD_do_rpc n req r : presD n (Model.do_rpc U pconfs gconfs req r).
Proof. unfold Model.do_rpc. destruct r; dtac. Qed.
Hint Resolve pD_do_rpc : presddb.
Lemma pD_do_act n a : presD n (Model.do_act U pconfs gconfs a).
Proof. destruct a; cbn; dtac. Qed.
Hint Resolve pD_do_act : presddb.
Lemma pD_loop_head n : presD n (Model.loop_head U pconfs gconfs).
Proof. unfold Model.loop_head. dtac. Qed.
Hint Resolve pD_loop_head : presddb.

Lemma pD_do_pass n o : presD n (Model.do_pass U pconfs gconfs o).
Proof. unfold Model.do_pass, transition_group, reap_all. dtac. Qed.

(* once the mood is below RUNNING at a loop boundary, a pass forks nothing and leaves the mood below RUNNING *)
Theorem no_fork_step w o :
  mood w < 1 ->
  mood (Model.step U pconfs gconfs w o) < 1 /\
  nfork (out (Model.step U pconfs gconfs w o)) = nfork (out w).
Proof.
  intros Hm. unfold Model.step. destruct (crashed w || exited w); [split; [exact Hm | reflexivity]|].
  apply (pD_do_pass (nfork (out w)) o w). split; [exact Hm | reflexivity].
Qed.

Theorem no_fork_run ops w :
  mood w < 1 ->
  mood (fold_left (Model.step U pconfs gconfs) ops w) < 1 /\
  nfork (out (fold_left (Model.step U pconfs gconfs) ops w)) = nfork (out w).
Proof.
  revert w. induction ops as [|o ops IH]; intros w Hm; cbn; [split; [exact Hm | reflexivity]|].
  destruct (no_fork_step w o Hm) as [H1 H2]. destruct (IH _ H1) as [H3 H4]. split; [exact H3 | congruence].
Qed.


(* ---------- SHUTDOWN is final: neither SIGHUP nor a restart request changes it *)
Definition obsM (w : world) : Z := mood w.
Definition SF (w : world) : Prop := mood w = -1.

Lemma qM_spawn i : quiet obsM (Model.spawn U pconfs i).
Proof. unfold Model.spawn. qtac. Qed.
Lemma qM_rollback i t : quiet obsM (Model.rollback_adjust U pconfs i t).
Proof. unfold Model.rollback_adjust. qtac. Qed.
Lemma qM_give_up i : quiet obsM (Model.give_up U i).
Proof. unfold Model.give_up. qtac. Qed.
Lemma qM_kill i sig : quiet obsM (Model.kill U pconfs i sig).
Proof. unfold Model.kill. qtac. Qed.
Hint Resolve qM_spawn qM_rollback qM_give_up qM_kill : quietdb.
Lemma qM_stop i : quiet obsM (Model.stop U pconfs i).
Proof. unfold Model.stop. qtac. Qed.
Lemma qM_signal i sig : quiet obsM (Model.signal U i sig).
Proof. unfold Model.signal. qtac. Qed.
Lemma qM_finish i s : quiet obsM (Model.finish U pconfs i s).
Proof. unfold Model.finish. qtac. Qed.
Hint Resolve qM_stop qM_signal qM_finish : quietdb.
Lemma qM_transition i : quiet obsM (Model.transition U pconfs i).
Proof. unfold Model.transition. qtac. Qed.
Lemma qM_reap fuel : quiet obsM (Model.reap U pconfs fuel).
Proof. induction fuel as [|f IH]; cbn; qtac. Qed.
Hint Resolve qM_transition qM_reap : quietdb.
Lemma qM_stop_all g : quiet obsM (Model.stop_all U pconfs gconfs g).
Proof. unfold Model.stop_all. qtac. Qed.
Lemma qM_start_process i wait : quiet obsM (Model.start_process U pconfs i wait).
Proof. unfold Model.start_process, reap_all. qtac. Qed.
Lemma qM_stop_process i wait : quiet obsM (Model.stop_process U pconfs i wait).
Proof. unfold Model.stop_process, reap_all. qtac. Qed.
Lemma qM_start_onwait i : quiet obsM (start_onwait i).
Proof. unfold start_onwait. qtac. Qed.
Lemma qM_stop_onwait i : quiet obsM (Model.stop_onwait U pconfs i).
Proof. unfold Model.stop_onwait. qtac. Qed.
Lemma qM_signal_process i sig ok : quiet obsM (Model.signal_process U pconfs i sig ok).
Proof. unfold Model.signal_process. qtac. Qed.
Hint Resolve qM_stop_all qM_start_process qM_stop_process qM_start_onwait qM_stop_onwait qM_signal_process : quietdb.
Lemma qM_call_one k wait i : quiet obsM (Model.call_one U pconfs k wait i).
Proof. destruct k; cbn; qtac. Qed.
Lemma qM_poll_one k i : quiet obsM (Model.poll_one U pconfs k i).
Proof. destruct k; cbn; qtac. Qed.
Hint Resolve qM_call_one qM_poll_one : quietdb.
Lemma qM_all_first k wait l : forall cbs res, quiet obsM (Model.all_first U pconfs k wait l cbs res).
Proof. induction l as [|x l IH]; intros; cbn; qtac. Qed.
Lemma qM_all_poll k l : forall cbs res, quiet obsM (Model.all_poll U pconfs k l cbs res).
Proof. induction l as [|x l IH]; intros; cbn; qtac. Qed.
Hint Resolve qM_all_first qM_all_poll : quietdb.
Lemma qM_poll_deferred d : quiet obsM (Model.poll_deferred U pconfs d).
Proof. destruct d; cbn; qtac. Qed.
Hint Resolve qM_poll_deferred : quietdb.
Lemma qM_poll_pending l : forall keep, quiet obsM (Model.poll_pending U pconfs l keep).
Proof. induction l as [|x l IH]; intros; cbn; qtac. Qed.
Lemma qM_defer_now d : quiet obsM (Model.defer_now U pconfs d).
Proof. unfold Model.defer_now, add_pending. qtac. Qed.
Lemma qM_child_dies k s : quiet obsM (child_dies k s).
Proof. unfold child_dies. qtac. Qed.
Lemma qM_phase2 : quiet obsM (Model.phase2 gconfs).
Proof. unfold Model.phase2. qtac. Qed.
Lemma qM_loop_head : quiet obsM (Model.loop_head U pconfs gconfs).
Proof. unfold Model.loop_head. qtac. Qed.
Hint Resolve qM_poll_pending qM_defer_now qM_child_dies qM_phase2 qM_loop_head : quietdb.


(* ---------- the loop ends only through a shutdown or restart request *)
Definition obsE (w : world) : bool * Z := (exited w, mood w).
Definition SE (w : world) : Prop := exited w = true -> mood w < 1.

Lemma qE_spawn i : quiet obsE (Model.spawn U pconfs i).
Proof. unfold Model.spawn. qtac. Qed.
Lemma qE_rollback i t : quiet obsE (Model.rollback_adjust U pconfs i t).
Proof. unfold Model.rollback_adjust. qtac. Qed.
Lemma qE_give_up i : quiet obsE (Model.give_up U i).
Proof. unfold Model.give_up. qtac. Qed.
Lemma qE_kill i sig : quiet obsE (Model.kill U pconfs i sig).
Proof. unfold Model.kill. qtac. Qed.
Hint Resolve qE_spawn qE_rollback qE_give_up qE_kill : quietdb.
Lemma qE_stop i : quiet obsE (Model.stop U pconfs i).
Proof. unfold Model.stop. qtac. Qed.
Lemma qE_signal i sig : quiet obsE (Model.signal U i sig).
Proof. unfold Model.signal. qtac. Qed.
Lemma qE_finish i s : quiet obsE (Model.finish U pconfs i s).
Proof. unfold Model.finish. qtac. Qed.
Hint Resolve qE_stop qE_signal qE_finish : quietdb.
Lemma qE_transition i : quiet obsE (Model.transition U pconfs i).
Proof. unfold Model.transition. qtac. Qed.
Lemma qE_reap fuel : quiet obsE (Model.reap U pconfs fuel).
Proof. induction fuel as [|f IH]; cbn; qtac. Qed.
Hint Resolve qE_transition qE_reap : quietdb.
Lemma qE_stop_all g : quiet obsE (Model.stop_all U pconfs gconfs g).
Proof. unfold Model.stop_all. qtac. Qed.
Lemma qE_start_process i wait : quiet obsE (Model.start_process U pconfs i wait).
Proof. unfold Model.start_process, reap_all. qtac. Qed.
Lemma qE_stop_process i wait : quiet obsE (Model.stop_process U pconfs i wait).
Proof. unfold Model.stop_process, reap_all. qtac. Qed.
Lemma qE_start_onwait i : quiet obsE (start_onwait i).
Proof. unfold start_onwait. qtac. Qed.
Lemma qE_stop_onwait i : quiet obsE (Model.stop_onwait U pconfs i).
Proof. unfold Model.stop_onwait. qtac. Qed.
Lemma qE_signal_process i sig ok : quiet obsE (Model.signal_process U pconfs i sig ok).
Proof. unfold Model.signal_process. qtac. Qed.
Hint Resolve qE_stop_all qE_start_process qE_stop_process qE_start_onwait qE_stop_onwait qE_signal_process : quietdb.
Lemma qE_call_one k wait i : quiet obsE (Model.call_one U pconfs k wait i).
Proof. destruct k; cbn; qtac. Qed.
Lemma qE_poll_one k i : quiet obsE (Model.poll_one U pconfs k i).
Proof. destruct k; cbn; qtac. Qed.
Hint Resolve qE_call_one qE_poll_one : quietdb.
Lemma qE_all_first k wait l : forall cbs res, quiet obsE (Model.all_first U pconfs k wait l cbs res).
Proof. induction l as [|x l IH]; intros; cbn; qtac. Qed.
Lemma qE_all_poll k l : forall cbs res, quiet obsE (Model.all_poll U pconfs k l cbs res).
Proof. induction l as [|x l IH]; intros; cbn; qtac. Qed.
Hint Resolve qE_all_first qE_all_poll : quietdb.
Lemma qE_poll_deferred d : quiet obsE (Model.poll_deferred U pconfs d).
Proof. destruct d; cbn; qtac. Qed.
Hint Resolve qE_poll_deferred : quietdb.
Lemma qE_poll_pending l : forall keep, quiet obsE (Model.poll_pending U pconfs l keep).
Proof. induction l as [|x l IH]; intros; cbn; qtac. Qed.
Lemma qE_defer_now d : quiet obsE (Model.defer_now U pconfs d).
Proof. unfold Model.defer_now, add_pending. qtac. Qed.
Lemma qE_child_dies k s : quiet obsE (child_dies k s).
Proof. unfold child_dies. qtac. Qed.
Lemma qE_phase2 : quiet obsE (Model.phase2 gconfs).
Proof. unfold Model.phase2. qtac. Qed.
Hint Resolve qE_poll_pending qE_defer_now qE_child_dies qE_phase2 : quietdb.


Lemma SE_obs w w' : obsE w' = obsE w -> SE w -> SE w'.
Proof. unfold obsE, SE. intros E H. inversion E as [[E1 E2]]. rewrite E1, E2. exact H. Qed.

Ltac etac :=
  repeat match goal with
    | |- presG _ (ret _) => apply presG_ret
    | |- presG _ _ => solve [apply (quiet_presG SE obsE _ SE_obs); qtac]
    | |- presG _ _ => solve [eauto with presedb]
    | |- presG _ (mapM_ _ _) => apply presG_mapM; intros
    | |- presG _ (bind getw _) => apply presG_getw; intros ?w0 ?Hm
    | |- presG _ (bind (gets _) _) => apply presG_gets; intros ?s
    | |- presG _ (bind (getp _) _) => apply presG_getp; intros ?p
    | |- presG _ (modw (set_mood _)) => let w := fresh in let H := fresh in intros w H; unfold SE in *; cbn; intros; lia
    | |- presG _ (if ?c then _ else _) => destruct c
    | |- presG _ (match ?x with _ => _ end) => destruct x
    | |- presG _ (bind _ _) => apply presG_bind; [ | intros ? ]
    end.

Lemma pE_handle_signal : presG SE handle_signal.
Proof. unfold handle_signal. etac. Qed.
Lemma pE_do_rpc req r : presG SE (Model.do_rpc U pconfs gconfs req r).
Proof. unfold Model.do_rpc. destruct r; etac. Qed.
Hint Resolve pE_handle_signal pE_do_rpc : presedb.
Lemma pE_do_act a : presG SE (Model.do_act U pconfs gconfs a).
Proof. destruct a; cbn; etac. Qed.
Hint Resolve pE_do_act : presedb.

Lemma pE_loop_head : presG SE (Model.loop_head U pconfs gconfs).
Proof.
  unfold Model.loop_head. apply presG_getw_at. intros w H.
  destruct (mood w <? 1) eqn:Em; [|exact H].
  assert (Hlow : forall w1, obsE w1 = obsE w -> mood w1 < 1) by (intros w1 E; inversion E as [[E1 E2]]; lia).
  (* everything in this branch keeps the mood; the mood read is below RUNNING *)
  assert (Hq : quiet obsM (Model.loop_head U pconfs gconfs)) by apply qM_loop_head.
  unfold SE. intros _.
  match goal with |- mood (snd (?m w)) < 1 =>
    assert (Em2 : mood (snd (m w)) = mood w) end.
  { pose proof (Hq w) as Hq'. unfold obsM, Model.loop_head in Hq'. unfold bind at 1 in Hq'. unfold getw at 1 in Hq'.
    rewrite Em in Hq'. exact Hq'. }
  rewrite Em2. lia.
Qed.
Hint Resolve pE_loop_head : presedb.

Lemma pE_do_pass o : presG SE (Model.do_pass U pconfs gconfs o).
Proof. unfold Model.do_pass, transition_group, reap_all. etac. Qed.

Theorem exit_only_on_request ops :
  let w := Model.run U pconfs gconfs ops in exited w = true -> mood w < 1.
Proof.
  cbv zeta. unfold Model.run. assert (H0 : SE world0) by (intros H; discriminate H). revert H0. generalize world0.
  induction ops as [|o ops IH]; intros w H; cbn; [exact H|].
  apply IH. unfold Model.step. destruct (crashed w || exited w); [exact H | apply pE_do_pass; exact H].
Qed.

Lemma SF_obs w w' : obsM w' = obsM w -> SF w -> SF w'.
Proof. unfold obsM, SF. congruence. Qed.

Ltac ftac :=
  repeat match goal with
    | |- presG SF (ret _) => apply presG_ret
    | |- presG SF (bind getw _) => apply presG_getw; intros ?w0 ?Hm; unfold SF in Hm
    | |- presG SF (bind (gets _) _) => apply presG_gets; intros ?s
    | |- presG SF (bind (getp _) _) => apply presG_getp; intros ?p
    | |- presG SF (mapM_ _ _) => apply presG_mapM; intros
    | Hm : mood ?w0 = -1 |- presG SF (if mood ?w0 <? 1 then _ else _) =>
        replace (mood w0 <? 1) with true by lia
    | Hm : mood ?w0 = -1 |- presG SF (if mood ?w0 =? -1 then _ else _) =>
        replace (mood w0 =? -1) with true by lia
    | |- presG SF _ => solve [apply (quiet_presG SF obsM _ SF_obs); qtac]
    | |- presG SF _ => solve [eauto with presfdb]
    | |- presG SF (modw (set_mood (-1))) => intros ? ?; reflexivity
    | |- presG SF (if ?c then _ else _) => destruct c
    | |- presG SF (match ?x with _ => _ end) => destruct x
    | |- presG SF (bind _ _) => apply presG_bind; [ | intros ? ]
    end.

Lemma pF_handle_signal : presG SF handle_signal.
Proof. unfold handle_signal. ftac. Qed.
Lemma pF_do_rpc req r : presG SF (Model.do_rpc U pconfs gconfs req r).
Proof. unfold Model.do_rpc. destruct r; ftac. Qed.
Hint Resolve pF_handle_signal pF_do_rpc : presfdb.
Lemma pF_do_act a : presG SF (Model.do_act U pconfs gconfs a).
Proof. destruct a; cbn; ftac. Qed.
Hint Resolve pF_do_act : presfdb.
Lemma pF_do_pass o : presG SF (Model.do_pass U pconfs gconfs o).
Proof. unfold Model.do_pass, transition_group, reap_all. ftac. Qed.

Theorem shutdown_final ops w :
  mood w = -1 -> mood (fold_left (Model.step U pconfs gconfs) ops w) = -1.
Proof.
  revert w. induction ops as [|o ops IH]; intros w Hm; cbn; [exact Hm|].
  apply IH. unfold Model.step. destruct (crashed w || exited w); [exact Hm | apply pF_do_pass; exact Hm].
Qed.

(* ---------- SUPERVISOR_STATE_CHANGE_STOPPING exactly once *)
Definition SO (w : world) : Prop := nsup2 (out w) = if stopping w then 1%nat else 0%nat.

Lemma SO_obs w w' : obsA w' = obsA w -> SO w -> SO w'.
Proof. unfold obsA, SO. intros E H. inversion E as [[E1 E2]]. rewrite E1, E2. exact H. Qed.

Ltac otac :=
  repeat match goal with
    | |- presG _ (ret _) => apply presG_ret
    | |- presG _ _ => solve [apply (quiet_presG SO obsA _ SO_obs); qtac]
    | |- presG _ _ => solve [eauto with presodb]
    | |- presG _ (mapM_ _ _) => apply presG_mapM; intros
    | |- presG _ (bind getw _) => apply presG_getw; intros ?w0 ?Hm
    | |- presG _ (bind (gets _) _) => apply presG_gets; intros ?s
    | |- presG _ (bind (getp _) _) => apply presG_getp; intros ?p
    | |- presG _ (if ?c then _ else _) => destruct c
    | |- presG _ (match ?x with _ => _ end) => destruct x
    | |- presG _ (bind _ _) => apply presG_bind; [ | intros ? ]
    end.

Lemma qA_spawn i : quiet obsA (Model.spawn U pconfs i).
Proof. unfold Model.spawn. qtac. Qed.
Lemma qA_rollback i t : quiet obsA (Model.rollback_adjust U pconfs i t).
Proof. unfold Model.rollback_adjust. qtac. Qed.
Lemma qA_give_up i : quiet obsA (Model.give_up U i).
Proof. unfold Model.give_up. qtac. Qed.
Lemma qA_kill i sig : quiet obsA (Model.kill U pconfs i sig).
Proof. unfold Model.kill. qtac. Qed.
Hint Resolve qA_spawn qA_rollback qA_give_up qA_kill : quietdb.
Lemma qA_stop i : quiet obsA (Model.stop U pconfs i).
Proof. unfold Model.stop. qtac. Qed.
Lemma qA_signal i sig : quiet obsA (Model.signal U i sig).
Proof. unfold Model.signal. qtac. Qed.
Lemma qA_finish i s : quiet obsA (Model.finish U pconfs i s).
Proof. unfold Model.finish. qtac. Qed.
Hint Resolve qA_stop qA_signal qA_finish : quietdb.
Lemma qA_transition i : quiet obsA (Model.transition U pconfs i).
Proof. unfold Model.transition. qtac. Qed.
Lemma qA_reap fuel : quiet obsA (Model.reap U pconfs fuel).
Proof. induction fuel as [|f IH]; cbn; qtac. Qed.
Hint Resolve qA_transition qA_reap : quietdb.
Lemma qA_stop_all g : quiet obsA (Model.stop_all U pconfs gconfs g).
Proof. unfold Model.stop_all. qtac. Qed.
Lemma qA_start_process i wait : quiet obsA (Model.start_process U pconfs i wait).
Proof. unfold Model.start_process, reap_all. qtac. Qed.
Lemma qA_stop_process i wait : quiet obsA (Model.stop_process U pconfs i wait).
Proof. unfold Model.stop_process, reap_all. qtac. Qed.
Lemma qA_start_onwait i : quiet obsA (start_onwait i).
Proof. unfold start_onwait. qtac. Qed.
Lemma qA_stop_onwait i : quiet obsA (Model.stop_onwait U pconfs i).
Proof. unfold Model.stop_onwait. qtac. Qed.
Lemma qA_signal_process i sig ok : quiet obsA (Model.signal_process U pconfs i sig ok).
Proof. unfold Model.signal_process. qtac. Qed.
Hint Resolve qA_stop_all qA_start_process qA_stop_process qA_start_onwait qA_stop_onwait qA_signal_process : quietdb.
Lemma qA_call_one k wait i : quiet obsA (Model.call_one U pconfs k wait i).
Proof. destruct k; cbn; qtac. Qed.
Lemma qA_poll_one k i : quiet obsA (Model.poll_one U pconfs k i).
Proof. destruct k; cbn; qtac. Qed.
Hint Resolve qA_call_one qA_poll_one : quietdb.
Lemma qA_all_first k wait l : forall cbs res, quiet obsA (Model.all_first U pconfs k wait l cbs res).
Proof. induction l as [|x l IH]; intros; cbn; qtac. Qed.
Lemma qA_all_poll k l : forall cbs res, quiet obsA (Model.all_poll U pconfs k l cbs res).
Proof. induction l as [|x l IH]; intros; cbn; qtac. Qed.
Hint Resolve qA_all_first qA_all_poll : quietdb.
Lemma qA_poll_deferred d : quiet obsA (Model.poll_deferred U pconfs d).
Proof. destruct d; cbn; qtac. Qed.
Hint Resolve qA_poll_deferred : quietdb.
Lemma qA_poll_pending l : forall keep, quiet obsA (Model.poll_pending U pconfs l keep).
Proof. induction l as [|x l IH]; intros; cbn; qtac. Qed.
Lemma qA_defer_now d : quiet obsA (Model.defer_now U pconfs d).
Proof. unfold Model.defer_now, add_pending. qtac. Qed.
Hint Resolve qA_poll_pending qA_defer_now : quietdb.
Lemma qA_do_rpc req r : quiet obsA (Model.do_rpc U pconfs gconfs req r).
Proof. unfold Model.do_rpc. destruct r; qtac. Qed.
Lemma qA_child_dies k s : quiet obsA (child_dies k s).
Proof. unfold child_dies. qtac. Qed.
Hint Resolve qA_do_rpc qA_child_dies : quietdb.
Lemma qA_do_act a : quiet obsA (Model.do_act U pconfs gconfs a).
Proof. destruct a; cbn; qtac. Qed.
Lemma qA_handle_signal : quiet obsA handle_signal.
Proof. unfold handle_signal. qtac. Qed.
Lemma qA_phase2 : quiet obsA (Model.phase2 gconfs).
Proof. unfold Model.phase2. qtac. Qed.
Hint Resolve qA_do_act qA_handle_signal qA_phase2 : quietdb.

Lemma pO_loop_head : presG SO (Model.loop_head U pconfs gconfs).
Proof.
  unfold Model.loop_head. apply presG_getw_at. intros w H.
  destruct (mood w <? 1); [|exact H].
  apply presG_bind_at.
  - destruct (stopping w) eqn:Es; [exact H|].
    unfold bind, modw, emit. cbn. unfold SO in *. cbn. rewrite Es in H. rewrite H. reflexivity.
  - intros _. otac.
Qed.
Hint Resolve pO_loop_head : presodb.

Lemma pO_do_pass o : presG SO (Model.do_pass U pconfs gconfs o).
Proof. unfold Model.do_pass, transition_group, reap_all. otac. Qed.

Theorem stopping_once_run ops :
  SO (Model.run U pconfs gconfs ops).
Proof.
  unfold Model.run. assert (H0 : SO world0) by reflexivity. revert H0. generalize world0.
  induction ops as [|o ops IH]; intros w H; cbn; [exact H|].
  apply IH. unfold Model.step. destruct (crashed w || exited w); [exact H | apply pO_do_pass; exact H].
Qed.

(* ---------- process-control requests are refused while shutting down *)
Definition control_rpc (r : rpc) : bool := true.

Lemma guard_true (w : world) {A} (a b : A) : mood w < 1 -> (if mood w <? 1 then a else b) = a.
Proof. intros H. replace (mood w <? 1) with true by lia. reflexivity. Qed.

Lemma start_refused i wait w : mood w < 1 -> Model.start_process U pconfs i wait w = (Some (CDone F_SHUTDOWN_STATE), w).
Proof. intros H. unfold Model.start_process. unfold bind at 1. unfold getw at 1. cbv beta. rewrite (guard_true w _ _ H). reflexivity. Qed.
Lemma stop_refused i wait w : mood w < 1 -> Model.stop_process U pconfs i wait w = (Some (CDone F_SHUTDOWN_STATE), w).
Proof. intros H. unfold Model.stop_process. unfold bind at 1. unfold getw at 1. cbv beta. rewrite (guard_true w _ _ H). reflexivity. Qed.
Lemma signal_refused i sig ok w : mood w < 1 -> Model.signal_process U pconfs i sig ok w = (Some (CDone F_SHUTDOWN_STATE), w).
Proof. intros H. unfold Model.signal_process. unfold bind at 1. unfold getw at 1. cbv beta. rewrite (guard_true w _ _ H). reflexivity. Qed.

Theorem rpc_refused req r w :
  mood w < 1 ->
  Model.do_rpc U pconfs gconfs req r w = (Some tt, set_out (EAns req F_SHUTDOWN_STATE :: out w) w).
Proof.
  intros Hm. unfold Model.do_rpc. unfold bind at 1. unfold getw at 1. cbv beta.
  destruct r.
  - unfold bind at 1. rewrite (start_refused _ _ _ Hm). reflexivity.
  - unfold bind at 1. rewrite (stop_refused _ _ _ Hm). reflexivity.
  - unfold bind at 1. rewrite (signal_refused _ _ _ _ Hm). reflexivity.
  - rewrite (guard_true w _ _ Hm). reflexivity.
  - rewrite (guard_true w _ _ Hm). reflexivity.
  - rewrite (guard_true w _ _ Hm). reflexivity.
  - rewrite (guard_true w _ _ Hm). reflexivity.
  - rewrite (guard_true w _ _ Hm). reflexivity.
  - rewrite (guard_true w _ _ Hm). reflexivity.
Qed.

End WithConfig.
