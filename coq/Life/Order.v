(* C05, ordering part: for every configuration, script and oracle,

   (a) `stop_groups` is empty until the shutdown is announced, is then always a
       prefix of `sorted_groups` (the LAST element is the group being stopped),
       only ever loses elements at the end, and every group already removed has
       all of its processes in a stopped state (stop_groups_prefix,
       stop_groups_shrink);
   (b) trace level (shutdown_order): after the SUPERVISOR_STATE_CHANGE_STOPPING
       announcement `ESup 2`, every PROCESS_STATE notification that enters
       STOPPING concerns a process of a group g such that, at that very moment
       (judged on the trace alone, by replaying the notifications before it),
       every process of every group that comes after g in `sorted_groups`
       (= the groups that are stopped before g) is in a stopped state
       (STOPPED / EXITED / FATAL / UNKNOWN).  In the model the only signals
       sent while shutting down are the stop signal sent by `kill` on entering
       STOPPING (covered by this statement) and the SIGKILL escalation to a
       process that already is in STOPPING;
   (c) the loop exits only when every process of every group is in a stopped
       state (exit_all_stopped), hence has no pid unless it is UNKNOWN
       (exit_no_pid).

   Method: a partial-correctness triple over the state+crash monad (`tri`, a
   crashed computation satisfies every postcondition; runs never crash by
   InvProofs.do_pass_ipre), two regimes of one invariant (OS: not stopping yet;
   OB c sg0 fz: stopping, c = Some (r, g) when stop_groups = r ++ [g] and g is
   being stopped by stop_all, sg0 an earlier value of stop_groups, fz a set of
   processes known to be stopped), and a relation `ext w w'` ("w' differs from
   w only where the invariant does not look") under which most of the model is
   handled wholesale (`calm`).  At boundaries: BI w = (OS w and mood >= 1) or
   OBb (OB and some process is unstopped) or FIN (exited, nothing unstopped).

   Also exported for Liveness.v: BI_mood (mood < 1 at a boundary implies the
   shutdown is announced), stopped_absorbing_step (after the announcement a
   stopped process stays stopped), shrink_step, pop_step (a last group whose
   processes are all stopped is removed by the next pass). *)
From Coq Require Import ZArith List Bool Lia Arith ZifyBool.
Import ListNotations.
Require Import SV.Life.Model SV.Life.Inv SV.Life.ProcLemmas SV.Life.Trace SV.Life.Quiet
               SV.Life.InvProofs SV.Life.InvRun.
Open Scope Z_scope.

Local Arguments Model.change_state : simpl never.

(* ---------- partial-correctness triples; a crash satisfies everything *)
Definition tri {A} (P : world -> Prop) (m : Model.M A) (Q : A -> world -> Prop) : Prop :=
  forall w, P w -> match m w with (Some a, w') => Q a w' | (None, _) => True end.
Definition inv {A} (I : world -> Prop) (m : Model.M A) : Prop := tri I m (fun _ => I).

Lemma tri_ret {A} (P : world -> Prop) (a : A) (Q : A -> world -> Prop) :
  (forall w, P w -> Q a w) -> tri P (ret a) Q.
Proof. intros H w Hw. cbn. auto. Qed.
Lemma tri_bind {A B} (P : world -> Prop) (m : Model.M A) (k : A -> Model.M B) R Q :
  tri P m R -> (forall a, tri (R a) (k a) Q) -> tri P (bind m k) Q.
Proof.
  intros Hm Hk w Hw. specialize (Hm w Hw). unfold bind. destruct (m w) as [[a|] w1]; [|exact Logic.I].
  apply Hk. exact Hm.
Qed.
Lemma tri_conseq {A} (P P' : world -> Prop) (m : Model.M A) (Q Q' : A -> world -> Prop) :
  tri P' m Q' -> (forall w, P w -> P' w) -> (forall a w, Q' a w -> Q a w) -> tri P m Q.
Proof. intros H HP HQ w Hw. specialize (H w (HP w Hw)). destruct (m w) as [[a|] w1]; auto. Qed.
Lemma tri_getw {B} (P : world -> Prop) (k : world -> Model.M B) Q :
  (forall w0, P w0 -> tri (fun w => w = w0) (k w0) Q) -> tri P (bind getw k) Q.
Proof. intros H w Hw. unfold bind, getw. apply (H w Hw w eq_refl). Qed.
Lemma tri_gets {B} (P : world -> Prop) i (k : pstate -> Model.M B) Q :
  (forall s, tri (fun w => P w /\ sts w i = s) (k s) Q) -> tri P (bind (gets i) k) Q.
Proof. intros H w Hw. unfold bind, gets. apply (H (sts w i) w). auto. Qed.
Lemma tri_getp {B} (P : world -> Prop) i (k : proc -> Model.M B) Q :
  (forall p, tri (fun w => P w /\ procs w i = p) (k p) Q) -> tri P (bind (getp i) k) Q.
Proof. intros H w Hw. unfold bind, getp. apply (H (procs w i) w). auto. Qed.
Lemma tri_modw (P : world -> Prop) (g : world -> world) (Q : unit -> world -> Prop) :
  (forall w, P w -> Q tt (g w)) -> tri P (modw g) Q.
Proof. intros H w Hw. cbn. auto. Qed.
Lemma tri_pre_false {A} (m : Model.M A) Q : tri (fun _ => False) m Q.
Proof. intros w []. Qed.
Lemma tri_pull {A} (F : Prop) (P : world -> Prop) (m : Model.M A) Q : (F -> tri P m Q) -> tri (fun w => F /\ P w) m Q.
Proof. intros H w [HF HP]. apply H; assumption. Qed.

Lemma inv_ret {A} (I : world -> Prop) (a : A) : inv I (ret a).
Proof. apply tri_ret. auto. Qed.
Lemma inv_bind {A B} (I : world -> Prop) (m : Model.M A) (k : A -> Model.M B) :
  inv I m -> (forall a, inv I (k a)) -> inv I (bind m k).
Proof. intros Hm Hk. eapply tri_bind; [exact Hm | exact Hk]. Qed.
Lemma inv_getw {B} (I : world -> Prop) (k : world -> Model.M B) : (forall w0, I w0 -> inv I (k w0)) -> inv I (bind getw k).
Proof. intros H w Hw. unfold bind, getw. apply (H w Hw w Hw). Qed.
Lemma inv_gets {B} (I : world -> Prop) i (k : pstate -> Model.M B) : (forall s, inv I (k s)) -> inv I (bind (gets i) k).
Proof. intros H w Hw. unfold bind, gets. apply H. exact Hw. Qed.
Lemma inv_getp {B} (I : world -> Prop) i (k : proc -> Model.M B) : (forall p, inv I (k p)) -> inv I (bind (getp i) k).
Proof. intros H w Hw. unfold bind, getp. apply H. exact Hw. Qed.
Lemma inv_crash {A} (I : world -> Prop) site : inv I (@crash A site).
Proof. intros w Hw. exact Logic.I. Qed.
Lemma inv_mapM_in {A} (I : world -> Prop) (f : A -> Model.M unit) (l : list A) : (forall x, In x l -> inv I (f x)) -> inv I (mapM_ f l).
Proof.
  induction l as [|x l IH]; intros H; cbn [mapM_]; [apply inv_ret|].
  apply inv_bind; [apply H; left; reflexivity | intros _; apply IH; intros y Hy; apply H; right; exact Hy].
Qed.
Lemma inv_mapM {A} (I : world -> Prop) (f : A -> Model.M unit) (l : list A) : (forall x, inv I (f x)) -> inv I (mapM_ f l).
Proof. intros H. apply inv_mapM_in. auto. Qed.
Lemma inv_weaken {A} (I J : world -> Prop) (m : Model.M A) :
  inv J m -> (forall w, I w -> J w) -> (forall w, J w -> I w) -> inv I m.
Proof. intros H H1 H2. eapply tri_conseq; [exact H | exact H1 | intros a w; apply H2]. Qed.
Lemma inv_or {A} (I J : world -> Prop) (m : Model.M A) : inv I m -> inv J m -> inv (fun w => I w \/ J w) m.
Proof.
  intros HI HJ w [Hw|Hw]; [specialize (HI w Hw) | specialize (HJ w Hw)]; destruct (m w) as [[a|] w1]; auto.
Qed.

(* ---------- worlds that differ only where the ordering invariant does not look:
   same states, same shutdown bookkeeping, the trace extended by effects that
   are neither PROCESS_STATE nor SUPERVISOR_STATE notifications *)
Definition plain (e : effect) : Prop :=
  match e with EState _ _ _ _ _ | ESup _ => False | _ => True end.

Record ext (w w' : world) : Prop := mkExt {
  x_out : exists es, out w' = es ++ out w /\ Forall plain es;
  x_sts : sts w' = sts w;
  x_stopping : stopping w' = stopping w;
  x_sg : stop_groups w' = stop_groups w;
  x_mood : mood w' = mood w;
  x_exited : exited w' = exited w }.

Lemma ext_refl w : ext w w.
Proof. constructor; auto. exists []. split; [reflexivity | constructor]. Qed.
Lemma ext_trans a b c : ext a b -> ext b c -> ext a c.
Proof.
  intros [[e1 [E1 F1]] ? ? ? ? ?] [[e2 [E2 F2]] ? ? ? ? ?]. constructor; try congruence.
  exists (e2 ++ e1). split; [rewrite E2, E1, app_assoc; reflexivity | apply Forall_app; auto].
Qed.

Definition calm {A} (m : Model.M A) : Prop := forall w, ext w (snd (m w)).
Definition respects (I : world -> Prop) : Prop := forall w w', ext w w' -> I w -> I w'.

Lemma calm_ret {A} (a : A) : calm (ret a).
Proof. intros w. apply ext_refl. Qed.
Lemma calm_bind {A B} (m : Model.M A) (k : A -> Model.M B) : calm m -> (forall a, calm (k a)) -> calm (bind m k).
Proof.
  intros Hm Hk w. unfold bind. specialize (Hm w). destruct (m w) as [[a|] w1]; cbn in *; [|exact Hm].
  eapply ext_trans; [exact Hm | apply Hk].
Qed.
Lemma calm_getw {B} (k : world -> Model.M B) : (forall w0, calm (k w0)) -> calm (bind getw k).
Proof. intros H w. unfold bind, getw. apply H. Qed.
Lemma calm_gets {B} i (k : pstate -> Model.M B) : (forall s, calm (k s)) -> calm (bind (gets i) k).
Proof. intros H w. unfold bind, gets. apply H. Qed.
Lemma calm_getp {B} i (k : proc -> Model.M B) : (forall p, calm (k p)) -> calm (bind (getp i) k).
Proof. intros H w. unfold bind, getp. apply H. Qed.
Lemma calm_modw (g : world -> world) : (forall w, ext w (g w)) -> calm (modw g).
Proof. intros H w. apply H. Qed.
Lemma calm_emit e : plain e -> calm (emit e).
Proof.
  intros He w. unfold emit. cbn. constructor; cbn; auto. exists [e]. split; [reflexivity | repeat constructor; exact He].
Qed.
Lemma calm_crash {A} site : calm (@crash A site).
Proof.
  intros w. unfold crash. cbn. constructor; cbn; auto. exists [ECrash site]. split; [reflexivity | repeat constructor].
Qed.
Lemma calm_mapM {A} (f : A -> Model.M unit) l : (forall x, calm (f x)) -> calm (mapM_ f l).
Proof.
  intros H. induction l as [|x l IH]; cbn [mapM_]; [apply calm_ret | apply calm_bind; [apply H | intros _; exact IH]].
Qed.
Lemma inv_calm {A} (I : world -> Prop) (m : Model.M A) : respects I -> calm m -> inv I m.
Proof. intros HR HC w Hw. specialize (HC w). destruct (m w) as [[a|] w1]; [|exact Logic.I]. exact (HR _ _ HC Hw). Qed.

Ltac ext_prim :=
  let w := fresh "w" in
  intros w; repeat match goal with |- context [if ?c then _ else _] => destruct c end;
  first [ apply ext_refl
        | constructor; cbn; auto; first [ exists []; split; [reflexivity | constructor]
                                        | eexists [_]; split; [reflexivity | repeat constructor] ] ].

Ltac ctac :=
  repeat match goal with
    | |- calm (ret _) => apply calm_ret
    | |- calm (bind getw _) => apply calm_getw; intros ?w0
    | |- calm (bind (gets _) _) => apply calm_gets; intros ?s
    | |- calm (bind (getp _) _) => apply calm_getp; intros ?p
    | |- calm (setp _ _) => unfold setp
    | |- calm (modp _ _) => unfold modp
    | |- calm (assert_in _ _ _) => unfold assert_in
    | |- calm (k_kill _ _) => unfold k_kill
    | |- calm (modw _) => apply calm_modw; ext_prim
    | |- calm (emit _) => apply calm_emit; exact Logic.I
    | |- calm (crash _) => apply calm_crash
    | |- calm (mapM_ _ _) => apply calm_mapM; intros
    | |- calm (if ?c then _ else _) => destruct c
    | |- calm (match ?x with _ => _ end) => destruct x
    | |- calm (bind _ _) => apply calm_bind; [ | intros ? ]
    end.

Lemma calm_k_kill t sg : calm (k_kill t sg).
Proof. unfold k_kill. ctac. Qed.
Lemma calm_setp i p : calm (setp i p).
Proof. ctac. Qed.
Lemma calm_modp i f : calm (modp i f).
Proof. ctac. Qed.
Lemma calm_assert i site ok : calm (assert_in i site ok).
Proof. ctac. Qed.
Lemma calm_child_dies k st : calm (child_dies k st).
Proof. unfold child_dies. ctac. Qed.

Lemma cs_cases U i new e w :
  (sts w i = new /\ Model.change_state U i new e w = (Some tt, w)) \/
  (sts w i <> new /\ exists w' x,
     Model.change_state U i new e w = (Some tt, w') /\
     out w' = EState i (sts w i) new x e :: out w /\ sts w' = upd (sts w) i new /\
     stopping w' = stopping w /\ stop_groups w' = stop_groups w /\ mood w' = mood w /\ exited w' = exited w).
Proof.
  unfold Model.change_state, bind, gets, getw, getp, setp, modw, emit, ret.
  destruct (pstate_eqb new (sts w i)) eqn:E.
  - left. apply pstate_eqb_eq in E. auto.
  - right. apply pstate_eqb_neq in E. split; [congruence|]. cbn. eexists _, _. split; [reflexivity|].
    cbn. repeat split; reflexivity.
Qed.

Section WithConfig.
Variable U : Z.
Variable pconfs : list pconf.
Variable gconfs : list gconf.

Notation gc := (Model.gc gconfs).
Notation sorted_groups := (Model.sorted_groups gconfs).
Notation step := (Model.step U pconfs gconfs).
Notation run := (Model.run U pconfs gconfs).

(* replaying the notifications gives the reported states (second half of Trace.TI) *)
Definition TS (w : world) : Prop := forall i, last_state (out w) i = sts w i.

(* every process of every group of `done` is in a stopped state *)
Definition done_stopped (done : list nat) (st : nat -> pstate) : Prop :=
  forall g j, In g done -> In j (g_procs (gc g)) -> in_stopped_states (st j) = true.

(* process i may be sent its stop signal, judged on the trace r before it: it belongs to a
   group g, and all groups after g in sorted_groups (stopped before g) are entirely stopped *)
Definition grp_ok (r : list effect) (i : nat) : Prop :=
  exists rest g done, sorted_groups = rest ++ g :: done /\ In i (g_procs (gc g)) /\
                      done_stopped done (last_state r).

(* the monitor (traces are newest first) *)
Fixpoint ord_ok (o : list effect) : Prop :=
  match o with
  | [] => True
  | EState i f t _ _ :: r => (t = STOPPING -> In (ESup 2) r -> grp_ok r i) /\ ord_ok r
  | _ :: r => ord_ok r
  end.

Lemma last_state_plain es o i : Forall plain es -> last_state (es ++ o) i = last_state o i.
Proof.
  induction 1 as [|e es He _ IH]; cbn; [reflexivity|]. destruct e; cbn in He; try contradiction; exact IH.
Qed.
Lemma ord_ok_plain es o : Forall plain es -> ord_ok (es ++ o) <-> ord_ok o.
Proof.
  induction 1 as [|e es He _ IH]; cbn; [tauto|]. destruct e; cbn in He; try contradiction; exact IH.
Qed.
Lemma sup_plain es o : Forall plain es -> In (ESup 2) (es ++ o) -> In (ESup 2) o.
Proof.
  intros HF Hin. apply in_app_or in Hin. destruct Hin as [Hin|Hin]; [|exact Hin].
  rewrite Forall_forall in HF. destruct (HF _ Hin).
Qed.

(* regime A: the shutdown has not been announced *)
Definition OS (w : world) : Prop :=
  TS w /\ ord_ok (out w) /\ stopping w = false /\ ~ In (ESup 2) (out w) /\ stop_groups w = [] /\
  exited w = false.

(* regime B: announced.  sg0 is an earlier value of stop_groups, c the group being stopped *)
Definition Core (sg0 : list nat) (fz : nat -> Prop) (w : world) : Prop :=
  TS w /\ ord_ok (out w) /\ stopping w = true /\ mood w < 1 /\
  (exists done, sorted_groups = stop_groups w ++ done /\ done_stopped done (sts w)) /\
  (exists popped, sg0 = stop_groups w ++ popped) /\
  (forall j, fz j -> in_stopped_states (sts w j) = true).
Definition nofz : nat -> Prop := fun _ => False.
Definition cur (c : option (list nat * nat)) (w : world) : Prop :=
  match c with Some (r, g) => stop_groups w = r ++ [g] | None => True end.
Definition allowed (c : option (list nat * nat)) (i : nat) : Prop :=
  match c with Some (_, g) => In i (g_procs (gc g)) | None => False end.
Definition OB (c : option (list nat * nat)) (sg0 : list nat) (fz : nat -> Prop) (w : world) : Prop :=
  Core sg0 fz w /\ exited w = false /\ cur c w.
Definition FIN (sg0 : list nat) (fz : nat -> Prop) (w : world) : Prop :=
  Core sg0 fz w /\ exited w = true /\ any_unstopped gconfs w = false.

Lemma TS_ext w w' : ext w w' -> TS w -> TS w'.
Proof. intros [[es [E F]] Es _ _ _ _] H i. rewrite E, Es, last_state_plain by exact F. apply H. Qed.

Lemma OS_resp : respects OS.
Proof.
  intros w w' X (H1 & H2 & H3 & H4 & H5 & H6). pose proof X as [[es [E F]] Es E1 E2 E3 E4].
  repeat split; try congruence.
  - eapply TS_ext; eassumption.
  - rewrite E. apply ord_ok_plain; assumption.
  - rewrite E. intros Hin. apply H4. eapply sup_plain; eassumption.
Qed.

Lemma Core_resp sg0 fz : respects (Core sg0 fz).
Proof.
  intros w w' X (H1 & H2 & H3 & H4 & H5 & H6 & H7). pose proof X as [[es [E F]] Es E1 E2 E3 E4].
  repeat split; try congruence.
  - eapply TS_ext; eassumption.
  - rewrite E. apply ord_ok_plain; assumption.
  - rewrite E2, Es. exact H5.
  - rewrite E2. exact H6.
  - rewrite Es. exact H7.
Qed.
Lemma OB_resp c sg0 fz : respects (OB c sg0 fz).
Proof.
  intros w w' X (H1 & H2 & H3). split; [eapply Core_resp; eassumption|]. destruct X. split; [congruence|].
  destruct c as [[r g]|]; cbn in *; [rewrite x_sg0; exact H3 | exact Logic.I].
Qed.

(* ---------- the only writer of the state map *)
Lemma TS_cs i old new x e (o : list effect) (st : nat -> pstate) :
  (forall j, last_state o j = st j) ->
  forall j, last_state (EState i old new x e :: o) j = upd st i new j.
Proof.
  intros H j. cbn. unfold upd. destruct (Nat.eqb_spec i j) as [->|E].
  - rewrite Nat.eqb_refl. reflexivity.
  - destruct (Nat.eqb_spec j i); [congruence | apply H].
Qed.

Lemma OS_cs i new e : inv OS (Model.change_state U i new e).
Proof.
  intros w (H1 & H2 & H3 & H4 & H5 & H6).
  destruct (cs_cases U i new e w) as [[_ ->] | [_ (w' & x & -> & Eo & Es & E1 & E2 & E3 & E4)]].
  - repeat split; assumption.
  - repeat split; try congruence.
    + intros j. rewrite Eo, Es. apply TS_cs. exact H1.
    + rewrite Eo. cbn. split; [intros _ Hin; contradiction | exact H2].
    + rewrite Eo. intros [Hin|Hin]; [discriminate | contradiction].
Qed.

Lemma OB_cs c sg0 fz i new e :
  tri (fun w => OB c sg0 fz w /\ (in_stopped_states (sts w i) = true -> in_stopped_states new = true) /\
                (new = STOPPING -> sts w i = STOPPING \/ allowed c i))
      (Model.change_state U i new e) (fun _ => OB c sg0 fz).
Proof.
  intros w (((H1 & H2 & H3 & H4 & (done & Hd1 & Hd2) & H6 & Hfz) & H7 & H8) & Hst & Hal).
  destruct (cs_cases U i new e w) as [[_ ->] | [Hne (w' & x & -> & Eo & Es & E1 & E2 & E3 & E4)]].
  - repeat split; try assumption. exists done. auto.
  - split; [|split; [congruence | destruct c as [[r0 g0]|]; cbn in *; [rewrite E2; exact H8 | exact Logic.I]]].
    repeat split; try congruence.
    + intros j. rewrite Eo, Es. apply TS_cs. exact H1.
    + rewrite Eo. cbn. split; [|exact H2]. intros -> _.
      destruct (Hal eq_refl) as [Hs|Ha]; [contradiction|].
      destruct c as [[r g]|]; [|destruct Ha]. cbn in Ha, H8. pose proof H8 as Er.
      exists r, g, done. split; [rewrite Hd1, Er, <- app_assoc; reflexivity | split; [exact Ha|]].
      intros g' j Hg Hj. rewrite H1. eapply Hd2; eassumption.
    + exists done. split; [rewrite E2; exact Hd1|]. rewrite Es. intros g j Hg Hj. unfold upd.
      destruct (Nat.eqb_spec j i) as [->|Ej]; [apply Hst|]; eapply Hd2; eassumption.
    + rewrite E2. exact H6.
    + rewrite Es. intros j Hj. unfold upd. destruct (Nat.eqb_spec j i) as [->|Ej]; [apply Hst|]; apply Hfz; exact Hj.
Qed.

Lemma inv_move (I : world -> Prop) i site ok f new e :
  respects I ->
  tri (fun w => I w /\ ok (sts w i) = true) (Model.change_state U i new e) (fun _ => I) ->
  inv I (Model.move U i site ok f new e).
Proof.
  intros HR H w Hw. unfold Model.move, assert_in, modp, bind, gets, getp, setp, modw, ret. cbn.
  destruct (ok (sts w i)) eqn:Eo; cbn; [|exact Logic.I].
  apply (H (set_procs (upd (procs w) i (f (procs w i))) w)). split; [|exact Eo].
  eapply HR; [|exact Hw]. constructor; cbn; auto. exists []. split; [reflexivity | constructor].
Qed.

Lemma OS_move i site ok f new e : inv OS (Model.move U i site ok f new e).
Proof.
  apply inv_move; [exact OS_resp|]. eapply tri_conseq; [apply OS_cs | intros w [H _]; exact H | auto].
Qed.

Lemma OB_move c sg0 fz i site ok f new e :
  (forall s, ok s = true -> in_stopped_states s = true -> in_stopped_states new = true) ->
  (new = STOPPING -> allowed c i) ->
  inv (OB c sg0 fz) (Model.move U i site ok f new e).
Proof.
  intros H1 H2. apply inv_move; [apply OB_resp|]. eapply tri_conseq; [apply (OB_cs c sg0 fz) | | auto].
  intros w [Hw Ho]. split; [exact Hw | split; [apply H1; exact Ho | intros E; right; auto]].
Qed.

Lemma OB_cs_stopped c sg0 fz i new e :
  in_stopped_states new = true -> inv (OB c sg0 fz) (Model.change_state U i new e).
Proof.
  intros H. eapply tri_conseq; [apply (OB_cs c sg0 fz) | | auto]. intros w Hw. split; [exact Hw|].
  split; [auto | intros ->; discriminate H].
Qed.

Lemma OB_mood c sg0 fz w : OB c sg0 fz w -> mood w < 1.
Proof. intros ((_ & _ & _ & H & _) & _). exact H. Qed.

Lemma OS_set_mood m : inv OS (modw (set_mood m)).
Proof. intros w H. exact H. Qed.
Lemma OB_set_mood c sg0 fz m : m < 1 -> inv (OB c sg0 fz) (modw (set_mood m)).
Proof.
  intros Hm w ((H1 & H2 & H3 & H4 & H5 & H6 & Hfz) & H7 & H8). cbn.
  split; [repeat split; assumption | split; [exact H7 | destruct c as [[r g]|]; exact H8]].
Qed.

Create HintDb orddb.
Hint Resolve OS_resp OB_resp : orddb.

Ltac side_st := let s := fresh "s" in intros s; destruct s; cbn; intros; try discriminate; auto.

Ltac icalm := apply inv_calm; [solve [auto with orddb] | solve [ctac]].

Ltac itac :=
  repeat match goal with
    | |- inv _ (ret _) => apply inv_ret
    | |- inv _ (bind getw _) => apply inv_getw; intros ?w0 ?Hw0
    | |- inv _ (bind (gets _) _) => apply inv_gets; intros ?s
    | |- inv _ (bind (getp _) _) => apply inv_getp; intros ?p
    | |- inv _ (crash _) => apply inv_crash
    | |- inv _ (setp _ _) => icalm
    | |- inv _ (modp _ _) => icalm
    | |- inv _ (assert_in _ _ _) => icalm
    | |- inv _ (emit _) => icalm
    | |- inv _ (k_kill _ _) => icalm
    | |- inv _ (child_dies _ _) => unfold child_dies; icalm
    | |- inv _ (Model.rollback_adjust _ _ _ _) => unfold Model.rollback_adjust; icalm
    | |- inv OS (modw (set_mood _)) => apply OS_set_mood
    | |- inv (OB _ _ _) (modw (set_mood _)) => apply OB_set_mood; lia
    | |- inv _ (modw _) => icalm
    | |- inv OS (Model.move _ _ _ _ _ _ _) => apply OS_move
    | |- inv OS (Model.change_state _ _ _ _) => apply OS_cs
    | |- inv (OB _ _ _) (Model.move _ _ _ _ _ _ _) => apply OB_move; [side_st | discriminate]
    | |- inv (OB _ _ _) (Model.change_state _ _ UNKNOWN _) => apply OB_cs_stopped; reflexivity
    | |- inv _ (Model.kill_mark _ _ _ _) => unfold Model.kill_mark
    | |- inv _ (mapM_ _ _) => apply inv_mapM; intros
    | Hm : OB _ _ _ ?w0 |- inv _ (if mood ?w0 >? 0 then _ else _) =>
        replace (mood w0 >? 0) with false by (pose proof (OB_mood _ _ _ _ Hm); lia)
    | Hm : OB _ _ _ ?w0 |- inv _ (if mood ?w0 <? 1 then _ else _) =>
        replace (mood w0 <? 1) with true by (pose proof (OB_mood _ _ _ _ Hm); lia)
    | |- inv _ _ => solve [eauto with orddb]
    | |- inv _ (if ?c then _ else _) => destruct c
    | |- inv _ (match ?x with _ => _ end) => destruct x
    | |- inv _ (bind _ _) => apply inv_bind; [ | intros ? ]
    end.

(* ---------- regime A: everything but loop_head keeps OS *)
Lemma A_spawn i : inv OS (Model.spawn U pconfs i).
Proof. unfold Model.spawn. itac. Qed.
Lemma A_give_up i : inv OS (Model.give_up U i).
Proof. unfold Model.give_up. itac. Qed.
Lemma A_kill i sig : inv OS (Model.kill U pconfs i sig).
Proof. unfold Model.kill. itac. Qed.
Hint Resolve A_spawn A_give_up A_kill : orddb.
Lemma A_stop i : inv OS (Model.stop U pconfs i).
Proof. unfold Model.stop. itac. Qed.
Lemma A_signal i sig : inv OS (Model.signal U i sig).
Proof. unfold Model.signal. itac. Qed.
Lemma A_finish i s : inv OS (Model.finish U pconfs i s).
Proof. unfold Model.finish. itac. Qed.
Hint Resolve A_stop A_signal A_finish : orddb.
Lemma A_transition i : inv OS (Model.transition U pconfs i).
Proof. unfold Model.transition. itac. Qed.
Lemma A_reap fuel : inv OS (Model.reap U pconfs fuel).
Proof. induction fuel as [|f IH]; cbn [Model.reap]; itac. Qed.
Hint Resolve A_transition A_reap : orddb.
Lemma A_handle_signal : inv OS handle_signal.
Proof. unfold handle_signal. itac. Qed.
Lemma A_start_process i wait : inv OS (Model.start_process U pconfs i wait).
Proof. unfold Model.start_process, reap_all. itac. Qed.
Lemma A_start_onwait i : inv OS (start_onwait i).
Proof. unfold start_onwait. itac. Qed.
Lemma A_stop_process i wait : inv OS (Model.stop_process U pconfs i wait).
Proof. unfold Model.stop_process, reap_all. itac. Qed.
Lemma A_stop_onwait i : inv OS (Model.stop_onwait U pconfs i).
Proof. unfold Model.stop_onwait. itac. Qed.
Lemma A_signal_process i sig ok : inv OS (Model.signal_process U pconfs i sig ok).
Proof. unfold Model.signal_process. itac. Qed.
Hint Resolve A_handle_signal A_start_process A_start_onwait A_stop_process A_stop_onwait A_signal_process : orddb.
Lemma A_call_one k wait i : inv OS (Model.call_one U pconfs k wait i).
Proof. destruct k; cbn [Model.call_one]; itac. Qed.
Lemma A_poll_one k i : inv OS (Model.poll_one U pconfs k i).
Proof. destruct k; cbn [Model.poll_one]; itac. Qed.
Hint Resolve A_call_one A_poll_one : orddb.
Lemma A_all_first k wait l : forall cbs res, inv OS (Model.all_first U pconfs k wait l cbs res).
Proof. induction l as [|x l IH]; intros; cbn [Model.all_first]; itac. Qed.
Lemma A_all_poll k l : forall cbs res, inv OS (Model.all_poll U pconfs k l cbs res).
Proof. induction l as [|x l IH]; intros; cbn [Model.all_poll]; itac. Qed.
Hint Resolve A_all_first A_all_poll : orddb.
Lemma A_poll_deferred d : inv OS (Model.poll_deferred U pconfs d).
Proof. destruct d; cbn [Model.poll_deferred]; itac. Qed.
Hint Resolve A_poll_deferred : orddb.
Lemma A_poll_pending l : forall keep, inv OS (Model.poll_pending U pconfs l keep).
Proof. induction l as [|x l IH]; intros; cbn [Model.poll_pending]; itac. Qed.
Hint Resolve A_poll_pending : orddb.
Lemma A_defer_now d : inv OS (Model.defer_now U pconfs d).
Proof. unfold Model.defer_now, add_pending. itac. Qed.
Hint Resolve A_defer_now : orddb.
Lemma A_do_rpc req r : inv OS (Model.do_rpc U pconfs gconfs req r).
Proof. unfold Model.do_rpc. destruct r; itac. Qed.
Hint Resolve A_do_rpc : orddb.
Lemma A_do_act a : inv OS (Model.do_act U pconfs gconfs a).
Proof. destruct a; cbn [Model.do_act]; itac. Qed.
Hint Resolve A_do_act : orddb.

Lemma A_phase2 : inv OS (Model.phase2 gconfs).
Proof.
  unfold Model.phase2. apply tri_getw. intros w0 H0 w ->.
  destruct (mood w0 <? 1); [|exact H0].
  destruct H0 as (H1 & H2 & H3 & H4 & H5 & H6). rewrite H5. cbn. repeat split; assumption.
Qed.
Hint Resolve A_phase2 : orddb.

(* the part of a pass before loop_head *)
Definition pass_prefix (o : passop) : Model.M unit :=
  bind (modw (set_pass (p_now o) (p_forkq o) (p_killq o))) (fun _ =>
  bind (mapM_ (Model.do_act U pconfs gconfs) (p_acts o)) (fun _ =>
  bind (mapM_ (Model.transition_group U pconfs gconfs) sorted_groups) (fun _ =>
  bind (Model.reap_all U pconfs) (fun _ =>
  bind handle_signal (fun _ => Model.phase2 gconfs))))).

Lemma A_prefix o : inv OS (pass_prefix o).
Proof. unfold pass_prefix, transition_group, reap_all. itac. Qed.

(* ---------- regime B *)
Lemma tri_gets_known {B} (P : world -> Prop) i s0 (k : pstate -> Model.M B) Q :
  (forall w, P w -> sts w i = s0) -> tri P (k s0) Q -> tri P (bind (gets i) k) Q.
Proof. intros Hs H w Hw. unfold bind, gets. rewrite (Hs w Hw). apply H. exact Hw. Qed.
Lemma tri_getp_any {B} (P : world -> Prop) i (k : proc -> Model.M B) Q :
  (forall p, tri P (k p) Q) -> tri P (bind (getp i) k) Q.
Proof. intros H w Hw. unfold bind, getp. apply H. exact Hw. Qed.
Lemma tri_getw_any {B} (P : world -> Prop) (k : world -> Model.M B) Q :
  (forall w0, P w0 -> tri P (k w0) Q) -> tri P (bind getw k) Q.
Proof. intros H w Hw. unfold bind, getw. apply (H w Hw w Hw). Qed.

Lemma inv_pre {A} (I F : world -> Prop) (m : Model.M A) : inv I m -> tri (fun w => I w /\ F w) m (fun _ => I).
Proof. intros H. eapply tri_conseq; [exact H | intros w [Hw _]; exact Hw | auto]. Qed.

Definition OBs c sg0 fz i s (w : world) : Prop := OB c sg0 fz w /\ sts w i = s.
Lemma OBs_resp c sg0 fz i s : respects (OBs c sg0 fz i s).
Proof. intros w w' X [H1 H2]. split; [eapply OB_resp; eassumption | destruct X; congruence]. Qed.
Hint Resolve OBs_resp : orddb.

Ltac itacB :=
  repeat match goal with
    | H : allowed ?c ?i |- inv (OB ?c _ _) (Model.move _ ?i _ _ _ STOPPING _) =>
        apply OB_move; [side_st | intros _; exact H]
    | |- inv _ (if true then _ else _) => cbv iota
    | |- inv _ (if false then _ else _) => cbv iota
    | |- _ => progress itac
    end.

Lemma B_give_up c sg0 fz i : inv (OB c sg0 fz) (Model.give_up U i).
Proof. unfold Model.give_up. itac. Qed.
Hint Resolve B_give_up : orddb.

Lemma B_kill_allowed c sg0 fz i sig : allowed c i -> inv (OB c sg0 fz) (Model.kill U pconfs i sig).
Proof. intros Ha. unfold Model.kill. itacB. Qed.

Lemma B_kill_tail c sg0 fz i (t sig : Z) :
  inv (OB c sg0 fz)
    (bind (Model.kill_mark U i t sig) (fun r =>
       if r =? 2 then bind (modp i (fun p => p_delay (p_killing p false) 0)) (fun _ => ret true) else ret false)).
Proof. itac. Qed.

Lemma B_kill_stopping c sg0 fz i sig :
  tri (OBs c sg0 fz i STOPPING) (Model.kill U pconfs i sig) (fun _ => OB c sg0 fz).
Proof.
  unfold Model.kill. apply tri_getw_any. intros w0 _. apply tri_getp_any. intros p.
  apply (tri_gets_known _ i STOPPING); [intros w [_ H]; exact H|]. cbn [pstate_eqb]. cbv iota.
  destruct (pid p =? 0); [apply tri_ret; intros w [H _]; exact H|].
  eapply tri_bind; [apply (inv_calm (OBs c sg0 fz i STOPPING)); [auto with orddb | ctac]|]. intros ?u; cbv beta.
  eapply tri_bind.
  - apply (inv_move (OBs c sg0 fz i STOPPING)); [auto with orddb|].
    intros w [[Hw Hs] _]. destruct (cs_cases U i STOPPING true w) as [[_ ->] | [Hne _]]; [split; assumption | contradiction].
  - intros ?u; cbv beta. eapply tri_conseq; [apply (B_kill_tail c sg0 fz) | intros w [H _]; exact H | auto].
Qed.

Lemma B_stop c sg0 fz i : allowed c i -> inv (OB c sg0 fz) (Model.stop U pconfs i).
Proof. intros Ha. unfold Model.stop. pose proof (B_kill_allowed c sg0 fz i) as Hk. itac. Qed.

Lemma B_finish c sg0 fz i s : inv (OB c sg0 fz) (Model.finish U pconfs i s).
Proof. unfold Model.finish. itacB. Qed.
Hint Resolve B_finish : orddb.

Lemma B_transition c sg0 fz i : inv (OB c sg0 fz) (Model.transition U pconfs i).
Proof.
  unfold Model.transition. apply inv_getw. intros w0 Hw0. pose proof (OB_mood _ _ _ _ Hw0) as Hm.
  replace (mood w0 >? 0) with false by lia. cbv zeta.
  apply tri_gets. intros state.
  destruct state; cbn [pstate_eqb]; cbv iota;
    try (apply inv_pre; solve [itacB]).
  (* STOPPING: the SIGKILL escalation finds the process in STOPPING, no notification *)
  change (fun w => OB c sg0 fz w /\ sts w i = STOPPING) with (OBs c sg0 fz i STOPPING).
  eapply tri_bind; [apply (inv_calm (OBs c sg0 fz i STOPPING)); [auto with orddb | unfold Model.rollback_adjust; ctac]|].
  intros ?u; cbv beta. apply (tri_bind _ _ _ (fun _ => OBs c sg0 fz i STOPPING)); [apply tri_ret; auto|]. intros ?u; cbv beta.
  apply (tri_bind _ _ _ (fun _ => OBs c sg0 fz i STOPPING)); [apply tri_ret; auto|]. intros ?u; cbv beta.
  apply tri_getp_any. intros p. destruct (kill_due p (now w0)).
  - eapply tri_bind; [apply B_kill_stopping|]. intros b. apply tri_ret. auto.
  - apply tri_ret. intros w [H _]. exact H.
Qed.
Hint Resolve B_transition : orddb.
Lemma B_reap c sg0 fz fuel : inv (OB c sg0 fz) (Model.reap U pconfs fuel).
Proof. induction fuel as [|f IH]; cbn [Model.reap]; itac. Qed.
Hint Resolve B_reap : orddb.

Lemma insert_by_in key x y l : In y (insert_by key x l) -> y = x \/ In y l.
Proof.
  induction l as [|a l IH]; cbn; [intros [H|[]]; auto|].
  destruct (key x <=? key a); cbn; [intros [H|H]; auto|]. intros [H|H]; [auto|]. destruct (IH H); auto.
Qed.
Lemma sort_by_in key y l : In y (sort_by key l) -> In y l.
Proof.
  induction l as [|a l IH]; cbn; [auto|]. intros H. apply insert_by_in in H. destruct H as [->|H]; auto.
Qed.

Lemma B_stop_all sg0 fz r g : inv (OB (Some (r, g)) sg0 fz) (Model.stop_all U pconfs gconfs g).
Proof.
  unfold Model.stop_all. apply inv_mapM_in. intros i Hi. apply in_rev in Hi. apply sort_by_in in Hi.
  assert (Ha : allowed (Some (r, g)) i) by exact Hi.
  pose proof (B_stop (Some (r, g)) sg0 fz i Ha) as Hs. itac.
Qed.

Lemma B_handle_signal c sg0 fz : inv (OB c sg0 fz) handle_signal.
Proof. unfold handle_signal. itac. Qed.
Lemma B_start_process c sg0 fz i wait : inv (OB c sg0 fz) (Model.start_process U pconfs i wait).
Proof. unfold Model.start_process. itac. Qed.
Lemma B_start_onwait c sg0 fz i : inv (OB c sg0 fz) (start_onwait i).
Proof. unfold start_onwait. itac. Qed.
Lemma B_stop_process c sg0 fz i wait : inv (OB c sg0 fz) (Model.stop_process U pconfs i wait).
Proof. unfold Model.stop_process. itac. Qed.
Lemma B_stop_onwait c sg0 fz i : inv (OB c sg0 fz) (Model.stop_onwait U pconfs i).
Proof. unfold Model.stop_onwait. itac. Qed.
Lemma B_signal_process c sg0 fz i sig ok : inv (OB c sg0 fz) (Model.signal_process U pconfs i sig ok).
Proof. unfold Model.signal_process. itac. Qed.
Hint Resolve B_handle_signal B_start_process B_start_onwait B_stop_process B_stop_onwait B_signal_process : orddb.
Lemma B_call_one c sg0 fz k wait i : inv (OB c sg0 fz) (Model.call_one U pconfs k wait i).
Proof. destruct k; cbn [Model.call_one]; itac. Qed.
Lemma B_poll_one c sg0 fz k i : inv (OB c sg0 fz) (Model.poll_one U pconfs k i).
Proof. destruct k; cbn [Model.poll_one]; itac. Qed.
Hint Resolve B_call_one B_poll_one : orddb.
Lemma B_all_first c sg0 fz k wait l : forall cbs res, inv (OB c sg0 fz) (Model.all_first U pconfs k wait l cbs res).
Proof. induction l as [|x l IH]; intros; cbn [Model.all_first]; itac. Qed.
Lemma B_all_poll c sg0 fz k l : forall cbs res, inv (OB c sg0 fz) (Model.all_poll U pconfs k l cbs res).
Proof. induction l as [|x l IH]; intros; cbn [Model.all_poll]; itac. Qed.
Hint Resolve B_all_first B_all_poll : orddb.
Lemma B_poll_deferred c sg0 fz d : inv (OB c sg0 fz) (Model.poll_deferred U pconfs d).
Proof. destruct d; cbn [Model.poll_deferred]; itac. Qed.
Hint Resolve B_poll_deferred : orddb.
Lemma B_poll_pending c sg0 fz l : forall keep, inv (OB c sg0 fz) (Model.poll_pending U pconfs l keep).
Proof. induction l as [|x l IH]; intros; cbn [Model.poll_pending]; itac. Qed.
Hint Resolve B_poll_pending : orddb.
Lemma B_defer_now c sg0 fz d : inv (OB c sg0 fz) (Model.defer_now U pconfs d).
Proof. unfold Model.defer_now, add_pending. itac. Qed.
Hint Resolve B_defer_now : orddb.
Lemma B_do_rpc c sg0 fz req r : inv (OB c sg0 fz) (Model.do_rpc U pconfs gconfs req r).
Proof. unfold Model.do_rpc. destruct r; itac. Qed.
Hint Resolve B_do_rpc : orddb.
Lemma B_do_act c sg0 fz a : inv (OB c sg0 fz) (Model.do_act U pconfs gconfs a).
Proof. destruct a; cbn [Model.do_act]; itac. Qed.
Hint Resolve B_do_act : orddb.

Lemma unstopped_false g w :
  unstopped gconfs g w = false -> forall j, In j (g_procs (gc g)) -> in_stopped_states (sts w j) = true.
Proof.
  unfold unstopped. intros H j Hj. destruct (in_stopped_states (sts w j)) eqn:E; [reflexivity|].
  assert (existsb (fun i => negb (in_stopped_states (sts w i))) (g_procs (gc g)) = true); [|congruence].
  apply existsb_exists. exists j. rewrite E. auto.
Qed.

(* phase 2 removes the last group only when all of its processes are stopped *)
Lemma B_phase2 sg0 fz : inv (OB None sg0 fz) (Model.phase2 gconfs).
Proof.
  unfold Model.phase2. apply tri_getw. intros w0 H0 w ->.
  destruct (mood w0 <? 1); [|exact H0].
  destruct (rev (stop_groups w0)) as [|g r] eqn:Er; [exact H0|].
  destruct (unstopped gconfs g w0) eqn:Eu; [exact H0|]. cbn.
  assert (Esg : stop_groups w0 = rev r ++ [g]) by (rewrite <- (rev_involutive (stop_groups w0)), Er; reflexivity).
  destruct H0 as ((H1 & H2 & H3 & H4 & (done & Hd1 & Hd2) & (popped & H6) & Hfz) & H7 & H8).
  split; [|split; [exact H7 | exact Logic.I]].
  repeat split; try assumption.
  - exists (g :: done). cbn. split; [rewrite Hd1, Esg, <- app_assoc; reflexivity|].
    intros g' j [<-|Hg] Hj; [eapply unstopped_false; eassumption | eapply Hd2; eassumption].
  - exists (g :: popped). cbn. rewrite H6, Esg, <- app_assoc. reflexivity.
Qed.
Hint Resolve B_phase2 : orddb.

Lemma B_prefix sg0 fz o : inv (OB None sg0 fz) (pass_prefix o).
Proof. unfold pass_prefix, transition_group, reap_all. itac. Qed.

(* ---------- loop_head: announcement, stop_all on the last group, exit test *)
Definition loop_tail : Model.M unit :=
  bind getw (fun w =>
  bind (match rev (stop_groups w) with [] => ret tt | g :: _ => Model.stop_all U pconfs gconfs g end) (fun _ =>
  bind getw (fun w => if any_unstopped gconfs w then ret tt else modw set_exited))).

Definition OBb (sg0 : list nat) (fz : nat -> Prop) (w : world) : Prop :=
  OB None sg0 fz w /\ any_unstopped gconfs w = true.

Lemma L_tail sg0 fz : tri (OB None sg0 fz) loop_tail (fun _ w => OBb sg0 fz w \/ FIN sg0 fz w).
Proof.
  unfold loop_tail. apply tri_getw. intros w0 H0.
  apply (tri_bind _ _ _ (fun _ => OB None sg0 fz)).
  - destruct (rev (stop_groups w0)) as [|g r] eqn:Er; [apply tri_ret; intros w ->; exact H0|].
    assert (Esg : stop_groups w0 = rev r ++ [g]) by (rewrite <- (rev_involutive (stop_groups w0)), Er; reflexivity).
    eapply tri_conseq; [apply (B_stop_all sg0 fz (rev r) g) | | ].
    + intros w ->. destruct H0 as (Hc & Hx & _). split; [exact Hc | split; [exact Hx | exact Esg]].
    + intros _ w (Hc & Hx & _). split; [exact Hc | split; [exact Hx | exact Logic.I]].
  - intros _. apply tri_getw. intros w1 H1 w ->.
    destruct (any_unstopped gconfs w1) eqn:Eu; [left; split; [exact H1 | exact Eu]|]. right. cbn.
    destruct H1 as ((H1 & H2 & H3 & H4 & H5 & H6 & Hfz) & H7 & H8).
    split; [|split; [reflexivity | exact Eu]].
    repeat split; assumption.
Qed.

Lemma loop_head_eq w :
  Model.loop_head U pconfs gconfs w =
  if mood w <? 1 then
    bind (if stopping w then ret tt else bind (modw (set_stopping true sorted_groups)) (fun _ => emit (ESup 2)))
         (fun _ => loop_tail) w
  else (Some tt, w).
Proof. unfold Model.loop_head, bind at 1, getw at 1. destruct (mood w <? 1); reflexivity. Qed.

Lemma L_A : tri OS (Model.loop_head U pconfs gconfs)
                (fun _ w => (OS w /\ 1 <= mood w) \/ OBb sorted_groups nofz w \/ FIN sorted_groups nofz w).
Proof.
  intros w H0. rewrite loop_head_eq. destruct (mood w <? 1) eqn:Em; [|left; split; [exact H0 | lia]].
  destruct H0 as (H1 & H2 & H3 & H4 & H5 & H6). rewrite H3.
  assert (HB : OB None sorted_groups nofz (set_out (ESup 2 :: out w) (set_stopping true sorted_groups w))).
  { split; [|split; [exact H6 | exact Logic.I]]. repeat split; cbn; try assumption; try lia.
    - exists []. split; [rewrite app_nil_r; reflexivity | intros g j []].
    - exists []. rewrite app_nil_r. reflexivity.
    - intros j []. }
  unfold bind at 1. unfold bind at 1, modw at 1, emit at 1.
  pose proof (L_tail sorted_groups nofz _ HB) as HT.
  destruct (loop_tail _) as [[a|] w']; [right; exact HT | exact Logic.I].
Qed.

Lemma L_B sg0 fz : tri (OB None sg0 fz) (Model.loop_head U pconfs gconfs) (fun _ w => OBb sg0 fz w \/ FIN sg0 fz w).
Proof.
  intros w H0. rewrite loop_head_eq. pose proof (OB_mood _ _ _ _ H0) as Hm. replace (mood w <? 1) with true by lia.
  pose proof H0 as ((_ & _ & -> & _) & _). unfold bind at 1, ret at 1.
  apply (L_tail sg0 fz _ H0).
Qed.

Ltac fold_inv := match goal with |- tri ?I ?m (fun _ => ?I) => change (inv I m) end.
Ltac pstep I := apply (tri_bind I _ _ (fun _ => I)); [fold_inv; solve [itac] | intros ?u; cbv beta].

Lemma pass_A o : tri OS (Model.do_pass U pconfs gconfs o)
                     (fun _ w => (OS w /\ 1 <= mood w) \/ OBb sorted_groups nofz w \/ FIN sorted_groups nofz w).
Proof. unfold Model.do_pass, transition_group, reap_all. do 6 pstep OS. exact L_A. Qed.

Lemma pass_B sg0 fz o : tri (OB None sg0 fz) (Model.do_pass U pconfs gconfs o) (fun _ w => OBb sg0 fz w \/ FIN sg0 fz w).
Proof. unfold Model.do_pass, transition_group, reap_all. do 6 pstep (OB None sg0 fz). apply L_B. Qed.

(* ---------- boundaries *)
Definition BI (w : world) : Prop := (OS w /\ 1 <= mood w) \/ exists sg0, OBb sg0 nofz w \/ FIN sg0 nofz w.

Lemma K_pass w o : K w -> exists w', Model.do_pass U pconfs gconfs o w = (Some tt, w') /\ K w'.
Proof. intros HK. destruct (do_pass_ipre U pconfs gconfs o w HK Logic.I) as ([] & w' & E & K'). eauto. Qed.

Lemma K_step w o : K w -> K (step w o).
Proof.
  intros HK. unfold Model.step. destruct (crashed w || exited w); [exact HK|].
  destruct (K_pass w o HK) as (w' & -> & K'). exact K'.
Qed.

Lemma tri_pass (P : world -> Prop) Q w o :
  K w -> exited w = false -> P w -> tri P (Model.do_pass U pconfs gconfs o) Q -> Q tt (step w o).
Proof.
  intros HK Hx HP HT. unfold Model.step. rewrite (k_nc w HK), Hx. cbn [orb].
  specialize (HT w HP). destruct (K_pass w o HK) as (w' & E & _). rewrite E in *. exact HT.
Qed.

Lemma step_exited w o : exited w = true -> step w o = w.
Proof. intros H. unfold Model.step. rewrite H, orb_true_r. reflexivity. Qed.

Lemma Core_rebase sg0 fz w : Core sg0 fz w -> Core (stop_groups w) fz w.
Proof.
  intros (H1 & H2 & H3 & H4 & H5 & H6 & H7). repeat split; try assumption. exists []. rewrite app_nil_r. reflexivity.
Qed.

Lemma BI_step w o : K w -> BI w -> BI (step w o).
Proof.
  intros HK [[HA Hm] | (sg0 & [[HB Hu] | HF])].
  - pose proof HA as (_ & _ & _ & _ & _ & Hx).
    destruct (tri_pass _ _ w o HK Hx HA (pass_A o)) as [H | H]; [left; exact H | right; exists sorted_groups; exact H].
  - pose proof HB as (_ & Hx & _).
    pose proof (tri_pass _ _ w o HK Hx HB (pass_B sg0 nofz o)) as H. right. exists sg0. exact H.
  - pose proof HF as (_ & Hx & _). rewrite (step_exited w o Hx). right. exists sg0. right. exact HF.
Qed.

Lemma OS_world0 : OS world0.
Proof. repeat split; cbn; auto. intros [H|[]]. discriminate H. Qed.

Lemma BI_fold ops : forall w, K w -> BI w -> BI (fold_left step ops w).
Proof.
  induction ops as [|o ops IH]; intros w HK HB; cbn [fold_left]; [exact HB|].
  apply IH; [apply K_step; exact HK | apply BI_step; assumption].
Qed.

Theorem order_inv_run ops : BI (run ops).
Proof. apply BI_fold; [apply K_world0 | left; split; [exact OS_world0 | cbn; lia]]. Qed.

Lemma K_run ops : K (run ops).
Proof. apply (track_run U pconfs gconfs ops). Qed.

Lemma unstopped_intro g w :
  (forall j, In j (g_procs (gc g)) -> in_stopped_states (sts w j) = true) -> unstopped gconfs g w = false.
Proof.
  intros H. unfold unstopped. destruct (existsb _ _) eqn:E; [|reflexivity].
  apply existsb_exists in E. destruct E as (j & Hj & Hn). rewrite (H j Hj) in Hn. discriminate Hn.
Qed.

(* at a boundary, a mood below RUNNING means the shutdown has been announced *)
Lemma BI_mood w : BI w -> mood w < 1 -> stopping w = true.
Proof.
  intros [[_ Hm] | (sg0 & [[((_&_&E&_)&_) _] | ((_&_&E&_)&_)])] H; [lia | exact E | exact E].
Qed.

Lemma BI_core w : BI w -> stopping w = true -> Core (stop_groups w) nofz w.
Proof.
  intros [[HA _] | (sg0 & [[HB _] | HF])] Hs.
  - destruct HA as (_ & _ & E & _). congruence.
  - destruct HB as (Hc & _). eapply Core_rebase; exact Hc.
  - destruct HF as (Hc & _). eapply Core_rebase; exact Hc.
Qed.

(* (a) boundary form: empty before the announcement; afterwards a prefix of sorted_groups whose
   complement (the groups already removed) is entirely stopped; and the mood is below RUNNING *)
Theorem stop_groups_prefix ops :
  let w := run ops in
  (stopping w = false -> stop_groups w = []) /\
  (stopping w = true ->
     mood w < 1 /\
     exists done, sorted_groups = stop_groups w ++ done /\
                  forall g, In g done -> unstopped gconfs g w = false).
Proof.
  cbv zeta. pose proof (order_inv_run ops) as HB. split.
  - intros Hs. destruct HB as [[HA _] | (sg0 & [[((_&_&E&_)&_) _] | ((_&_&E&_)&_)])]; [|congruence|congruence].
    destruct HA as (_&_&_&_&E&_). exact E.
  - intros Hs. destruct (BI_core _ HB Hs) as (_ & _ & _ & Hm & (done & Hd1 & Hd2) & _).
    split; [exact Hm|]. exists done. split; [exact Hd1|]. intros g Hg. apply unstopped_intro. intros j Hj. eapply Hd2; eassumption.
Qed.

(* one pass from a boundary where the shutdown is announced: stop_groups loses elements at the
   end only, and only groups whose processes are all stopped *)
Lemma shrink_step w o :
  K w -> BI w -> stopping w = true ->
  exists popped, stop_groups w = stop_groups (step w o) ++ popped /\
                 forall g, In g popped -> unstopped gconfs g (step w o) = false.
Proof.
  intros HK HB Hs.
  assert (HC : Core (stop_groups w) nofz (step w o) /\ Core (stop_groups w) nofz w).
  { destruct HB as [[HA _] | (sg0 & [[HB _] | HF])].
    - destruct HA as (_ & _ & E & _). congruence.
    - destruct HB as (Hc & Hx & _). apply Core_rebase in Hc. split; [|exact Hc].
      destruct (tri_pass _ _ w o HK Hx (conj Hc (conj Hx Logic.I) : OB None (stop_groups w) nofz w) (pass_B _ _ o)) as [((H&_)&_)|(H&_)]; exact H.
    - destruct HF as (Hc & Hx & _). rewrite (step_exited w o Hx). apply Core_rebase in Hc. split; exact Hc. }
  destruct HC as [(_ & _ & _ & _ & (done' & Hd1' & Hd2') & (popped & Hp) & _) (_ & _ & _ & _ & (done & Hd1 & _) & _)].
  exists popped. split; [exact Hp|]. intros g Hg. apply unstopped_intro. intros j Hj.
  apply (Hd2' g j); [|exact Hj].
  assert (E : done' = popped ++ done).
  { apply (app_inv_head (stop_groups (step w o))). rewrite <- Hd1', Hd1, Hp, <- app_assoc. reflexivity. }
  rewrite E. apply in_or_app. left. exact Hg.
Qed.

Theorem stop_groups_shrink ops o :
  let w := run ops in
  stopping w = true ->
  exists popped, stop_groups w = stop_groups (step w o) ++ popped /\
                 forall g, In g popped -> unstopped gconfs g (step w o) = false.
Proof. cbv zeta. apply shrink_step; [apply K_run | apply order_inv_run]. Qed.

(* (b) the trace theorem *)
Lemma ord_ok_spec o :
  ord_ok o -> forall pre i f x e post, o = pre ++ EState i f STOPPING x e :: post -> In (ESup 2) post -> grp_ok post i.
Proof.
  intros H pre. revert o H. induction pre as [|a pre IH]; intros o H i f x e post E Hin; subst o.
  - cbn in H. destruct H as [H _]. apply H; auto.
  - apply (IH (pre ++ EState i f STOPPING x e :: post)) with (f := f) (x := x) (e := e); auto.
    cbn in H. destruct a; try exact H. destruct H as [_ H]. exact H.
Qed.

Lemma BI_ord w : BI w -> ord_ok (out w).
Proof.
  intros [[HA _] | (sg0 & [[HB _] | HF])]; [destruct HA as (_&H&_) | destruct HB as ((_&H&_)&_) | destruct HF as ((_&H&_)&_)]; exact H.
Qed.

Theorem shutdown_order ops pre i f x e post :
  out (run ops) = pre ++ EState i f STOPPING x e :: post ->
  In (ESup 2) post ->
  exists rest g done,
    sorted_groups = rest ++ g :: done /\ In i (g_procs (gc g)) /\
    forall g' j, In g' done -> In j (g_procs (gc g')) -> in_stopped_states (last_state post j) = true.
Proof. intros E Hin. exact (ord_ok_spec _ (BI_ord _ (order_inv_run ops)) pre i f x e post E Hin). Qed.

(* (c) exit condition *)
Lemma any_unstopped_false w : any_unstopped gconfs w = false -> forall g, unstopped gconfs g w = false.
Proof.
  unfold any_unstopped, all_groups. intros H g. destruct (Nat.lt_ge_cases g (length gconfs)) as [Hlt|Hge].
  - destruct (unstopped gconfs g w) eqn:E; [|reflexivity].
    assert (existsb (fun g0 => unstopped gconfs g0 w) (seq 0 (length gconfs)) = true); [|congruence].
    apply existsb_exists. exists g. split; [apply in_seq; lia | exact E].
  - unfold unstopped, Model.gc. rewrite nth_overflow by exact Hge. reflexivity.
Qed.

Theorem exit_all_stopped ops :
  let w := run ops in exited w = true -> forall g, unstopped gconfs g w = false.
Proof.
  cbv zeta. intros Hx. apply any_unstopped_false.
  destruct (order_inv_run ops) as [[HA _] | (sg0 & [[HB _] | HF])].
  - destruct HA as (_&_&_&_&_&E). congruence.
  - destruct HB as (_&E&_). congruence.
  - destruct HF as (_&_&E). exact E.
Qed.

Corollary exit_no_pid ops g i :
  let w := run ops in
  exited w = true -> In i (g_procs (gc g)) ->
  in_stopped_states (sts w i) = true /\ (sts w i <> UNKNOWN -> pid (procs w i) = 0).
Proof.
  cbv zeta. intros Hx Hi. pose proof (unstopped_false g _ (exit_all_stopped ops Hx g) i Hi) as Hs.
  split; [exact Hs|]. intros Hu. apply (i_J2b _ (inv_run U pconfs gconfs ops)).
  destruct (sts (run ops) i); try discriminate Hs; try reflexivity. congruence.
Qed.

(* the exit also implies that the shutdown was announced and every group was removed or is stopped *)
Corollary exit_after_announcement ops :
  let w := run ops in exited w = true -> stopping w = true /\ mood w < 1.
Proof.
  cbv zeta. intros Hx. destruct (order_inv_run ops) as [[HA _] | (sg0 & [[HB _] | HF])].
  - destruct HA as (_&_&_&_&_&E). congruence.
  - destruct HB as (_&E&_). congruence.
  - destruct HF as ((_&_&H3&H4&_)&_). auto.
Qed.

(* ---------- two step-level facts used by the termination proof (Liveness.v) *)
Lemma OB_fz c sg0 fz (fz' : nat -> Prop) w :
  OB c sg0 fz w -> (forall j, fz' j -> in_stopped_states (sts w j) = true) -> OB c sg0 fz' w.
Proof.
  intros ((H1 & H2 & H3 & H4 & H5 & H6 & _) & H7 & H8) Hf.
  split; [repeat split; assumption | split; assumption].
Qed.

(* once the shutdown is announced, the stopped states are absorbing *)
Lemma stopped_absorbing_step w o i :
  K w -> BI w -> stopping w = true ->
  in_stopped_states (sts w i) = true -> in_stopped_states (sts (step w o) i) = true.
Proof.
  intros HK HB Hs Hi. destruct HB as [[HA _] | (sg0 & [[HB _] | HF])].
  - destruct HA as (_ & _ & E & _). congruence.
  - pose proof HB as (_ & Hx & _).
    assert (HB' : OB None sg0 (fun j => j = i) w) by (eapply OB_fz; [exact HB | intros j ->; exact Hi]).
    destruct (tri_pass _ _ w o HK Hx HB' (pass_B sg0 _ o)) as [(((_&_&_&_&_&_&Hf)&_)&_)|((_&_&_&_&_&_&Hf)&_)]; apply Hf; reflexivity.
  - destruct HF as (_ & Hx & _). rewrite (step_exited w o Hx). exact Hi.
Qed.

(* a last group whose processes are all stopped is removed by the next pass *)
Lemma B_phase2_pop sg0 (fz : nat -> Prop) r g :
  (forall i, In i (g_procs (gc g)) -> fz i) ->
  tri (OB (Some (r, g)) sg0 fz) (Model.phase2 gconfs) (fun _ => OB None r fz).
Proof.
  intros Hg. unfold Model.phase2. apply tri_getw. intros w0 H0 w ->.
  pose proof (OB_mood _ _ _ _ H0) as Hm. replace (mood w0 <? 1) with true by lia.
  destruct H0 as ((H1 & H2 & H3 & H4 & (done & Hd1 & Hd2) & (popped & H6) & Hfz) & H7 & H8). cbn in H8.
  rewrite H8, rev_app_distr. cbn [rev app].
  replace (unstopped gconfs g w0) with false
    by (symmetry; apply unstopped_intro; intros j Hj; apply Hfz; apply Hg; exact Hj).
  cbn. rewrite rev_involutive.
  split; [|split; [exact H7 | exact Logic.I]].
  repeat split; try assumption.
  - exists (g :: done). cbn. split; [rewrite Hd1, H8, <- app_assoc; reflexivity|].
    intros g' j [<-|Hg'] Hj; [apply Hfz; apply Hg; exact Hj | eapply Hd2; eassumption].
  - exists []. rewrite app_nil_r. reflexivity.
Qed.

Lemma pop_step w o r g :
  K w -> BI w -> stopping w = true -> exited w = false -> stop_groups w = r ++ [g] ->
  (forall i, In i (g_procs (gc g)) -> in_stopped_states (sts w i) = true) ->
  exists popped, r = stop_groups (step w o) ++ popped.
Proof.
  intros HK HB Hs Hx Esg Hall.
  set (fz := fun i => In i (g_procs (gc g))).
  assert (H0 : OB (Some (r, g)) (stop_groups w) fz w).
  { pose proof (BI_core _ HB Hs) as Hc.
    split; [|split; [exact Hx | exact Esg]].
    destruct Hc as (H1 & H2 & H3 & H4 & H5 & H6 & _). repeat split; assumption. }
  assert (HT : tri (OB (Some (r, g)) (stop_groups w) fz) (Model.do_pass U pconfs gconfs o)
                   (fun _ w' => OBb r fz w' \/ FIN r fz w')).
  { unfold Model.do_pass, transition_group, reap_all. do 5 pstep (OB (Some (r, g)) (stop_groups w) fz).
    eapply tri_bind; [apply B_phase2_pop; auto | intros ?u; apply L_B]. }
  destruct (tri_pass _ _ w o HK Hx H0 HT) as [(((_&_&_&_&_&Hp&_)&_)&_)|((_&_&_&_&_&Hp&_)&_)]; exact Hp.
Qed.

End WithConfig.

(* ---------- the hypotheses are satisfiable on a non-trivial run: two groups (priorities 1 and 2),
   one process each; SIGTERM arrives in pass 3; the child of the higher-priority group ignores
   SIGTERM and is killed after stopwaitsecs; only then is the other group signalled *)
Definition ex_pconfs : list pconf :=
  [mkConf 1 3 10 15 999 true ARUnexpected [0] false false CmdOk 0%nat;
   mkConf 1 3 10 15 999 true ARUnexpected [0] false false CmdOk 1%nat].
Definition ex_gconfs : list gconf := [mkG 1 [0%nat]; mkG 2 [1%nat]].
Definition ex_ops : list passop :=
  [mkPass 5 [] [0;0] []; mkPass 30 [] [] []; mkPass 31 [ASignal 15] [] [1];
   mkPass 32 [] [] []; mkPass 131 [] [] [0;0]; mkPass 132 [] [] []].
Definition ex_interesting (e : effect) : bool :=
  match e with EState _ _ STOPPING _ _ | EState _ _ STOPPED _ _ | ESup 2 | EKill _ _ _ | EExitNow => true | _ => false end.

Example order_example_mid :
  let w := Model.run 10 ex_pconfs ex_gconfs (firstn 5 ex_ops) in
  sorted_groups ex_gconfs = [0%nat; 1%nat] /\
  stopping w = true /\ stop_groups w = [0%nat] /\ exited w = false /\
  unstopped ex_gconfs 1%nat w = false /\ sts w 0%nat = STOPPING.
Proof. vm_compute. repeat split. Qed.

Example order_example_trace :
  let w := Model.run 10 ex_pconfs ex_gconfs ex_ops in
  exited w = true /\ stop_groups w = [] /\
  rev (filter ex_interesting (out w)) =
    [ESup 2;
     EState 1 RUNNING STOPPING 1001 true; EKill 1001 15 0; EKill 1001 9 0; EState 1 STOPPING STOPPED 1001 true;
     EState 0 RUNNING STOPPING 1000 true; EKill 1000 15 0; EState 0 STOPPING STOPPED 1000 true;
     EExitNow].
Proof. vm_compute. repeat split. Qed.
