(* Theorems about SV.Life.Multicall: a multicall is a sequence of requests - call k+1 is invoked only when
   call k has answered, whatever the calls do and however often the envelope is polled; the answers come back
   one per call, in order; and the envelope answers after exactly as many polls as its deferred calls need. *)
From Coq Require Import ZArith List Bool Lia.
Import ListNotations.
Require Import SV.Life.Multicall.
Open Scope nat_scope.

Definition pend_ev (s : mstate) : list mev :=
  match pending s with Some (k, _, r) => [Done k r] | None => [] end.
Definition pend_res (s : mstate) : list res :=
  match pending s with Some (_, _, r) => [r] | None => [] end.
Definition finals (rem : list (nat * beh)) : list res := map (fun kb => final (snd kb)) rem.

(* what has happened, what the pending callback still owes, and the sequential future make up the sequential whole *)
Definition MI (all : list (nat * beh)) (s : mstate) : Prop :=
  mtrace s ++ pend_ev s ++ seq_trace (remaining s) = seq_trace all /\
  results s ++ pend_res s ++ finals (remaining s) = finals all.

Lemma issue_inv all rem rs tr :
  tr ++ seq_trace rem = seq_trace all -> rs ++ finals rem = finals all ->
  MI all (issue rem rs tr).
Proof.
  revert rs tr; induction rem as [|[k b] t IH]; intros rs tr Ht Hr.
  - split; cbn; unfold pend_ev, pend_res; cbn; assumption.
  - destruct b as [r|n r]; cbn [issue].
    + apply IH.
      * rewrite <- Ht. cbn. rewrite <- app_assoc. reflexivity.
      * rewrite <- Hr. cbn. rewrite <- app_assoc. reflexivity.
    + split; unfold pend_ev, pend_res; cbn.
      * rewrite <- Ht. cbn. rewrite <- app_assoc. reflexivity.
      * rewrite <- Hr. reflexivity.
Qed.

Lemma poll_pending_inv all s : MI all s -> MI all (poll_pending s).
Proof.
  intros [Ht Hr]. unfold poll_pending.
  destruct (pending s) as [[[k n] r]|] eqn:Hp.
  - destruct n as [|n].
    + split; unfold pend_ev, pend_res in *; rewrite Hp in *; cbn in *.
      * rewrite <- app_assoc. exact Ht.
      * rewrite <- app_assoc. exact Hr.
    + split; unfold pend_ev, pend_res in *; rewrite Hp in *; cbn in *; assumption.
  - split; assumption.
Qed.

Lemma issue_calls_inv all s : MI all s -> MI all (issue_calls s).
Proof.
  intros [Ht Hr]. unfold issue_calls.
  destruct (pending s) as [p|] eqn:Hp.
  - split; assumption.
  - apply issue_inv; unfold pend_ev, pend_res in *; rewrite Hp in *; cbn in *; assumption.
Qed.

Lemma multi_inv all s : MI all s -> MI all (multi s).
Proof. intros H. unfold multi. apply issue_calls_inv, poll_pending_inv, H. Qed.

Lemma init_inv calls : MI (number 0 calls) (minit calls).
Proof. split; reflexivity. Qed.

Lemma polls_until_inv all n s : MI all s -> MI all (polls_until n s).
Proof.
  revert s; induction n as [|n IH]; intros s H; cbn [polls_until]; [exact H|].
  destruct (finished s); [exact H|]. apply IH, multi_inv, H.
Qed.

Lemma polls_inv all n s : MI all s -> MI all (polls n s).
Proof. revert s; induction n as [|n IH]; intros s H; cbn [polls]; [exact H|]. apply IH, multi_inv, H. Qed.

Lemma multicall_inv calls n : MI (number 0 calls) (multicall calls n).
Proof. unfold multicall. apply polls_until_inv, multi_inv, init_inv. Qed.

(* 1. sequential: at every moment the history is a prefix of the one-call-after-the-other history *)
Theorem multicall_sequential calls n :
  exists rest, mtrace (multicall calls n) ++ rest = seq_trace (number 0 calls).
Proof. destruct (multicall_inv calls n) as [Ht _]. eexists. exact Ht. Qed.

(* in the sequential history a call is invoked only after every earlier call has answered *)
Lemma number_fst {A} (l : list A) k : map fst (number k l) = seq k (length l).
Proof. revert k; induction l as [|x t IH]; intros k; cbn; [reflexivity|]. rewrite IH. reflexivity. Qed.

Fixpoint invoked_before_done (open : option nat) (tr : list mev) : bool :=
  match tr with
  | [] => true
  | Invoke k :: t => match open with None => invoked_before_done (Some k) t | Some _ => false end
  | Done k _ :: t => match open with Some j => Nat.eqb j k && invoked_before_done None t | None => false end
  end.

Lemma seq_trace_alternates rem : invoked_before_done None (seq_trace rem) = true.
Proof. induction rem as [|[k b] t IH]; cbn; [reflexivity|]. rewrite Nat.eqb_refl. exact IH. Qed.

Lemma alternates_prefix a : forall o b, invoked_before_done o (a ++ b) = true -> invoked_before_done o a = true.
Proof.
  induction a as [|e t IH]; intros o b H; cbn in *; [reflexivity|].
  destruct e as [k|k r]; destruct o as [j|]; try discriminate.
  - eapply IH, H.
  - apply Bool.andb_true_iff in H. destruct H as [H1 H2]. rewrite H1. cbn. eapply IH, H2.
Qed.

(* never two calls in progress: an Invoke is always followed by the Done of the same call before the next Invoke *)
Theorem multicall_one_at_a_time calls n : invoked_before_done None (mtrace (multicall calls n)) = true.
Proof.
  destruct (multicall_sequential calls n) as [rest H].
  eapply alternates_prefix. rewrite H. apply seq_trace_alternates.
Qed.

(* 2. answers: one per call, in call order, each the call's own answer *)
Lemma finals_number calls k : finals (number k calls) = map final calls.
Proof. revert k; induction calls as [|b t IH]; intros k; cbn; [reflexivity|]. unfold finals in IH. rewrite IH. reflexivity. Qed.

Theorem multicall_answers calls n rs :
  answer (multicall calls n) = Some rs -> rs = map final calls /\ mtrace (multicall calls n) = seq_trace (number 0 calls).
Proof.
  unfold answer. destruct (finished (multicall calls n)) eqn:Hf; [|discriminate].
  intros E; injection E as <-.
  destruct (multicall_inv calls n) as [Ht Hr].
  unfold finished in Hf. unfold pend_ev, pend_res in *.
  destruct (pending (multicall calls n)); [discriminate|].
  destruct (remaining (multicall calls n)); [|discriminate].
  cbn in *. rewrite !app_nil_r in *. rewrite finals_number in Hr. split; assumption.
Qed.

(* while the envelope has not answered, its partial results are the answers of a prefix of the calls *)
Theorem multicall_partial_results calls n :
  exists rest, results (multicall calls n) ++ rest = map final calls.
Proof. destruct (multicall_inv calls n) as [_ Hr]. rewrite finals_number in Hr. eexists. exact Hr. Qed.

(* 3. termination: the number of polls the deferred calls need *)
Definition cost (b : beh) : nat := match b with Imm _ => 0 | Defer n _ => S n end.
Definition owed (s : mstate) : nat :=
  match pending s with Some (_, n, _) => S n | None => 0 end + list_sum (map (fun kb => cost (snd kb)) (remaining s)).

Definition settled (s : mstate) : Prop := pending s = None -> remaining s = [].

Lemma issue_settled rem rs tr : settled (issue rem rs tr).
Proof.
  revert rs tr; induction rem as [|[k b] t IH]; intros rs tr; [intros _; reflexivity|].
  destruct b as [r|n r]; cbn [issue]; [apply IH|]. intros H; cbn in H; discriminate.
Qed.

Lemma issue_owed rem rs tr : owed (issue rem rs tr) = list_sum (map (fun kb => cost (snd kb)) rem).
Proof.
  revert rs tr; induction rem as [|[k b] t IH]; intros rs tr; [reflexivity|].
  destruct b as [r|n r]; cbn [issue]; [rewrite IH; reflexivity|]. unfold owed; cbn. lia.
Qed.

Lemma multi_settled s : settled (multi s).
Proof.
  unfold multi, issue_calls. destruct (pending (poll_pending s)) eqn:Hp.
  - intros H. rewrite Hp in H. discriminate.
  - apply issue_settled.
Qed.

Lemma multi_owed s : settled s -> finished s = false -> S (owed (multi s)) = owed s.
Proof.
  intros Hs Hf. unfold finished in Hf. unfold multi, issue_calls, poll_pending.
  destruct (pending s) as [[[k n] r]|] eqn:Hp.
  - destruct n as [|n]; cbn.
    + rewrite issue_owed. unfold owed. rewrite Hp. cbn. reflexivity.
    + unfold owed. rewrite Hp. cbn. reflexivity.
  - rewrite (Hs Hp) in Hf. discriminate.
Qed.

Lemma owed_zero_finished s : settled s -> owed s = 0 -> finished s = true.
Proof.
  intros Hs H0. unfold owed in H0. unfold finished.
  destruct (pending s) as [[[k n] r]|] eqn:Hp; [lia|]. rewrite (Hs Hp). reflexivity.
Qed.

Lemma polls_until_finishes n : forall s, settled s -> owed s <= n -> finished (polls_until n s) = true.
Proof.
  induction n as [|n IH]; intros s Hs Ho; cbn [polls_until].
  - apply owed_zero_finished; [exact Hs|lia].
  - destruct (finished s) eqn:Hf; [exact Hf|].
    apply IH; [apply multi_settled|]. pose proof (multi_owed s Hs Hf). lia.
Qed.

Definition total_polls (calls : list beh) : nat := list_sum (map cost calls).

Lemma owed_init calls k : list_sum (map (fun kb => cost (snd kb)) (number k calls)) = total_polls calls.
Proof. revert k; induction calls as [|b t IH]; intros k; cbn; [reflexivity|]. unfold total_polls in *. cbn. rewrite IH. reflexivity. Qed.

Theorem multicall_terminates calls n :
  total_polls calls <= n -> answer (multicall calls n) = Some (map final calls).
Proof.
  intros Hn.
  assert (Hf : finished (multicall calls n) = true).
  { unfold multicall. apply polls_until_finishes; [apply multi_settled|].
    unfold multi at 1. unfold issue_calls, poll_pending, minit; cbn. rewrite issue_owed, owed_init. exact Hn. }
  pose proof (multicall_answers calls n (results (multicall calls n))) as H.
  unfold answer in *. rewrite Hf in *. destruct (H eq_refl) as [-> _]. reflexivity.
Qed.

(* and not before: with fewer polls than the deferred calls need, the envelope says NOT_DONE_YET *)
Lemma polls_until_not_before n : forall s, settled s -> n < owed s -> finished (polls_until n s) = false.
Proof.
  induction n as [|n IH]; intros s Hs Ho; cbn [polls_until].
  - unfold finished. unfold owed in Ho. destruct (pending s) as [[[k m] r]|] eqn:Hp; [reflexivity|].
    rewrite (Hs Hp) in Ho. cbn in Ho. lia.
  - destruct (finished s) eqn:Hf.
    + unfold finished in Hf. unfold owed in Ho. destruct (pending s) eqn:Hp; [discriminate|].
      destruct (remaining s); [cbn in Ho; lia|discriminate].
    + apply IH; [apply multi_settled|]. pose proof (multi_owed s Hs Hf). lia.
Qed.

Theorem multicall_not_before calls n : n < total_polls calls -> answer (multicall calls n) = None.
Proof.
  intros Hn. unfold answer.
  assert (Hf : finished (multicall calls n) = false).
  { unfold multicall. apply polls_until_not_before; [apply multi_settled|].
    unfold multi at 1. unfold issue_calls, poll_pending, minit; cbn. rewrite issue_owed, owed_init. exact Hn. }
  rewrite Hf. reflexivity.
Qed.

(* non-vacuity: the "restart" idiom - a deferred stop, then a start - with one poll *)
Example restart_idiom :
  mtrace (multicall [Defer 1 (Val 1%Z); Imm (Val 1%Z)] 1) = [Invoke 0] /\
  mtrace (multicall [Defer 1 (Val 1%Z); Imm (Val 1%Z)] 2) = [Invoke 0; Done 0 (Val 1%Z); Invoke 1; Done 1 (Val 1%Z)] /\
  answer (multicall [Defer 1 (Val 1%Z); Imm (Val 1%Z)] 2) = Some [Val 1%Z; Val 1%Z].
Proof. repeat split. Qed.
