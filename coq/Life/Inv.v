(* Invariants of the lifecycle model and their preservation by every
   operation, for every configuration, every script and every oracle.

   Inv w collects (Appendix A of DESIGN.md):
     J1  st = STOPPING -> killing ;  killing -> st in {STOPPING, UNKNOWN}
     J2  st in {STARTING,RUNNING,STOPPING} -> pid <> 0 ;
         st in {STOPPED,EXITED,FATAL,BACKOFF} -> pid = 0
     J3  every pidhistory entry (p, i) has pid(i) = p, 1000 <= p < nextpid
     T   the notification trace is well formed: every PROCESS_STATE
         notification names the state left (= the state reported before it),
         is an edge of the documented graph (or enters UNKNOWN right after a
         failed kill), and replaying the notifications gives the reported state
     and the world has not crashed (no assertion fired, no exception).  *)
From Coq Require Import ZArith List Bool Lia Arith.
Import ListNotations.
Require Import SV.Life.Model.
Open Scope Z_scope.

(* ---------- the documented graph (docs/subprocess.rst, property C01) *)
Definition edge (f t : pstate) : bool :=
  match f, t with
  | STOPPED, STARTING
  | STARTING, RUNNING | STARTING, BACKOFF | STARTING, STOPPING
  | RUNNING, STOPPING | RUNNING, EXITED
  | BACKOFF, STARTING | BACKOFF, FATAL | BACKOFF, STOPPED
  | STOPPING, STOPPED
  | EXITED, STARTING
  | FATAL, STARTING => true
  | _, _ => false
  end.

Definition unknown_entry (f : pstate) : bool :=
  match f with STARTING | RUNNING | STOPPING => true | _ => false end.

(* newest-first traces *)
Fixpoint last_state (o : list effect) (i : nat) : pstate :=
  match o with
  | [] => STOPPED
  | EState j _ t _ _ :: r => if Nat.eqb j i then t else last_state r i
  | _ :: r => last_state r i
  end.

Definition failed_kill_first (o : list effect) : bool :=
  match o with EKill _ _ 2 :: _ => true | _ => false end.

Fixpoint trace_ok (o : list effect) : Prop :=
  match o with
  | [] => True
  | EState i f t _ _ :: r =>
    f = last_state r i /\ f <> t /\
    (edge f t = true \/ (t = UNKNOWN /\ failed_kill_first r = true)) /\
    trace_ok r
  | _ :: r => trace_ok r
  end.

Section WithConfig.
Variable U : Z.
Variable pconfs : list pconf.
Variable gconfs : list gconf.

Notation M := Model.M.
Notation cf := (cf pconfs).

Definition live_state (s : pstate) : bool :=
  match s with STARTING | RUNNING | STOPPING => true | _ => false end.
Definition dead_state (s : pstate) : bool :=
  match s with STOPPED | EXITED | FATAL | BACKOFF => true | _ => false end.

Record Inv (w : world) : Prop := mkInv {
  i_nocrash : crashed w = false;
  i_J1a : forall i, sts w i = STOPPING -> killing (procs w i) = true;
  i_J1b : forall i, killing (procs w i) = true -> sts w i = STOPPING \/ sts w i = UNKNOWN;
  i_J2a : forall i, live_state (sts w i) = true -> pid (procs w i) <> 0;
  i_J2b : forall i, dead_state (sts w i) = true -> pid (procs w i) = 0;
  i_J3 : forall p i, In (p, i) (pidhist w) -> pid (procs w i) = p /\ 1000 <= p < nextpid w;
  i_np : 1000 <= nextpid w;
  i_T1 : trace_ok (out w);
  i_T2 : forall i, last_state (out w) i = sts w i }.

(* Hoare triples over the state+crash monad *)
Definition hoare {A} (P : world -> Prop) (m : M A) (Q : A -> world -> Prop) : Prop :=
  forall w, P w -> exists a, fst (m w) = Some a /\ Q a (snd (m w)).

Lemma hoare_ret {A} (P : world -> Prop) (a : A) (Q : A -> world -> Prop) :
  (forall w, P w -> Q a w) -> hoare P (ret a) Q.
Proof. intros H w Hw. exists a. split; [reflexivity | apply H; exact Hw]. Qed.

Lemma hoare_bind {A B} (P : world -> Prop) (m : M A) (f : A -> M B) R (Q : B -> world -> Prop) :
  hoare P m R -> (forall a, hoare (R a) (f a) Q) -> hoare P (bind m f) Q.
Proof.
  intros Hm Hf w Hw. destruct (Hm w Hw) as [a [E Ra]].
  unfold bind. destruct (m w) as [r w1]. simpl in E, Ra. rewrite E.
  exact (Hf a w1 Ra).
Qed.

Lemma hoare_conseq {A} (P P' : world -> Prop) (m : M A) (Q Q' : A -> world -> Prop) :
  hoare P' m Q' -> (forall w, P w -> P' w) -> (forall a w, Q' a w -> Q a w) -> hoare P m Q.
Proof.
  intros H HP HQ w Hw. destruct (H w (HP w Hw)) as [a [E Qa]]. exists a. split; [exact E | apply HQ; exact Qa].
Qed.

(* a deterministic, non-crashing primitive: m w = (Some (v w), g w) *)
Lemma hoare_prim {A} (P : world -> Prop) (m : M A) (v : world -> A) (g : world -> world) (Q : A -> world -> Prop) :
  (forall w, m w = (Some (v w), g w)) -> (forall w, P w -> Q (v w) (g w)) -> hoare P m Q.
Proof. intros E H w Hw. exists (v w). rewrite E. simpl. split; [reflexivity | apply H; exact Hw]. Qed.

Lemma hoare_pre_false {A} (m : M A) (Q : A -> world -> Prop) : hoare (fun _ => False) m Q.
Proof. intros w []. Qed.

Lemma hoare_case {A} (P : world -> Prop) (c : Prop) (m : M A) (Q : A -> world -> Prop) :
  (c -> hoare P m Q) -> (~ c -> hoare P m Q) -> (c \/ ~ c) -> hoare P m Q.
Proof. intros H1 H2 [H|H]; auto. Qed.

(* a precondition that mentions facts: split them off *)
Lemma hoare_pull {A} (P : world -> Prop) (F : Prop) (m : M A) (Q : A -> world -> Prop) :
  (F -> hoare P m Q) -> hoare (fun w => F /\ P w) m Q.
Proof. intros H w [HF HP]. apply (H HF w HP). Qed.

Lemma hoare_mapM {A} (I : world -> Prop) (f : A -> M unit) (l : list A) :
  (forall x, In x l -> hoare I (f x) (fun _ => I)) -> hoare I (mapM_ f l) (fun _ => I).
Proof.
  induction l as [|x l IH]; intros H; simpl.
  - apply hoare_ret. auto.
  - eapply hoare_bind.
    + apply H. left. reflexivity.
    + intros u. simpl. apply IH. intros y Hy. apply H. right. exact Hy.
Qed.

(* ---------- small facts *)
Lemma upd_same {A} (f : nat -> A) i x : upd f i x i = x.
Proof. unfold upd. rewrite Nat.eqb_refl. reflexivity. Qed.
Lemma upd_other {A} (f : nat -> A) i j x : j <> i -> upd f i x j = f j.
Proof. intros H. unfold upd. destruct (Nat.eqb_spec j i); [contradiction | reflexivity]. Qed.

Lemma pstate_eqb_eq a b : pstate_eqb a b = true <-> a = b.
Proof. destruct a, b; simpl; split; intro H; try reflexivity; try discriminate. Qed.
Lemma pstate_eqb_neq a b : pstate_eqb a b = false <-> a <> b.
Proof. destruct a, b; simpl; split; intro H; try reflexivity; try discriminate; try congruence; exfalso; apply H; reflexivity. Qed.

End WithConfig.
