(* system.multicall (supervisor/xmlrpc.py, SystemNamespaceRPCInterface.multicall and its closure multi()).

   A multicall is a list of calls.  Each call either answers at once (a value or a fault) or returns a deferred
   callback, which is polled until it answers.  multi() is polled by the HTTP channel:

     1. if a callback is pending, poll it once; when it answers, its result is appended and it is dropped;
     2. while no callback is pending and calls remain, pop the next call and invoke it: an immediate answer is
        appended, a deferred one becomes THE pending callback;
     3. NOT_DONE_YET while a callback is pending or calls remain, otherwise the list of results.

   multicall() itself runs multi() once before returning.  Executable; used by the correspondence
   (props/life_check.py multicall_corr) and by SV.Life.MulticallProofs. *)
From Coq Require Import ZArith List Bool.
Import ListNotations.
Open Scope Z_scope.

Inductive res := Val (v : Z) | Flt (code : Z).

(* what the method behind a call does: answer at once, or hand back a callback that answers NOT_DONE_YET
   `polls` times and then `r` *)
Inductive beh := Imm (r : res) | Defer (polls : nat) (r : res).

Definition final (b : beh) : res := match b with Imm r => r | Defer _ r => r end.

Inductive mev := Invoke (k : nat) | Done (k : nat) (r : res).

Record mstate := { remaining : list (nat * beh);        (* calls not yet invoked, with their position *)
                   pending : option (nat * nat * res);  (* the callback being waited for: position, polls left, answer *)
                   results : list res;                   (* answers so far, in order *)
                   mtrace : list mev }.                  (* what happened, oldest first *)

Fixpoint number {A} (k : nat) (l : list A) : list (nat * A) :=
  match l with [] => [] | x :: t => (k, x) :: number (S k) t end.

Definition minit (calls : list beh) : mstate :=
  {| remaining := number 0 calls; pending := None; results := []; mtrace := [] |}.

(* step 1 *)
Definition poll_pending (s : mstate) : mstate :=
  match pending s with
  | None => s
  | Some (k, O, r) => {| remaining := remaining s; pending := None; results := results s ++ [r];
                         mtrace := mtrace s ++ [Done k r] |}
  | Some (k, S n, r) => {| remaining := remaining s; pending := Some (k, n, r); results := results s; mtrace := mtrace s |}
  end.

(* step 2, by recursion on the remaining calls *)
Fixpoint issue (rem : list (nat * beh)) (rs : list res) (tr : list mev) : mstate :=
  match rem with
  | [] => {| remaining := []; pending := None; results := rs; mtrace := tr |}
  | (k, Imm r) :: t => issue t (rs ++ [r]) (tr ++ [Invoke k; Done k r])
  | (k, Defer n r) :: t => {| remaining := t; pending := Some (k, n, r); results := rs; mtrace := tr ++ [Invoke k] |}
  end.

Definition issue_calls (s : mstate) : mstate :=
  match pending s with
  | Some _ => s
  | None => issue (remaining s) (results s) (mtrace s)
  end.

Definition multi (s : mstate) : mstate := issue_calls (poll_pending s).

Definition finished (s : mstate) : bool :=
  match pending s, remaining s with None, [] => true | _, _ => false end.

(* the answer of one poll: None = NOT_DONE_YET *)
Definition answer (s : mstate) : option (list res) := if finished s then Some (results s) else None.

Fixpoint polls (n : nat) (s : mstate) : mstate :=
  match n with O => s | S m => polls m (multi s) end.

(* multicall(calls) followed by n polls of the returned callback (none are made once it has answered) *)
Fixpoint polls_until (n : nat) (s : mstate) : mstate :=
  match n with
  | O => s
  | S m => if finished s then s else polls_until m (multi s)
  end.

Definition multicall (calls : list beh) (n : nat) : mstate := polls_until n (multi (minit calls)).

(* ---- the sequential reading: every call is invoked when the call before it has answered ---- *)
Fixpoint seq_trace (rem : list (nat * beh)) : list mev :=
  match rem with [] => [] | (k, b) :: t => Invoke k :: Done k (final b) :: seq_trace t end.

(* ---- correspondence case: behaviours, number of polls, observed (trace, answer) ---- *)
Definition res_eqb (a b : res) : bool :=
  match a, b with Val x, Val y => Z.eqb x y | Flt x, Flt y => Z.eqb x y | _, _ => false end.
Definition mev_eqb (a b : mev) : bool :=
  match a, b with
  | Invoke x, Invoke y => Nat.eqb x y
  | Done x r, Done y q => Nat.eqb x y && res_eqb r q
  | _, _ => false
  end.
Fixpoint list_eqb {A} (eq : A -> A -> bool) (a b : list A) : bool :=
  match a, b with
  | [], [] => true
  | x :: s, y :: t => eq x y && list_eqb eq s t
  | _, _ => false
  end.
Definition ans_eqb (a b : option (list res)) : bool :=
  match a, b with
  | None, None => true
  | Some x, Some y => list_eqb res_eqb x y
  | _, _ => false
  end.

Definition mcase := (list beh * nat * list mev * option (list res))%type.
Definition check_mcase (c : mcase) : bool :=
  let '(calls, n, tr, ans) := c in
  let s := multicall calls n in
  list_eqb mev_eqb (mtrace s) tr && ans_eqb (answer s) ans.
