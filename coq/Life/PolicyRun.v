(* C03 on whole runs: the link between the pure decision predicates of
   Life/Policy.v and the effect trace `out (run ops)` of every run of the
   lifecycle model, for every configuration, script and oracle.

   Part 0  generic tools shared with StopRun.v / RpcRun.v:
     0a tri: Hoare triples with a separate postcondition for a crash;
     0b trace predicates closed under the monad (TP, ctac);
     0c sx: a symbolic executor for the functions working on one process that
        follows its state, its record AND the effects appended (xstep/xrun);
     0d KX: a generic upper layer: an invariant X kept by the process-level
        operations (hypotheses, proved per invariant with sx) holds, together
        with InvProofs.K, after every pass (pass_kx).
   A1 fork_only_from_spawn_states        (trace shape, every run)
   A2 fatal_only_when_retries_exhausted, exhausted_backoff_becomes_fatal
      (exact spec of transition in BACKOFF: transition_backoff_spec)
   A3 backoff_counter_law, retry_not_before_backoff_seconds   (every run)
   A4 autorestart_decision, autostart_decision, fatal_stays_down,
      nothing_started_while_shutting_down (specs of transition);
      started_once_laststart_positive, stopped_after_start_not_autostarted
      (every run whose readings exceed startsecs; laststart_can_return_to_zero
      shows that readings > 0 alone are not enough)
   A5 no_spontaneous_start_run           (every run)
   pend_no_todo_run: K and "no stored deferred answer has a first round left"
   at every boundary. *)
From Coq Require Import ZArith List Bool Lia Arith ZifyBool.
Import ListNotations.
Require Import SV.Life.Model SV.Life.Inv SV.Life.ProcLemmas SV.Life.Trace SV.Life.Quiet
               SV.Life.Policy SV.Life.InvProofs SV.Life.InvRun.
Open Scope Z_scope.

Local Arguments Model.change_state : simpl never.

(* ====================================================================== *)
(* Part 0a: Hoare triples with a crash postcondition *)
Definition tri {A} (P : world -> Prop) (m : Model.M A) (Q : A -> world -> Prop) (C : world -> Prop) : Prop :=
  forall w, P w -> match m w with (Some a, w') => Q a w' | (None, w') => C w' end.

Lemma tri_ret {A} (P : world -> Prop) (a : A) (Q : A -> world -> Prop) C :
  (forall w, P w -> Q a w) -> tri P (ret a) Q C.
Proof. intros H w Hw. cbn. auto. Qed.

Lemma tri_bind {A B} P (m : Model.M A) (f : A -> Model.M B) R Q C :
  tri P m R C -> (forall a, tri (R a) (f a) Q C) -> tri P (bind m f) Q C.
Proof.
  intros Hm Hf w Hw. unfold bind. specialize (Hm w Hw). destruct (m w) as [[a|] w1]; [apply Hf; exact Hm | exact Hm].
Qed.

Lemma tri_conseq {A} (P P' : world -> Prop) (m : Model.M A) (Q Q' : A -> world -> Prop) (C C' : world -> Prop) :
  tri P' m Q' C' -> (forall w, P w -> P' w) -> (forall a w, Q' a w -> Q a w) -> (forall w, C' w -> C w) ->
  tri P m Q C.
Proof. intros H HP HQ HC w Hw. specialize (H w (HP w Hw)). destruct (m w) as [[a|] w1]; auto. Qed.

Lemma tri_of_presG {A} (P : world -> Prop) (m : Model.M A) : presG P m -> tri P m (fun _ => P) P.
Proof. intros H w Hw. specialize (H w Hw). destruct (m w) as [[a|] w1]; exact H. Qed.

Lemma presG_of_tri {A} (P : world -> Prop) (m : Model.M A) : tri P m (fun _ => P) P -> presG P m.
Proof. intros H w Hw. specialize (H w Hw). destruct (m w) as [[a|] w1]; exact H. Qed.

(* ====================================================================== *)
(* Part 0b: predicates on the effect trace that every "uninteresting" effect preserves *)
Section TracePred.
Variable T : list effect -> Prop.
Variable ok : effect -> Prop.
Hypothesis T_cons : forall e o, ok e -> T o -> T (e :: o).

Definition TP (w : world) : Prop := T (out w).

Lemma tp_emit e : ok e -> presG TP (emit e).
Proof. intros He w H. unfold emit, TP in *. cbn. apply T_cons; assumption. Qed.
Lemma tp_modw (g : world -> world) : (forall w, out (g w) = out w) -> presG TP (modw g).
Proof. intros Hg w H. unfold modw, TP in *. cbn. rewrite Hg. exact H. Qed.
Lemma tp_crash {A} site : ok (ECrash site) -> presG TP (@crash A site).
Proof. intros He w H. unfold crash, TP in *. cbn. apply T_cons; assumption. Qed.
Lemma tp_exited : ok EExitNow -> presG TP (modw set_exited).
Proof. intros He w H. unfold modw, TP in *. cbn. apply T_cons; assumption. Qed.
End TracePred.

(* generic decomposition; `leaf` closes the goals about emit / modw / crash, `hints` the calls already proved *)
Ltac ctac leaf hints :=
  repeat match goal with
    | |- presG _ (ret _) => apply presG_ret
    | |- presG _ (bind getw _) => apply presG_getw; intros ?w0 _
    | |- presG _ (bind (gets _) _) => apply presG_gets; intros ?s
    | |- presG _ (bind (getp _) _) => apply presG_getp; intros ?p
    | |- presG _ _ => solve [hints]
    | |- presG _ (setp _ _) => unfold setp
    | |- presG _ (modp _ _) => unfold modp
    | |- presG _ (assert_in _ _ _) => unfold assert_in
    | |- presG _ (Model.change_state _ _ _ _) => unfold Model.change_state
    | |- presG _ (Model.move _ _ _ _ _ _ _) => unfold Model.move
    | |- presG _ (Model.kill_mark _ _ _ _) => unfold Model.kill_mark
    | |- presG _ (k_kill _ _) => unfold k_kill
    | |- presG _ (modw _) => leaf
    | |- presG _ (emit _) => leaf
    | |- presG _ (crash _) => leaf
    | |- presG _ (mapM_ _ _) => apply presG_mapM; intros
    | |- presG _ (if ?c then _ else _) => destruct c
    | |- presG _ (match ?x with _ => _ end) => destruct x
    | |- presG _ (bind _ _) => apply presG_bind; [ | intros ? ]
    end.

(* ====================================================================== *)
(* Part 0c: symbolic execution of the functions that work on one process i,
   following its state s, its record p, the trace o, and the (fixed) clock
   reading t and mood md; everything else of the world is framed out (fr). *)
Definition fr (i : nat) (w w' : world) : Prop :=
  now w' = now w /\ mood w' = mood w /\ crashed w' = crashed w /\
  forall j, j <> i -> sts w' j = sts w j /\ procs w' j = procs w j.

Lemma fr_refl i w : fr i w w.
Proof. repeat split; reflexivity. Qed.
Lemma fr_trans i a b c : fr i a b -> fr i b c -> fr i a c.
Proof.
  intros (a1&a2&a3&a4) (b1&b2&b3&b4). repeat split; try congruence;
    destruct (a4 j H), (b4 j H); congruence.
Qed.

(* a world update that touches nothing the executor follows *)
Definition inert2 (g : world -> world) : Prop :=
  forall w, sts (g w) = sts w /\ procs (g w) = procs w /\ out (g w) = out w /\
            now (g w) = now w /\ mood (g w) = mood w /\ crashed (g w) = crashed w.

Ltac pcbv :=
  cbv beta iota delta [pid killing delay backoff laststart laststop exitstatus spawnerr admin_stop system_stop
                       p_pid p_killing p_delay p_backoff p_laststart p_laststop p_exitstatus p_spawnerr
                       p_admin p_system].
Ltac pcbv_in H :=
  cbv beta iota delta [pid killing delay backoff laststart laststop exitstatus spawnerr admin_stop system_stop
                       p_pid p_killing p_delay p_backoff p_laststart p_laststop p_exitstatus p_spawnerr
                       p_admin p_system] in H.
Ltac pdestr p :=
  let a := fresh "xpid" in let b := fresh "xkil" in let c := fresh "xdel" in let d := fresh "xbo" in
  let e := fresh "xls" in let f := fresh "xlst" in let g := fresh "xes" in let h := fresh "xerr" in
  let j := fresh "xadm" in let k := fresh "xsys" in
  destruct p as [a b c d e f g h j k].

Section Sx.
Variable U : Z.
Variable pconfs : list pconf.
Notation cf := (Model.cf pconfs).

Definition spost (A : Type) := A -> pstate -> proc -> list effect -> Prop.

Definition sx {A} (i : nat) (m : Model.M A) (s : pstate) (p : proc) (o : list effect) (t md : Z)
           (Q : spost A) : Prop :=
  forall w, sts w i = s -> procs w i = p -> out w = o -> now w = t -> mood w = md ->
  exists a w', m w = (Some a, w') /\ fr i w w' /\ Q a (sts w' i) (procs w' i) (out w').

Lemma sx_ret {A} i (a : A) s p o t md (Q : spost A) : Q a s p o -> sx i (ret a) s p o t md Q.
Proof. intros H w Hs Hp Ho Ht Hm. exists a, w. subst. split; [reflexivity | split; [apply fr_refl | exact H]]. Qed.

Lemma sx_conseq {A} i (m : Model.M A) s p o t md (Q Q' : spost A) :
  sx i m s p o t md Q -> (forall a s' p' o', Q a s' p' o' -> Q' a s' p' o') -> sx i m s p o t md Q'.
Proof.
  intros H HQ w Hs Hp Ho Ht Hm. destruct (H w Hs Hp Ho Ht Hm) as (a & w' & E & F & Q1). exists a, w'. auto.
Qed.

Lemma sx_bind {A B} i (m : Model.M A) (k : A -> Model.M B) s p o t md (R : spost A) (Q : spost B) :
  sx i m s p o t md R -> (forall a s1 p1 o1, R a s1 p1 o1 -> sx i (k a) s1 p1 o1 t md Q) ->
  sx i (bind m k) s p o t md Q.
Proof.
  intros Hm Hk w Hs Hp Ho Ht Hmd. destruct (Hm w Hs Hp Ho Ht Hmd) as (a & w1 & E & F & R1).
  pose proof F as (f1 & f2 & _).
  destruct (Hk a _ _ _ R1 w1 eq_refl eq_refl eq_refl) as (b & w2 & E2 & F2 & Q2); [congruence | congruence |].
  exists b, w2. unfold bind. rewrite E. split; [exact E2 | split; [eapply fr_trans; eassumption | exact Q2]].
Qed.

Lemma sx_assoc {A B C} i (m : Model.M A) (f : A -> Model.M B) (k : B -> Model.M C) s p o t md (Q : spost _) :
  sx i (bind m (fun a => bind (f a) k)) s p o t md Q -> sx i (bind (bind m f) k) s p o t md Q.
Proof.
  intros H w Hs Hp Ho Ht Hm. destruct (H w Hs Hp Ho Ht Hm) as (a & w' & E & R).
  exists a, w'. split; [|exact R]. rewrite <- E. unfold bind. destruct (m w) as [[a0|] w0]; reflexivity.
Qed.

Lemma sx_tail {A} i (m : Model.M A) s p o t md (Q : spost A) : sx i (bind m ret) s p o t md Q -> sx i m s p o t md Q.
Proof.
  intros H w Hs Hp Ho Ht Hm. destruct (H w Hs Hp Ho Ht Hm) as (a & w' & E & R).
  exists a, w'. split; [|exact R]. unfold bind, ret in E. destruct (m w) as [[a0|] w0]; [exact E | discriminate E].
Qed.

Lemma sx_ret_bind {A B} i (a : A) (k : A -> Model.M B) s p o t md (Q : spost _) :
  sx i (k a) s p o t md Q -> sx i (bind (ret a) k) s p o t md Q.
Proof. intros H. exact H. Qed.

Lemma sx_getw {B} i (k : world -> Model.M B) s p o t md (Q : spost _) :
  (forall w0, now w0 = t -> mood w0 = md -> sx i (k w0) s p o t md Q) -> sx i (bind getw k) s p o t md Q.
Proof. intros H w Hs Hp Ho Ht Hm. unfold bind, getw. apply H; assumption. Qed.
Lemma sx_getp {B} i (k : proc -> Model.M B) s p o t md (Q : spost _) :
  sx i (k p) s p o t md Q -> sx i (bind (getp i) k) s p o t md Q.
Proof. intros H w Hs Hp Ho Ht Hm. unfold bind, getp. rewrite Hp. apply H; assumption. Qed.
Lemma sx_gets {B} i (k : pstate -> Model.M B) s p o t md (Q : spost _) :
  sx i (k s) s p o t md Q -> sx i (bind (gets i) k) s p o t md Q.
Proof. intros H w Hs Hp Ho Ht Hm. unfold bind, gets. rewrite Hs. apply H; assumption. Qed.

(* one deterministic non-crashing step that rewrites the followed components *)
Lemma sx_step {B} i (m : Model.M unit) (g : world -> world) (k : unit -> Model.M B) s p o t md s1 p1 o1 (Q : spost _) :
  (forall w, m w = (Some tt, g w)) ->
  (forall w, sts w i = s -> procs w i = p -> out w = o ->
             fr i w (g w) /\ sts (g w) i = s1 /\ procs (g w) i = p1 /\ out (g w) = o1) ->
  sx i (k tt) s1 p1 o1 t md Q -> sx i (bind m k) s p o t md Q.
Proof.
  intros Em Hg H w Hs Hp Ho Ht Hm. destruct (Hg w Hs Hp Ho) as (F & e1 & e2 & e3).
  pose proof F as (f1 & f2 & _).
  destruct (H (g w) e1 e2 e3) as (b & w2 & E2 & F2 & Q2); [congruence | congruence |].
  exists b, w2. unfold bind. rewrite Em. split; [exact E2 | split; [eapply fr_trans; eassumption | exact Q2]].
Qed.

Lemma sx_setp {B} i p' (k : unit -> Model.M B) s p o t md (Q : spost _) :
  sx i (k tt) s p' o t md Q -> sx i (bind (setp i p') k) s p o t md Q.
Proof.
  apply (sx_step i (setp i p') (fun w => set_procs (upd (procs w) i p') w)); [reflexivity|].
  intros w Hs Hp Ho. cbn. repeat split; auto.
  - cbn. rewrite upd_other by assumption. reflexivity.
  - apply upd_same.
Qed.

Lemma sx_modp {B} i f (k : unit -> Model.M B) s p o t md (Q : spost _) :
  sx i (k tt) s (f p) o t md Q -> sx i (bind (modp i f) k) s p o t md Q.
Proof. intros H. unfold modp. apply sx_assoc. apply sx_getp. apply sx_setp. exact H. Qed.

Lemma sx_emit {B} i e (k : unit -> Model.M B) s p o t md (Q : spost _) :
  sx i (k tt) s p (e :: o) t md Q -> sx i (bind (emit e) k) s p o t md Q.
Proof.
  apply (sx_step i (emit e) (fun w => set_out (e :: out w) w)); [reflexivity|].
  intros w Hs Hp Ho. cbn. rewrite Ho. repeat split; auto.
Qed.

Lemma sx_modw {B} i g (k : unit -> Model.M B) s p o t md (Q : spost _) :
  inert2 g -> sx i (k tt) s p o t md Q -> sx i (bind (modw g) k) s p o t md Q.
Proof.
  intros Hg. apply (sx_step i (modw g) g); [reflexivity|].
  intros w Hs Hp Ho. destruct (Hg w) as (e1&e2&e3&e4&e5&e6). unfold fr. rewrite e1, e2, e3, e4, e5, e6. repeat split; auto.
Qed.

Lemma sx_assert {B} i site ok (k : unit -> Model.M B) s p o t md (Q : spost _) :
  ok s = true -> sx i (k tt) s p o t md Q -> sx i (bind (assert_in i site ok) k) s p o t md Q.
Proof. intros Ho H. unfold assert_in. apply sx_assoc. apply sx_gets. rewrite Ho. exact H. Qed.

(* change_state: the record and the notification *)
Definition cs_p (new s : pstate) (p : proc) (t : Z) : proc :=
  if pstate_eqb new s then p
  else if pstate_eqb new BACKOFF then p_delay (p_backoff p (backoff p + 1)) (t + (backoff p + 1) * U) else p.
Definition cs_o (i : nat) (new s : pstate) (p : proc) (t : Z) (e : bool) (o : list effect) : list effect :=
  if pstate_eqb new s then o else EState i s new (extra_value new (cs_p new s p t)) e :: o.

Lemma sx_cs {B} i new e (k : unit -> Model.M B) s p o t md (Q : spost _) :
  sx i (k tt) new (cs_p new s p t) (cs_o i new s p t e o) t md Q ->
  sx i (bind (Model.change_state U i new e) k) s p o t md Q.
Proof.
  intros H w Hs Hp Ho Ht Hm. unfold bind at 1.
  unfold Model.change_state, bind, gets, getw, getp, setp, modw, emit, ret. rewrite Hs.
  unfold cs_o, cs_p in H. destruct (pstate_eqb new s) eqn:E.
  - apply H; auto. apply pstate_eqb_eq in E. congruence.
  - cbn. rewrite Hp, Ho, Ht.
    match goal with |- exists a w', k tt ?w1 = _ /\ _ =>
      assert (HH : exists a w', k tt w1 = (Some a, w') /\ fr i w1 w' /\ Q a (sts w' i) (procs w' i) (out w'))
        by (apply H; cbn; auto using upd_same) end.
    destruct HH as (b & w2 & E2 & F2 & Q2).
    exists b, w2. split; [exact E2 | split; [|exact Q2]].
    eapply fr_trans; [|exact F2]. repeat split; cbn; auto; rewrite !upd_other by assumption; reflexivity.
Qed.

Lemma sx_move {B} i site ok f new e (k : unit -> Model.M B) s p o t md (Q : spost _) :
  ok s = true -> sx i (k tt) new (cs_p new s (f p) t) (cs_o i new s (f p) t e o) t md Q ->
  sx i (bind (Model.move U i site ok f new e) k) s p o t md Q.
Proof.
  intros Ho H. unfold Model.move. apply sx_assoc. apply sx_assert; [exact Ho|].
  apply sx_assoc. apply sx_modp. apply sx_cs. exact H.
Qed.

(* the kernel's answer to kill(2) is an oracle: 0 delivered, 1 ESRCH, 2 other error *)
Lemma k_kill_run tg sg w :
  exists r w1, k_kill tg sg w = (Some r, w1) /\ (r = 0 \/ r = 1 \/ r = 2) /\
    sts w1 = sts w /\ procs w1 = procs w /\ out w1 = EKill tg sg r :: out w /\
    now w1 = now w /\ mood w1 = mood w /\ crashed w1 = crashed w.
Proof.
  unfold k_kill, bind, getw, modw, emit, ret. destruct (pop (killq w) 0) as [o kq]. cbn -[mem_z].
  destruct (o =? 2); cbn -[mem_z]; [eexists _, _; split; [reflexivity|]; cbn; intuition|].
  destruct (o =? 3); cbn -[mem_z]; [eexists _, _; split; [reflexivity|]; cbn; intuition|].
  destruct (mem_z (Z.abs tg) (live w)); cbn -[mem_z].
  - destruct ((o =? 1) && negb (sg =? 9)); cbn; eexists _, _; (split; [reflexivity|]); cbn; intuition.
  - destruct (existsb _ (zombies w)); cbn; eexists _, _; (split; [reflexivity|]); cbn; intuition.
Qed.

Lemma sx_k_kill {B} i tg sg (k : Z -> Model.M B) s p o t md (Q : spost _) :
  (forall r, r = 0 \/ r = 1 \/ r = 2 -> sx i (k r) s p (EKill tg sg r :: o) t md Q) ->
  sx i (bind (k_kill tg sg) k) s p o t md Q.
Proof.
  intros H w Hs Hp Ho Ht Hm. destruct (k_kill_run tg sg w) as (r & w1 & E & Hr & e1 & e2 & e3 & e4 & e5 & e6).
  destruct (H r Hr w1) as (b & w2 & E2 & F2 & Q2); try congruence.
  exists b, w2. unfold bind. rewrite E. split; [exact E2 | split; [|exact Q2]].
  eapply fr_trans; [|exact F2]. unfold fr. rewrite e1, e2, e4, e5, e6. repeat split; auto.
Qed.

Lemma sx_kill_mark {B} i tg sg (k : Z -> Model.M B) s p o t md (Q : spost _) :
  (forall r, r = 0 \/ r = 1 -> sx i (k r) s p (EKill tg sg r :: o) t md Q) ->
  sx i (k 2) UNKNOWN (cs_p UNKNOWN s p t) (cs_o i UNKNOWN s p t true (EKill tg sg 2 :: o)) t md Q ->
  sx i (bind (Model.kill_mark U i tg sg) k) s p o t md Q.
Proof.
  intros H01 H2. unfold Model.kill_mark. apply sx_assoc. apply sx_k_kill. intros r [-> | [-> | ->]]; cbn [Z.eqb Pos.eqb].
  - apply sx_ret_bind. apply H01. auto.
  - apply sx_ret_bind. apply H01. auto.
  - apply sx_assoc. apply sx_cs. apply sx_ret_bind. exact H2.
Qed.

Lemma sx_rollback {B} i tt0 (k : unit -> Model.M B) s p o t md (Q : spost _) :
  sx i (k tt) s (adjust_times U s (cf i) tt0 p) o t md Q ->
  sx i (bind (Model.rollback_adjust U pconfs i tt0) k) s p o t md Q.
Proof.
  intros H. unfold Model.rollback_adjust. apply sx_assoc. apply sx_getp. apply sx_assoc. apply sx_gets.
  apply sx_setp. exact H.
Qed.

End Sx.

Lemma inert2_forkq fq : inert2 (set_forkq fq).
Proof. intros w. repeat split. Qed.
Lemma inert2_killq kq : inert2 (set_killq kq).
Proof. intros w. repeat split. Qed.
Lemma inert2_kernel (l : world -> list Z) (z : world -> list (Z * Z)) (n : world -> Z) :
  inert2 (fun w => set_kernel (l w) (z w) (n w) w).
Proof. intros w. repeat split. Qed.
Lemma inert2_pidhist (h : world -> list (Z * nat)) : inert2 (fun w => set_pidhist (h w) w).
Proof. intros w. repeat split. Qed.

(* stepping tactic (same shape as InvProofs.lstep) *)
Ltac xnorm :=
  cbv beta; cbn [pstate_eqb negb andb orb fst snd];
  lazymatch goal with
  | |- @sx ?A ?i ?m ?s ?p ?o ?t ?md ?Q =>
    let p' := eval cbv beta iota delta [pid killing delay backoff laststart laststop exitstatus spawnerr admin_stop system_stop
                       p_pid p_killing p_delay p_backoff p_laststart p_laststop p_exitstatus p_spawnerr
                       p_admin p_system cs_p pstate_eqb extra_value] in p in
    let o' := eval cbv beta iota delta [pid killing delay backoff laststart laststop exitstatus spawnerr admin_stop system_stop
                       p_pid p_killing p_delay p_backoff p_laststart p_laststop p_exitstatus p_spawnerr
                       p_admin p_system cs_p cs_o pstate_eqb extra_value] in o in
    change (@sx A i m s p' o' t md Q)
  | |- _ => idtac
  end.

Ltac xdestr c :=
  let E := fresh "E" in destruct c eqn:E; pcbv_in E;
  lazymatch type of E with
  | negb _ = true => apply negb_true_iff in E
  | negb _ = false => apply negb_false_iff in E
  | _ => idtac
  end;
  lazymatch type of E with
  | (_ =? _) = true => apply Z.eqb_eq in E
  | (_ =? _) = false => apply Z.eqb_neq in E
  | _ => idtac
  end;
  try (exfalso; first [congruence | lia]).

Ltac xstep :=
  lazymatch goal with
  | |- sx _ (ret _) _ _ _ _ _ _ => apply sx_ret
  | |- sx _ (bind (ret _) _) _ _ _ _ _ _ => apply sx_ret_bind
  | |- sx _ (bind (bind _ _) _) _ _ _ _ _ _ => apply sx_assoc
  | |- sx _ (bind getw _) _ _ _ _ _ _ =>
    apply sx_getw; let w0 := fresh "w0" in let Hn := fresh "Hn" in let Hm := fresh "Hm" in
    intros w0 Hn Hm; cbv beta; try rewrite !Hn; try rewrite !Hm
  | |- sx _ (bind (getp _) _) _ _ _ _ _ _ => apply sx_getp
  | |- sx _ (bind (gets _) _) _ _ _ _ _ _ => apply sx_gets
  | |- sx _ (bind (setp _ _) _) _ _ _ _ _ _ => apply sx_setp
  | |- sx _ (bind (modp _ _) _) _ _ _ _ _ _ => apply sx_modp
  | |- sx _ (bind (emit _) _) _ _ _ _ _ _ => apply sx_emit
  | |- sx _ (bind (modw (set_forkq _)) _) _ _ _ _ _ _ => apply sx_modw; [apply inert2_forkq|]
  | |- sx _ (bind (modw (set_killq _)) _) _ _ _ _ _ _ => apply sx_modw; [apply inert2_killq|]
  | |- sx _ (bind (modw (fun w => set_kernel _ _ _ w)) _) _ _ _ _ _ _ => apply sx_modw; [apply inert2_kernel|]
  | |- sx _ (bind (modw (fun w => set_pidhist _ w)) _) _ _ _ _ _ _ => apply sx_modw; [apply inert2_pidhist|]
  | |- sx _ (bind (assert_in _ _ _) _) _ _ _ _ _ _ => apply sx_assert; [reflexivity|]
  | |- sx _ (bind (Model.move _ _ _ _ _ _ _) _) _ _ _ _ _ _ => apply sx_move; [reflexivity|]
  | |- sx _ (bind (Model.change_state _ _ _ _) _) _ _ _ _ _ _ => apply sx_cs
  | |- sx _ (bind (Model.kill_mark _ _ _ _) _) _ _ _ _ _ _ => apply sx_kill_mark; [intros ?r ?Hr|]
  | |- sx _ (bind (Model.rollback_adjust _ _ _ _) _) _ _ _ _ _ _ => apply sx_rollback
  | |- sx _ (bind (if ?c then _ else _) _) _ _ _ _ _ _ => xdestr c
  | |- sx _ (bind (match ?x with _ => _ end) _) _ _ _ _ _ _ => xdestr x
  | |- sx _ (bind (let '(_, _) := ?x in _) _) _ _ _ _ _ _ => destruct x
  | |- sx _ (bind _ _) _ _ _ _ _ _ => fail "no rule"
  | |- sx _ (if ?c then _ else _) _ _ _ _ _ _ => xdestr c
  | |- sx _ (match ?x with _ => _ end) _ _ _ _ _ _ => xdestr x
  | |- sx _ _ _ _ _ _ _ _ => apply sx_tail
  end; xnorm.
Ltac xrun := repeat xstep.

(* ====================================================================== *)
(* Part A1: a child is forked only as part of a STARTING transition out of a pid-less state *)
Definition spawnable_state (s : pstate) : bool :=
  match s with STOPPED | EXITED | FATAL | BACKOFF => true | _ => false end.

(* newest first: the effect just before (= right after in the list) every EFork i p is
   the notification STARTING of the same process, leaving a pid-less state *)
Fixpoint fork_ok (o : list effect) : Prop :=
  match o with
  | [] => True
  | EFork i p :: r =>
    match r with
    | EState j s STARTING _ _ :: _ => j = i /\ spawnable_state s = true
    | _ => False
    end /\ fork_ok r
  | _ :: r => fork_ok r
  end.

Definition nofork (e : effect) : Prop := match e with EFork _ _ => False | _ => True end.

Lemma fork_ok_cons e o : nofork e -> fork_ok o -> fork_ok (e :: o).
Proof. destruct e; cbn; intros H Ho; try exact Ho. destruct H. Qed.

Definition FO : world -> Prop := TP fork_ok.

Ltac fo_leaf :=
  first [ apply (tp_exited fork_ok nofork fork_ok_cons); exact Logic.I
        | apply (tp_emit fork_ok nofork fork_ok_cons); exact Logic.I
        | apply (tp_crash fork_ok nofork fork_ok_cons); exact Logic.I
        | apply (tp_modw fork_ok); intros;
          repeat match goal with |- context [if ?c then _ else _] => destruct c end; reflexivity ].

Create HintDb fodb.
Ltac fotac := ctac fo_leaf ltac:(eauto with fodb).

Section WithConfig.
Variable U : Z.
Variable pconfs : list pconf.
Variable gconfs : list gconf.
Notation cf := (Model.cf pconfs).
Notation spawn := (Model.spawn U pconfs).
Notation transition := (Model.transition U pconfs).
Notation run := (Model.run U pconfs gconfs).

(* the world right after the STARTING notification of process i *)
Definition FOS (i : nat) (w : world) : Prop :=
  fork_ok (out w) /\ exists s x e r, out w = EState i s STARTING x e :: r /\ spawnable_state s = true.

Lemma FOS_FO i w : FOS i w -> FO w.
Proof. intros [H _]. exact H. Qed.

Lemma move_starting_tri i :
  tri FO (Model.move U i 1 (fun s => match s with EXITED | FATAL | BACKOFF | STOPPED => true | _ => false end)
                     (fun p => p) STARTING true)
      (fun _ => FOS i) FO.
Proof.
  unfold tri. intros w H. unfold Model.move, assert_in, modp, Model.change_state, bind, gets, getp, getw, setp, modw, emit, crash, ret.
  cbn. destruct (sts w i) eqn:Es; cbn; rewrite ?Es; cbn; try exact H.
  all: split; [exact H | do 4 eexists; split; [reflexivity | reflexivity]].
Qed.

Lemma fo_spawn i : presG FO (spawn i).
Proof.
  apply presG_of_tri. unfold Model.spawn.
  eapply tri_bind; [apply tri_of_presG; intros w H; exact H|]. intros p. cbv beta.
  destruct (negb (pid p =? 0)); [apply tri_ret; auto|].
  eapply tri_bind; [apply tri_of_presG; intros w H; exact H|]. intros w0. cbv beta.
  eapply tri_bind; [apply tri_of_presG; fotac|]. intros u1; cbv beta.
  eapply tri_bind; [apply move_starting_tri|]. intros u2; cbv beta.
  destruct (c_cmd (cf i)).
  - unfold tri. intros w HF. unfold bind at 1. unfold getw at 1. destruct (pop (forkq w) 0) as [o fq].
    unfold bind at 1. unfold modw at 1.
    assert (HF1 : FOS i (set_forkq fq w)) by exact HF. clear HF.
    set (w1 := set_forkq fq w) in *. clearbody w1. clear w. rename w1 into w. rename HF1 into HF.
    assert (Hfail : forall k site,
       match bind (modp i (fun p => p_spawnerr p true)) (fun _ =>
             bind (emit (ESpawnFail i k)) (fun _ =>
             Model.move U i site (fun s => pstate_eqb s STARTING) (fun p => p) BACKOFF true)) w
       with (Some _, w') => FO w' | (None, w') => FO w' end).
    { intros k site. apply tri_of_presG; [|apply (FOS_FO i); exact HF]. fotac. }
    destruct ((o =? 1) || (o =? 2)); [apply Hfail|].
    destruct ((o =? 3) || (o =? 4)); [apply Hfail|].
    destruct HF as [H (s & x & e & r & Eo & Hs)].
    unfold bind, getw, modw, emit, modp, bind, getp, setp, modw. cbn. unfold FO, TP. cbn.
    rewrite Eo in H |- *. cbn in H |- *. split; [split; [reflexivity | exact Hs] | exact H].
  - eapply tri_conseq; [apply tri_of_presG | apply (FOS_FO i) | auto | auto]. fotac.
  - eapply tri_conseq; [apply tri_of_presG | apply (FOS_FO i) | auto | auto]. fotac.
Qed.
Hint Resolve fo_spawn : fodb.

Lemma fo_rollback i t : presG FO (Model.rollback_adjust U pconfs i t).
Proof. unfold Model.rollback_adjust. fotac. Qed.
Lemma fo_give_up i : presG FO (Model.give_up U i).
Proof. unfold Model.give_up. fotac. Qed.
Lemma fo_kill i sig : presG FO (Model.kill U pconfs i sig).
Proof. unfold Model.kill. fotac. Qed.
Hint Resolve fo_rollback fo_give_up fo_kill : fodb.
Lemma fo_stop i : presG FO (Model.stop U pconfs i).
Proof. unfold Model.stop. fotac. Qed.
Lemma fo_signal i sig : presG FO (Model.signal U i sig).
Proof. unfold Model.signal. fotac. Qed.
Lemma fo_finish i s : presG FO (Model.finish U pconfs i s).
Proof. unfold Model.finish. fotac. Qed.
Hint Resolve fo_stop fo_signal fo_finish : fodb.
Lemma fo_transition i : presG FO (transition i).
Proof. unfold Model.transition. fotac. Qed.
Lemma fo_reap fuel : presG FO (Model.reap U pconfs fuel).
Proof. induction fuel as [|f IH]; cbn; fotac. Qed.
Hint Resolve fo_transition fo_reap : fodb.
Lemma fo_stop_all g : presG FO (Model.stop_all U pconfs gconfs g).
Proof. unfold Model.stop_all. fotac. Qed.
Lemma fo_handle_signal : presG FO handle_signal.
Proof. unfold handle_signal. fotac. Qed.
Lemma fo_start_process i wait : presG FO (Model.start_process U pconfs i wait).
Proof. unfold Model.start_process, reap_all. fotac. Qed.
Lemma fo_start_onwait i : presG FO (start_onwait i).
Proof. unfold start_onwait. fotac. Qed.
Lemma fo_stop_process i wait : presG FO (Model.stop_process U pconfs i wait).
Proof. unfold Model.stop_process, reap_all. fotac. Qed.
Lemma fo_stop_onwait i : presG FO (Model.stop_onwait U pconfs i).
Proof. unfold Model.stop_onwait. fotac. Qed.
Lemma fo_signal_process i sig ok : presG FO (Model.signal_process U pconfs i sig ok).
Proof. unfold Model.signal_process. fotac. Qed.
Hint Resolve fo_stop_all fo_handle_signal fo_start_process fo_start_onwait fo_stop_process fo_stop_onwait fo_signal_process : fodb.
Lemma fo_call_one k wait i : presG FO (Model.call_one U pconfs k wait i).
Proof. destruct k; cbn; fotac. Qed.
Lemma fo_poll_one k i : presG FO (Model.poll_one U pconfs k i).
Proof. destruct k; cbn; fotac. Qed.
Hint Resolve fo_call_one fo_poll_one : fodb.
Lemma fo_all_first k wait l : forall cbs res, presG FO (Model.all_first U pconfs k wait l cbs res).
Proof. induction l as [|x l IH]; intros; cbn; fotac. Qed.
Lemma fo_all_poll k l : forall cbs res, presG FO (Model.all_poll U pconfs k l cbs res).
Proof. induction l as [|x l IH]; intros; cbn; fotac. Qed.
Hint Resolve fo_all_first fo_all_poll : fodb.
Lemma fo_poll_deferred d : presG FO (Model.poll_deferred U pconfs d).
Proof. destruct d; cbn; fotac. Qed.
Hint Resolve fo_poll_deferred : fodb.
Lemma fo_poll_pending l : forall keep, presG FO (Model.poll_pending U pconfs l keep).
Proof. induction l as [|x l IH]; intros; cbn; fotac. Qed.
Hint Resolve fo_poll_pending : fodb.
Lemma fo_defer_now d : presG FO (Model.defer_now U pconfs d).
Proof. unfold Model.defer_now, add_pending. fotac. Qed.
Hint Resolve fo_defer_now : fodb.
Lemma fo_do_rpc req r : presG FO (Model.do_rpc U pconfs gconfs req r).
Proof. unfold Model.do_rpc. destruct r; fotac. Qed.
Lemma fo_child_dies k s : presG FO (child_dies k s).
Proof. unfold child_dies. fotac. Qed.
Hint Resolve fo_do_rpc fo_child_dies : fodb.
Lemma fo_do_act a : presG FO (Model.do_act U pconfs gconfs a).
Proof. destruct a; cbn; fotac. Qed.
Lemma fo_loop_head : presG FO (Model.loop_head U pconfs gconfs).
Proof. unfold Model.loop_head. fotac. Qed.
Lemma fo_phase2 : presG FO (Model.phase2 gconfs).
Proof. unfold Model.phase2. fotac. Qed.
Hint Resolve fo_do_act fo_loop_head fo_phase2 : fodb.
Lemma fo_do_pass o : presG FO (Model.do_pass U pconfs gconfs o).
Proof. unfold Model.do_pass, transition_group, reap_all. fotac. Qed.

(* A1: in every run, every fork is the immediate continuation of the STARTING
   notification of the same process, which left one of the four pid-less states *)
Theorem fork_only_from_spawn_states ops : fork_ok (out (run ops)).
Proof.
  unfold Model.run. assert (H0 : FO world0) by (cbn; exact Logic.I). revert H0. generalize world0.
  induction ops as [|o ops IH]; intros w H; cbn; [exact H|].
  apply IH. unfold Model.step. destruct (crashed w || exited w); [exact H | apply fo_do_pass; exact H].
Qed.

(* the same, pointwise: wherever an EFork occurs in the trace *)
Lemma fork_ok_split l i p r : fork_ok (l ++ EFork i p :: r) ->
  exists s x e r', r = EState i s STARTING x e :: r' /\ spawnable_state s = true.
Proof.
  induction l as [|e l IH]; cbn.
  - intros [H _]. destruct r as [|[] r']; try contradiction. destruct to; try contradiction.
    destruct H as [-> Hs]. eauto 6.
  - intros H. apply IH. destruct e; try exact H. apply H.
Qed.

Corollary fork_preceded_by_starting ops l i p r :
  out (run ops) = l ++ EFork i p :: r ->
  exists s x e r', r = EState i s STARTING x e :: r' /\ (s = STOPPED \/ s = EXITED \/ s = FATAL \/ s = BACKOFF).
Proof.
  intros E. pose proof (fork_only_from_spawn_states ops) as H. rewrite E in H.
  destruct (fork_ok_split _ _ _ _ H) as (s & x & e & r' & -> & Hs). exists s, x, e, r'. split; [reflexivity|].
  destruct s; try discriminate Hs; auto.
Qed.

End WithConfig.

(* ====================================================================== *)
(* Exact specifications (state, record, effects appended) of spawn, give_up and of
   `transition` in the states where the start policy is decided *)
Ltac xarith :=
  exfalso; unfold retry_due, give_up_due, kill_due, autostart_due, running_due in *;
  repeat match goal with H : _ = true |- _ => progress pcbv_in H | H : _ = false |- _ => progress pcbv_in H end; lia.
Ltac xleaf :=
  lazymatch goal with
  | |- sx _ _ _ _ _ _ _ _ => xarith
  | |- _ => first [ left; eexists; repeat split; solve [reflexivity | assumption]
                  | right; eexists; repeat split; solve [reflexivity | assumption]
                  | repeat split; solve [reflexivity | assumption] ]
  end.

Lemma sx_world {A} i (m : Model.M A) w (Q : spost A) :
  sx i m (sts w i) (procs w i) (out w) (now w) (mood w) Q ->
  exists a w', m w = (Some a, w') /\ fr i w w' /\ Q a (sts w' i) (procs w' i) (out w').
Proof. intros H. apply H; reflexivity. Qed.

(* process i and the trace are exactly as before *)
Definition unchanged (i : nat) (w w' : world) : Prop :=
  sts w' i = sts w i /\ procs w' i = procs w i /\ out w' = out w.

Section Specs.
Variable U : Z.
Variable pconfs : list pconf.
Notation cf := (Model.cf pconfs).
Notation spawn := (Model.spawn U pconfs).
Notation transition := (Model.transition U pconfs).

(* the record after spawn's preamble, after a successful fork, after a failed attempt, after give_up *)
Definition sp1 (p : proc) (t : Z) : proc :=
  p_laststart (p_admin (p_system (p_exitstatus (p_spawnerr (p_killing p false) false) None) false) false) t.
Definition spawn_ok_p (i : nat) (p : proc) (t np : Z) : proc :=
  p_delay (p_spawnerr (p_pid (sp1 p t) np) false) (t + c_startsecs (cf i) * U).
Definition spawn_fail_p (p : proc) (t : Z) : proc :=
  p_delay (p_backoff (p_spawnerr (sp1 p t) true) (backoff p + 1)) (t + (backoff p + 1) * U).
Definition gu_p (p : proc) : proc := p_system (p_backoff (p_delay p 0) 0) true.

(* what spawn does to a pid-less process in a spawnable state, at reading t: either the
   STARTING notification and a fork, or STARTING, the failure and BACKOFF with one more failure counted *)
Definition spawn_post (i : nat) (s : pstate) (p : proc) (o : list effect) (t : Z) : spost unit :=
  fun _ s' p' o' =>
  (exists np, s' = STARTING /\ p' = spawn_ok_p i p t np /\ c_cmd (cf i) = CmdOk /\
              o' = EFork i np :: EState i s STARTING (backoff p) true :: o) \/
  (exists k, s' = BACKOFF /\ p' = spawn_fail_p p t /\
             o' = EState i STARTING BACKOFF (backoff p + 1) true :: ESpawnFail i k
                  :: EState i s STARTING (backoff p) true :: o).

Lemma spawn_sx i s p o t md :
  pid p = 0 -> spawnable_state s = true -> sx i (spawn i) s p o t md (spawn_post i s p o t).
Proof.
  intros Hp Hs. pdestr p. pcbv_in Hp. subst xpid. unfold Model.spawn, spawn_post, spawn_ok_p, spawn_fail_p, sp1.
  destruct s; try discriminate Hs; xrun; pcbv;
    first [ left; eexists; repeat split; solve [reflexivity | assumption]
          | right; eexists; repeat split; reflexivity ].
Qed.

Lemma spawn_sx_noop i s p o t md :
  pid p <> 0 -> sx i (spawn i) s p o t md (fun _ s' p' o' => s' = s /\ p' = p /\ o' = o).
Proof. intros Hp. pdestr p. pcbv_in Hp. unfold Model.spawn. xrun. auto. Qed.

Lemma give_up_sx i p o t md :
  sx i (Model.give_up U i) BACKOFF p o t md
     (fun _ s' p' o' => s' = FATAL /\ p' = gu_p p /\ o' = EState i BACKOFF FATAL 0 true :: o).
Proof. pdestr p. unfold Model.give_up, gu_p. xrun. pcbv. auto. Qed.

End Specs.

Ltac xspawn :=
  lazymatch goal with
  | |- sx _ (bind (Model.spawn _ _ _) _) _ _ _ _ _ _ =>
    eapply sx_bind; [apply spawn_sx; [reflexivity | reflexivity] |];
    cbv beta; unfold spawn_post, spawn_ok_p, spawn_fail_p, sp1;
    let np := fresh "np" in let k := fresh "k" in let Hc := fresh "Hc" in
    intros ?u ?s1 ?p1 ?o1 [(np & -> & -> & Hc & ->) | (k & -> & -> & ->)]; xnorm
  end.
Ltac xgiveup :=
  lazymatch goal with
  | |- sx _ (bind (Model.give_up _ _) _) _ _ _ _ _ _ =>
    eapply sx_bind; [apply give_up_sx |]; cbv beta; unfold gu_p;
    intros ?u ?s1 ?p1 ?o1 (-> & -> & ->); xnorm
  | |- sx _ (Model.give_up _ _) _ _ _ _ _ _ => apply sx_tail; xgiveup
  end.

Section Policy.
Variable U : Z.
Variable pconfs : list pconf.
Notation cf := (Model.cf pconfs).
Notation spawn := (Model.spawn U pconfs).
Notation transition := (Model.transition U pconfs).
Notation spawn_post := (spawn_post U pconfs).
Notation spawn_fail_p := (spawn_fail_p U).
Notation spawn_ok_p := (spawn_ok_p U pconfs).

(* ---------- Part A2: BACKOFF: retry, give up, or wait *)
Definition tb_post (i : nat) (p : proc) (o : list effect) (t : Z) : spost unit := fun _ s' p' o' =>
  let p0 := adjust_times U BACKOFF (cf i) t p in
  if retry_due (cf i) p0 t then
    (exists np, s' = STARTING /\ p' = spawn_ok_p i p0 t np /\
                o' = EFork i np :: EState i BACKOFF STARTING (backoff p) true :: o) \/
    (exists k, let pf := spawn_fail_p p0 t in
               let o1 := EState i STARTING BACKOFF (backoff p + 1) true :: ESpawnFail i k
                         :: EState i BACKOFF STARTING (backoff p) true :: o in
               if give_up_due (cf i) pf then s' = FATAL /\ p' = gu_p pf /\ o' = EState i BACKOFF FATAL 0 true :: o1
               else s' = BACKOFF /\ p' = pf /\ o' = o1)
  else if give_up_due (cf i) p0 then s' = FATAL /\ p' = gu_p p0 /\ o' = EState i BACKOFF FATAL 0 true :: o
  else s' = BACKOFF /\ p' = p0 /\ o' = o.

Lemma transition_backoff_sx i p o t md :
  pid p = 0 -> md >= 1 -> sx i (transition i) BACKOFF p o t md (tb_post i p o t).
Proof.
  intros Hp Hmd. pdestr p. pcbv_in Hp. subst xpid. unfold Model.transition. cbv zeta.
  xstep. xstep. apply sx_rollback.
  unfold tb_post, PolicyRun.spawn_fail_p, PolicyRun.spawn_ok_p, sp1, gu_p. cbv zeta. unfold adjust_times. pcbv.
  destruct ((xdel >? 0) && (t <? xdel - xbo * U)) eqn:Eadj; pcbv.
  - xrun; [xspawn; xrun; try xgiveup; xrun | xgiveup; xrun | ]. all: xleaf.
  - xrun; [xspawn; xrun; try xgiveup; xrun | xgiveup; xrun | ]; xleaf.
Qed.

(* the same while shutting down (mood < 1): no retry, but an exhausted process is still given up *)
Definition tb_down_post (i : nat) (p : proc) (o : list effect) (t : Z) : spost unit := fun _ s' p' o' =>
  let p0 := adjust_times U BACKOFF (cf i) t p in
  if give_up_due (cf i) p0 then s' = FATAL /\ p' = gu_p p0 /\ o' = EState i BACKOFF FATAL 0 true :: o
  else s' = BACKOFF /\ p' = p0 /\ o' = o.

Lemma transition_backoff_down_sx i p o t md :
  md < 1 -> sx i (transition i) BACKOFF p o t md (tb_down_post i p o t).
Proof.
  intros Hmd. pdestr p. unfold Model.transition. cbv zeta.
  xstep. xstep. apply sx_rollback.
  unfold tb_down_post, gu_p. cbv zeta. unfold adjust_times. pcbv.
  destruct ((xdel >? 0) && (t <? xdel - xbo * U)) eqn:Eadj; pcbv; xrun; try (xgiveup; xrun); xleaf.
Qed.

Theorem transition_backoff_spec w i :
  sts w i = BACKOFF -> pid (procs w i) = 0 -> mood w >= 1 ->
  exists w', transition i w = (Some tt, w') /\ fr i w w' /\
             tb_post i (procs w i) (out w) (now w) tt (sts w' i) (procs w' i) (out w').
Proof.
  intros Hs Hp Hm. destruct (sx_world i (transition i) w (tb_post i (procs w i) (out w) (now w))) as ([] & w' & H).
  - rewrite Hs. apply transition_backoff_sx; assumption.
  - exists w'. exact H.
Qed.

Lemma adjust_backoff_backoff c t p : backoff (adjust_times U BACKOFF c t p) = backoff p.
Proof. unfold adjust_times. destruct ((delay p >? 0) && (t <? delay p - backoff p * U)); autorewrite with procdb; reflexivity. Qed.

Lemma spawn_fail_backoff p t : backoff (spawn_fail_p p t) = backoff p + 1.
Proof. unfold PolicyRun.spawn_fail_p. autorewrite with procdb. reflexivity. Qed.

(* A2: when a pass of `transition` (daemon RUNNING) announces BACKOFF -> FATAL, the number of failed
   attempts counted just before the announcement exceeded startretries: either the count the pass
   found (and then no retry was attempted), or that count plus the attempt that just failed *)
Theorem fatal_only_when_retries_exhausted w i :
  sts w i = BACKOFF -> pid (procs w i) = 0 -> mood w >= 1 ->
  exists w', transition i w = (Some tt, w') /\ fr i w w' /\
    forall l x e, out w' = l ++ out w -> In (EState i BACKOFF FATAL x e) l ->
      sts w' i = FATAL /\
      ((backoff (procs w i) > c_startretries (cf i) /\ l = [EState i BACKOFF FATAL 0 true]) \/
       (backoff (procs w i) + 1 > c_startretries (cf i) /\ backoff (procs w i) <= c_startretries (cf i) /\
        exists k, l = [EState i BACKOFF FATAL 0 true; EState i STARTING BACKOFF (backoff (procs w i) + 1) true;
                       ESpawnFail i k; EState i BACKOFF STARTING (backoff (procs w i)) true])).
Proof.
  intros Hs Hp Hm. destruct (transition_backoff_spec w i Hs Hp Hm) as (w' & E & F & HQ).
  exists w'. split; [exact E | split; [exact F|]]. intros l x e El Hin.
  unfold tb_post in HQ. cbv zeta in HQ.
  set (p0 := adjust_times U BACKOFF (cf i) (now w) (procs w i)) in *.
  assert (Hb0 : backoff p0 = backoff (procs w i)) by apply adjust_backoff_backoff.
  assert (Hinv : forall l', l ++ out w = l' ++ out w -> l = l') by (intros l'; apply app_inv_tail).
  destruct (retry_due (cf i) p0 (now w)) eqn:Er.
  - destruct HQ as [(np & _ & _ & Eo) | (k & HQ)].
    + rewrite El in Eo. apply (Hinv [_; _]) in Eo. subst l. cbn in Hin. intuition discriminate.
    + destruct (give_up_due (cf i) (spawn_fail_p p0 (now w))) eqn:Eg; destruct HQ as (Es' & _ & Eo);
        rewrite El in Eo.
      * apply (Hinv [_; _; _; _]) in Eo. split; [exact Es'|]. right.
        unfold give_up_due in Eg. rewrite spawn_fail_backoff, Hb0 in Eg.
        unfold retry_due in Er. rewrite Hb0 in Er. repeat split; try lia. exists k. exact Eo.
      * apply (Hinv [_; _; _]) in Eo. subst l. cbn in Hin. intuition discriminate.
  - destruct (give_up_due (cf i) p0) eqn:Eg; destruct HQ as (Es' & _ & Eo); rewrite El in Eo.
    + apply (Hinv [_]) in Eo. split; [exact Es'|]. left. unfold give_up_due in Eg. rewrite Hb0 in Eg. split; [lia | exact Eo].
    + apply (Hinv []) in Eo. subst l. destruct Hin.
Qed.

(* ... and conversely: a BACKOFF process whose retries are exhausted is FATAL after one pass, without a new attempt *)
Theorem exhausted_backoff_becomes_fatal w i :
  sts w i = BACKOFF -> pid (procs w i) = 0 -> mood w >= 1 ->
  give_up_due (cf i) (procs w i) = true ->
  exists w', transition i w = (Some tt, w') /\ fr i w w' /\
             sts w' i = FATAL /\ out w' = EState i BACKOFF FATAL 0 true :: out w.
Proof.
  intros Hs Hp Hm Hg. destruct (transition_backoff_spec w i Hs Hp Hm) as (w' & E & F & HQ).
  exists w'. split; [exact E | split; [exact F|]].
  unfold tb_post in HQ. cbv zeta in HQ.
  set (p0 := adjust_times U BACKOFF (cf i) (now w) (procs w i)) in *.
  assert (Hb0 : backoff p0 = backoff (procs w i)) by apply adjust_backoff_backoff.
  unfold give_up_due in Hg.
  replace (retry_due (cf i) p0 (now w)) with false in HQ by (unfold retry_due; lia).
  replace (give_up_due (cf i) p0) with true in HQ by (unfold give_up_due; lia).
  tauto.
Qed.

(* ---------- Part A4: who gets started by `transition` *)
Lemma transition_exited_sx i p o t md :
  pid p = 0 -> md >= 1 ->
  sx i (transition i) EXITED p o t md (fun u s' p' o' =>
    (should_restart (cf i) (exitstatus p) = true -> spawn_post i EXITED p o t u s' p' o') /\
    (should_restart (cf i) (exitstatus p) = false -> s' = EXITED /\ p' = p /\ o' = o)).
Proof.
  intros Hp Hmd. pdestr p. pcbv_in Hp. subst xpid. unfold Model.transition. cbv zeta.
  xstep. xstep. xstep. cbn [adjust_times]. unfold PolicyRun.spawn_post, PolicyRun.spawn_ok_p, PolicyRun.spawn_fail_p, sp1. pcbv.
  xrun; [xspawn; xrun|]; (split; intros HH; [|try discriminate HH]); try discriminate HH; xleaf.
Qed.

Lemma transition_stopped_sx i p o t md :
  pid p = 0 -> md >= 1 ->
  sx i (transition i) STOPPED p o t md (fun u s' p' o' =>
    (autostart_due (cf i) p = true -> spawn_post i STOPPED p o t u s' p' o') /\
    (autostart_due (cf i) p = false -> s' = STOPPED /\ p' = p /\ o' = o)).
Proof.
  intros Hp Hmd. pdestr p. pcbv_in Hp. subst xpid. unfold Model.transition. cbv zeta.
  xstep. xstep. xstep. cbn [adjust_times]. unfold PolicyRun.spawn_post, PolicyRun.spawn_ok_p, PolicyRun.spawn_fail_p, sp1. pcbv.
  xrun; [xspawn; xrun|]; (split; intros HH; [|try discriminate HH]); try discriminate HH; xleaf.
Qed.

(* FATAL (and UNKNOWN) are never touched, whatever the mood *)
Lemma transition_fatal_sx i p o t md :
  sx i (transition i) FATAL p o t md (fun _ s' p' o' => s' = FATAL /\ p' = p /\ o' = o).
Proof.
  pdestr p. unfold Model.transition. cbv zeta.
  xstep. xstep. xstep. cbn [adjust_times]. xrun; xleaf.
Qed.

(* while the daemon is shutting down nothing is started *)
Lemma transition_down_sx i s p o t md :
  md < 1 -> s = EXITED \/ s = STOPPED ->
  sx i (transition i) s p o t md (fun _ s' p' o' => s' = s /\ p' = p /\ o' = o).
Proof.
  intros Hmd Hs. pdestr p. unfold Model.transition. cbv zeta.
  destruct Hs as [-> | ->]; xstep; xstep; xstep; cbn [adjust_times]; xrun; xleaf.
Qed.

Lemma app_cons_not_nil {X} (l : list X) e o : l ++ e :: o <> o.
Proof.
  intros H. apply (f_equal (@length X)) in H. rewrite app_length in H. cbn in H. lia.
Qed.

(* A4, in plain terms.  From a boundary-like world (pid 0 in a pid-less state, J2), daemon RUNNING:
   EXITED: a start attempt is made (STARTING notification, then fork or spawn failure) iff should_restart;
   STOPPED: iff autostart_due, i.e. iff autostart is set and the process was never started (laststart = 0);
   FATAL: never.  While the daemon is not RUNNING: never. *)
Theorem autorestart_decision w i :
  sts w i = EXITED -> pid (procs w i) = 0 -> mood w >= 1 ->
  exists w', transition i w = (Some tt, w') /\ fr i w w' /\
    (should_restart (cf i) (exitstatus (procs w i)) = true ->
       spawn_post i EXITED (procs w i) (out w) (now w) tt (sts w' i) (procs w' i) (out w')) /\
    (should_restart (cf i) (exitstatus (procs w i)) = false -> unchanged i w w') /\
    ((exists l x e, out w' = l ++ EState i EXITED STARTING x e :: out w) <->
     should_restart (cf i) (exitstatus (procs w i)) = true).
Proof.
  intros Hs Hp Hm.
  destruct (sx_world i (transition i) w _ ltac:(rewrite Hs; apply (transition_exited_sx i _ _ _ _ Hp Hm)))
    as ([] & w' & E & F & H1 & H2).
  exists w'. split; [exact E | split; [exact F | split; [exact H1 | split]]].
  - intros HH. destruct (H2 HH) as (a & b & c). unfold unchanged. rewrite Hs. auto.
  - split.
    + intros (l & x & e & El). destruct (should_restart (cf i) (exitstatus (procs w i))); [reflexivity|].
      destruct (H2 eq_refl) as (_ & _ & Eo). rewrite Eo in El. symmetry in El. apply app_cons_not_nil in El. destruct El.
    + intros HH. destruct (H1 HH) as [(np & _ & _ & _ & Eo) | (k & _ & _ & Eo)]; rewrite Eo.
      * eexists [_], _, _. reflexivity.
      * eexists [_; _], _, _. reflexivity.
Qed.

Theorem autostart_decision w i :
  sts w i = STOPPED -> pid (procs w i) = 0 -> mood w >= 1 ->
  exists w', transition i w = (Some tt, w') /\ fr i w w' /\
    (autostart_due (cf i) (procs w i) = true ->
       spawn_post i STOPPED (procs w i) (out w) (now w) tt (sts w' i) (procs w' i) (out w')) /\
    (autostart_due (cf i) (procs w i) = false -> unchanged i w w') /\
    ((exists l x e, out w' = l ++ EState i STOPPED STARTING x e :: out w) <->
     (laststart (procs w i) = 0 /\ c_autostart (cf i) = true)).
Proof.
  intros Hs Hp Hm.
  destruct (sx_world i (transition i) w _ ltac:(rewrite Hs; apply (transition_stopped_sx i _ _ _ _ Hp Hm)))
    as ([] & w' & E & F & H1 & H2).
  exists w'. split; [exact E | split; [exact F | split; [exact H1 | split]]].
  - intros HH. destruct (H2 HH) as (a & b & c). unfold unchanged. rewrite Hs. auto.
  - assert (Hd : autostart_due (cf i) (procs w i) = true <-> laststart (procs w i) = 0 /\ c_autostart (cf i) = true)
      by (unfold autostart_due; destruct (c_autostart (cf i)); lia).
    rewrite <- Hd. split.
    + intros (l & x & e & El). destruct (autostart_due (cf i) (procs w i)); [reflexivity|].
      destruct (H2 eq_refl) as (_ & _ & Eo). rewrite Eo in El. symmetry in El. apply app_cons_not_nil in El. destruct El.
    + intros HH. destruct (H1 HH) as [(np & _ & _ & _ & Eo) | (k & _ & _ & Eo)]; rewrite Eo.
      * eexists [_], _, _. reflexivity.
      * eexists [_; _], _, _. reflexivity.
Qed.

(* a process that was started before (laststart <> 0), e.g. one stopped by the administrator,
   is not started again by the main loop *)
Corollary stopped_after_start_stays_down w i :
  sts w i = STOPPED -> pid (procs w i) = 0 -> laststart (procs w i) <> 0 ->
  exists w', transition i w = (Some tt, w') /\ fr i w w' /\ unchanged i w w'.
Proof.
  intros Hs Hp Hl. destruct (Z_lt_le_dec (mood w) 1) as [Hm|Hm].
  - destruct (sx_world i (transition i) w _ ltac:(rewrite Hs; apply (transition_down_sx i STOPPED _ _ _ _ Hm); auto))
      as ([] & w' & E & F & a & b & c).
    exists w'. unfold unchanged. rewrite Hs. auto.
  - destruct (autostart_decision w i Hs Hp ltac:(lia)) as (w' & E & F & _ & H2 & _).
    exists w'. split; [exact E | split; [exact F|]]. apply H2. unfold autostart_due. lia.
Qed.

Theorem fatal_stays_down w i :
  sts w i = FATAL -> exists w', transition i w = (Some tt, w') /\ fr i w w' /\ unchanged i w w'.
Proof.
  intros Hs.
  destruct (sx_world i (transition i) w _ ltac:(rewrite Hs; apply transition_fatal_sx)) as ([] & w' & E & F & a & b & c).
  exists w'. unfold unchanged. rewrite Hs. auto.
Qed.

Theorem nothing_started_while_shutting_down w i :
  sts w i = EXITED \/ sts w i = STOPPED -> mood w < 1 ->
  exists w', transition i w = (Some tt, w') /\ fr i w w' /\ unchanged i w w'.
Proof.
  intros Hs Hm.
  destruct (sx_world i (transition i) w _ ltac:(apply (transition_down_sx i _ _ _ _ _ Hm Hs))) as ([] & w' & E & F & a & b & c).
  exists w'. unfold unchanged. auto.
Qed.

End Policy.

(* ====================================================================== *)
(* Part 0d: a generic upper layer.  Given an invariant X of worlds that only looks at the state map, the
   process records, the clock reading and the trace, and that the process-level operations keep (as
   hypotheses H_*: to be proved per invariant with the symbolic executor), X holds together with the core
   invariant K after everything the main loop does in one pass (after the clock has been read).
   `allowed` restricts which processes may be the target of a start request (all of them, or all but one). *)
(* the effects emitted above the process level *)
Definition upper (e : effect) : Prop :=
  match e with EAns _ _ | EAnsAll _ _ | ESup _ | EExitNow => True | _ => False end.

Definition inert3 (g : world -> world) : Prop :=
  forall w, inertw w (g w) /\ sts (g w) = sts w /\ procs (g w) = procs w /\ now (g w) = now w /\
            out (g w) = out w /\ pend (g w) = pend w.

Ltac inert3_prim :=
  let w := fresh "w" in
  intros w; repeat match goal with |- context [if ?c then _ else _] => destruct c end;
  unfold inertw; repeat split; cbn; first [lia | reflexivity].

Section KX.
Variable U : Z.
Variable pconfs : list pconf.
Variable gconfs : list gconf.
Variable X : world -> Prop.
Variable allowed : nat -> Prop.
Notation cf := (Model.cf pconfs).
Implicit Types P : world -> Prop.

(* a deferred answer that is stored in `pend` has no first round left (todo = None);
   one that is being created may start the allowed processes only *)
Definition def_ok (d : deferred) : Prop :=
  match d with DAll _ _ _ (Some _) _ _ => False | _ => True end.
Definition arg_ok (d : deferred) : Prop :=
  match d with DAll _ DStart _ (Some l) _ _ => Forall allowed l | _ => True end.
Lemma def_arg_ok d : def_ok d -> arg_ok d.
Proof. destruct d as [|req k wait [l|] cbs res]; cbn; try tauto. destruct k; tauto. Qed.
Definition IX (w : world) : Prop := X w /\ Forall def_ok (pend w).

Definition kx {A} (P : world -> Prop) (m : Model.M A) (R : A -> Prop) : Prop :=
  forall w, K w -> IX w -> P w -> exists a w', m w = (Some a, w') /\ K w' /\ IX w' /\ R a.
Definition xp {A} (P : world -> Prop) (m : Model.M A) : Prop :=
  forall w a w', K w -> X w -> P w -> m w = (Some a, w') -> X w'.
Definition anyv {A} : A -> Prop := fun _ => True.

Hypothesis X_emit : forall e w, upper e -> X w -> X (set_out (e :: out w) w).
Hypothesis X_modw : forall w w', sts w' = sts w -> procs w' = procs w -> now w' = now w -> out w' = out w -> X w -> X w'.
Hypothesis H_transition : forall j, xp (fun _ => True) (Model.transition U pconfs j).
Hypothesis H_stop : forall j s, killable s = true -> xp (fun w => sts w j = s) (Model.stop U pconfs j).
Hypothesis H_give_up : forall j, xp (fun w => sts w j = BACKOFF) (Model.give_up U j).
Hypothesis H_signal : forall j sg s, in_signallable_states s = true -> xp (fun w => sts w j = s) (Model.signal U j sg).
Hypothesis H_rollback : forall j w0, xp (fun w => w = w0) (Model.rollback_adjust U pconfs j (now w0)).
Hypothesis H_reap : forall fuel, xp (fun _ => True) (Model.reap U pconfs fuel).
Hypothesis H_spawn : forall j s, allowed j -> spawnable s = true \/ s = STOPPING ->
  xp (fun w => sts w j = s) (Model.spawn U pconfs j).

(* the operations on `pend` do not matter to X; a process-level operation does not touch `pend` *)
Definition obsPend (w : world) := pend w.

Lemma kx_of {A} P (m : Model.M A) : ipre P m -> xp P m -> quiet obsPend m -> kx P m anyv.
Proof.
  intros Hi Hx Hq w HK [HX HP] Pw. destruct (Hi w HK Pw) as (a & w' & E & K').
  exists a, w'. split; [exact E | split; [exact K' | split; [|exact Logic.I]]].
  split; [exact (Hx w a w' HK HX Pw E)|]. specialize (Hq w). rewrite E in Hq. unfold obsPend in Hq. cbn in Hq. rewrite Hq. exact HP.
Qed.

Lemma kx_weaken {A} (P : world -> Prop) (m : Model.M A) R : kx (fun _ => True) m R -> kx P m R.
Proof. intros H w HK HI _. apply H; auto. Qed.
Lemma kx_post {A} (P : world -> Prop) (m : Model.M A) (R R' : A -> Prop) :
  kx P m R -> (forall a, R a -> R' a) -> kx P m R'.
Proof. intros H HR w HK HI Pw. destruct (H w HK HI Pw) as (a & w' & E & K' & I' & Ra). exists a, w'. auto. Qed.
Lemma kx_ret {A} P (a : A) (R : A -> Prop) : R a -> kx P (ret a) R.
Proof. intros H w HK HI _. exists a, w. auto. Qed.
Lemma kx_bind {A B} P (m : Model.M A) (k : A -> Model.M B) R R' :
  kx P m R -> (forall a, R a -> kx (fun _ => True) (k a) R') -> kx P (bind m k) R'.
Proof.
  intros Hm Hk w HK HI Pw. destruct (Hm w HK HI Pw) as (a & w1 & E & K1 & I1 & Ra).
  unfold bind. rewrite E. apply (Hk a Ra); auto.
Qed.
(* a read of the world: the continuation knows it runs in exactly that world *)
Lemma kx_getw {B} P (k : world -> Model.M B) R :
  (forall w0, K w0 -> IX w0 -> P w0 -> kx (fun w => w = w0) (k w0) R) -> kx P (bind getw k) R.
Proof. intros H w HK HI Pw. unfold bind, getw. apply (H w HK HI Pw); auto. Qed.
Lemma kx_getp {B} P i (k : proc -> Model.M B) R : (forall p, kx P (k p) R) -> kx P (bind (getp i) k) R.
Proof. intros H w. unfold bind, getp. apply H. Qed.
Lemma kx_gets {B} (P : world -> Prop) i (k : pstate -> Model.M B) R :
  (forall s, kx (fun w => P w /\ sts w i = s) (k s) R) -> kx P (bind (gets i) k) R.
Proof. intros H w HK HI Pw. unfold bind, gets. apply H; auto. Qed.
Lemma kx_pre {A} (P P' : world -> Prop) (m : Model.M A) R : (forall w, P w -> P' w) -> kx P' m R -> kx P m R.
Proof. intros HP H w HK HI Pw. apply H; auto. Qed.
Lemma kx_ret_any {A} P (a : A) : kx P (ret a) anyv.
Proof. apply kx_ret. exact Logic.I. Qed.
Lemma kx_mapM {A} P (f : A -> Model.M unit) l :
  (forall x, In x l -> kx (fun _ => True) (f x) anyv) -> kx P (mapM_ f l) anyv.
Proof.
  intros H. apply kx_weaken. induction l as [|x l IH]; cbn; [apply kx_ret; exact Logic.I|].
  eapply kx_bind; [apply H; left; reflexivity | intros _ _; apply IH; intros y Hy; apply H; right; exact Hy].
Qed.

Lemma kx_emit P e : upper e -> kx P (emit e) anyv.
Proof.
  intros He w HK [HX HP] _. exists tt, (set_out (e :: out w) w). split; [reflexivity|].
  split; [eapply K_inert; [exact HK | repeat split; cbn; lia]|]. split; [|exact Logic.I].
  split; [apply X_emit; assumption | exact HP].
Qed.
Lemma kx_modw P g : inert3 g -> kx P (modw g) anyv.
Proof.
  intros Hg w HK [HX HP] _. destruct (Hg w) as (I1 & e1 & e2 & e3 & e4 & e5).
  exists tt, (g w). split; [reflexivity|]. split; [eapply K_inert; eassumption|]. split; [|exact Logic.I].
  split; [eapply X_modw; eassumption | rewrite e5; exact HP].
Qed.
Lemma kx_set_pend P (l : world -> list deferred) :
  (forall w, IX w -> P w -> Forall def_ok (l w)) -> kx P (modw (fun w => set_pend (l w) w)) anyv.
Proof.
  intros Hl w HK HI Pw. exists tt, (set_pend (l w) w). split; [reflexivity|].
  split; [eapply K_inert; [exact HK | repeat split; cbn; lia]|]. split; [|exact Logic.I].
  split; [eapply X_modw; [| | | |apply HI]; reflexivity | cbn; apply Hl; assumption].
Qed.
Lemma kx_set_exited P : kx P (modw set_exited) anyv.
Proof.
  intros w HK [HX HP] _. exists tt, (set_exited w). split; [reflexivity|].
  split; [eapply K_inert; [exact HK | repeat split; cbn; lia]|]. split; [|exact Logic.I].
  split; [|exact HP]. eapply (X_modw (set_out (EExitNow :: out w) w)); try reflexivity. apply X_emit; [exact Logic.I | exact HX].
Qed.

(* pend is not touched by the process-level operations *)
Ltac pq :=
  repeat match goal with
    | |- quiet _ (ret _) => apply quiet_ret
    | |- quiet _ (bind getw _) => apply quiet_getw; intros ?w0
    | |- quiet _ (bind (gets _) _) => apply quiet_gets; intros ?s
    | |- quiet _ (bind (getp _) _) => apply quiet_getp; intros ?p
    | |- quiet _ (setp _ _) => unfold setp
    | |- quiet _ (modp _ _) => unfold modp
    | |- quiet _ (assert_in _ _ _) => unfold assert_in
    | |- quiet _ (Model.change_state _ _ _ _) => unfold Model.change_state
    | |- quiet _ (Model.move _ _ _ _ _ _ _) => unfold Model.move
    | |- quiet _ (Model.kill_mark _ _ _ _) => unfold Model.kill_mark
    | |- quiet _ (k_kill _ _) => unfold k_kill
    | |- quiet _ (modw _) => qprim
    | |- quiet _ (emit _) => qprim
    | |- quiet _ (crash _) => qprim
    | |- quiet _ (mapM_ _ _) => apply quiet_mapM; intros
    | |- quiet _ _ => solve [auto]
    | |- quiet _ (if ?c then _ else _) => destruct c
    | |- quiet _ (match ?x with _ => _ end) => destruct x
    | |- quiet _ (bind _ _) => apply quiet_bind; [ | intros ? ]
    end.

Lemma qp_spawn i : quiet obsPend (Model.spawn U pconfs i).
Proof. unfold Model.spawn. pq. Qed.
Lemma qp_rollback i t : quiet obsPend (Model.rollback_adjust U pconfs i t).
Proof. unfold Model.rollback_adjust. pq. Qed.
Lemma qp_give_up i : quiet obsPend (Model.give_up U i).
Proof. unfold Model.give_up. pq. Qed.
Lemma qp_kill i sig : quiet obsPend (Model.kill U pconfs i sig).
Proof. unfold Model.kill. pq. Qed.
Lemma qp_stop i : quiet obsPend (Model.stop U pconfs i).
Proof. unfold Model.stop. pose proof (qp_kill i). pq. Qed.
Lemma qp_signal i sig : quiet obsPend (Model.signal U i sig).
Proof. unfold Model.signal. pq. Qed.
Lemma qp_finish i s : quiet obsPend (Model.finish U pconfs i s).
Proof. unfold Model.finish. pose proof (qp_rollback i). pq. Qed.
Lemma qp_transition i : quiet obsPend (Model.transition U pconfs i).
Proof.
  unfold Model.transition. pose proof (qp_rollback i). pose proof (qp_spawn i). pose proof (qp_give_up i).
  pose proof (qp_kill i). pq.
Qed.
Lemma qp_reap fuel : quiet obsPend (Model.reap U pconfs fuel).
Proof. induction fuel as [|f IH]; cbn; [apply quiet_ret|]. pose proof (fun i s => qp_finish i s). pq. Qed.
Lemma qp_start_process i wait : quiet obsPend (Model.start_process U pconfs i wait).
Proof.
  unfold Model.start_process, reap_all. pose proof (qp_spawn i). pose proof (qp_reap 100). pose proof (qp_transition i). pq.
Qed.

(* ---------- leaves *)
Lemma transition_kx j : kx (fun _ => True) (Model.transition U pconfs j) anyv.
Proof. apply kx_of; [apply transition_ipre | apply H_transition | apply qp_transition]. Qed.
Lemma stop_kx j s : killable s = true -> kx (fun w => sts w j = s) (Model.stop U pconfs j) anyv.
Proof. intros Hs. apply kx_of; [apply stop_ipre; exact Hs | apply H_stop; exact Hs | apply qp_stop]. Qed.
Lemma give_up_kx j : kx (fun w => sts w j = BACKOFF) (Model.give_up U j) anyv.
Proof. apply kx_of; [apply give_up_ipre | apply H_give_up | apply qp_give_up]. Qed.
Lemma signal_kx j sg s : in_signallable_states s = true -> kx (fun w => sts w j = s) (Model.signal U j sg) anyv.
Proof. intros Hs. apply kx_of; [apply signal_ipre; exact Hs | apply H_signal; exact Hs | apply qp_signal]. Qed.
Lemma rollback_kx j w0 : kx (fun w => w = w0) (Model.rollback_adjust U pconfs j (now w0)) anyv.
Proof. apply kx_of; [apply ipre_weaken; apply rollback_ipre | apply H_rollback | apply qp_rollback]. Qed.
Lemma reap_kx fuel : kx (fun _ => True) (Model.reap U pconfs fuel) anyv.
Proof. apply kx_of; [apply reap_ipre | apply H_reap | apply qp_reap]. Qed.
Lemma spawn_kx j s : allowed j -> spawnable s = true \/ s = STOPPING ->
  kx (fun w => sts w j = s) (Model.spawn U pconfs j) anyv.
Proof. intros Ha Hs. apply kx_of; [apply spawn_ipre; exact Hs | apply H_spawn; assumption | apply qp_spawn]. Qed.

Ltac kxstep :=
  lazymatch goal with
  | |- kx _ (ret _) anyv => apply kx_ret_any
  | |- kx _ (ret _) ?R => first [is_evar R; apply kx_ret_any | apply kx_ret; try exact Logic.I]
  | |- kx _ (bind getw _) _ => apply kx_getw; intros ?w0 ?HK0 ?HI0 ?HP0
  | |- kx _ (bind (getp _) _) _ => apply kx_getp; intros ?p
  | |- kx _ (bind (gets _) _) _ =>
    apply kx_gets; let s := fresh "s" in intros s; destruct s;
    cbn [in_running_states in_stopped_states in_signallable_states pstate_eqb negb andb orb pred_one]
  | |- kx _ (emit _) _ => apply kx_emit; exact Logic.I
  | |- kx _ (modw set_exited) _ => apply kx_set_exited
  | |- kx _ (modw _) _ => apply kx_modw; inert3_prim
  | |- kx _ (mapM_ _ _) _ => apply kx_mapM; intros
  | |- kx (fun w => @?P w /\ sts w ?x = ?s) (Model.stop _ _ ?x) _ =>
    apply (kx_pre _ (fun w => sts w x = s)); [cbv beta; intros; tauto | apply stop_kx; reflexivity]
  | |- kx (fun w => @?P w /\ sts w ?x = ?s) (Model.spawn _ _ ?x) _ =>
    apply (kx_pre _ (fun w => sts w x = s)); [cbv beta; intros; tauto | apply spawn_kx; [assumption | solve [auto]]]
  | |- kx (fun w => @?P w /\ sts w ?x = ?s) (Model.give_up _ ?x) _ =>
    apply (kx_pre _ (fun w => sts w x = s)); [cbv beta; intros; tauto | apply give_up_kx]
  | |- kx (fun w => @?P w /\ sts w ?x = ?s) (Model.signal _ ?x _) _ =>
    apply (kx_pre _ (fun w => sts w x = s)); [cbv beta; intros; tauto | apply signal_kx; reflexivity]
  | |- kx _ (Model.rollback_adjust _ _ ?x (now ?w0)) _ =>
    apply (kx_pre _ (fun w => w = w0)); [cbv beta; intros; tauto | apply rollback_kx]
  | |- kx _ (Model.transition _ _ _) _ => apply kx_weaken; apply transition_kx
  | |- kx _ (Model.reap _ _ _) _ => apply kx_weaken; apply reap_kx
  | |- kx _ (reap_all _ _) _ => unfold reap_all; apply kx_weaken; apply reap_kx
  | |- kx _ (if ?c then _ else _) _ => destruct c
  | |- kx _ (match ?x with _ => _ end) _ => destruct x
  | |- kx _ (bind _ _) _ => eapply kx_bind; [ | intros ? _ ]
  | |- kx _ _ _ => fail "no rule"
  end.
Ltac kxtac := repeat kxstep.

Lemma stop_all_kx g : kx (fun _ => True) (Model.stop_all U pconfs gconfs g) anyv.
Proof. unfold Model.stop_all. kxtac. Qed.
Lemma handle_signal_kx : kx (fun _ => True) handle_signal anyv.
Proof. unfold handle_signal. kxtac. Qed.
Lemma start_onwait_kx i : kx (fun _ => True) (start_onwait i) anyv.
Proof. unfold start_onwait. kxtac. Qed.
Lemma stop_onwait_kx i : kx (fun _ => True) (Model.stop_onwait U pconfs i) anyv.
Proof. unfold Model.stop_onwait. kxtac. Qed.
Lemma stop_process_kx i wait : kx (fun _ => True) (Model.stop_process U pconfs i wait) anyv.
Proof. unfold Model.stop_process. kxtac. Qed.
Lemma signal_process_kx i sg ok : kx (fun _ => True) (Model.signal_process U pconfs i sg ok) anyv.
Proof. unfold Model.signal_process. kxtac. Qed.

Lemma start_process_kx j wait : allowed j -> kx (fun _ => True) (Model.start_process U pconfs j wait) anyv.
Proof. intros Ha. unfold Model.start_process. kxtac. Qed.

Lemma poll_one_kx k i : kx (fun _ => True) (Model.poll_one U pconfs k i) anyv.
Proof. destruct k; cbn [Model.poll_one]; [apply start_onwait_kx | apply stop_onwait_kx]. Qed.

Lemma all_first_kx k wait l : (k = DStart -> Forall allowed l) ->
  forall cbs res, kx (fun _ => True) (Model.all_first U pconfs k wait l cbs res) anyv.
Proof.
  induction l as [|x l IH]; intros Hl cbs res; cbn [Model.all_first]; [apply kx_ret_any|].
  assert (Hl' : k = DStart -> Forall allowed l) by (intros E; specialize (Hl E); inversion Hl; assumption).
  assert (Hcall : kx (fun _ => True) (Model.call_one U pconfs k wait x) anyv).
  { destruct k; cbn [Model.call_one]; [apply start_process_kx; specialize (Hl eq_refl); inversion Hl; assumption
                                      | apply stop_process_kx]. }
  apply kx_gets. intros s. destruct (pred_one k s); [|apply kx_weaken; apply IH; exact Hl'].
  eapply kx_bind; [apply kx_weaken; exact Hcall|]. intros c _. destruct c as [[| |]|]; apply IH; exact Hl'.
Qed.

Lemma all_poll_kx k l : forall cbs res, kx (fun _ => True) (Model.all_poll U pconfs k l cbs res) anyv.
Proof.
  induction l as [|x l IH]; intros cbs res; cbn [Model.all_poll]; [apply kx_ret_any|].
  eapply kx_bind; [apply poll_one_kx|]. intros v _. destruct v as [[| |]|]; apply IH.
Qed.

Definition opt_ok (o : option deferred) : Prop := match o with Some d => def_ok d | None => True end.

Lemma poll_deferred_kx d : arg_ok d -> kx (fun _ => True) (Model.poll_deferred U pconfs d) opt_ok.
Proof.
  intros Hd. destruct d as [req k i | req k wait todo cbs res]; cbn [Model.poll_deferred].
  - eapply kx_bind; [apply poll_one_kx|]. intros v _. destruct v.
    + eapply kx_bind; [apply kx_emit; exact Logic.I|]. intros _ _. apply kx_ret. exact Logic.I.
    + apply kx_ret. exact Logic.I.
  - eapply (kx_bind _ _ _ anyv).
    + destruct todo as [l|]; [|apply kx_ret_any]. apply all_first_kx. intros ->. exact Hd.
    + intros [cbs1 res1] _. destruct cbs1 as [|c1 cbs1].
      * eapply kx_bind; [apply kx_emit; exact Logic.I|]. intros _ _. apply kx_ret. exact Logic.I.
      * eapply kx_bind; [apply all_poll_kx|]. intros [cbs2 res2] _. destruct cbs2.
        -- eapply kx_bind; [apply kx_emit; exact Logic.I|]. intros _ _. apply kx_ret. exact Logic.I.
        -- apply kx_ret. exact Logic.I.
Qed.

Lemma poll_pending_kx l : Forall def_ok l -> forall keep, Forall def_ok keep ->
  kx (fun _ => True) (Model.poll_pending U pconfs l keep) (Forall def_ok).
Proof.
  induction l as [|d l IH]; intros Hl keep Hk; cbn [Model.poll_pending]; [apply kx_ret; exact Hk|].
  inversion Hl; subst. eapply kx_bind; [apply poll_deferred_kx; apply def_arg_ok; assumption|].
  intros o Ho. destruct o as [d'|]; apply IH; try assumption.
  apply Forall_app. split; [exact Hk | constructor; [exact Ho | constructor]].
Qed.

Lemma defer_now_kx d : arg_ok d -> kx (fun _ => True) (Model.defer_now U pconfs d) anyv.
Proof.
  intros Hd. unfold Model.defer_now. eapply kx_bind; [apply poll_deferred_kx; exact Hd|].
  intros o Ho. destruct o as [d'|]; [|apply kx_ret_any].
  unfold add_pending. apply kx_set_pend. intros w [_ HP] _. apply Forall_app. split; [exact HP | constructor; [exact Ho | constructor]].
Qed.

Definition rpc_ok (r : rpc) : Prop :=
  match r with
  | RStart j _ => allowed j
  | RStartGroup g _ => Forall allowed (procs_by_priority pconfs gconfs g)
  | RStartAll _ => Forall allowed (all_procs_sorted pconfs gconfs)
  | _ => True
  end.
Definition act_ok (a : act) : Prop := match a with ARpc _ r => rpc_ok r | _ => True end.

Lemma do_rpc_kx req r : rpc_ok r -> kx (fun _ => True) (Model.do_rpc U pconfs gconfs req r) anyv.
Proof.
  intros Hr. unfold Model.do_rpc. apply kx_getw. intros w0 HK0 HI0 _. apply kx_weaken.
  destruct r; cbn [rpc_ok] in Hr.
  - eapply kx_bind; [apply start_process_kx; exact Hr|]. intros c _. destruct c; [apply kx_emit; exact Logic.I|].
    apply defer_now_kx. exact Logic.I.
  - eapply kx_bind; [apply stop_process_kx|]. intros c _. destruct c; [apply kx_emit; exact Logic.I|].
    apply defer_now_kx. exact Logic.I.
  - eapply kx_bind; [apply signal_process_kx|]. intros c _. destruct c; [apply kx_emit; exact Logic.I | apply kx_ret_any].
  - destruct (mood w0 <? 1); [apply kx_emit; exact Logic.I|].
    destruct (negb _); [apply kx_emit; exact Logic.I|]. apply defer_now_kx. exact Hr.
  - destruct (mood w0 <? 1); [apply kx_emit; exact Logic.I|].
    destruct (negb _); [apply kx_emit; exact Logic.I|]. apply defer_now_kx. exact Logic.I.
  - destruct (mood w0 <? 1); [apply kx_emit; exact Logic.I|]. apply defer_now_kx. exact Hr.
  - destruct (mood w0 <? 1); [apply kx_emit; exact Logic.I|]. apply defer_now_kx. exact Logic.I.
  - kxtac.
  - kxtac.
Qed.

Lemma do_act_kx a : act_ok a -> kx (fun _ => True) (Model.do_act U pconfs gconfs a) anyv.
Proof.
  intros Ha. destruct a; cbn [Model.do_act act_ok] in *.
  - unfold child_dies. kxtac.
  - unfold child_dies. kxtac.
  - kxtac.
  - kxtac.
  - apply do_rpc_kx. exact Ha.
  - apply kx_getw. intros w0 HK0 [_ HP0] _. apply kx_weaken.
    eapply kx_bind; [apply kx_set_pend; intros; constructor|]. intros _ _.
    eapply kx_bind; [apply poll_pending_kx; [exact HP0 | constructor]|]. intros keep Hkeep.
    apply kx_set_pend. intros w [_ HP] _. apply Forall_app. split; assumption.
Qed.

Lemma loop_head_kx : kx (fun _ => True) (Model.loop_head U pconfs gconfs) anyv.
Proof. unfold Model.loop_head. pose proof stop_all_kx. kxtac; apply kx_weaken; auto. Qed.
Lemma phase2_kx : kx (fun _ => True) (Model.phase2 gconfs) anyv.
Proof. unfold Model.phase2. kxtac. Qed.

Definition pass_rest (o : passop) : Model.M unit :=
  bind (mapM_ (Model.do_act U pconfs gconfs) (p_acts o)) (fun _ =>
  bind (mapM_ (transition_group U pconfs gconfs) (sorted_groups gconfs)) (fun _ =>
  bind (reap_all U pconfs) (fun _ => bind handle_signal (fun _ => bind (Model.phase2 gconfs) (fun _ =>
  Model.loop_head U pconfs gconfs))))).

Lemma pass_rest_kx o : Forall act_ok (p_acts o) -> kx (fun _ => True) (pass_rest o) anyv.
Proof.
  intros Ho. unfold pass_rest.
  eapply kx_bind; [apply kx_mapM; intros a Ha; apply do_act_kx; rewrite Forall_forall in Ho; auto|]. intros _ _.
  eapply kx_bind; [apply kx_mapM; intros g _; unfold transition_group; apply kx_mapM; intros j _; apply transition_kx|]. intros _ _.
  eapply kx_bind; [unfold reap_all; apply reap_kx|]. intros _ _.
  eapply kx_bind; [apply handle_signal_kx|]. intros _ _.
  eapply kx_bind; [apply phase2_kx|]. intros _ _. apply loop_head_kx.
Qed.

(* one pass: the clock is read (set_pass), then everything else *)
Theorem pass_kx o w :
  Forall act_ok (p_acts o) -> K w -> IX (set_pass (p_now o) (p_forkq o) (p_killq o) w) ->
  exists w', Model.do_pass U pconfs gconfs o w = (Some tt, w') /\ K w' /\ IX w'.
Proof.
  intros Ho HK HI.
  assert (K1 : K (set_pass (p_now o) (p_forkq o) (p_killq o) w)) by (eapply K_inert; [exact HK | repeat split; cbn; lia]).
  destruct (pass_rest_kx o Ho _ K1 HI Logic.I) as ([] & w' & E & K' & I' & _).
  exists w'. split; [|split; assumption]. exact E.
Qed.

End KX.

(* ====================================================================== *)
(* First instance: stored deferred answers never carry a first round (X trivial, every start allowed) *)
Section PendRun.
Variable U : Z.
Variable pconfs : list pconf.
Variable gconfs : list gconf.
Notation run := (Model.run U pconfs gconfs).

Lemma act_ok_all a : act_ok pconfs gconfs (fun _ => True) a.
Proof.
  destruct a; cbn; try exact Logic.I. destruct r; cbn; try exact Logic.I; apply Forall_forall; intros; exact Logic.I.
Qed.

Theorem pend_no_todo_step w o :
  K w -> Forall def_ok (pend w) ->
  K (Model.step U pconfs gconfs w o) /\ Forall def_ok (pend (Model.step U pconfs gconfs w o)).
Proof.
  intros HK HP. unfold Model.step. destruct (crashed w || exited w); [split; assumption|].
  destruct (pass_kx U pconfs gconfs (fun _ => True) (fun _ => True)) with (o := o) (w := w)
    as (w' & E & K' & _ & P'); try (intros; exact Logic.I); try assumption.
  - unfold xp. intros; exact Logic.I.
  - unfold xp. intros; exact Logic.I.
  - unfold xp. intros; exact Logic.I.
  - unfold xp. intros; exact Logic.I.
  - unfold xp. intros; exact Logic.I.
  - unfold xp. intros; exact Logic.I.
  - unfold xp. intros; exact Logic.I.
  - apply Forall_forall. intros a _. apply act_ok_all.
  - split; [exact Logic.I | exact HP].
  - rewrite E. split; assumption.
Qed.

Theorem pend_no_todo_run ops : K (run ops) /\ Forall def_ok (pend (run ops)).
Proof.
  unfold Model.run. assert (H0 : K world0 /\ Forall def_ok (pend world0)) by (split; [apply K_world0 | constructor]).
  revert H0. generalize world0.
  induction ops as [|o ops IH]; intros w [HK HP]; cbn; [split; assumption|].
  apply IH. apply pend_no_todo_step; assumption.
Qed.
End PendRun.

(* ====================================================================== *)
(* Part A5: a process that is down for good stays down *)
Fixpoint nforki (i : nat) (o : list effect) : nat :=
  match o with
  | [] => O
  | EFork j _ :: r => if Nat.eqb j i then S (nforki i r) else nforki i r
  | _ :: r => nforki i r
  end.

(* what is observed of process i: its state, its record, the number of its forks so far *)
Definition obsN (i : nat) (w : world) : pstate * proc * nat := (sts w i, procs w i, nforki i (out w)).

Ltac n_prim Hb Hb2 :=
  apply quiet_prim; intros; unfold obsN; cbn; unfold upd; rewrite ?Hb, ?Hb2;
  repeat match goal with |- context [if ?c then _ else _] => destruct c end; reflexivity.

Ltac ntac Hb Hb2 :=
  repeat match goal with
    | |- quiet _ (ret _) => apply quiet_ret
    | |- quiet _ (bind getw _) => apply quiet_getw; intros ?w0
    | |- quiet _ (bind (gets _) _) => apply quiet_gets; intros ?s
    | |- quiet _ (bind (getp _) _) => apply quiet_getp; intros ?p
    | |- quiet _ _ => solve [auto]
    | |- quiet _ (setp _ _) => unfold setp
    | |- quiet _ (modp _ _) => unfold modp
    | |- quiet _ (assert_in _ _ _) => unfold assert_in
    | |- quiet _ (Model.change_state _ _ _ _) => unfold Model.change_state
    | |- quiet _ (Model.move _ _ _ _ _ _ _) => unfold Model.move
    | |- quiet _ (Model.kill_mark _ _ _ _) => unfold Model.kill_mark
    | |- quiet _ (k_kill _ _) => unfold k_kill
    | |- quiet _ (Model.rollback_adjust _ _ _ _) => unfold Model.rollback_adjust
    | |- quiet _ (modw _) => n_prim Hb Hb2
    | |- quiet _ (emit _) => n_prim Hb Hb2
    | |- quiet _ (crash _) => n_prim Hb Hb2
    | |- quiet _ (if ?c then _ else _) => destruct c
    | |- quiet _ (match ?x with _ => _ end) => destruct x
    | |- quiet _ (bind _ _) => apply quiet_bind; [ | intros ? ]
    end.

Section Frame.
Variable U : Z.
Variable pconfs : list pconf.
Variables i j : nat.
Hypothesis Hne : j <> i.

Lemma Hb_ij : Nat.eqb i j = false. Proof. apply Nat.eqb_neq. congruence. Qed.
Lemma Hb_ji : Nat.eqb j i = false. Proof. apply Nat.eqb_neq. congruence. Qed.

Lemma n_spawn : quiet (obsN i) (Model.spawn U pconfs j).
Proof. pose proof Hb_ij as Hb. pose proof Hb_ji as Hb2. unfold Model.spawn. ntac Hb Hb2. Qed.
Lemma n_rollback t : quiet (obsN i) (Model.rollback_adjust U pconfs j t).
Proof. pose proof Hb_ij as Hb. pose proof Hb_ji as Hb2. ntac Hb Hb2. Qed.
Lemma n_give_up : quiet (obsN i) (Model.give_up U j).
Proof. pose proof Hb_ij as Hb. pose proof Hb_ji as Hb2. unfold Model.give_up. ntac Hb Hb2. Qed.
Lemma n_kill sg : quiet (obsN i) (Model.kill U pconfs j sg).
Proof. pose proof Hb_ij as Hb. pose proof Hb_ji as Hb2. unfold Model.kill. ntac Hb Hb2. Qed.
Lemma n_stop : quiet (obsN i) (Model.stop U pconfs j).
Proof. pose proof Hb_ij as Hb. pose proof Hb_ji as Hb2. pose proof n_kill. unfold Model.stop. ntac Hb Hb2. Qed.
Lemma n_signal sg : quiet (obsN i) (Model.signal U j sg).
Proof. pose proof Hb_ij as Hb. pose proof Hb_ji as Hb2. unfold Model.signal. ntac Hb Hb2. Qed.
Lemma n_finish st : quiet (obsN i) (Model.finish U pconfs j st).
Proof. pose proof Hb_ij as Hb. pose proof Hb_ji as Hb2. unfold Model.finish. cbv zeta. ntac Hb Hb2. Qed.
Lemma n_transition : quiet (obsN i) (Model.transition U pconfs j).
Proof.
  pose proof Hb_ij as Hb. pose proof Hb_ji as Hb2. pose proof n_spawn. pose proof n_give_up. pose proof n_kill.
  unfold Model.transition. cbv zeta. ntac Hb Hb2.
Qed.
End Frame.

Section NoStart.
Variable U : Z.
Variable pconfs : list pconf.
Variable gconfs : list gconf.
Notation cf := (Model.cf pconfs).
Notation run := (Model.run U pconfs gconfs).
Notation reap := (Model.reap U pconfs).

(* reap and a process without a child: untouched (finish is only called for a pid-table entry) *)
Lemma reap_untouched i fuel : forall w,
  K w -> pid (procs w i) = 0 ->
  exists w', reap fuel w = (Some tt, w') /\ K w' /\ obsN i w' = obsN i w.
Proof.
  induction fuel as [|f IH]; intros w HK Hp; [exists w; auto|].
  cbn [Model.reap]. unfold bind at 1. unfold getw at 1.
  destruct (zombies w) as [|[zp st] rest] eqn:Ez; [exists w; auto|].
  unfold bind at 1. unfold modw at 1. unfold bind at 1. unfold emit at 1.
  set (w1 := set_out _ _).
  assert (I1 : inertw w w1) by (subst w1; repeat split; cbn; lia).
  assert (K1 : K w1) by (eapply K_inert; eassumption).
  assert (E1 : obsN i w1 = obsN i w) by (subst w1; reflexivity).
  assert (Hp1 : pid (procs w1 i) = 0) by (subst w1; exact Hp).
  destruct (lookup_hist zp (pidhist w)) as [j|] eqn:EL.
  - apply lookup_hist_in in EL.
    assert (Hj : j <> i).
    { intros ->. destruct (k_hist w HK zp i EL) as [Epid Hr]. lia. }
    destruct (finish_run U pconfs j zp st w1 K1 EL) as (w2 & E2 & Ep0 & K3).
    unfold bind at 1. rewrite E2. unfold bind at 1. unfold modw at 1.
    pose proof (n_finish U pconfs i j Hj st w1) as Eq. rewrite E2 in Eq. cbn [snd] in Eq.
    destruct (IH _ K3) as (w' & E' & K' & Eo').
    { cbn. unfold obsN in Eq. inversion Eq as [[Es Ep Eo]]. rewrite Ep. exact Hp1. }
    exists w'. split; [exact E' | split; [exact K'|]]. rewrite Eo'. unfold obsN in *. cbn. congruence.
  - destruct (IH _ K1 Hp1) as (w' & E' & K' & Eo').
    exists w'. split; [exact E' | split; [exact K' | congruence]].
Qed.

Variable i : nat.
Variable v : pstate * proc * nat.
Hypothesis v_down : fst (fst v) = FATAL \/ (fst (fst v) = STOPPED /\ laststart (snd (fst v)) <> 0).

Definition NS (w : world) : Prop := obsN i w = v.
Definition others (j : nat) : Prop := j <> i.

Lemma NS_state w : NS w -> sts w i = FATAL \/ (sts w i = STOPPED /\ laststart (procs w i) <> 0).
Proof. unfold NS, obsN. intros <-. exact v_down. Qed.

Lemma NS_quiet {A} (m : Model.M A) P : quiet (obsN i) m -> xp NS P m.
Proof. intros Hq w a w' _ HX _ E. specialize (Hq w). rewrite E in Hq. unfold NS in *. cbn in Hq. congruence. Qed.

Lemma NS_emit e w : upper e -> NS w -> NS (set_out (e :: out w) w).
Proof. unfold NS, obsN. intros He <-. destruct e; cbn; try reflexivity. destruct He. Qed.
Lemma NS_modw w w' : sts w' = sts w -> procs w' = procs w -> now w' = now w -> out w' = out w -> NS w -> NS w'.
Proof. unfold NS, obsN. intros -> -> _ -> H. exact H. Qed.

Lemma NS_transition j : xp NS (fun _ => True) (Model.transition U pconfs j).
Proof.
  destruct (Nat.eq_dec j i) as [-> | Hj]; [|apply NS_quiet; apply n_transition; exact Hj].
  intros w a w' HK HX _ E. destruct (NS_state w HX) as [Hs | [Hs Hl]].
  - destruct (fatal_stays_down U pconfs w i Hs) as (w2 & E2 & _ & e1 & e2 & e3).
    rewrite E2 in E. inversion E; subst w2. unfold NS, obsN in *. congruence.
  - assert (Hp : pid (procs w i) = 0) by (destruct (k_pi w HK i) as (_ & _ & _ & d); apply d; rewrite Hs; reflexivity).
    destruct (stopped_after_start_stays_down U pconfs w i Hs Hp Hl) as (w2 & E2 & _ & e1 & e2 & e3).
    rewrite E2 in E. inversion E; subst w2. unfold NS, obsN in *. congruence.
Qed.

Lemma NS_not (s : pstate) w : NS w -> sts w i = s -> s <> FATAL -> s <> STOPPED -> False.
Proof. intros HX Hs H1 H2. destruct (NS_state w HX) as [H | [H _]]; congruence. Qed.

Lemma NS_stop j s : killable s = true -> xp NS (fun w => sts w j = s) (Model.stop U pconfs j).
Proof.
  intros Hk. destruct (Nat.eq_dec j i) as [-> | Hj]; [|apply NS_quiet; apply n_stop; exact Hj].
  intros w a w' _ HX Hs _. exfalso. apply (NS_not s w HX Hs); intros ->; discriminate Hk.
Qed.
Lemma NS_give_up j : xp NS (fun w => sts w j = BACKOFF) (Model.give_up U j).
Proof.
  destruct (Nat.eq_dec j i) as [-> | Hj]; [|apply NS_quiet; apply n_give_up; exact Hj].
  intros w a w' _ HX Hs _. exfalso. apply (NS_not BACKOFF w HX Hs); discriminate.
Qed.
Lemma NS_signal j sg s : in_signallable_states s = true -> xp NS (fun w => sts w j = s) (Model.signal U j sg).
Proof.
  intros Hk. destruct (Nat.eq_dec j i) as [-> | Hj]; [|apply NS_quiet; apply n_signal; exact Hj].
  intros w a w' _ HX Hs _. exfalso. apply (NS_not s w HX Hs); intros ->; discriminate Hk.
Qed.
Lemma NS_rollback j w0 : xp NS (fun w => w = w0) (Model.rollback_adjust U pconfs j (now w0)).
Proof.
  destruct (Nat.eq_dec j i) as [-> | Hj]; [|apply NS_quiet; apply n_rollback; exact Hj].
  intros w a w' _ HX Ew E. subst w0. unfold Model.rollback_adjust, bind, getp, gets, setp, modw in E.
  assert (Ea : adjust_times U (sts w i) (cf i) (now w) (procs w i) = procs w i)
    by (destruct (NS_state w HX) as [-> | [-> _]]; reflexivity).
  rewrite Ea in E. inversion E; subst. unfold NS, obsN in *. cbn. rewrite upd_same. exact HX.
Qed.
Lemma NS_reap fuel : xp NS (fun _ => True) (reap fuel).
Proof.
  intros w a w' HK HX _ E.
  assert (Hp : pid (procs w i) = 0).
  { destruct (k_pi w HK i) as (_ & _ & _ & d). apply d. destruct (NS_state w HX) as [-> | [-> _]]; reflexivity. }
  destruct (reap_untouched i fuel w HK Hp) as (w2 & E2 & _ & Eo). rewrite E2 in E. inversion E; subst w2.
  unfold NS in *. congruence.
Qed.
Lemma NS_spawn j s : others j -> spawnable s = true \/ s = STOPPING -> xp NS (fun w => sts w j = s) (Model.spawn U pconfs j).
Proof. intros Hj _. apply NS_quiet. apply n_spawn. exact Hj. Qed.

(* A5, one pass: whatever the script does in this pass - except asking to start process i (by name, by a
   group that contains it, or by "all") - a process that is FATAL, or STOPPED after having been started
   once, is exactly as it was at the end of the pass, and no child was forked for it *)
Theorem no_spontaneous_start_pass w o :
  K w -> Forall def_ok (pend w) -> NS w -> Forall (act_ok pconfs gconfs others) (p_acts o) ->
  exists w', Model.do_pass U pconfs gconfs o w = (Some tt, w') /\ K w' /\ Forall def_ok (pend w') /\ NS w'.
Proof.
  intros HK HP HX Ho.
  destruct (pass_kx U pconfs gconfs NS others NS_emit NS_modw NS_transition NS_stop NS_give_up NS_signal
                    NS_rollback NS_reap NS_spawn o w Ho HK) as (w' & E & K' & X' & P').
  - split; [exact HX | exact HP].
  - exists w'. auto.
Qed.

End NoStart.

(* no start request for process i in the pass *)
Definition no_start_for (pconfs : list pconf) (gconfs : list gconf) (i : nat) (o : passop) : Prop :=
  Forall (act_ok pconfs gconfs (fun j => j <> i)) (p_acts o).

(* A5 on whole runs: at any boundary of any run, if process i is FATAL, or STOPPED with laststart <> 0, and the
   next pass contains no start request for it, then after that pass it is in the same state with the same
   record and the trace contains no new EFork for it *)
Theorem no_spontaneous_start_run U pconfs gconfs ops o i :
  let w := Model.run U pconfs gconfs ops in
  let w' := Model.step U pconfs gconfs w o in
  sts w i = FATAL \/ (sts w i = STOPPED /\ laststart (procs w i) <> 0) ->
  no_start_for pconfs gconfs i o ->
  sts w' i = sts w i /\ procs w' i = procs w i /\ nforki i (out w') = nforki i (out w).
Proof.
  cbv zeta. intros Hd Ho. destruct (pend_no_todo_run U pconfs gconfs ops) as [HK HP].
  unfold Model.step. destruct (crashed _ || exited _); [auto|].
  destruct (no_spontaneous_start_pass U pconfs gconfs i (obsN i (Model.run U pconfs gconfs ops)) Hd _ o HK HP eq_refl Ho)
    as (w' & E & _ & _ & HX).
  rewrite E. cbn [snd]. unfold NS, obsN in HX. inversion HX. auto.
Qed.

(* ====================================================================== *)
(* Part A3: the retry counter and the retry delay, at every boundary of every run.
   R is the set of clock readings taken so far.  For every process: the failure counter is never negative;
   in BACKOFF it is at least 1 and delay = t + backoff * U for a genuine reading t (the reading of the
   failure, or a later, smaller one after a clock rollback: adjust_times). *)
Definition bk_loc (U : Z) (R : Z -> Prop) (s : pstate) (p : proc) : Prop :=
  0 <= backoff p /\ (s = BACKOFF -> 1 <= backoff p /\ R (delay p - backoff p * U)).
Definition BKL (U : Z) (R : Z -> Prop) (w : world) : Prop :=
  R (now w) /\ forall j, bk_loc U R (sts w j) (procs w j).

Lemma BKL_mono U (R R' : Z -> Prop) w : (forall t, R t -> R' t) -> R' (now w) -> BKL U R w -> BKL U R' w.
Proof.
  intros HR Hn [_ H]. split; [exact Hn|]. intros j. destruct (H j) as [a b]. split; [exact a|].
  intros Hs. destruct (b Hs). auto.
Qed.

Ltac bkleaf t :=
  unfold bk_loc in *; pcbv;
  split; [lia | let Hs := fresh "Hs" in intros Hs; try discriminate Hs;
    (split; [lia |
      first [ assumption
            | match goal with |- ?R ?x => replace x with t by lia; assumption end ]])].

Ltac bkstart p s HPI Hbk :=
  pdestr p; destruct Hbk as [Hb0 Hb1]; pcbv_in Hb0; pcbv_in Hb1;
  destruct s;
  try (let H := fresh "H" in assert (H := Hb1 eq_refl); clear Hb1; destruct H as [Hb1 Hb2]);
  pose proof HPI as (_ & _ & Hlive & Hdead); cbn [live_state dead_state] in Hlive, Hdead; pcbv_in Hlive; pcbv_in Hdead;
  try specialize (Hlive eq_refl); try specialize (Hdead eq_refl); try subst.
Ltac padj :=
  repeat (lazymatch goal with
          | |- @sx _ _ _ _ ?p _ _ _ _ =>
            match p with context [if ?c then _ else _] => destruct c eqn:?; pcbv end
          end).

Section Backoff.
Variable U : Z.
Variable pconfs : list pconf.
Variable gconfs : list gconf.
Variable R : Z -> Prop.
Notation cf := (Model.cf pconfs).
Notation bk := (bk_loc U R).

Definition bkpost {A} : spost A := fun _ s' p' _ => bk s' p'.

Lemma transition_bk j s p o t md :
  PI s p -> bk s p -> R t -> sx j (Model.transition U pconfs j) s p o t md bkpost.
Proof.
  intros HPI Hbk Ht. unfold bkpost. bkstart p s HPI Hbk.
  all: unfold Model.transition, Model.spawn, Model.give_up, Model.kill; cbv zeta.
  all: xstep; xstep; apply sx_rollback; cbn [adjust_times]; pcbv; padj.
  all: xrun.
  all: try solve [bkleaf t].
  all: try xarith.
Qed.

Lemma spawn_bk j s p o t md :
  PI s p -> bk s p -> R t -> spawnable s = true \/ s = STOPPING ->
  sx j (Model.spawn U pconfs j) s p o t md bkpost.
Proof.
  intros HPI Hbk Ht Hs. unfold bkpost. bkstart p s HPI Hbk.
  all: destruct Hs as [Hs | Hs]; try discriminate Hs.
  all: unfold Model.spawn; xrun.
  all: try solve [bkleaf t].
  all: try xarith.
Qed.

Lemma stop_bk j s p o t md :
  PI s p -> bk s p -> R t -> killable s = true -> sx j (Model.stop U pconfs j) s p o t md bkpost.
Proof.
  intros HPI Hbk Ht Hs. unfold bkpost. bkstart p s HPI Hbk; try discriminate Hs.
  all: unfold Model.stop, Model.kill; xrun.
  all: try solve [bkleaf t].
  all: try xarith.
Qed.

Lemma give_up_bk j p o t md :
  bk BACKOFF p -> sx j (Model.give_up U j) BACKOFF p o t md bkpost.
Proof.
  intros Hbk. unfold bkpost. pdestr p. destruct Hbk as [Hb0 _]. pcbv_in Hb0.
  unfold Model.give_up. xrun. bkleaf t.
Qed.

Lemma signal_bk j sg s p o t md :
  PI s p -> bk s p -> in_signallable_states s = true -> sx j (Model.signal U j sg) s p o t md bkpost.
Proof.
  intros HPI Hbk Hs. unfold bkpost. bkstart p s HPI Hbk; try discriminate Hs.
  all: unfold Model.signal; xrun.
  all: try solve [bkleaf t].
  all: try xarith.
Qed.

Lemma rollback_bk j s p o t md :
  bk s p -> R t -> sx j (Model.rollback_adjust U pconfs j t) s p o t md bkpost.
Proof.
  intros Hbk Ht. unfold bkpost. pdestr p. destruct Hbk as [Hb0 Hb1]. pcbv_in Hb0. pcbv_in Hb1.
  apply sx_tail. apply sx_rollback.
  destruct s; try (let H := fresh "H" in assert (H := Hb1 eq_refl); clear Hb1; destruct H as [Hb1 Hb2]).
  all: cbn [adjust_times]; pcbv; padj; xrun.
  all: try solve [bkleaf t].
Qed.

Lemma finish_bk j st s p o t md :
  PI s p -> bk s p -> R t -> pid p <> 0 -> sx j (Model.finish U pconfs j st) s p o t md bkpost.
Proof.
  intros HPI Hbk Ht Hp. unfold bkpost. bkstart p s HPI Hbk; pcbv_in Hp; try congruence.
  all: unfold Model.finish; cbv zeta.
  all: xstep; apply sx_rollback; cbn [adjust_times]; pcbv; padj.
  all: xrun.
  all: try solve [bkleaf t].
  all: try (exfalso; destruct HPI as (_ & Hk & _); pcbv_in Hk; destruct (Hk eq_refl); discriminate).
  all: try (exfalso; destruct HPI as (Hk1 & _); pcbv_in Hk1; specialize (Hk1 eq_refl); discriminate).
  all: try (exfalso; unfold too_quickly in *;
            match goal with H : (if ?c then _ else _) = true |- _ => destruct c eqn:? end; lia).
Qed.

(* from the symbolic executor to the global invariant *)
Lemma bk_of_sx {A} j (m : Model.M A) (Pre : pstate -> proc -> Prop) :
  (forall s p o t md, PI s p -> bk s p -> R t -> Pre s p -> sx j m s p o t md bkpost) ->
  xp (BKL U R) (fun w => Pre (sts w j) (procs w j)) m.
Proof.
  intros H w a w' HK [Hn HB] HP E.
  destruct (H _ _ _ _ _ (k_pi w HK j) (HB j) Hn HP w eq_refl eq_refl eq_refl eq_refl eq_refl)
    as (a2 & w2 & E2 & (f1 & f2 & f3 & f4) & HQ).
  rewrite E2 in E. inversion E; subst a2 w2. split; [rewrite f1; exact Hn|].
  intros j'. destruct (Nat.eq_dec j' j) as [-> | Hj]; [exact HQ|]. destruct (f4 j' Hj) as [-> ->]. apply HB.
Qed.

Lemma BK_emit e w : upper e -> BKL U R w -> BKL U R (set_out (e :: out w) w).
Proof. intros _ H. exact H. Qed.
Lemma BK_modw w w' : sts w' = sts w -> procs w' = procs w -> now w' = now w -> out w' = out w -> BKL U R w -> BKL U R w'.
Proof. unfold BKL. intros -> -> -> _ H. exact H. Qed.

Lemma BK_transition j : xp (BKL U R) (fun _ => True) (Model.transition U pconfs j).
Proof.
  intros w a w' HK HX _ E.
  apply (bk_of_sx j (Model.transition U pconfs j) (fun _ _ => True)) with (w := w) (a := a); auto.
  intros. apply transition_bk; assumption.
Qed.
Lemma BK_stop j s : killable s = true -> xp (BKL U R) (fun w => sts w j = s) (Model.stop U pconfs j).
Proof.
  intros Hk w a w' HK HX Hs E.
  apply (bk_of_sx j (Model.stop U pconfs j) (fun s' _ => s' = s)) with (w := w) (a := a); auto.
  intros s0 p o t md HPI Hbk Ht ->. apply stop_bk; assumption.
Qed.
Lemma BK_give_up j : xp (BKL U R) (fun w => sts w j = BACKOFF) (Model.give_up U j).
Proof.
  intros w a w' HK HX Hs E.
  apply (bk_of_sx j (Model.give_up U j) (fun s' _ => s' = BACKOFF)) with (w := w) (a := a); auto.
  intros s0 p o t md HPI Hbk Ht ->. apply give_up_bk; assumption.
Qed.
Lemma BK_signal j sg s : in_signallable_states s = true -> xp (BKL U R) (fun w => sts w j = s) (Model.signal U j sg).
Proof.
  intros Hk w a w' HK HX Hs E.
  apply (bk_of_sx j (Model.signal U j sg) (fun s' _ => s' = s)) with (w := w) (a := a); auto.
  intros s0 p o t md HPI Hbk Ht ->. apply signal_bk; assumption.
Qed.
Lemma BK_rollback j w0 : xp (BKL U R) (fun w => w = w0) (Model.rollback_adjust U pconfs j (now w0)).
Proof.
  intros w a w' HK HX Hw E. subst w0.
  intros. destruct HX as [Hn HB].
  destruct (rollback_bk j _ _ (out w) (now w) (mood w) (HB j) Hn w eq_refl eq_refl eq_refl eq_refl eq_refl)
    as (a2 & w2 & E2 & (f1 & f2 & f3 & f4) & HQ).
  rewrite E2 in E. inversion E; subst a2 w2. split; [rewrite f1; exact Hn|].
  intros j'. destruct (Nat.eq_dec j' j) as [-> | Hj]; [exact HQ|]. destruct (f4 j' Hj) as [-> ->]. apply HB.
Qed.
Lemma BK_spawn j s : True -> spawnable s = true \/ s = STOPPING -> xp (BKL U R) (fun w => sts w j = s) (Model.spawn U pconfs j).
Proof.
  intros _ Hk w a w' HK HX Hs E.
  apply (bk_of_sx j (Model.spawn U pconfs j) (fun s' _ => s' = s)) with (w := w) (a := a); auto.
  intros s0 p o t md HPI Hbk Ht ->. apply spawn_bk; assumption.
Qed.

Lemma BK_reap fuel : xp (BKL U R) (fun _ => True) (Model.reap U pconfs fuel).
Proof.
  induction fuel as [|f IH]; intros w a w' HK HX _ E; [inversion E; subst; exact HX|].
  cbn [Model.reap] in E. unfold bind at 1 in E. unfold getw at 1 in E.
  destruct (zombies w) as [|[zp st] rest] eqn:Ez; [inversion E; subst; exact HX|].
  unfold bind at 1 in E. unfold modw at 1 in E. unfold bind at 1 in E. unfold emit at 1 in E.
  set (w1 := set_out _ _) in E.
  assert (I1 : inertw w w1) by (subst w1; repeat split; cbn; lia).
  assert (K1 : K w1) by (eapply K_inert; eassumption).
  assert (X1 : BKL U R w1) by exact HX.
  destruct (lookup_hist zp (pidhist w)) as [j|] eqn:EL.
  - apply lookup_hist_in in EL.
    destruct (finish_run U pconfs j zp st w1 K1 EL) as (w2 & E2 & Ep0 & K3).
    unfold bind at 1 in E. rewrite E2 in E. unfold bind at 1 in E. unfold modw at 1 in E.
    assert (X2 : BKL U R w2).
    { apply (bk_of_sx j (Model.finish U pconfs j st) (fun _ p => pid p <> 0)) with (w := w1) (a := tt); auto.
      - intros. apply finish_bk; assumption.
      - destruct (k_hist w1 K1 zp j EL). lia. }
    eapply (IH _ a w' K3); [exact X2 | exact Logic.I | exact E].
  - eapply (IH _ a w' K1); [exact X1 | exact Logic.I | exact E].
Qed.

Theorem backoff_law_pass o w :
  K w -> Forall def_ok (pend w) -> R (p_now o) -> (forall j, bk (sts w j) (procs w j)) ->
  exists w', Model.do_pass U pconfs gconfs o w = (Some tt, w') /\ K w' /\ Forall def_ok (pend w') /\ BKL U R w'.
Proof.
  intros HK HP Hn HB.
  destruct (pass_kx U pconfs gconfs (BKL U R) (fun _ => True) BK_emit BK_modw BK_transition BK_stop BK_give_up
                    BK_signal BK_rollback BK_reap BK_spawn o w) as (w' & E & K' & X' & P'); auto.
  - apply Forall_forall. intros a _. apply act_ok_all.
  - split; [split; [exact Hn | exact HB] | exact HP].
  - exists w'. auto.
Qed.

End Backoff.

Section BackoffRun.
Variable U : Z.
Variable pconfs : list pconf.
Variable gconfs : list gconf.
Notation cf := (Model.cf pconfs).
Notation run := (Model.run U pconfs gconfs).

(* the clock readings of a script (0 is the reading of the initial world) *)
Definition readings (ops : list passop) : Z -> Prop := fun t => t = 0 \/ In t (map p_now ops).

Lemma backoff_law_steps ops : forall w (R : Z -> Prop),
  K w -> Forall def_ok (pend w) -> BKL U R w ->
  let w' := fold_left (Model.step U pconfs gconfs) ops w in
  K w' /\ Forall def_ok (pend w') /\ BKL U (fun t => R t \/ In t (map p_now ops)) w'.
Proof.
  induction ops as [|o ops IH]; intros w R HK HP HX; cbn [fold_left map].
  - split; [exact HK | split; [exact HP|]]. eapply BKL_mono; [| |exact HX]; [tauto | left; apply HX].
  - set (R1 := fun t => R t \/ t = p_now o).
    assert (H1 : K (Model.step U pconfs gconfs w o) /\ Forall def_ok (pend (Model.step U pconfs gconfs w o)) /\
                 BKL U R1 (Model.step U pconfs gconfs w o)).
    { unfold Model.step. destruct (crashed w || exited w).
      - split; [exact HK | split; [exact HP|]]. eapply BKL_mono; [| |exact HX]; unfold R1; [tauto | left; apply HX].
      - destruct (backoff_law_pass U pconfs gconfs R1 o w HK HP) as (w' & E & K' & P' & X').
        + right. reflexivity.
        + intros j. destruct HX as [_ HB]. destruct (HB j) as [a b]. split; [exact a|]. intros Hs. destruct (b Hs). unfold R1. auto.
        + rewrite E. auto. }
    destruct H1 as (K1 & P1 & X1). destruct (IH _ R1 K1 P1 X1) as (K2 & P2 & X2).
    split; [exact K2 | split; [exact P2|]]. eapply BKL_mono; [| |exact X2].
    + unfold R1. cbn. intros t0 [[H|H]|H]; [left; exact H | right; left; symmetry; exact H | right; right; exact H].
    + destruct X2 as [Hn _]. unfold R1 in Hn. cbn.
      destruct Hn as [[H|H]|H]; [left; exact H | right; left; symmetry; exact H | right; right; exact H].
Qed.

(* A3: the retry counter and the retry delay at every boundary of every run *)
Theorem backoff_counter_law ops i :
  let w := run ops in
  0 <= backoff (procs w i) /\
  (sts w i = BACKOFF ->
   1 <= backoff (procs w i) /\
   exists t, readings ops t /\ delay (procs w i) = t + backoff (procs w i) * U).
Proof.
  cbv zeta. unfold Model.run.
  destruct (backoff_law_steps ops world0 (fun t => t = 0)) as (_ & _ & [_ HB]).
  - apply K_world0.
  - constructor.
  - split; [reflexivity|]. intros j. split; [cbn; lia | discriminate].
  - destruct (HB i) as [a b]. split; [exact a|]. intros Hs. destruct (b Hs) as [c d]. split; [exact c|].
    exists (delay (procs (fold_left (Model.step U pconfs gconfs) ops world0) i)
            - backoff (procs (fold_left (Model.step U pconfs gconfs) ops world0) i) * U).
    split; [exact d | lia].
Qed.

(* hence: a retry (retry_due at reading `t_now`) happens strictly more than `backoff` seconds after a genuine
   reading t, the (rollback-adjusted) reading of the last failure; and only while retries are left *)
Corollary retry_not_before_backoff_seconds ops i t_now :
  let w := run ops in
  sts w i = BACKOFF -> retry_due (cf i) (procs w i) t_now = true ->
  backoff (procs w i) <= c_startretries (cf i) /\
  exists t, readings ops t /\ t_now - t > backoff (procs w i) * U /\ 1 <= backoff (procs w i).
Proof.
  cbv zeta. intros Hs Hr. destruct (backoff_counter_law ops i) as [_ H]. destruct (H Hs) as (Hb & t & Ht & Ed).
  unfold retry_due in Hr. split; [lia|]. exists t. split; [exact Ht|]. split; [lia | exact Hb].
Qed.

End BackoffRun.

Ltac kfstates HPI s :=
  pose proof HPI as (_ & _ & Hlive & Hdead); destruct s; cbn [live_state dead_state] in Hlive, Hdead;
  pcbv_in Hlive; pcbv_in Hdead; try specialize (Hlive eq_refl); try specialize (Hdead eq_refl); try subst.

(* ====================================================================== *)
(* Part A4 (the invariant it needs): a process that was started once has laststart > 0, provided every clock
   reading of the script is positive and larger than every startsecs (in ticks).  The second condition
   cannot be dropped: see laststart_can_return_to_zero below. *)
Definition started (j : nat) (o : list effect) : Prop := exists s x e, In (EState j s STARTING x e) o.
Definition ls_loc (j : nat) (p : proc) (o : list effect) : Prop := started j o -> 0 < laststart p.

Ltac lsleaf :=
  unfold ls_loc, started in *; pcbv;
  repeat match goal with |- _ /\ _ => split end;
  first [ let H := fresh "H" in intros H; first [ lia |
            match goal with Hls : _ -> 0 < _ |- _ => apply Hls end;
            let s0 := fresh "s0" in let x0 := fresh "x0" in let e0 := fresh "e0" in let Hin := fresh "Hin" in
            destruct H as (s0 & x0 & e0 & Hin); cbn [In] in Hin;
            repeat (destruct Hin as [Hin | Hin]; [discriminate Hin|]); eauto ]
        | let j' := fresh "j'" in let Hj := fresh "Hj" in let s0 := fresh "s0" in let x0 := fresh "x0" in
          let e0 := fresh "e0" in let Hin := fresh "Hin" in
          intros j' Hj (s0 & x0 & e0 & Hin); cbn [In] in Hin;
          repeat (destruct Hin as [Hin | Hin]; [try discriminate Hin; exfalso; injection Hin; intros; congruence|]); eauto ].

Section LastStart.
Variable U : Z.
Variable pconfs : list pconf.
Variable gconfs : list gconf.
Notation cf := (Model.cf pconfs).
Notation run := (Model.run U pconfs gconfs).

Definition big (t : Z) : Prop := 0 < t /\ forall j, c_startsecs (cf j) * U < t.
Definition LS (w : world) : Prop := big (now w) /\ forall j, ls_loc j (procs w j) (out w).

Definition lspost {A} (j : nat) (o : list effect) : spost A :=
  fun _ _ p' o' => ls_loc j p' o' /\ (forall j', j' <> j -> started j' o' -> started j' o).

Ltac lsstart p Hf Hbig j :=
  pdestr p; unfold lspost; unfold ls_loc in Hf; pcbv_in Hf;
  let Hb1 := fresh "Hb1" in let Hb2 := fresh "Hb2" in destruct Hbig as [Hb1 Hb2]; specialize (Hb2 j).

Lemma transition_ls j s p o t md :
  PI s p -> big t -> ls_loc j p o -> sx j (Model.transition U pconfs j) s p o t md (lspost j o).
Proof.
  intros HPI Hbig Hf. lsstart p Hf Hbig j. kfstates HPI s.
  all: unfold Model.transition, Model.spawn, Model.give_up, Model.kill; cbv zeta.
  all: xstep; xstep; apply sx_rollback; cbn [adjust_times]; pcbv; padj.
  all: xrun.
  all: try solve [lsleaf].
  all: try xarith.
Qed.

Lemma spawn_ls j s p o t md :
  PI s p -> big t -> ls_loc j p o -> spawnable s = true \/ s = STOPPING ->
  sx j (Model.spawn U pconfs j) s p o t md (lspost j o).
Proof.
  intros HPI Hbig Hf Hs. lsstart p Hf Hbig j. kfstates HPI s.
  all: destruct Hs as [Hs | Hs]; try discriminate Hs.
  all: unfold Model.spawn; xrun.
  all: try solve [lsleaf].
  all: try xarith.
Qed.

Lemma stop_ls j s p o t md :
  PI s p -> big t -> ls_loc j p o -> killable s = true -> sx j (Model.stop U pconfs j) s p o t md (lspost j o).
Proof.
  intros HPI Hbig Hf Hs. lsstart p Hf Hbig j. kfstates HPI s; try discriminate Hs.
  all: unfold Model.stop, Model.kill; xrun.
  all: try solve [lsleaf].
  all: try xarith.
Qed.

Lemma give_up_ls j p o t md :
  ls_loc j p o -> sx j (Model.give_up U j) BACKOFF p o t md (lspost j o).
Proof. intros Hf. pdestr p. unfold lspost. unfold ls_loc in Hf. pcbv_in Hf. unfold Model.give_up. xrun. lsleaf. Qed.

Lemma signal_ls j sg s p o t md :
  PI s p -> ls_loc j p o -> in_signallable_states s = true -> sx j (Model.signal U j sg) s p o t md (lspost j o).
Proof.
  intros HPI Hf Hs. pdestr p. unfold lspost. unfold ls_loc in Hf. pcbv_in Hf. kfstates HPI s; try discriminate Hs.
  all: unfold Model.signal; xrun.
  all: try solve [lsleaf].
  all: try xarith.
Qed.

Lemma rollback_ls j s p o t md :
  big t -> ls_loc j p o -> sx j (Model.rollback_adjust U pconfs j t) s p o t md (lspost j o).
Proof.
  intros Hbig Hf. lsstart p Hf Hbig j. apply sx_tail. apply sx_rollback.
  destruct s; cbn [adjust_times]; pcbv; padj; xrun.
  all: try solve [lsleaf].
Qed.

Lemma finish_ls j st s p o t md :
  PI s p -> big t -> ls_loc j p o -> pid p <> 0 -> sx j (Model.finish U pconfs j st) s p o t md (lspost j o).
Proof.
  intros HPI Hbig Hf Hp. lsstart p Hf Hbig j. kfstates HPI s; pcbv_in Hp; try congruence.
  all: unfold Model.finish; cbv zeta.
  all: xstep; apply sx_rollback; cbn [adjust_times]; pcbv; padj.
  all: xrun.
  all: try solve [lsleaf].
  all: try (exfalso; destruct HPI as (_ & Hk2 & _); pcbv_in Hk2; destruct (Hk2 eq_refl); discriminate).
  all: try (exfalso; destruct HPI as (Hk1 & _); pcbv_in Hk1; specialize (Hk1 eq_refl); discriminate).
  all: try (exfalso; unfold too_quickly in *;
            match goal with H : (if ?c then _ else _) = true |- _ => destruct c eqn:? end; lia).
Qed.

Lemma ls_of_sx {A} j (m : Model.M A) (Pre : pstate -> proc -> Z -> Prop) :
  (forall s p o t md, PI s p -> big t -> ls_loc j p o -> Pre s p t -> sx j m s p o t md (lspost j o)) ->
  xp LS (fun w => Pre (sts w j) (procs w j) (now w)) m.
Proof.
  intros H w a w' HK [Hn HF] HP E.
  destruct (H _ _ _ _ _ (k_pi w HK j) Hn (HF j) HP w eq_refl eq_refl eq_refl eq_refl eq_refl)
    as (a2 & w2 & E2 & (f1 & f2 & f3 & f4) & (Q1 & Q2)).
  rewrite E2 in E. inversion E; subst a2 w2. split; [rewrite f1; exact Hn|].
  intros j'. destruct (Nat.eq_dec j' j) as [-> | Hj]; [exact Q1|]. destruct (f4 j' Hj) as [_ ->].
  intros Hst. apply HF. apply Q2; assumption.
Qed.

Lemma started_upper j e o : upper e -> started j (e :: o) -> started j o.
Proof. intros He (s & x & b & [Hin | Hin]); [subst e; destruct He | exists s, x, b; exact Hin]. Qed.

Lemma LS_emit e w : upper e -> LS w -> LS (set_out (e :: out w) w).
Proof.
  intros He [Hn HF]. split; [exact Hn|]. intros j Hst. apply HF. cbn in Hst. eapply started_upper; eassumption.
Qed.
Lemma LS_modw w w' : sts w' = sts w -> procs w' = procs w -> now w' = now w -> out w' = out w -> LS w -> LS w'.
Proof. unfold LS. intros _ -> -> -> H. exact H. Qed.

Lemma LS_transition j : xp LS (fun _ => True) (Model.transition U pconfs j).
Proof.
  intros w a w' HK HX _ E.
  apply (ls_of_sx j (Model.transition U pconfs j) (fun _ _ _ => True)) with (w := w) (a := a); auto.
  intros. apply transition_ls; assumption.
Qed.
Lemma LS_stop j s : killable s = true -> xp LS (fun w => sts w j = s) (Model.stop U pconfs j).
Proof.
  intros Hk w a w' HK HX Hs E.
  apply (ls_of_sx j (Model.stop U pconfs j) (fun s' _ _ => s' = s)) with (w := w) (a := a); auto.
  intros s0 p o t md HPI Hb Hf ->. apply stop_ls; assumption.
Qed.
Lemma LS_give_up j : xp LS (fun w => sts w j = BACKOFF) (Model.give_up U j).
Proof.
  intros w a w' HK HX Hs E.
  apply (ls_of_sx j (Model.give_up U j) (fun s' _ _ => s' = BACKOFF)) with (w := w) (a := a); auto.
  intros s0 p o t md HPI Hb Hf ->. apply give_up_ls; assumption.
Qed.
Lemma LS_signal j sg s : in_signallable_states s = true -> xp LS (fun w => sts w j = s) (Model.signal U j sg).
Proof.
  intros Hk w a w' HK HX Hs E.
  apply (ls_of_sx j (Model.signal U j sg) (fun s' _ _ => s' = s)) with (w := w) (a := a); auto.
  intros s0 p o t md HPI Hb Hf ->. apply signal_ls; assumption.
Qed.
Lemma LS_rollback j w0 : xp LS (fun w => w = w0) (Model.rollback_adjust U pconfs j (now w0)).
Proof.
  intros w a w' HK HX Hw E. subst w0.
  apply (ls_of_sx j (Model.rollback_adjust U pconfs j (now w)) (fun _ _ t => t = now w)) with (w := w) (a := a); auto.
  intros s0 p o t md HPI Hb Hf ->. apply rollback_ls; assumption.
Qed.
Lemma LS_spawn j s : True -> spawnable s = true \/ s = STOPPING -> xp LS (fun w => sts w j = s) (Model.spawn U pconfs j).
Proof.
  intros _ Hk w a w' HK HX Hs E.
  apply (ls_of_sx j (Model.spawn U pconfs j) (fun s' _ _ => s' = s)) with (w := w) (a := a); auto.
  intros s0 p o t md HPI Hb Hf ->. apply spawn_ls; assumption.
Qed.

Lemma LS_reap fuel : xp LS (fun _ => True) (Model.reap U pconfs fuel).
Proof.
  induction fuel as [|f IH]; intros w a w' HK HX _ E; [inversion E; subst; exact HX|].
  cbn [Model.reap] in E. unfold bind at 1 in E. unfold getw at 1 in E.
  destruct (zombies w) as [|[zp st] rest] eqn:Ez; [inversion E; subst; exact HX|].
  unfold bind at 1 in E. unfold modw at 1 in E. unfold bind at 1 in E. unfold emit at 1 in E.
  set (w1 := set_out _ _) in E.
  assert (I1 : inertw w w1) by (subst w1; repeat split; cbn; lia).
  assert (K1 : K w1) by (eapply K_inert; eassumption).
  assert (X1 : LS w1).
  { destruct HX as [Hn HF]. subst w1. split; [exact Hn|]. intros j (s & x & b & [Hin | Hin]); [discriminate Hin|].
    apply HF. exists s, x, b. exact Hin. }
  destruct (lookup_hist zp (pidhist w)) as [j|] eqn:EL.
  - apply lookup_hist_in in EL.
    destruct (finish_run U pconfs j zp st w1 K1 EL) as (w2 & E2 & Ep0 & K3).
    unfold bind at 1 in E. rewrite E2 in E. unfold bind at 1 in E. unfold modw at 1 in E.
    assert (X2 : LS w2).
    { apply (ls_of_sx j (Model.finish U pconfs j st) (fun _ p _ => pid p <> 0)) with (w := w1) (a := tt); auto.
      - intros. apply finish_ls; assumption.
      - destruct (k_hist w1 K1 zp j EL). lia. }
    eapply (IH _ a w' K3); [exact X2 | exact Logic.I | exact E].
  - eapply (IH _ a w' K1); [exact X1 | exact Logic.I | exact E].
Qed.

Definition LSP (w : world) : Prop := forall j, ls_loc j (procs w j) (out w).

Theorem laststart_step w o :
  big (p_now o) -> K w -> Forall def_ok (pend w) -> LSP w ->
  let w' := Model.step U pconfs gconfs w o in K w' /\ Forall def_ok (pend w') /\ LSP w'.
Proof.
  intros Hb HK HP HX. cbv zeta. unfold Model.step. destruct (crashed w || exited w); [auto|].
  destruct (pass_kx U pconfs gconfs LS (fun _ => True) LS_emit LS_modw LS_transition LS_stop LS_give_up
                    LS_signal LS_rollback LS_reap LS_spawn o w) as (w' & E & K' & X' & P'); auto.
  - apply Forall_forall. intros a _. apply act_ok_all.
  - split; [split; [exact Hb | exact HX] | exact HP].
  - rewrite E. destruct X' as [_ X']. auto.
Qed.

(* every reading of the script is positive and exceeds every startsecs *)
Definition big_readings (ops : list passop) : Prop := Forall (fun o => big (p_now o)) ops.

Theorem started_once_laststart_positive ops j :
  big_readings ops ->
  let w := run ops in started j (out w) -> 0 < laststart (procs w j).
Proof.
  intros Hb. cbv zeta. unfold Model.run.
  assert (H0 : K world0 /\ Forall def_ok (pend world0) /\ LSP world0).
  { split; [apply K_world0 | split; [constructor|]]. intros j' (s & x & b & [Hin | []]). discriminate Hin. }
  revert H0. generalize world0.
  induction Hb as [|o ops Ho Hb IH]; intros w (HK & HP & HX); cbn [fold_left]; [apply HX|].
  apply IH. apply laststart_step; assumption.
Qed.

(* A4, closed: at a boundary of a run with such readings, a STOPPED process that was started before - in
   particular one stopped by the administrator - is left exactly as it is by the next `transition` *)
Corollary stopped_after_start_not_autostarted ops j :
  big_readings ops ->
  let w := run ops in
  sts w j = STOPPED -> started j (out w) ->
  exists w', Model.transition U pconfs j w = (Some tt, w') /\ fr j w w' /\ unchanged j w w'.
Proof.
  intros Hb. cbv zeta. intros Hs Hst.
  pose proof (started_once_laststart_positive ops j Hb Hst) as Hl.
  apply stopped_after_start_stays_down; [exact Hs | | lia].
  destruct (pend_no_todo_run U pconfs gconfs ops) as [HK _].
  destruct (k_pi _ HK j) as (_ & _ & _ & d). apply d. rewrite Hs. reflexivity.
Qed.

End LastStart.

(* ====================================================================== *)
(* Examples: the hypotheses of the theorems above are satisfiable on concrete runs *)
Definition ex_nf : pconf := mkConf 1 0 10 15 999 true ARUnexpected [0] false false CmdNotFound 0%nat.
Definition ex_nf3 : pconf := mkConf 1 3 10 15 999 true ARUnexpected [0] false false CmdNotFound 0%nat.
Definition ex_ok : pconf := mkConf 1 3 10 15 999 true ARUnexpected [0] false false CmdOk 0%nat.
Definition ex_g : list gconf := [mkG 999 [0%nat]].

(* hypotheses satisfiable: a run with two forks (autostart, then restart after an unexpected exit) *)
Example fork_only_from_spawn_states_example :
  let pc := [mkConf 1 3 10 15 999 true ARUnexpected [0] false false CmdOk 0%nat] in
  let gc := [mkG 999 [0%nat]] in
  let w := Model.run 10 pc gc [mkPass 5 [] [0] []; mkPass 30 [AExit 0 1] [0] []; mkPass 31 [] [0] []] in
  exists l r, out w = l ++ EFork 0%nat 1001 :: EState 0%nat EXITED STARTING 0 true :: r.
Proof. vm_compute. eexists [], _. reflexivity. Qed.

(* A2: a command that cannot be found, startretries = 0: BACKOFF with one failure counted at the first
   boundary; the next transition gives up *)
Example fatal_only_when_retries_exhausted_example :
  let w := Model.run 10 [ex_nf] ex_g [mkPass 5 [] [] []] in
  sts w 0%nat = BACKOFF /\ pid (procs w 0%nat) = 0 /\ mood w >= 1 /\
  give_up_due (Model.cf [ex_nf] 0%nat) (procs w 0%nat) = true /\
  out (snd (Model.transition 10 [ex_nf] 0%nat w)) = EState 0%nat BACKOFF FATAL 0 true :: out w.
Proof. vm_compute. repeat split; discriminate. Qed.

(* A4: an unexpected exit (code 1, exitcodes = [0]) of a RUNNING process: EXITED at the boundary, restart due *)
Example autorestart_decision_example :
  let w := Model.run 10 [ex_ok] ex_g [mkPass 5 [] [0] []; mkPass 30 [AExit 0 1] [] []] in
  sts w 0%nat = EXITED /\ pid (procs w 0%nat) = 0 /\ mood w >= 1 /\
  should_restart (Model.cf [ex_ok] 0%nat) (exitstatus (procs w 0%nat)) = true.
Proof. vm_compute. repeat split; discriminate. Qed.

Example autostart_decision_example :
  let w := Model.run 10 [ex_ok] ex_g [] in
  sts w 0%nat = STOPPED /\ pid (procs w 0%nat) = 0 /\ mood w >= 1 /\
  autostart_due (Model.cf [ex_ok] 0%nat) (procs w 0%nat) = true.
Proof. vm_compute. repeat split; discriminate. Qed.

(* stopped by the administrator after having run: STOPPED with laststart = 5 *)
Example stopped_after_start_stays_down_example :
  let w := Model.run 10 [ex_ok] ex_g [mkPass 5 [] [0] []; mkPass 30 [ARpc 1 (RStop 0%nat false)] [] [0]] in
  sts w 0%nat = STOPPED /\ pid (procs w 0%nat) = 0 /\ laststart (procs w 0%nat) <> 0 /\
  admin_stop (procs w 0%nat) = true.
Proof. vm_compute. repeat split; discriminate. Qed.

Example fatal_stays_down_example :
  let w := Model.run 10 [ex_nf] ex_g [mkPass 5 [] [] []; mkPass 6 [] [] []] in sts w 0%nat = FATAL.
Proof. vm_compute. reflexivity. Qed.

Example nothing_started_while_shutting_down_example :
  let w := Model.run 10 [ex_ok] ex_g [mkPass 5 [] [0] []; mkPass 30 [AExit 0 1; ASignal 15] [] []] in
  sts w 0%nat = EXITED /\ mood w < 1 /\ should_restart (Model.cf [ex_ok] 0%nat) (exitstatus (procs w 0%nat)) = true.
Proof. vm_compute. repeat split. Qed.

(* A3: a boundary with a process in BACKOFF: one failure, delay = 5 + 1 * U, 5 a reading of the script *)
Example backoff_counter_law_example :
  let ops := [mkPass 5 [] [] []] in
  let w := Model.run 10 [ex_nf3] ex_g ops in
  sts w 0%nat = BACKOFF /\ backoff (procs w 0%nat) = 1 /\ delay (procs w 0%nat) = 5 + 1 * 10 /\ readings ops 5.
Proof. vm_compute. repeat split. right. left. reflexivity. Qed.

(* A5: a FATAL process and a pass with requests that are not start requests for it *)
Example no_spontaneous_start_run_example :
  let ops := [mkPass 5 [] [] []; mkPass 6 [] [] []] in
  let o := mkPass 40 [ARpc 1 (RStop 0%nat false); ARpc 2 (RSignal 0%nat 10 true); APoll; ARpc 3 (RStopAll true)] [0] [0] in
  sts (Model.run 10 [ex_nf] ex_g ops) 0%nat = FATAL /\ no_start_for [ex_nf] ex_g 0%nat o.
Proof. split; [vm_compute; reflexivity|]. repeat constructor. Qed.

(* ---------- a finding about the model (and the code it transcribes): `laststart` can become 0 again.
   In RUNNING, a clock reading t with laststart < t < laststart + startsecs (possible only after the clock
   went back) sets laststart := t - startsecs (process.py, _check_and_adjust_for_system_clock_rollback);
   at the reading t = startsecs this is 0, the value that means "never started": after an administrative
   stop the process is then autostarted again.  Readings are epoch seconds in practice, so t = startsecs
   does not happen; the statement "a process that was started once has laststart <> 0" therefore needs
   the hypothesis that every reading exceeds startsecs (p_now > 0 is not enough). *)
Example laststart_can_return_to_zero :
  let ops := [mkPass 5 [] [0] []; mkPass 20 [] [] []; mkPass 10 [] [] []] in
  let w := Model.run 10 [ex_ok] ex_g ops in
  Forall (fun o => p_now o > 0) ops /\ sts w 0%nat = RUNNING /\ laststart (procs w 0%nat) = 0.
Proof. split; [repeat constructor|]. vm_compute. split; reflexivity. Qed.

Example stopped_process_respawned_after_rollback :
  let ops := [mkPass 5 [] [0] []; mkPass 20 [] [] []; mkPass 10 [] [] [];
              mkPass 11 [ARpc 1 (RStop 0%nat false)] [0] [0]] in
  let w := Model.run 10 [ex_ok] ex_g ops in
  In (EAns 1 0) (out w) /\ sts w 0%nat = STARTING /\ pid (procs w 0%nat) = 1001.
Proof. vm_compute. repeat split. auto 10. Qed.

(* the hypotheses of started_once_laststart_positive / stopped_after_start_not_autostarted: readings above
   startsecs * U = 10, a process stopped by the administrator *)
Example stopped_after_start_not_autostarted_example :
  let ops := [mkPass 15 [] [0] []; mkPass 40 [ARpc 1 (RStop 0%nat false)] [] [0]] in
  let w := Model.run 10 [ex_ok] ex_g ops in
  big_readings 10 [ex_ok] ops /\ sts w 0%nat = STOPPED /\ started 0%nat (out w) /\ laststart (procs w 0%nat) = 15.
Proof.
  split; [|vm_compute; split; [reflexivity | split; [|reflexivity]]].
  - repeat constructor; intros j; destruct j as [|[|j]]; vm_compute; reflexivity.
  - exists STOPPED, 0, true. cbn. tauto.
Qed.
