(* C06 / C02 core theorems: the lifecycle invariant holds at every main-loop
   boundary of every run of the model, for every configuration (U, pconfs,
   gconfs), every script and every oracle.  In particular the model never
   crashes: no `_assertInState` of the real code fires and no modelled
   exception escapes the main loop. *)
From Coq Require Import ZArith List Bool Lia Arith.
Import ListNotations.
Require Import SV.Life.Model SV.Life.Inv SV.Life.Trace SV.Life.InvProofs.
Open Scope Z_scope.

Section WithConfig.
Variable U : Z.
Variable pconfs : list pconf.
Variable gconfs : list gconf.

Notation step := (Model.step U pconfs gconfs).
Notation run := (Model.run U pconfs gconfs).

Lemma K_world0 : K world0.
Proof.
  constructor; cbn.
  - reflexivity.
  - intros i. repeat split; intros; discriminate.
  - intros q j [].
  - lia.
Qed.

Lemma Inv_world0 : Inv world0.
Proof. apply Inv_K_TI. split; [exact K_world0 | exact TI_world0]. Qed.

(* one pass of the main loop, started at a boundary where Inv holds, does not crash and ends where Inv holds *)
Theorem inv_pass w o :
  Inv w -> exists w', Model.do_pass U pconfs gconfs o w = (Some tt, w') /\ Inv w'.
Proof.
  intros HI. apply Inv_K_TI in HI. destruct HI as [HK HT].
  destruct (do_pass_ipre U pconfs gconfs o w HK Logic.I) as ([] & w' & E & K').
  exists w'. split; [exact E|]. apply Inv_K_TI. split; [exact K'|].
  pose proof (pres_do_pass U pconfs gconfs o w HT) as HT'. rewrite E in HT'. exact HT'.
Qed.

Theorem inv_step w o : Inv w -> Inv (step w o).
Proof.
  intros HI. unfold Model.step. destruct (crashed w || exited w); [exact HI|].
  destruct (inv_pass w o HI) as (w' & E & HI'). rewrite E. exact HI'.
Qed.

Theorem inv_run ops : Inv (run ops).
Proof.
  unfold Model.run. generalize Inv_world0. generalize world0.
  induction ops as [|o ops IH]; intros w H; cbn; [exact H | apply IH; apply inv_step; exact H].
Qed.

(* ---------- corollaries in plain terms *)

(* C06 core: no assertion fires, no exception escapes, whatever the script and the oracles *)
Theorem run_never_crashes ops : crashed (run ops) = false.
Proof. apply (i_nocrash _ (inv_run ops)). Qed.

(* ... and no ECrash effect is ever emitted *)
Theorem pass_never_crashes ops o :
  fst (Model.do_pass U pconfs gconfs o (run ops)) = Some tt.
Proof. destruct (inv_pass (run ops) o (inv_run ops)) as (w' & E & _). rewrite E. reflexivity. Qed.

(* C02 core: pid and state agree at every boundary *)
Theorem c02_pid_state_agree ops i :
  let w := run ops in
  (sts w i = STARTING \/ sts w i = RUNNING \/ sts w i = STOPPING -> pid (procs w i) <> 0) /\
  (sts w i = STOPPED \/ sts w i = EXITED \/ sts w i = FATAL \/ sts w i = BACKOFF -> pid (procs w i) = 0).
Proof.
  cbv zeta. pose proof (inv_run ops) as H. split.
  - intros Hs. apply (i_J2a _ H). destruct Hs as [-> | [-> | ->]]; reflexivity.
  - intros Hs. apply (i_J2b _ H). destruct Hs as [-> | [-> | [-> | ->]]]; reflexivity.
Qed.

(* the killing flag is set exactly while a stop request is outstanding *)
Theorem c02_killing_stopping ops i :
  let w := run ops in
  (sts w i = STOPPING -> killing (procs w i) = true) /\
  (killing (procs w i) = true -> sts w i = STOPPING \/ sts w i = UNKNOWN).
Proof. cbv zeta. pose proof (inv_run ops) as H. split; [apply (i_J1a _ H) | apply (i_J1b _ H)]. Qed.

(* every entry of the pid table names the pid its process currently has, and that pid was really forked *)
Theorem c02_pidhist_sound ops p i :
  let w := run ops in
  In (p, i) (pidhist w) -> pid (procs w i) = p /\ 1000 <= p < nextpid w.
Proof. cbv zeta. apply (i_J3 _ (inv_run ops)). Qed.

(* hence an entry of the pid table always belongs to a process that is not in a pid-less state *)
Corollary c02_pidhist_live ops p i :
  let w := run ops in
  In (p, i) (pidhist w) -> dead_state (sts w i) = false.
Proof.
  cbv zeta. intros Hin. destruct (c02_pidhist_sound ops p i Hin) as [Ep Hr].
  destruct (dead_state (sts (run ops) i)) eqn:E; [|reflexivity].
  pose proof (i_J2b _ (inv_run ops) i E). lia.
Qed.

(* ---------- the converse tracking facts (C02, second half), each at every main-loop boundary *)
Lemma TR_world0 : TR world0.
Proof.
  split.
  - constructor; cbn; try constructor; intros q [].
  - intros j H. cbn in H. congruence.
Qed.

Theorem track_step w o : K w -> TR w -> K (step w o) /\ TR (step w o).
Proof.
  intros HK HT. unfold Model.step. destruct (crashed w || exited w); [split; assumption|].
  destruct (do_pass_kt U pconfs gconfs o w HK HT Logic.I) as (a & w' & E & K' & T'). rewrite E. split; assumption.
Qed.

Theorem track_run ops : K (run ops) /\ TR (run ops).
Proof.
  unfold Model.run. generalize (conj K_world0 TR_world0). generalize world0.
  induction ops as [|o ops IH]; intros w [HK HT]; cbn; [split; assumption | apply IH; apply track_step; assumption].
Qed.

(* every process that has a pid has its entry in the pid table *)
Theorem c02_pid_has_entry ops i :
  let w := run ops in pid (procs w i) <> 0 -> In (pid (procs w i), i) (pidhist w).
Proof. cbv zeta. destruct (track_run ops) as [_ [_ HT]]. apply HT. Qed.

(* so the pid table is exactly the map pid -> process of the processes that have a pid *)
Theorem c02_pidhist_exact ops p i :
  let w := run ops in In (p, i) (pidhist w) <-> pid (procs w i) = p /\ p <> 0.
Proof.
  cbv zeta. split.
  - intros Hin. destruct (c02_pidhist_sound ops p i Hin) as [E Hr]. split; [exact E | lia].
  - intros [E Hp]. subst p. apply c02_pid_has_entry. exact Hp.
Qed.

(* the keys of the pid table are pairwise distinct: a pid names at most one process *)
Theorem c02_pidhist_keys_distinct ops : NoDup (map fst (pidhist (run ops))).
Proof. destruct (track_run ops) as [_ [HG _]]. apply HG. Qed.

Corollary c02_pid_names_one_process ops p i j :
  let w := run ops in In (p, i) (pidhist w) -> In (p, j) (pidhist w) -> i = j.
Proof. cbv zeta. apply NoDup_keys_inj. apply c02_pidhist_keys_distinct. Qed.

Corollary c02_pids_distinct ops i j :
  let w := run ops in pid (procs w i) <> 0 -> pid (procs w i) = pid (procs w j) -> i = j.
Proof.
  cbv zeta. intros Hi E. apply (c02_pid_names_one_process ops (pid (procs (run ops) i)) i j).
  - apply c02_pid_has_entry. exact Hi.
  - rewrite E. apply c02_pid_has_entry. rewrite <- E. exact Hi.
Qed.

(* every key of the pid table is a child the kernel still knows: live, or dead and not yet waited for *)
Theorem c02_pidhist_keys_known ops p :
  let w := run ops in In p (map fst (pidhist w)) -> In p (live w ++ map fst (zombies w)).
Proof. cbv zeta. destruct (track_run ops) as [_ [HG _]]. apply (g_B _ HG). Qed.

(* fork returns fresh pids: nextpid is strictly above every pid of a live child, a zombie or a table entry *)
Theorem c02_pids_fresh ops p :
  let w := run ops in
  In p (live w ++ map fst (zombies w)) \/ In p (map fst (pidhist w)) -> p < nextpid w.
Proof.
  cbv zeta. destruct (track_run ops) as [_ [HG _]]. intros [H|H]; [|apply (g_B _ HG) in H]; apply (g_C _ HG); exact H.
Qed.

(* a pid is live or a zombie, and at most once: each child is waited for exactly once *)
Theorem c02_kernel_pids_distinct ops :
  let w := run ops in NoDup (live w ++ map fst (zombies w)).
Proof. cbv zeta. destruct (track_run ops) as [_ [HG _]]. apply (g_D _ HG). Qed.

End WithConfig.

(* the hypotheses are satisfiable on non-trivial values: a run with one autostarted process *)
Example inv_run_example :
  let pc := [mkConf 1 3 10 15 999 true ARUnexpected [0] false false CmdOk 0%nat] in
  let gc := [mkG 999 [0%nat]] in
  let w := Model.run 10 pc gc [mkPass 5 [] [0] []; mkPass 30 [AExit 0 1] [0] []; mkPass 31 [] [0] []] in
  crashed w = false /\ sts w 0%nat = STARTING /\ pid (procs w 0%nat) = 1001 /\ pidhist w = [(1001, 0%nat)] /\
  live w = [1001] /\ zombies w = [] /\ nextpid w = 1002.
Proof. vm_compute. repeat split. Qed.

(* a boundary with a zombie that is still in the pid table (killed, not yet reaped by this pass) and an unknown child *)
Example track_example :
  let pc := [mkConf 1 3 10 15 999 true ARUnexpected [0] false false CmdOk 0%nat] in
  let gc := [mkG 999 [0%nat]] in
  let w := Model.run 10 pc gc [mkPass 5 [] [0] []; mkPass 30 [AUnknown 9; ARpc 1 (RStop 0%nat false)] [] [0]] in
  crashed w = false /\ nextpid w = 1002 /\ pidhist w = [] /\ sts w 0%nat = STOPPED /\ pid (procs w 0%nat) = 0.
Proof. vm_compute. repeat split. Qed.
