(* Generated projection lemmas for the proc record setters (see gen note in InvProofs.v). *)
From Coq Require Import ZArith List Bool.
Require Import SV.Life.Model.
Open Scope Z_scope.

Lemma pid_p_pid p x : pid (p_pid p x) = x. Proof. reflexivity. Qed.
#[global] Hint Rewrite pid_p_pid : procdb.
Lemma killing_p_pid p x : killing (p_pid p x) = killing p. Proof. reflexivity. Qed.
#[global] Hint Rewrite killing_p_pid : procdb.
Lemma delay_p_pid p x : delay (p_pid p x) = delay p. Proof. reflexivity. Qed.
#[global] Hint Rewrite delay_p_pid : procdb.
Lemma backoff_p_pid p x : backoff (p_pid p x) = backoff p. Proof. reflexivity. Qed.
#[global] Hint Rewrite backoff_p_pid : procdb.
Lemma laststart_p_pid p x : laststart (p_pid p x) = laststart p. Proof. reflexivity. Qed.
#[global] Hint Rewrite laststart_p_pid : procdb.
Lemma laststop_p_pid p x : laststop (p_pid p x) = laststop p. Proof. reflexivity. Qed.
#[global] Hint Rewrite laststop_p_pid : procdb.
Lemma exitstatus_p_pid p x : exitstatus (p_pid p x) = exitstatus p. Proof. reflexivity. Qed.
#[global] Hint Rewrite exitstatus_p_pid : procdb.
Lemma spawnerr_p_pid p x : spawnerr (p_pid p x) = spawnerr p. Proof. reflexivity. Qed.
#[global] Hint Rewrite spawnerr_p_pid : procdb.
Lemma admin_stop_p_pid p x : admin_stop (p_pid p x) = admin_stop p. Proof. reflexivity. Qed.
#[global] Hint Rewrite admin_stop_p_pid : procdb.
Lemma system_stop_p_pid p x : system_stop (p_pid p x) = system_stop p. Proof. reflexivity. Qed.
#[global] Hint Rewrite system_stop_p_pid : procdb.
Lemma pid_p_killing p x : pid (p_killing p x) = pid p. Proof. reflexivity. Qed.
#[global] Hint Rewrite pid_p_killing : procdb.
Lemma killing_p_killing p x : killing (p_killing p x) = x. Proof. reflexivity. Qed.
#[global] Hint Rewrite killing_p_killing : procdb.
Lemma delay_p_killing p x : delay (p_killing p x) = delay p. Proof. reflexivity. Qed.
#[global] Hint Rewrite delay_p_killing : procdb.
Lemma backoff_p_killing p x : backoff (p_killing p x) = backoff p. Proof. reflexivity. Qed.
#[global] Hint Rewrite backoff_p_killing : procdb.
Lemma laststart_p_killing p x : laststart (p_killing p x) = laststart p. Proof. reflexivity. Qed.
#[global] Hint Rewrite laststart_p_killing : procdb.
Lemma laststop_p_killing p x : laststop (p_killing p x) = laststop p. Proof. reflexivity. Qed.
#[global] Hint Rewrite laststop_p_killing : procdb.
Lemma exitstatus_p_killing p x : exitstatus (p_killing p x) = exitstatus p. Proof. reflexivity. Qed.
#[global] Hint Rewrite exitstatus_p_killing : procdb.
Lemma spawnerr_p_killing p x : spawnerr (p_killing p x) = spawnerr p. Proof. reflexivity. Qed.
#[global] Hint Rewrite spawnerr_p_killing : procdb.
Lemma admin_stop_p_killing p x : admin_stop (p_killing p x) = admin_stop p. Proof. reflexivity. Qed.
#[global] Hint Rewrite admin_stop_p_killing : procdb.
Lemma system_stop_p_killing p x : system_stop (p_killing p x) = system_stop p. Proof. reflexivity. Qed.
#[global] Hint Rewrite system_stop_p_killing : procdb.
Lemma pid_p_delay p x : pid (p_delay p x) = pid p. Proof. reflexivity. Qed.
#[global] Hint Rewrite pid_p_delay : procdb.
Lemma killing_p_delay p x : killing (p_delay p x) = killing p. Proof. reflexivity. Qed.
#[global] Hint Rewrite killing_p_delay : procdb.
Lemma delay_p_delay p x : delay (p_delay p x) = x. Proof. reflexivity. Qed.
#[global] Hint Rewrite delay_p_delay : procdb.
Lemma backoff_p_delay p x : backoff (p_delay p x) = backoff p. Proof. reflexivity. Qed.
#[global] Hint Rewrite backoff_p_delay : procdb.
Lemma laststart_p_delay p x : laststart (p_delay p x) = laststart p. Proof. reflexivity. Qed.
#[global] Hint Rewrite laststart_p_delay : procdb.
Lemma laststop_p_delay p x : laststop (p_delay p x) = laststop p. Proof. reflexivity. Qed.
#[global] Hint Rewrite laststop_p_delay : procdb.
Lemma exitstatus_p_delay p x : exitstatus (p_delay p x) = exitstatus p. Proof. reflexivity. Qed.
#[global] Hint Rewrite exitstatus_p_delay : procdb.
Lemma spawnerr_p_delay p x : spawnerr (p_delay p x) = spawnerr p. Proof. reflexivity. Qed.
#[global] Hint Rewrite spawnerr_p_delay : procdb.
Lemma admin_stop_p_delay p x : admin_stop (p_delay p x) = admin_stop p. Proof. reflexivity. Qed.
#[global] Hint Rewrite admin_stop_p_delay : procdb.
Lemma system_stop_p_delay p x : system_stop (p_delay p x) = system_stop p. Proof. reflexivity. Qed.
#[global] Hint Rewrite system_stop_p_delay : procdb.
Lemma pid_p_backoff p x : pid (p_backoff p x) = pid p. Proof. reflexivity. Qed.
#[global] Hint Rewrite pid_p_backoff : procdb.
Lemma killing_p_backoff p x : killing (p_backoff p x) = killing p. Proof. reflexivity. Qed.
#[global] Hint Rewrite killing_p_backoff : procdb.
Lemma delay_p_backoff p x : delay (p_backoff p x) = delay p. Proof. reflexivity. Qed.
#[global] Hint Rewrite delay_p_backoff : procdb.
Lemma backoff_p_backoff p x : backoff (p_backoff p x) = x. Proof. reflexivity. Qed.
#[global] Hint Rewrite backoff_p_backoff : procdb.
Lemma laststart_p_backoff p x : laststart (p_backoff p x) = laststart p. Proof. reflexivity. Qed.
#[global] Hint Rewrite laststart_p_backoff : procdb.
Lemma laststop_p_backoff p x : laststop (p_backoff p x) = laststop p. Proof. reflexivity. Qed.
#[global] Hint Rewrite laststop_p_backoff : procdb.
Lemma exitstatus_p_backoff p x : exitstatus (p_backoff p x) = exitstatus p. Proof. reflexivity. Qed.
#[global] Hint Rewrite exitstatus_p_backoff : procdb.
Lemma spawnerr_p_backoff p x : spawnerr (p_backoff p x) = spawnerr p. Proof. reflexivity. Qed.
#[global] Hint Rewrite spawnerr_p_backoff : procdb.
Lemma admin_stop_p_backoff p x : admin_stop (p_backoff p x) = admin_stop p. Proof. reflexivity. Qed.
#[global] Hint Rewrite admin_stop_p_backoff : procdb.
Lemma system_stop_p_backoff p x : system_stop (p_backoff p x) = system_stop p. Proof. reflexivity. Qed.
#[global] Hint Rewrite system_stop_p_backoff : procdb.
Lemma pid_p_laststart p x : pid (p_laststart p x) = pid p. Proof. reflexivity. Qed.
#[global] Hint Rewrite pid_p_laststart : procdb.
Lemma killing_p_laststart p x : killing (p_laststart p x) = killing p. Proof. reflexivity. Qed.
#[global] Hint Rewrite killing_p_laststart : procdb.
Lemma delay_p_laststart p x : delay (p_laststart p x) = delay p. Proof. reflexivity. Qed.
#[global] Hint Rewrite delay_p_laststart : procdb.
Lemma backoff_p_laststart p x : backoff (p_laststart p x) = backoff p. Proof. reflexivity. Qed.
#[global] Hint Rewrite backoff_p_laststart : procdb.
Lemma laststart_p_laststart p x : laststart (p_laststart p x) = x. Proof. reflexivity. Qed.
#[global] Hint Rewrite laststart_p_laststart : procdb.
Lemma laststop_p_laststart p x : laststop (p_laststart p x) = laststop p. Proof. reflexivity. Qed.
#[global] Hint Rewrite laststop_p_laststart : procdb.
Lemma exitstatus_p_laststart p x : exitstatus (p_laststart p x) = exitstatus p. Proof. reflexivity. Qed.
#[global] Hint Rewrite exitstatus_p_laststart : procdb.
Lemma spawnerr_p_laststart p x : spawnerr (p_laststart p x) = spawnerr p. Proof. reflexivity. Qed.
#[global] Hint Rewrite spawnerr_p_laststart : procdb.
Lemma admin_stop_p_laststart p x : admin_stop (p_laststart p x) = admin_stop p. Proof. reflexivity. Qed.
#[global] Hint Rewrite admin_stop_p_laststart : procdb.
Lemma system_stop_p_laststart p x : system_stop (p_laststart p x) = system_stop p. Proof. reflexivity. Qed.
#[global] Hint Rewrite system_stop_p_laststart : procdb.
Lemma pid_p_laststop p x : pid (p_laststop p x) = pid p. Proof. reflexivity. Qed.
#[global] Hint Rewrite pid_p_laststop : procdb.
Lemma killing_p_laststop p x : killing (p_laststop p x) = killing p. Proof. reflexivity. Qed.
#[global] Hint Rewrite killing_p_laststop : procdb.
Lemma delay_p_laststop p x : delay (p_laststop p x) = delay p. Proof. reflexivity. Qed.
#[global] Hint Rewrite delay_p_laststop : procdb.
Lemma backoff_p_laststop p x : backoff (p_laststop p x) = backoff p. Proof. reflexivity. Qed.
#[global] Hint Rewrite backoff_p_laststop : procdb.
Lemma laststart_p_laststop p x : laststart (p_laststop p x) = laststart p. Proof. reflexivity. Qed.
#[global] Hint Rewrite laststart_p_laststop : procdb.
Lemma laststop_p_laststop p x : laststop (p_laststop p x) = x. Proof. reflexivity. Qed.
#[global] Hint Rewrite laststop_p_laststop : procdb.
Lemma exitstatus_p_laststop p x : exitstatus (p_laststop p x) = exitstatus p. Proof. reflexivity. Qed.
#[global] Hint Rewrite exitstatus_p_laststop : procdb.
Lemma spawnerr_p_laststop p x : spawnerr (p_laststop p x) = spawnerr p. Proof. reflexivity. Qed.
#[global] Hint Rewrite spawnerr_p_laststop : procdb.
Lemma admin_stop_p_laststop p x : admin_stop (p_laststop p x) = admin_stop p. Proof. reflexivity. Qed.
#[global] Hint Rewrite admin_stop_p_laststop : procdb.
Lemma system_stop_p_laststop p x : system_stop (p_laststop p x) = system_stop p. Proof. reflexivity. Qed.
#[global] Hint Rewrite system_stop_p_laststop : procdb.
Lemma pid_p_exitstatus p x : pid (p_exitstatus p x) = pid p. Proof. reflexivity. Qed.
#[global] Hint Rewrite pid_p_exitstatus : procdb.
Lemma killing_p_exitstatus p x : killing (p_exitstatus p x) = killing p. Proof. reflexivity. Qed.
#[global] Hint Rewrite killing_p_exitstatus : procdb.
Lemma delay_p_exitstatus p x : delay (p_exitstatus p x) = delay p. Proof. reflexivity. Qed.
#[global] Hint Rewrite delay_p_exitstatus : procdb.
Lemma backoff_p_exitstatus p x : backoff (p_exitstatus p x) = backoff p. Proof. reflexivity. Qed.
#[global] Hint Rewrite backoff_p_exitstatus : procdb.
Lemma laststart_p_exitstatus p x : laststart (p_exitstatus p x) = laststart p. Proof. reflexivity. Qed.
#[global] Hint Rewrite laststart_p_exitstatus : procdb.
Lemma laststop_p_exitstatus p x : laststop (p_exitstatus p x) = laststop p. Proof. reflexivity. Qed.
#[global] Hint Rewrite laststop_p_exitstatus : procdb.
Lemma exitstatus_p_exitstatus p x : exitstatus (p_exitstatus p x) = x. Proof. reflexivity. Qed.
#[global] Hint Rewrite exitstatus_p_exitstatus : procdb.
Lemma spawnerr_p_exitstatus p x : spawnerr (p_exitstatus p x) = spawnerr p. Proof. reflexivity. Qed.
#[global] Hint Rewrite spawnerr_p_exitstatus : procdb.
Lemma admin_stop_p_exitstatus p x : admin_stop (p_exitstatus p x) = admin_stop p. Proof. reflexivity. Qed.
#[global] Hint Rewrite admin_stop_p_exitstatus : procdb.
Lemma system_stop_p_exitstatus p x : system_stop (p_exitstatus p x) = system_stop p. Proof. reflexivity. Qed.
#[global] Hint Rewrite system_stop_p_exitstatus : procdb.
Lemma pid_p_spawnerr p x : pid (p_spawnerr p x) = pid p. Proof. reflexivity. Qed.
#[global] Hint Rewrite pid_p_spawnerr : procdb.
Lemma killing_p_spawnerr p x : killing (p_spawnerr p x) = killing p. Proof. reflexivity. Qed.
#[global] Hint Rewrite killing_p_spawnerr : procdb.
Lemma delay_p_spawnerr p x : delay (p_spawnerr p x) = delay p. Proof. reflexivity. Qed.
#[global] Hint Rewrite delay_p_spawnerr : procdb.
Lemma backoff_p_spawnerr p x : backoff (p_spawnerr p x) = backoff p. Proof. reflexivity. Qed.
#[global] Hint Rewrite backoff_p_spawnerr : procdb.
Lemma laststart_p_spawnerr p x : laststart (p_spawnerr p x) = laststart p. Proof. reflexivity. Qed.
#[global] Hint Rewrite laststart_p_spawnerr : procdb.
Lemma laststop_p_spawnerr p x : laststop (p_spawnerr p x) = laststop p. Proof. reflexivity. Qed.
#[global] Hint Rewrite laststop_p_spawnerr : procdb.
Lemma exitstatus_p_spawnerr p x : exitstatus (p_spawnerr p x) = exitstatus p. Proof. reflexivity. Qed.
#[global] Hint Rewrite exitstatus_p_spawnerr : procdb.
Lemma spawnerr_p_spawnerr p x : spawnerr (p_spawnerr p x) = x. Proof. reflexivity. Qed.
#[global] Hint Rewrite spawnerr_p_spawnerr : procdb.
Lemma admin_stop_p_spawnerr p x : admin_stop (p_spawnerr p x) = admin_stop p. Proof. reflexivity. Qed.
#[global] Hint Rewrite admin_stop_p_spawnerr : procdb.
Lemma system_stop_p_spawnerr p x : system_stop (p_spawnerr p x) = system_stop p. Proof. reflexivity. Qed.
#[global] Hint Rewrite system_stop_p_spawnerr : procdb.
Lemma pid_p_admin p x : pid (p_admin p x) = pid p. Proof. reflexivity. Qed.
#[global] Hint Rewrite pid_p_admin : procdb.
Lemma killing_p_admin p x : killing (p_admin p x) = killing p. Proof. reflexivity. Qed.
#[global] Hint Rewrite killing_p_admin : procdb.
Lemma delay_p_admin p x : delay (p_admin p x) = delay p. Proof. reflexivity. Qed.
#[global] Hint Rewrite delay_p_admin : procdb.
Lemma backoff_p_admin p x : backoff (p_admin p x) = backoff p. Proof. reflexivity. Qed.
#[global] Hint Rewrite backoff_p_admin : procdb.
Lemma laststart_p_admin p x : laststart (p_admin p x) = laststart p. Proof. reflexivity. Qed.
#[global] Hint Rewrite laststart_p_admin : procdb.
Lemma laststop_p_admin p x : laststop (p_admin p x) = laststop p. Proof. reflexivity. Qed.
#[global] Hint Rewrite laststop_p_admin : procdb.
Lemma exitstatus_p_admin p x : exitstatus (p_admin p x) = exitstatus p. Proof. reflexivity. Qed.
#[global] Hint Rewrite exitstatus_p_admin : procdb.
Lemma spawnerr_p_admin p x : spawnerr (p_admin p x) = spawnerr p. Proof. reflexivity. Qed.
#[global] Hint Rewrite spawnerr_p_admin : procdb.
Lemma admin_stop_p_admin p x : admin_stop (p_admin p x) = x. Proof. reflexivity. Qed.
#[global] Hint Rewrite admin_stop_p_admin : procdb.
Lemma system_stop_p_admin p x : system_stop (p_admin p x) = system_stop p. Proof. reflexivity. Qed.
#[global] Hint Rewrite system_stop_p_admin : procdb.
Lemma pid_p_system p x : pid (p_system p x) = pid p. Proof. reflexivity. Qed.
#[global] Hint Rewrite pid_p_system : procdb.
Lemma killing_p_system p x : killing (p_system p x) = killing p. Proof. reflexivity. Qed.
#[global] Hint Rewrite killing_p_system : procdb.
Lemma delay_p_system p x : delay (p_system p x) = delay p. Proof. reflexivity. Qed.
#[global] Hint Rewrite delay_p_system : procdb.
Lemma backoff_p_system p x : backoff (p_system p x) = backoff p. Proof. reflexivity. Qed.
#[global] Hint Rewrite backoff_p_system : procdb.
Lemma laststart_p_system p x : laststart (p_system p x) = laststart p. Proof. reflexivity. Qed.
#[global] Hint Rewrite laststart_p_system : procdb.
Lemma laststop_p_system p x : laststop (p_system p x) = laststop p. Proof. reflexivity. Qed.
#[global] Hint Rewrite laststop_p_system : procdb.
Lemma exitstatus_p_system p x : exitstatus (p_system p x) = exitstatus p. Proof. reflexivity. Qed.
#[global] Hint Rewrite exitstatus_p_system : procdb.
Lemma spawnerr_p_system p x : spawnerr (p_system p x) = spawnerr p. Proof. reflexivity. Qed.
#[global] Hint Rewrite spawnerr_p_system : procdb.
Lemma admin_stop_p_system p x : admin_stop (p_system p x) = admin_stop p. Proof. reflexivity. Qed.
#[global] Hint Rewrite admin_stop_p_system : procdb.
Lemma system_stop_p_system p x : system_stop (p_system p x) = x. Proof. reflexivity. Qed.
#[global] Hint Rewrite system_stop_p_system : procdb.

#[global] Arguments p_pid : simpl never.
#[global] Arguments p_killing : simpl never.
#[global] Arguments p_delay : simpl never.
#[global] Arguments p_backoff : simpl never.
#[global] Arguments p_laststart : simpl never.
#[global] Arguments p_laststop : simpl never.
#[global] Arguments p_exitstatus : simpl never.
#[global] Arguments p_spawnerr : simpl never.
#[global] Arguments p_admin : simpl never.
#[global] Arguments p_system : simpl never.
