(* C06 / C02 core: preservation of the lifecycle invariant Inv by every
   operation of the model, for every configuration, script and oracle.

   Inv w = K w /\ TI w, where TI (the trace part) is proved in Trace.v and K is
   the "core": not crashed, J1/J2 for every process (PI), J3 for the pid table.

   Method.  K only holds at function boundaries (inside spawn / kill / finish
   the process being worked on violates J1/J2 for a few statements), so the
   process-level functions are verified with a small symbolic executor:

     loc i m s p hp Q  :  started in any world whose frame is fine (KX i: not
       crashed, every OTHER process satisfies PI, pid table sound for the
       others and in range), where process i is in state s with record p and
       every pid-table entry of i carries the pid hp, the computation m does
       not crash, keeps the frame, and ends with process i in some (s',p') and
       pid-table pid hp' such that Q a s' p' hp'.

   loc is closed under the monadic combinators, reads return the symbolic
   (s,p), writes update them, assertions are discharged on the symbolic state
   (spawn_spec, kill_spec, stop_spec, signal_spec, give_up_spec, finish_spec,
   transition_spec: each with the precondition its call sites guarantee).
   Above `transition` everything is composed with ipre/ipres (K-preservation,
   with the state read by a guard remembered for the guarded call), up to
   do_pass_ipre.  Process records are normalised by call-by-value on the
   setters/projections only (pcbv): cbn/simpl on nested setters is exponential.

   Second half (converse tracking facts): TR w = G0 w /\ T1 w with
     G0: pid-table keys pairwise distinct, every key is a live child or an
         unreaped zombie, nextpid is above every pid the kernel knows, a pid is
         live or zombie at most once;
     T1: every process with a pid has its pid-table entry.
   G0 and T1 are preserved by every process-level function whether or not it
   crashes (presG G0 / presG TC; T1 is followed inside a function with the pid
   of the process in focus fixed, FC i x); only reap needs K (finish must not
   crash between popping the zombie and removing its key), so the upper layer
   carries K and TR together (kt), up to do_pass_kt. *)
From Coq Require Import ZArith List Bool Lia Arith ZifyBool.
Import ListNotations.
Require Import SV.Life.Model SV.Life.Inv SV.Life.ProcLemmas SV.Life.Trace SV.Life.Quiet.
Open Scope Z_scope.

Local Arguments Model.change_state : simpl never.

(* ---------- the per-process part of the invariant *)
Definition PI (s : pstate) (p : proc) : Prop :=
  (s = STOPPING -> killing p = true) /\
  (killing p = true -> s = STOPPING \/ s = UNKNOWN) /\
  (live_state s = true -> pid p <> 0) /\
  (dead_state s = true -> pid p = 0).

Record K (w : world) : Prop := mkK {
  k_nc : crashed w = false;
  k_pi : forall i, PI (sts w i) (procs w i);
  k_hist : forall q j, In (q, j) (pidhist w) -> pid (procs w j) = q /\ 1000 <= q < nextpid w;
  k_np : 1000 <= nextpid w }.

Lemma Inv_K_TI w : Inv w <-> K w /\ TI w.
Proof.
  split.
  - intros []. split; [constructor; auto | split; assumption].
    intros i. repeat split; auto.
  - intros [[] [T1 T2]]. constructor; auto; intros i; destruct (k_pi0 i) as (a & b & c & d); auto.
Qed.

(* frame of process i *)
Record KX (i : nat) (w : world) : Prop := mkKX {
  kx_nc : crashed w = false;
  kx_oth : forall j, j <> i -> PI (sts w j) (procs w j);
  kx_hist : forall q j, In (q, j) (pidhist w) -> 1000 <= q < nextpid w /\ (j <> i -> pid (procs w j) = q);
  kx_np : 1000 <= nextpid w }.

Definition HI (i : nat) (w : world) (hp : Z) : Prop := forall q, In (q, i) (pidhist w) -> q = hp.

Lemma K_split i w : K w -> KX i w /\ PI (sts w i) (procs w i) /\ HI i w (pid (procs w i)).
Proof.
  intros []. split; [constructor; auto | split; [auto|]].
  - intros q j Hin. destruct (k_hist0 q j Hin). split; auto.
  - intros q Hin. destruct (k_hist0 q i Hin). congruence.
Qed.

Lemma K_join i w : KX i w -> PI (sts w i) (procs w i) -> HI i w (pid (procs w i)) -> K w.
Proof.
  intros [] HP HH. constructor; auto.
  - intros j. destruct (Nat.eq_dec j i) as [->|E]; auto.
  - intros q j Hin. destruct (kx_hist0 q j Hin) as [Hr Hp]. split; [|exact Hr].
    destruct (Nat.eq_dec j i) as [->|E]; [symmetry; apply HH; exact Hin | auto].
Qed.

(* ---------- worlds that differ only where K does not look *)
Definition inertw (w w' : world) : Prop :=
  sts w' = sts w /\ procs w' = procs w /\ pidhist w' = pidhist w /\
  nextpid w <= nextpid w' /\ crashed w' = crashed w.

Lemma inertw_refl w : inertw w w.
Proof. repeat split; lia. Qed.
Lemma inertw_trans a b c : inertw a b -> inertw b c -> inertw a c.
Proof. intros (a1&a2&a3&a4&a5) (b1&b2&b3&b4&b5). repeat split; try congruence; lia. Qed.

Lemma KX_inert i w w' : KX i w -> inertw w w' -> KX i w'.
Proof.
  intros [] (e1&e2&e3&e4&e5). constructor; rewrite ?e1, ?e2, ?e3; try congruence; try lia; auto.
  intros q j Hin. destruct (kx_hist0 q j Hin). split; [lia | auto].
Qed.
Lemma HI_inert i w w' hp : HI i w hp -> inertw w w' -> HI i w' hp.
Proof. intros H (e1&e2&e3&e4&e5) q. rewrite e3. apply H. Qed.
Lemma K_inert w w' : K w -> inertw w w' -> K w'.
Proof.
  intros [] (e1&e2&e3&e4&e5). constructor; rewrite ?e1, ?e2, ?e3; try congruence; try lia; auto.
  intros q j Hin. destruct (k_hist0 q j Hin). split; [auto | lia].
Qed.

(* a computation that never crashes and only changes what K does not look at *)
Definition inertm {A} (m : Model.M A) : Prop :=
  forall w, exists a w', m w = (Some a, w') /\ inertw w w'.

Lemma inertm_ret {A} (a : A) : inertm (ret a).
Proof. intros w. exists a, w. split; [reflexivity | apply inertw_refl]. Qed.
Lemma inertm_bind {A B} (m : Model.M A) (k : A -> Model.M B) :
  inertm m -> (forall a, inertm (k a)) -> inertm (bind m k).
Proof.
  intros Hm Hk w. destruct (Hm w) as (a & w1 & E & I1). destruct (Hk a w1) as (b & w2 & E2 & I2).
  exists b, w2. unfold bind. rewrite E. split; [exact E2 | eapply inertw_trans; eassumption].
Qed.
Lemma inertm_getw {B} (k : world -> Model.M B) : (forall w0, inertm (k w0)) -> inertm (bind getw k).
Proof. intros H. apply inertm_bind; [|exact H]. intros w. exists w, w. split; [reflexivity | apply inertw_refl]. Qed.
Lemma inertm_gets {B} i (k : pstate -> Model.M B) : (forall s, inertm (k s)) -> inertm (bind (gets i) k).
Proof. intros H. apply inertm_bind; [|exact H]. intros w. exists (sts w i), w. split; [reflexivity | apply inertw_refl]. Qed.
Lemma inertm_getp {B} i (k : proc -> Model.M B) : (forall p, inertm (k p)) -> inertm (bind (getp i) k).
Proof. intros H. apply inertm_bind; [|exact H]. intros w. exists (procs w i), w. split; [reflexivity | apply inertw_refl]. Qed.
Lemma inertm_modw (g : world -> world) : (forall w, inertw w (g w)) -> inertm (modw g).
Proof. intros H w. exists tt, (g w). split; [reflexivity | apply H]. Qed.
Lemma inertm_emit e : inertm (emit e).
Proof. intros w. exists tt, (set_out (e :: out w) w). split; [reflexivity|]. repeat split; cbn; lia. Qed.
Lemma inertm_mapM {A} (f : A -> Model.M unit) l : (forall x, inertm (f x)) -> inertm (mapM_ f l).
Proof.
  intros H. induction l as [|x l IH]; cbn; [apply inertm_ret | apply inertm_bind; [apply H | intros _; exact IH]].
Qed.

Ltac inert_prim :=
  let w := fresh "w" in
  intros w; repeat match goal with |- context [if ?c then _ else _] => destruct c end;
  repeat split; cbn; lia.

Ltac itac :=
  repeat match goal with
    | |- inertm (ret _) => apply inertm_ret
    | |- inertm (bind getw _) => apply inertm_getw; intros ?w0
    | |- inertm (bind (gets _) _) => apply inertm_gets; intros ?s
    | |- inertm (bind (getp _) _) => apply inertm_getp; intros ?p
    | |- inertm (emit _) => apply inertm_emit
    | |- inertm (modw _) => apply inertm_modw; inert_prim
    | |- inertm (mapM_ _ _) => apply inertm_mapM; intros
    | |- inertm (if ?c then _ else _) => destruct c
    | |- inertm (match ?x with _ => _ end) => destruct x
    | |- inertm (bind _ _) => apply inertm_bind; [ | intros ? ]
    end.

Lemma inertm_k_kill t sg : inertm (k_kill t sg).
Proof. unfold k_kill. itac. Qed.

(* ====================================================================== *)
(* ---------- converse tracking facts: kernel and pid table *)
Lemma NoDup_app_intro {A} (l r : list A) :
  NoDup l -> NoDup r -> (forall x, In x l -> ~ In x r) -> NoDup (l ++ r).
Proof.
  induction l as [|a l IH]; intros Hl Hr Hd; cbn; [exact Hr|].
  inversion Hl as [|a' l' Hnin Hnd]; subst. constructor.
  - rewrite in_app_iff. intros [H|H]; [contradiction | apply (Hd a); [left; reflexivity | exact H]].
  - apply IH; auto. intros x Hx. apply Hd. right. exact Hx.
Qed.
Lemma NoDup_app_elim {A} (l r : list A) :
  NoDup (l ++ r) -> NoDup l /\ NoDup r /\ (forall x, In x l -> ~ In x r).
Proof.
  induction l as [|a l IH]; cbn; intros H.
  - split; [constructor | split; [exact H | intros x []]].
  - inversion H as [|a' l' Hnin Hnd]; subst. destruct (IH Hnd) as (H1 & H2 & H4). rewrite in_app_iff in Hnin. split; [|split].
    + constructor; [intros Hin; apply Hnin; left; exact Hin | exact H1].
    + exact H2.
    + intros x [->|Hx]; [intros Hin; apply Hnin; right; exact Hin | apply H4; exact Hx].
Qed.
Lemma filter_all {A} (f : A -> bool) l : (forall x, In x l -> f x = true) -> filter f l = l.
Proof.
  induction l as [|a l IH]; intros H; cbn; [reflexivity|].
  rewrite (H a) by (left; reflexivity). f_equal. apply IH. intros x Hx. apply H. right. exact Hx.
Qed.
Lemma NoDup_keys_filter {B} (f : Z * B -> bool) (h : list (Z * B)) :
  NoDup (map fst h) -> NoDup (map fst (filter f h)).
Proof.
  induction h as [|e h IH]; cbn; intros H; [constructor|]. inversion H as [|a' l' Hnin Hnd]; subst.
  destruct (f e); cbn; [constructor; [|auto] | auto].
  intros Hin. apply Hnin. apply in_map_iff in Hin. destruct Hin as (e' & E & Hin). apply filter_In in Hin.
  apply in_map_iff. exists e'. tauto.
Qed.
Lemma NoDup_keys_inj {B} (h : list (Z * B)) q a b :
  NoDup (map fst h) -> In (q, a) h -> In (q, b) h -> a = b.
Proof.
  induction h as [|e h IH]; cbn; intros H Ha Hb; [destruct Ha|]. inversion H as [|a' l' Hnin Hnd]; subst.
  destruct Ha as [Ea|Ha], Hb as [Eb|Hb].
  - congruence.
  - exfalso. apply Hnin. subst e. cbn. apply in_map_iff. exists (q, b). auto.
  - exfalso. apply Hnin. subst e. cbn. apply in_map_iff. exists (q, a). auto.
  - auto.
Qed.
Lemma remove_z_in x p l : In x (remove_z p l) <-> In x l /\ x <> p.
Proof.
  unfold remove_z. rewrite filter_In. split; intros [H1 H2]; (split; [exact H1|]).
  - intros ->. rewrite Z.eqb_refl in H2. discriminate.
  - apply negb_true_iff. apply Z.eqb_neq. exact H2.
Qed.

Definition keys (w : world) : list Z := map fst (pidhist w).
Definition kern (w : world) : list Z := live w ++ map fst (zombies w).
Definition obsG (w : world) := (pidhist w, live w, zombies w, nextpid w).

Record G0 (w : world) : Prop := mkG0 {
  g_A : NoDup (keys w);                                   (* pid-table keys pairwise distinct *)
  g_B : forall q, In q (keys w) -> In q (kern w);         (* every key is a live child or an unreaped zombie *)
  g_C : forall q, In q (kern w) -> q < nextpid w;         (* fresh pids are above every pid the kernel knows *)
  g_D : NoDup (kern w) }.                                 (* a pid is live or zombie, once *)

Lemma G0_obs w w' : obsG w' = obsG w -> G0 w -> G0 w'.
Proof.
  unfold obsG. intros E []. inversion E as [[E1 E2 E3 E4]].
  constructor; unfold keys, kern in *; rewrite ?E1, ?E2, ?E3, ?E4; auto.
Qed.

(* a child dies: its pid moves from live to the zombie queue *)
Lemma G0_move w w' p s :
  G0 w -> In p (live w) -> pidhist w' = pidhist w -> nextpid w' = nextpid w ->
  live w' = remove_z p (live w) -> zombies w' = zombies w ++ [(p, s)] -> G0 w'.
Proof.
  intros [] Hp Eh En El Ez. unfold keys, kern in *.
  destruct (NoDup_app_elim _ _ g_D0) as (D1 & D2 & D3).
  constructor; unfold keys, kern; rewrite ?Eh, ?En, ?El, ?Ez, ?map_app; cbn.
  - exact g_A0.
  - intros q Hq. specialize (g_B0 q Hq). rewrite !in_app_iff in *. rewrite remove_z_in. cbn.
    destruct (Z.eq_dec q p) as [->|Hne]; [right; right; left; reflexivity|]. tauto.
  - intros q Hq. apply g_C0. rewrite !in_app_iff in *. rewrite remove_z_in in Hq. cbn in Hq.
    destruct Hq as [[Hq _]|[Hq|[E|[]]]]; subst; auto.
  - apply NoDup_app_intro.
    + apply NoDup_filter. exact D1.
    + apply NoDup_app_intro; [exact D2 | repeat constructor; intros [] |].
      intros x Hx [E|[]]. subst x. exact (D3 p Hp Hx).
    + intros x Hx. apply remove_z_in in Hx. destruct Hx as [Hx Hne]. rewrite in_app_iff. cbn.
      intros [H|[H|[]]]; [exact (D3 x Hx H) | congruence].
Qed.

(* a new pid (the current nextpid) enters live or the zombie queue *)
Lemma G0_fresh_kern w (l' : list Z) (z' : list (Z * Z)) :
  G0 w -> (forall q, In q (l' ++ map fst z') <-> In q (kern w) \/ q = nextpid w) ->
  NoDup (l' ++ map fst z') ->
  forall w', pidhist w' = pidhist w -> live w' = l' -> zombies w' = z' -> nextpid w' = nextpid w + 1 -> G0 w'.
Proof.
  intros [] Hk Hd w' Eh El Ez En. constructor; unfold keys, kern in *; rewrite ?Eh, ?El, ?Ez, ?En.
  - exact g_A0.
  - intros q Hq. apply Hk. left. auto.
  - intros q Hq. apply Hk in Hq. destruct Hq as [Hq| ->]; [specialize (g_C0 q Hq)|]; lia.
  - exact Hd.
Qed.

Section WithConfig.
Variable U : Z.
Variable pconfs : list pconf.
Variable gconfs : list gconf.

Notation cf := (Model.cf pconfs).
Notation change_state := (Model.change_state U).
Notation move := (Model.move U).
Notation kill_mark := (Model.kill_mark U).
Notation spawn := (Model.spawn U pconfs).
Notation rollback_adjust := (Model.rollback_adjust U pconfs).
Notation give_up := (Model.give_up U).
Notation kill := (Model.kill U pconfs).
Notation stop := (Model.stop U pconfs).
Notation signal := (Model.signal U).
Notation finish := (Model.finish U pconfs).
Notation transition := (Model.transition U pconfs).

(* ---------- the symbolic executor for process i *)
Definition post (A : Type) := A -> pstate -> proc -> Z -> Prop.
Definition loc {A} (i : nat) (m : Model.M A) (s : pstate) (p : proc) (hp : Z)
           (Q : post A) : Prop :=
  forall w, KX i w -> sts w i = s -> procs w i = p -> HI i w hp ->
  exists a w' hp', m w = (Some a, w') /\ KX i w' /\ HI i w' hp' /\ Q a (sts w' i) (procs w' i) hp'.

Lemma loc_ret {A} i (a : A) s p hp (Q : post A) : Q a s p hp -> loc i (ret a) s p hp Q.
Proof. intros H w HK Hs Hp HH. exists a, w, hp. subst. split; [reflexivity | split; [exact HK | split; [exact HH | exact H]]]. Qed.

Lemma loc_conseq {A} i (m : Model.M A) s p hp (Q Q' : post A) :
  loc i m s p hp Q -> (forall a s' p' hp', Q a s' p' hp' -> Q' a s' p' hp') -> loc i m s p hp Q'.
Proof.
  intros H HQ w HK Hs Hp HH. destruct (H w HK Hs Hp HH) as (a & w' & hp' & E & K1 & H1 & Q1).
  exists a, w', hp'. auto.
Qed.

Lemma loc_bind {A B} i (m : Model.M A) (k : A -> Model.M B) s p hp (R : post A) (Q : post B) :
  loc i m s p hp R -> (forall a s1 p1 hp1, R a s1 p1 hp1 -> loc i (k a) s1 p1 hp1 Q) ->
  loc i (bind m k) s p hp Q.
Proof.
  intros Hm Hk w HK Hs Hp HH. destruct (Hm w HK Hs Hp HH) as (a & w1 & hp1 & E & K1 & H1 & R1).
  unfold bind. rewrite E. exact (Hk a _ _ _ R1 w1 K1 eq_refl eq_refl H1).
Qed.

Lemma loc_assoc {A B C} i (m : Model.M A) (f : A -> Model.M B) (k : B -> Model.M C) s p hp (Q : post _) :
  loc i (bind m (fun a => bind (f a) k)) s p hp Q -> loc i (bind (bind m f) k) s p hp Q.
Proof.
  intros H w HK Hs Hp HH. destruct (H w HK Hs Hp HH) as (a & w' & hp' & E & R).
  exists a, w', hp'. split; [|exact R]. rewrite <- E. unfold bind. destruct (m w) as [[a0|] w0]; reflexivity.
Qed.

Lemma loc_tail {A} i (m : Model.M A) s p hp (Q : post A) : loc i (bind m ret) s p hp Q -> loc i m s p hp Q.
Proof.
  intros H w HK Hs Hp HH. destruct (H w HK Hs Hp HH) as (a & w' & hp' & E & R).
  exists a, w', hp'. split; [|exact R]. unfold bind, ret in E. destruct (m w) as [[a0|] w0]; [exact E | discriminate E].
Qed.

Lemma loc_ret_bind {A B} i (a : A) (k : A -> Model.M B) s p hp (Q : post _) :
  loc i (k a) s p hp Q -> loc i (bind (ret a) k) s p hp Q.
Proof. intros H. exact H. Qed.

Lemma loc_inert {A B} i (m : Model.M A) (k : A -> Model.M B) s p hp (Q : post _) :
  inertm m -> (forall a, loc i (k a) s p hp Q) -> loc i (bind m k) s p hp Q.
Proof.
  intros Hm Hk w HK Hs Hp HH. destruct (Hm w) as (a & w1 & E & I1).
  unfold bind. rewrite E. pose proof I1 as (e1 & e2 & _).
  apply (Hk a w1); [eapply KX_inert; eassumption | rewrite e1; exact Hs | rewrite e2; exact Hp | eapply HI_inert; eassumption].
Qed.

Lemma loc_getw {B} i (k : world -> Model.M B) s p hp (Q : post _) :
  (forall w0, loc i (k w0) s p hp Q) -> loc i (bind getw k) s p hp Q.
Proof. intros H w. unfold bind, getw. apply H. Qed.
Lemma loc_getp {B} i (k : proc -> Model.M B) s p hp (Q : post _) :
  loc i (k p) s p hp Q -> loc i (bind (getp i) k) s p hp Q.
Proof. intros H w HK Hs Hp HH. unfold bind, getp. rewrite Hp. apply H; assumption. Qed.
Lemma loc_gets {B} i (k : pstate -> Model.M B) s p hp (Q : post _) :
  loc i (k s) s p hp Q -> loc i (bind (gets i) k) s p hp Q.
Proof. intros H w HK Hs Hp HH. unfold bind, gets. rewrite Hs. apply H; assumption. Qed.

(* a world that differs from w only at process i (and where K does not look) *)
Lemma KX_local i w w' :
  KX i w -> (forall j, j <> i -> sts w' j = sts w j /\ procs w' j = procs w j) ->
  pidhist w' = pidhist w -> nextpid w' = nextpid w -> crashed w' = crashed w -> KX i w'.
Proof.
  intros [] Ho Eh En Ec. constructor; try congruence.
  - intros j Hj. destruct (Ho j Hj) as [-> ->]. auto.
  - rewrite Eh, En. intros q j Hin. destruct (kx_hist0 q j Hin) as [Hr Hp]. split; [exact Hr|].
    intros Hj. destruct (Ho j Hj) as [_ ->]. auto.
Qed.

Lemma loc_setp {B} i p' (k : unit -> Model.M B) s p hp (Q : post _) :
  loc i (k tt) s p' hp Q -> loc i (bind (setp i p') k) s p hp Q.
Proof.
  intros H w HK Hs Hp HH. unfold bind, setp, modw. apply H.
  - apply (KX_local i w); auto. intros j Hj. cbn. rewrite upd_other by exact Hj. auto.
  - exact Hs.
  - cbn. apply upd_same.
  - exact HH.
Qed.

Lemma loc_modp {B} i f (k : unit -> Model.M B) s p hp (Q : post _) :
  loc i (k tt) s (f p) hp Q -> loc i (bind (modp i f) k) s p hp Q.
Proof. intros H. unfold modp. apply loc_assoc. apply loc_getp. apply loc_setp. exact H. Qed.

Lemma loc_assert {B} i site ok (k : unit -> Model.M B) s p hp (Q : post _) :
  ok s = true -> loc i (k tt) s p hp Q -> loc i (bind (assert_in i site ok) k) s p hp Q.
Proof. intros Ho H. unfold assert_in. apply loc_assoc. apply loc_gets. rewrite Ho. exact H. Qed.

(* the record after change_state: entering BACKOFF bumps backoff and sets a delay *)
Definition cs_proc (new s : pstate) (p : proc) (d : Z) : proc :=
  if pstate_eqb new s then p
  else if pstate_eqb new BACKOFF then p_delay (p_backoff p (backoff p + 1)) d else p.

Lemma loc_cs {B} i new e (k : unit -> Model.M B) s p hp (Q : post _) :
  (forall d, loc i (k tt) new (cs_proc new s p d) hp Q) -> loc i (bind (change_state i new e) k) s p hp Q.
Proof.
  intros H w HK Hs Hp HH. unfold bind at 1.
  unfold Model.change_state, bind, gets, getw, getp, setp, modw, emit, ret. rewrite Hs.
  destruct (pstate_eqb new s) eqn:E.
  - apply (H 0); auto.
    + apply pstate_eqb_eq in E. congruence.
    + unfold cs_proc. rewrite E. exact Hp.
  - cbn. rewrite Hp. apply (H (now w + (backoff p + 1) * U)).
    + apply (KX_local i w); auto. intros j Hj. cbn. rewrite !upd_other by exact Hj. auto.
    + cbn. apply upd_same.
    + cbn. rewrite upd_same. unfold cs_proc. rewrite E. reflexivity.
    + exact HH.
Qed.

Lemma loc_move {B} i site ok f new e (k : unit -> Model.M B) s p hp (Q : post _) :
  ok s = true -> (forall d, loc i (k tt) new (cs_proc new s (f p) d) hp Q) ->
  loc i (bind (move i site ok f new e) k) s p hp Q.
Proof.
  intros Ho H. unfold Model.move. apply loc_assoc. apply loc_assert; [exact Ho|].
  apply loc_assoc. apply loc_modp. apply loc_cs. exact H.
Qed.

Lemma cs_proc_unknown s p d : cs_proc UNKNOWN s p d = p.
Proof. unfold cs_proc. destruct (pstate_eqb UNKNOWN s); reflexivity. Qed.

Lemma loc_kill_mark {B} i t sg (k : Z -> Model.M B) s p hp (Q : post _) :
  (forall r, (r =? 2) = true -> loc i (k r) UNKNOWN p hp Q) ->
  (forall r, (r =? 2) = false -> loc i (k r) s p hp Q) ->
  loc i (bind (kill_mark i t sg) k) s p hp Q.
Proof.
  intros H2 H0. unfold Model.kill_mark. apply loc_assoc. apply loc_inert; [apply inertm_k_kill|].
  intros r. destruct (r =? 2) eqn:E.
  - apply loc_assoc. apply loc_cs. intros d. rewrite cs_proc_unknown. apply loc_ret_bind. apply H2. exact E.
  - apply loc_ret_bind. apply H0. exact E.
Qed.

(* ---------- normalisation of process records: call-by-value on the setters and
   projections only (cbn/simpl on nested setters is exponential) *)
Ltac pcbv :=
  cbv beta iota delta [pid killing delay backoff laststart laststop exitstatus spawnerr admin_stop system_stop
                       p_pid p_killing p_delay p_backoff p_laststart p_laststop p_exitstatus p_spawnerr
                       p_admin p_system].
Ltac pcbv_in H :=
  cbv beta iota delta [pid killing delay backoff laststart laststop exitstatus spawnerr admin_stop system_stop
                       p_pid p_killing p_delay p_backoff p_laststart p_laststop p_exitstatus p_spawnerr
                       p_admin p_system] in H.

(* ---------- the clock-rollback adjustment only moves delay / laststart; in RUNNING
   the adjusted laststart never makes an exit "too quick" (J4) *)
Lemma adjust_shape s c t p :
  exists d ls, adjust_times U s c t p = p_laststart (p_delay p d) ls /\
               (s = RUNNING -> too_quickly U t ls (c_startsecs c) = false).
Proof.
  destruct p as [a b d0 e ls0 g h j k l]. unfold adjust_times, too_quickly.
  destruct s; pcbv;
    repeat match goal with |- context [if ?b then _ else _] => destruct b eqn:? end;
    eexists _, _; (split; [reflexivity | try discriminate]); intros _;
    repeat match goal with |- context [if ?b then _ else _] => destruct b eqn:? end; try reflexivity; lia.
Qed.

Lemma loc_rollback {B} i t (k : unit -> Model.M B) s p hp (Q : post B) :
  (forall d ls, (s = RUNNING -> too_quickly U t ls (c_startsecs (cf i)) = false) ->
                loc i (k tt) s (p_laststart (p_delay p d) ls) hp Q) ->
  loc i (bind (rollback_adjust i t) k) s p hp Q.
Proof.
  intros H. unfold Model.rollback_adjust. apply loc_assoc. apply loc_getp. apply loc_assoc. apply loc_gets.
  apply loc_setp. destruct (adjust_shape s (cf i) t p) as (d & ls & -> & Hr). apply H. exact Hr.
Qed.

Lemma PI_live s p : PI s p -> live_state s = true -> pid p <> 0.
Proof. intros (a&b&c&d). exact c. Qed.
Lemma PI_dead s p : PI s p -> dead_state s = true -> pid p = 0.
Proof. intros (a&b&c&d). exact d. Qed.
Lemma PI_stopping p : PI STOPPING p -> killing p = true.
Proof. intros (a&b&c&d). auto. Qed.
Lemma PI_notkilling s p : PI s p -> s <> STOPPING -> s <> UNKNOWN -> killing p = false.
Proof. intros (a&b&c&d) H1 H2. destruct (killing p); [destruct b; congruence | reflexivity]. Qed.

(* ---------- the tail of spawn: fork succeeded *)
Definition spawn_tail (i : nat) : Model.M unit :=
  bind getw (fun w =>
  bind (modw (fun w1 => set_kernel (live w1 ++ [nextpid w]) (zombies w1) (nextpid w1 + 1) w1)) (fun _ =>
  bind (emit (EFork i (nextpid w))) (fun _ =>
  bind (modp i (fun p => p_delay (p_spawnerr (p_pid p (nextpid w)) false) (now w + c_startsecs (cf i) * U))) (fun _ =>
  modw (fun w1 => set_pidhist ((nextpid w, i) :: filter (fun e => negb (fst e =? nextpid w)) (pidhist w1)) w1))))).

Lemma loc_spawn_tail i s p hp (Q : post unit) :
  hp < 1000 ->
  (forall np d, 1000 <= np -> Q tt s (p_delay (p_spawnerr (p_pid p np) false) d) np) ->
  loc i (spawn_tail i) s p hp Q.
Proof.
  intros Hhp HQ w HK Hs Hp HH.
  unfold spawn_tail, bind, getw, modw, emit, modp, bind, getp, setp, modw.
  destruct HK as [Knc Koth Khist Knp].
  eexists tt, _, (nextpid w). split; [reflexivity|].
  destruct w; cbn in *. split; [|split; [|rewrite upd_same, Hs, Hp; apply HQ; exact Knp]].
  - constructor; cbn; auto; [| |lia].
    + intros j Hj. rewrite upd_other by exact Hj. auto.
    + intros q j [E|Hin].
      * inversion E; subst. split; [lia | congruence].
      * apply filter_In in Hin. destruct Hin as [Hin _]. destruct (Khist q j Hin) as [Hr Hq].
        split; [lia|]. intros Hj. rewrite upd_other by exact Hj. auto.
  - intros q [E|Hin]; [inversion E; reflexivity|].
    apply filter_In in Hin. destruct Hin as [Hin _]. destruct (Khist q i Hin) as [Hr _].
    specialize (HH q Hin). lia.
Qed.

(* ---------- stepping tactic *)
Ltac lnorm :=
  cbv beta; cbn [pstate_eqb negb andb orb cs_proc fst snd];
  lazymatch goal with
  | |- @loc ?A ?i ?m ?s ?p ?hp ?Q =>
    let p' := eval cbv beta iota delta [pid killing delay backoff laststart laststop exitstatus spawnerr admin_stop system_stop
                       p_pid p_killing p_delay p_backoff p_laststart p_laststop p_exitstatus p_spawnerr
                       p_admin p_system] in p in
    change (@loc A i m s p' hp Q)
  | |- _ => idtac
  end.
(* case analysis on a guard; projections of setters are normalised in the (small) equation only *)
Ltac ldestr c :=
  let E := fresh "E" in destruct c eqn:E; pcbv_in E;
  lazymatch type of E with
  | negb _ = true => apply negb_true_iff in E
  | negb _ = false => apply negb_false_iff in E
  | _ => idtac
  end;
  lazymatch type of E with
  | (_ =? _) = true => apply Z.eqb_eq in E
  | (_ =? _) = false => apply Z.eqb_neq in E
  | _ => idtac
  end.

Ltac lstep :=
  lazymatch goal with
  | |- loc _ (ret _) _ _ _ _ => apply loc_ret
  | |- loc _ (bind (ret _) _) _ _ _ _ => apply loc_ret_bind
  | |- loc _ (bind (bind _ _) _) _ _ _ _ => apply loc_assoc
  | |- loc _ (bind getw _) _ _ _ _ => apply loc_getw; intros ?w0
  | |- loc _ (bind (getp _) _) _ _ _ _ => apply loc_getp
  | |- loc _ (bind (gets _) _) _ _ _ _ => apply loc_gets
  | |- loc _ (bind (setp _ _) _) _ _ _ _ => apply loc_setp
  | |- loc _ (bind (modp _ _) _) _ _ _ _ => apply loc_modp
  | |- loc _ (bind (emit _) _) _ _ _ _ => apply loc_inert; [apply inertm_emit | intros _]
  | |- loc _ (bind (modw _) _) _ _ _ _ => apply loc_inert; [apply inertm_modw; inert_prim | intros _]
  | |- loc _ (bind (assert_in _ _ _) _) _ _ _ _ => apply loc_assert; [reflexivity|]
  | |- loc _ (bind (Model.move _ _ _ _ _ _ _) _) _ _ _ _ => apply loc_move; [reflexivity | intros ?d]
  | |- loc _ (bind (Model.change_state _ _ _ _) _) _ _ _ _ => apply loc_cs; intros ?d
  | |- loc _ (bind (Model.kill_mark _ _ _ _) _) _ _ _ _ => apply loc_kill_mark; intros ?r ?Er
  | |- loc _ (bind (Model.rollback_adjust _ _ _ _) _) _ _ _ _ => apply loc_rollback; intros ?d ?ls ?Hrun; first [specialize (Hrun eq_refl) | clear Hrun]
  | |- loc _ (bind (if ?c then _ else _) _) _ _ _ _ => ldestr c
  | |- loc _ (bind (match ?x with _ => _ end) _) _ _ _ _ => ldestr x
  | |- loc _ (bind _ _) _ _ _ _ => fail "no rule"
  | |- loc _ (if ?c then _ else _) _ _ _ _ => ldestr c
  | |- loc _ (match ?x with _ => _ end) _ _ _ _ => ldestr x
  | |- loc _ _ _ _ _ _ => apply loc_tail
  end; lnorm.

Definition PIdone := PI.
(* turn a hypothesis PI s p (s concrete) into plain facts about the fields *)
Ltac pifacts :=
  repeat match goal with
  | H : PI ?s ?p |- _ =>
    tryif is_var s then fail else idtac;
    try (let F := fresh "F" in assert (F := PI_live s p H eq_refl); pcbv_in F);
    try (let F := fresh "F" in assert (F := PI_dead s p H eq_refl); pcbv_in F);
    try (let F := fresh "F" in assert (F := PI_stopping p H); pcbv_in F);
    try (let F := fresh "F" in
         assert (F := PI_notkilling s p H ltac:(discriminate) ltac:(discriminate)); pcbv_in F);
    change (PIdone s p) in H
  end.

Ltac pileaf :=
  first [ assumption | reflexivity | discriminate | congruence
        | left; reflexivity | right; reflexivity | left; assumption | right; assumption
        | right; split; first [reflexivity | assumption | congruence]
        | split; first [reflexivity | assumption | congruence]
        | lia ].

Ltac pisolve :=
  pifacts;
  lazymatch goal with
  | |- loc _ _ _ _ _ _ => exfalso; first [congruence | lia]
  | |- _ =>
    pcbv; repeat match goal with |- _ /\ _ => split end;
    first [ assumption
          | unfold PIdone, PI in *; cbn [live_state dead_state]; pcbv;
            repeat match goal with |- _ /\ _ => split end; intros;
            first [ pileaf | exfalso; first [congruence | lia] ] ]
  end.

Definition spawnable (s : pstate) : bool :=
  match s with EXITED | FATAL | BACKOFF | STOPPED => true | _ => false end.

Lemma spawn_spec i s p :
  PI s p -> (pid p <> 0 \/ spawnable s = true) ->
  loc i (spawn i) s p (pid p) (fun _ s' p' hp' => PI s' p' /\ hp' = pid p' /\
     (pid p <> 0 -> s' = s /\ p' = p) /\
     (pid p = 0 -> s' = BACKOFF \/ (s' = STARTING /\ backoff p' = backoff p))).
Proof.
  intros HPI Hpre. destruct p as [ppid pkil pdel pbo pls plst pes perr padm psys]; pcbv; pcbv_in Hpre.
  unfold Model.spawn. lstep. lstep.
  { lstep. split; [exact HPI | split; [reflexivity | split; [auto | intros; exfalso; lia]]]. }
  destruct Hpre as [Hc|Hsp]; [lia|].
  destruct s; try discriminate Hsp.
  all: repeat first [ apply loc_spawn_tail; [lia | intros np dd Hnp] | lstep ].
  all: solve [pisolve].
Qed.

Ltac pdestr p :=
  let a := fresh "xpid" in let b := fresh "xkil" in let c := fresh "xdel" in let d := fresh "xbo" in
  let e := fresh "xls" in let f := fresh "xlst" in let g := fresh "xes" in let h := fresh "xerr" in
  let j := fresh "xadm" in let k := fresh "xsys" in
  destruct p as [a b c d e f g h j k].
Ltac lrun := repeat lstep.

(* ---------- give_up: only from BACKOFF *)
Lemma give_up_spec i p hp :
  PI BACKOFF p ->
  loc i (give_up i) BACKOFF p hp (fun _ s' p' hp' => PI s' p' /\ hp' = hp /\ pid p' = pid p).
Proof. intros HPI. pdestr p. unfold Model.give_up. lrun. pisolve. Qed.

(* ---------- kill *)
Definition killable (s : pstate) : bool :=
  match s with RUNNING | STARTING | STOPPING | BACKOFF => true | _ => false end.

Lemma kill_spec i sg s p hp :
  PI s p -> (killable s = true \/ pid p = 0) ->
  loc i (kill i sg) s p hp (fun _ s' p' hp' => PI s' p' /\ hp' = hp /\ pid p' = pid p).
Proof.
  intros HPI Hpre. pdestr p. pcbv_in Hpre. unfold Model.kill.
  destruct s; cbn [killable] in Hpre; lrun; solve [pisolve].
Qed.

Lemma loc_spec {A B} i (m : Model.M A) (k : A -> Model.M B) s p hp (R : post A) (Q : post B) :
  loc i m s p hp R -> (forall a s1 p1 hp1, R a s1 p1 hp1 -> loc i (k a) s1 p1 hp1 Q) ->
  loc i (bind m k) s p hp Q.
Proof. apply loc_bind. Qed.

(* ---------- stop *)
Lemma stop_spec i s p hp :
  PI s p -> (killable s = true \/ pid p = 0) ->
  loc i (stop i) s p hp (fun _ s' p' hp' => PI s' p' /\ hp' = hp /\ pid p' = pid p).
Proof.
  intros HPI Hpre. unfold Model.stop. lstep. apply loc_tail. 
  eapply loc_spec; [apply kill_spec; [pdestr p; destruct s; pisolve | pdestr p; exact Hpre] |].
  cbv beta. intros a s1 p1 hp1 (H1 & H2 & H3). apply loc_ret. revert H1 H2 H3. pdestr p. pcbv. auto.
Qed.

(* ---------- signal: only in the signallable states *)
Lemma signal_spec i sg s p hp :
  PI s p -> in_signallable_states s = true ->
  loc i (signal i sg) s p hp (fun _ s' p' hp' => PI s' p' /\ hp' = hp /\ pid p' = pid p).
Proof.
  intros HPI Hpre. pdestr p. unfold Model.signal.
  destruct s; try discriminate Hpre; lrun; solve [pisolve].
Qed.

(* ---------- finish: only for a process that has a pid *)
Lemma finish_spec i st s p hp :
  PI s p -> pid p <> 0 ->
  loc i (finish i st) s p hp (fun _ s' p' hp' => PI s' p' /\ hp' = hp /\ pid p' = 0).
Proof.
  intros HPI Hpre. pdestr p. pcbv_in Hpre. unfold Model.finish. cbv zeta.
  destruct s; lrun; solve [pisolve].
Qed.

(* ---------- transition *)
Definition Std {A} : post A := fun _ s' p' hp' => PI s' p' /\ hp' = pid p'.

Ltac lcall :=
  lazymatch goal with
  | |- loc _ (bind (Model.spawn _ _ _) _) _ _ _ _ =>
    eapply loc_spec; [apply spawn_spec; [solve [pisolve] | pcbv; cbn [spawnable]; solve [auto]] |];
    cbv beta; intros ?u ?s1 ?p1 ?hp1; lazymatch goal with p1 : proc |- _ => pdestr p1 end; pcbv;
    intros (?HP1 & ?Hh1 & _ & ?Hnew)
  | |- loc _ (bind (Model.give_up _ _) _) _ _ _ _ =>
    eapply loc_spec; [apply give_up_spec; solve [pisolve] |];
    cbv beta; intros ?u ?s1 ?p1 ?hp1; lazymatch goal with p1 : proc |- _ => pdestr p1 end; pcbv;
    intros (?HP1 & ?Hh1 & ?Hpid1)
  | |- loc _ (bind (Model.kill _ _ _ _) _) _ _ _ _ =>
    eapply loc_spec; [apply kill_spec; [solve [pisolve] | pcbv; cbn [killable]; solve [auto]] |];
    cbv beta; intros ?b1 ?s1 ?p1 ?hp1; lazymatch goal with p1 : proc |- _ => pdestr p1 end; pcbv;
    intros (?HP1 & ?Hh1 & ?Hpid1)
  end.

Lemma transition_spec i s p :
  PI s p -> loc i (transition i) s p (pid p) Std.
Proof.
  intros HPI. pdestr p. pcbv. unfold Model.transition, Std. cbv zeta.
  destruct s; lrun; try solve [pisolve].
  all: lcall.
  all: try solve [lrun; pisolve].
  assert (Hz : xpid = 0) by (pifacts; assumption).
  destruct (Hnew Hz) as [-> | [-> Hbo]]; lrun; try solve [pisolve].
  - lcall. lrun. pisolve.
  - exfalso. unfold retry_due, give_up_due in *. pcbv_in E0. pcbv_in E1. lia.
Qed.

(* ====================================================================== *)
(* ---------- K-preservation, with a remembered fact about the world *)
Definition ipre {A} (P : world -> Prop) (m : Model.M A) : Prop :=
  forall w, K w -> P w -> exists a w', m w = (Some a, w') /\ K w'.
Notation ipres m := (ipre (fun _ => True) m).
Notation ipreS i s m := (ipre (fun w => sts w i = s) m).

Lemma ipre_weaken {A} (P : world -> Prop) (m : Model.M A) : ipres m -> ipre P m.
Proof. intros H w HK _. apply H; auto. Qed.
Lemma ipre_ret {A} P (a : A) : ipre P (ret a).
Proof. intros w HK _. exists a, w. auto. Qed.
Lemma ipre_bind {A B} P (m : Model.M A) (k : A -> Model.M B) :
  ipre P m -> (forall a, ipres (k a)) -> ipre P (bind m k).
Proof.
  intros Hm Hk w HK HP. destruct (Hm w HK HP) as (a & w1 & E & K1).
  unfold bind. rewrite E. apply Hk; auto.
Qed.
Lemma ipre_getw {B} P (k : world -> Model.M B) : (forall w0, ipre P (k w0)) -> ipre P (bind getw k).
Proof. intros H w. unfold bind, getw. apply H. Qed.
Lemma ipre_getp {B} P i (k : proc -> Model.M B) : (forall p, ipre P (k p)) -> ipre P (bind (getp i) k).
Proof. intros H w. unfold bind, getp. apply H. Qed.
(* the state read by a guard is remembered *)
Lemma ipre_gets {B} P i (k : pstate -> Model.M B) : (forall s, ipreS i s (k s)) -> ipre P (bind (gets i) k).
Proof. intros H w HK _. unfold bind, gets. apply H; auto. Qed.
Lemma ipre_inert {A} P (m : Model.M A) : inertm m -> ipre P m.
Proof.
  intros H w HK _. destruct (H w) as (a & w' & E & I). exists a, w'. split; [exact E | eapply K_inert; eassumption].
Qed.
Lemma ipre_mapM {A} P (f : A -> Model.M unit) l : (forall x, ipres (f x)) -> ipre P (mapM_ f l).
Proof.
  intros H. apply ipre_weaken. induction l as [|x l IH]; cbn; [apply ipre_ret | apply ipre_bind; [apply H | intros _; exact IH]].
Qed.

(* from the symbolic executor to K-preservation *)
Lemma loc_ipre {A} i s (m : Model.M A) :
  (forall p, PI s p -> loc i m s p (pid p) Std) -> ipreS i s m.
Proof.
  intros H w HK Hs. destruct (K_split i w HK) as (KX0 & HP & HH). rewrite Hs in HP.
  destruct (H _ HP w KX0 Hs eq_refl HH) as (a & w' & hp' & E & KX1 & HH1 & HP1 & Ehp).
  exists a, w'. split; [exact E|]. apply (K_join i); [exact KX1 | exact HP1 | rewrite <- Ehp; exact HH1].
Qed.

Lemma std_of {A} i (m : Model.M A) s p :
  loc i m s p (pid p) (fun _ s' p' hp' => PI s' p' /\ hp' = pid p /\ pid p' = pid p) ->
  loc i m s p (pid p) Std.
Proof. intros H. eapply loc_conseq; [exact H|]. cbv beta. intros a s' p' hp' (H1 & H2 & H3). split; [exact H1 | congruence]. Qed.

Lemma transition_ipre i : ipres (transition i).
Proof.
  intros w HK _. apply (loc_ipre i (sts w i)); auto. intros p HP. apply transition_spec. exact HP.
Qed.

Lemma spawn_ipre i s : spawnable s = true \/ s = STOPPING -> ipreS i s (spawn i).
Proof.
  intros Hs. apply loc_ipre. intros p HP. eapply loc_conseq.
  - apply spawn_spec; [exact HP|]. destruct Hs as [Hs| ->]; [right; exact Hs | left; apply (PI_live _ _ HP); reflexivity].
  - cbv beta. intros a s' p' hp' (H1 & H2 & _). split; assumption.
Qed.

Lemma stop_ipre i s : killable s = true -> ipreS i s (stop i).
Proof. intros Hs. apply loc_ipre. intros p HP. apply std_of. apply stop_spec; auto. Qed.

Lemma give_up_ipre i : ipreS i BACKOFF (give_up i).
Proof. apply loc_ipre. intros p HP. apply std_of. apply give_up_spec; auto. Qed.

Lemma signal_ipre i sg s : in_signallable_states s = true -> ipreS i s (signal i sg).
Proof. intros Hs. apply loc_ipre. intros p HP. apply std_of. apply signal_spec; auto. Qed.

Lemma rollback_ipre i t : ipres (rollback_adjust i t).
Proof.
  intros w HK _. apply (loc_ipre i (sts w i)); auto. intros p HP.
  pdestr p. destruct (sts w i); apply loc_tail; lrun; pisolve.
Qed.

(* ---------- reap: finish is only called for a pid-table entry, and the entry is removed right after *)
Lemma lookup_hist_in zp h i : lookup_hist zp h = Some i -> In (zp, i) h.
Proof.
  unfold lookup_hist. destruct (find (fun e => fst e =? zp) h) as [[q j]|] eqn:E; [|discriminate].
  intros Ei. inversion Ei; subst. apply find_some in E. destruct E as [Hin Hq]. cbn in Hq.
  apply Z.eqb_eq in Hq. subst. exact Hin.
Qed.

Lemma finish_filter_ipre i zp st (k : unit -> Model.M unit) :
  (forall u, ipres (k u)) ->
  ipre (fun w => In (zp, i) (pidhist w))
       (bind (finish i st) (fun _ =>
        bind (modw (fun w => set_pidhist (filter (fun e => negb (fst e =? zp)) (pidhist w)) w)) k)).
Proof.
  intros Hk w HK Hin. destruct (K_split i w HK) as (KX0 & HP & HH).
  destruct (k_hist w HK zp i Hin) as [Epid Hr].
  assert (Hnz : pid (procs w i) <> 0) by lia.
  destruct (finish_spec i st _ _ (pid (procs w i)) HP Hnz w KX0 eq_refl eq_refl HH)
    as (a & w1 & hp' & E & KX1 & HH1 & HP1 & Ehp & Ep0).
  unfold bind at 1. rewrite E. unfold bind at 1. unfold modw at 1. apply Hk; [|exact Logic.I].
  apply (K_join i).
  - destruct KX1. constructor; cbn; auto.
    intros q j Hq. apply filter_In in Hq. destruct Hq as [Hq _]. auto.
  - cbn. exact HP1.
  - cbn. intros q Hq. apply filter_In in Hq. destruct Hq as [Hq Hne]. cbn in Hne.
    specialize (HH1 q Hq). exfalso. rewrite Ehp, Epid in HH1. rewrite HH1, Z.eqb_refl in Hne. discriminate.
Qed.

Lemma reap_ipre fuel : ipres (Model.reap U pconfs fuel).
Proof.
  induction fuel as [|f IH]; [apply ipre_ret|].
  intros w HK _. cbn [Model.reap]. unfold bind at 1. unfold getw at 1.
  destruct (zombies w) as [|[zp st] rest] eqn:Ez; [exists tt, w; auto|].
  unfold bind at 1. unfold modw at 1. unfold bind at 1. unfold emit at 1.
  set (w1 := set_out _ _).
  assert (I1 : inertw w w1) by (subst w1; repeat split; cbn; lia).
  assert (K1 : K w1) by (eapply K_inert; eassumption).
  destruct (lookup_hist zp (pidhist w)) as [i|] eqn:EL.
  - apply (finish_filter_ipre i zp st (fun _ => Model.reap U pconfs f)); [intros _; exact IH | exact K1 |].
    apply lookup_hist_in in EL. destruct I1 as (_ & _ & -> & _). exact EL.
  - apply IH; auto.
Qed.

(* ---------- everything above: composition *)
Create HintDb ipredb.

Ltac ustep :=
  lazymatch goal with
  | |- ipre _ (ret _) => apply ipre_ret
  | |- ipre _ (bind getw _) => apply ipre_getw; intros ?w0
  | |- ipre _ (bind (getp _) _) => apply ipre_getp; intros ?p
  | |- ipre _ (bind (gets _) _) =>
    apply ipre_gets; let s := fresh "s" in intros s; destruct s;
    cbn [in_running_states in_stopped_states in_signallable_states pstate_eqb negb andb orb pred_one]
  | |- ipre _ (emit _) => apply ipre_inert; apply inertm_emit
  | |- ipre _ (modw _) => apply ipre_inert; apply inertm_modw; inert_prim
  | |- ipre _ (mapM_ _ _) => apply ipre_mapM; intros
  | |- ipre _ (Model.spawn _ _ _) => apply spawn_ipre; solve [auto]
  | |- ipre _ (Model.stop _ _ _) => apply stop_ipre; reflexivity
  | |- ipre _ (Model.give_up _ _) => apply give_up_ipre
  | |- ipre _ (Model.signal _ _ _) => apply signal_ipre; reflexivity
  | |- ipre _ (if ?c then _ else _) => destruct c
  | |- ipre _ (match ?x with _ => _ end) => destruct x
  | |- ipre _ (bind _ _) => apply ipre_bind; [ | intros ? ]
  | |- ipre (fun _ => True) _ => solve [eauto with ipredb]
  | |- ipre _ _ => apply ipre_weaken; solve [eauto with ipredb]
  end.
Ltac utac := repeat ustep.

Hint Resolve transition_ipre rollback_ipre reap_ipre : ipredb.

Lemma stop_all_ipre g : ipres (Model.stop_all U pconfs gconfs g).
Proof. unfold Model.stop_all. utac. Qed.
Hint Resolve stop_all_ipre : ipredb.

Lemma handle_signal_ipre : ipres handle_signal.
Proof. apply ipre_inert. unfold handle_signal. itac. Qed.
Hint Resolve handle_signal_ipre : ipredb.

Lemma start_process_ipre i wait : ipres (Model.start_process U pconfs i wait).
Proof. unfold Model.start_process, reap_all. utac. Qed.
Lemma start_onwait_ipre i : ipres (start_onwait i).
Proof. apply ipre_inert. unfold start_onwait. itac. Qed.
Lemma stop_process_ipre i wait : ipres (Model.stop_process U pconfs i wait).
Proof. unfold Model.stop_process, reap_all. utac. Qed.
Lemma stop_onwait_ipre i : ipres (Model.stop_onwait U pconfs i).
Proof. unfold Model.stop_onwait. utac. Qed.
Lemma signal_process_ipre i sg ok : ipres (Model.signal_process U pconfs i sg ok).
Proof. unfold Model.signal_process. utac. Qed.
Hint Resolve start_process_ipre start_onwait_ipre stop_process_ipre stop_onwait_ipre signal_process_ipre : ipredb.

Lemma call_one_ipre k wait i : ipres (Model.call_one U pconfs k wait i).
Proof. destruct k; cbn; utac. Qed.
Lemma poll_one_ipre k i : ipres (Model.poll_one U pconfs k i).
Proof. destruct k; cbn; utac. Qed.
Hint Resolve call_one_ipre poll_one_ipre : ipredb.

Lemma all_first_ipre k wait l : forall cbs res, ipres (Model.all_first U pconfs k wait l cbs res).
Proof. induction l as [|x l IH]; intros; cbn [Model.all_first]; utac. Qed.
Lemma all_poll_ipre k l : forall cbs res, ipres (Model.all_poll U pconfs k l cbs res).
Proof. induction l as [|x l IH]; intros; cbn [Model.all_poll]; utac. Qed.
Hint Resolve all_first_ipre all_poll_ipre : ipredb.

Lemma poll_deferred_ipre d : ipres (Model.poll_deferred U pconfs d).
Proof. destruct d; cbn [Model.poll_deferred]; utac. Qed.
Hint Resolve poll_deferred_ipre : ipredb.

Lemma poll_pending_ipre l : forall keep, ipres (Model.poll_pending U pconfs l keep).
Proof. induction l as [|x l IH]; intros; cbn [Model.poll_pending]; utac. Qed.
Hint Resolve poll_pending_ipre : ipredb.

Lemma defer_now_ipre d : ipres (Model.defer_now U pconfs d).
Proof. unfold Model.defer_now, add_pending. utac. Qed.
Hint Resolve defer_now_ipre : ipredb.

Lemma do_rpc_ipre req r : ipres (Model.do_rpc U pconfs gconfs req r).
Proof. unfold Model.do_rpc. destruct r; utac. Qed.
Hint Resolve do_rpc_ipre : ipredb.

Lemma child_dies_ipre k st : ipres (child_dies k st).
Proof. apply ipre_inert. unfold child_dies. itac. Qed.
Hint Resolve child_dies_ipre : ipredb.

Lemma do_act_ipre a : ipres (Model.do_act U pconfs gconfs a).
Proof. destruct a; cbn [Model.do_act]; utac. Qed.
Hint Resolve do_act_ipre : ipredb.

Lemma loop_head_ipre : ipres (Model.loop_head U pconfs gconfs).
Proof. unfold Model.loop_head. utac. Qed.
Lemma phase2_ipre : ipres (Model.phase2 gconfs).
Proof. apply ipre_inert. unfold Model.phase2. itac. Qed.
Hint Resolve loop_head_ipre phase2_ipre : ipredb.

Lemma do_pass_ipre o : ipres (Model.do_pass U pconfs gconfs o).
Proof. unfold Model.do_pass, transition_group, reap_all. utac. Qed.

(* ====================================================================== *)
(* ---------- tracking, pass (a): G0 is preserved by every process-level function, crash or not *)
Create HintDb g0db.

(* Quiet.qtac without its hint-database rule (the database is created elsewhere) *)
Ltac qleaf :=
  repeat match goal with
    | |- quiet _ (ret _) => apply quiet_ret
    | |- quiet _ (bind getw _) => apply quiet_getw; intros ?w0
    | |- quiet _ (bind (gets _) _) => apply quiet_gets; intros ?s
    | |- quiet _ (bind (getp _) _) => apply quiet_getp; intros ?p
    | |- quiet _ (setp _ _) => unfold setp
    | |- quiet _ (modp _ _) => unfold modp
    | |- quiet _ (assert_in _ _ _) => unfold assert_in
    | |- quiet _ (Model.change_state _ _ _ _) => unfold Model.change_state
    | |- quiet _ (Model.move _ _ _ _ _ _ _) => unfold Model.move
    | |- quiet _ (Model.kill_mark _ _ _ _) => unfold Model.kill_mark
    | |- quiet _ (k_kill _ _) => unfold k_kill
    | |- quiet _ (modw _) => qprim
    | |- quiet _ (emit _) => qprim
    | |- quiet _ (crash _) => qprim
    | |- quiet _ (mapM_ _ _) => apply quiet_mapM; intros
    | |- quiet _ (if ?c then _ else _) => destruct c
    | |- quiet _ (match ?x with _ => _ end) => destruct x
    | |- quiet _ (bind _ _) => apply quiet_bind; [ | intros ? ]
    end.

Lemma mem_z_in x l : mem_z x l = true -> In x l.
Proof.
  unfold mem_z. intros H. apply existsb_exists in H. destruct H as (y & Hy & E). apply Z.eqb_eq in E. subst. exact Hy.
Qed.

Lemma k_kill_G0 t sg : presG G0 (k_kill t sg).
Proof.
  intros w HG. unfold k_kill, bind, getw, modw, emit, ret.
  destruct (pop (killq w) 0) as [o kq]. cbn -[mem_z].
  assert (Hsame : forall w', obsG w' = obsG w -> G0 w') by (intros w' E; exact (G0_obs _ _ E HG)).
  destruct (o =? 2); cbn -[mem_z]; [apply Hsame; reflexivity|].
  destruct (o =? 3); cbn -[mem_z]; [apply Hsame; reflexivity|].
  destruct (mem_z (Z.abs t) (live w)) eqn:El; cbn -[mem_z].
  - destruct ((o =? 1) && negb (sg =? 9)); cbn; [apply Hsame; reflexivity|].
    apply (G0_move w _ (Z.abs t) sg HG (mem_z_in _ _ El)); reflexivity.
  - destruct (existsb _ (zombies w)); cbn; apply Hsame; reflexivity.
Qed.

Lemma spawn_tail_G0 i : presG G0 (spawn_tail i).
Proof.
  intros w HG. unfold spawn_tail, bind, getw, modw, emit, modp, bind, getp, setp, modw. cbn.
  pose proof HG as [].
  assert (Hnk : ~ In (nextpid w) (kern w)) by (intros H; specialize (g_C0 _ H); lia).
  assert (Hnh : ~ In (nextpid w) (keys w)) by (intros H; apply Hnk; auto).
  constructor; unfold keys, kern in *; cbn.
  - constructor.
    + intros Hin. apply Hnh. apply in_map_iff in Hin. destruct Hin as (e & E & Hin). apply filter_In in Hin.
      apply in_map_iff. exists e. tauto.
    + apply NoDup_keys_filter. exact g_A0.
  - intros q [<-|Hq]; [rewrite !in_app_iff; left; right; left; reflexivity|].
    apply in_map_iff in Hq. destruct Hq as (e & E & Hin). apply filter_In in Hin.
    assert (Hq : In q (map fst (pidhist w))) by (apply in_map_iff; exists e; tauto).
    specialize (g_B0 q Hq). rewrite !in_app_iff in *. tauto.
  - intros q Hq. rewrite !in_app_iff in Hq. cbn in Hq.
    destruct Hq as [[Hq|[<-|[]]]|Hq]; [| lia |]; (assert (q < nextpid w) by (apply g_C0; rewrite in_app_iff; tauto)); lia.
  - destruct (NoDup_app_elim _ _ g_D0) as (D1 & D2 & D3). rewrite in_app_iff in Hnk.
    apply NoDup_app_intro.
    + apply NoDup_app_intro; [exact D1 | repeat constructor; intros [] | intros x Hx [E|[]]; subst; tauto].
    + exact D2.
    + intros x Hx. rewrite in_app_iff in Hx. destruct Hx as [Hx|[E|[]]]; [apply D3; exact Hx | subst; tauto].
Qed.

Ltac gtac :=
  repeat match goal with
    | |- presG _ (ret _) => apply presG_ret
    | |- presG _ (bind getw (fun w => bind (modw (@?g w)) (@?k w))) => apply spawn_tail_G0
    | |- presG _ (bind getw _) => apply presG_getw; intros ?w0 _
    | |- presG _ (bind (gets _) _) => apply presG_gets; intros ?s
    | |- presG _ (bind (getp _) _) => apply presG_getp; intros ?p
    | |- presG _ (k_kill _ _) => apply k_kill_G0
    | |- presG _ (mapM_ _ _) => apply presG_mapM; intros
    | |- presG _ _ => solve [apply (quiet_presG G0 obsG _ G0_obs); qleaf]
    | |- presG _ _ => solve [eauto with g0db]
    | |- presG _ (if ?c then _ else _) => destruct c
    | |- presG _ (match ?x with _ => _ end) => destruct x
    | |- presG _ (Model.kill_mark _ _ _ _) => unfold Model.kill_mark
    | |- presG _ (bind _ _) => apply presG_bind; [ | intros ? ]
    end.

Lemma spawn_G0 i : presG G0 (spawn i).
Proof. unfold Model.spawn. gtac. Qed.
Lemma kill_G0 i sg : presG G0 (kill i sg).
Proof. unfold Model.kill. gtac. Qed.
Hint Resolve spawn_G0 kill_G0 : g0db.
Lemma stop_G0 i : presG G0 (stop i).
Proof. unfold Model.stop. gtac. Qed.
Lemma signal_G0 i sg : presG G0 (signal i sg).
Proof. unfold Model.signal. gtac. Qed.
Lemma give_up_G0 i : presG G0 (give_up i).
Proof. unfold Model.give_up. gtac. Qed.
Lemma rollback_G0 i t : presG G0 (rollback_adjust i t).
Proof. unfold Model.rollback_adjust. gtac. Qed.
Hint Resolve stop_G0 signal_G0 give_up_G0 rollback_G0 : g0db.
Lemma transition_G0 i : presG G0 (transition i).
Proof. unfold Model.transition. gtac. Qed.
Lemma finish_quiet i st : quiet obsG (finish i st).
Proof. unfold Model.finish, Model.rollback_adjust. qleaf. Qed.

(* ---------- tracking, pass (b): every process that has a pid has its pid-table entry.
   T1 is broken only inside the tail of spawn; the functions working on process i
   are followed with the pid of i fixed (FC i x), reads of process i expose pid = x *)
Definition obsF (w : world) := (procs w, pidhist w, nextpid w).
Definition C1 (w : world) : Prop := forall q, In q (keys w) -> q < nextpid w.
Definition T1 (w : world) : Prop := forall j, pid (procs w j) <> 0 -> In (pid (procs w j), j) (pidhist w).
Definition TC (w : world) : Prop := T1 w /\ C1 w.
Definition FC (i : nat) (x : Z) (w : world) : Prop :=
  (forall j, j <> i -> pid (procs w j) <> 0 -> In (pid (procs w j), j) (pidhist w)) /\
  pid (procs w i) = x /\ (x <> 0 -> In (x, i) (pidhist w)) /\ C1 w.

Lemma TC_FC i w : TC w -> FC i (pid (procs w i)) w.
Proof. intros [H1 H2]. repeat split; auto. Qed.
Lemma FC_TC i x w : FC i x w -> TC w.
Proof.
  intros (H1 & H2 & H3 & H4). split; [|exact H4]. intros j Hj.
  destruct (Nat.eq_dec j i) as [->|E]; [rewrite H2 in *; auto | auto].
Qed.
Lemma FC_obs i x w w' : obsF w' = obsF w -> FC i x w -> FC i x w'.
Proof.
  unfold obsF. intros E H. inversion E as [[E1 E2 E3]]. unfold FC, C1, keys in *. rewrite E1, E2, E3. exact H.
Qed.
Lemma TC_obs w w' : obsF w' = obsF w -> TC w -> TC w'.
Proof.
  unfold obsF. intros E H. inversion E as [[E1 E2 E3]]. unfold TC, T1, C1, keys in *. rewrite E1, E2, E3. exact H.
Qed.

Definition foc {A} (i : nat) (x : Z) (m : Model.M A) : Prop := forall w, FC i x w -> TC (snd (m w)).

Lemma foc_weak {A} i x (m : Model.M A) : presG (FC i x) m -> foc i x m.
Proof. intros H w HF. eapply FC_TC. apply H. exact HF. Qed.
Lemma foc_tc {A} i x (m : Model.M A) : presG TC m -> foc i x m.
Proof. intros H w HF. apply H. eapply FC_TC. exact HF. Qed.
Lemma foc_bind {A B} i x (m : Model.M A) (k : A -> Model.M B) :
  presG (FC i x) m -> (forall a, foc i x (k a)) -> foc i x (bind m k).
Proof.
  intros Hm Hk w HF. unfold bind. specialize (Hm w HF). destruct (m w) as [[a|] w1]; cbn in *.
  - apply Hk. exact Hm.
  - eapply FC_TC. exact Hm.
Qed.
Lemma foc_getw {B} i x (k : world -> Model.M B) : (forall w0, foc i x (k w0)) -> foc i x (bind getw k).
Proof. intros H w. unfold bind, getw. apply H. Qed.
Lemma foc_gets {B} i x j (k : pstate -> Model.M B) : (forall s, foc i x (k s)) -> foc i x (bind (gets j) k).
Proof. intros H w. unfold bind, gets. apply H. Qed.
Lemma foc_getp {B} i x (k : proc -> Model.M B) : (forall p, pid p = x -> foc i x (k p)) -> foc i x (bind (getp i) k).
Proof. intros H w HF. unfold bind, getp. apply H; [apply HF | exact HF]. Qed.
Lemma tc_focus {A} i (m : Model.M A) : (forall x, foc i x m) -> presG TC m.
Proof. intros H w HT. apply (H (pid (procs w i)) w). apply TC_FC. exact HT. Qed.

Lemma FC_getp {B} i x (k : proc -> Model.M B) :
  (forall p, pid p = x -> presG (FC i x) (k p)) -> presG (FC i x) (bind (getp i) k).
Proof. intros H w HF. unfold bind, getp. apply H; [apply HF | exact HF]. Qed.
Lemma FC_setp i x p' : pid p' = x -> presG (FC i x) (setp i p').
Proof.
  intros Hp w (H1 & H2 & H3 & H4). unfold setp, modw. cbn. repeat split; cbn.
  - intros j Hj. rewrite upd_other by exact Hj. auto.
  - rewrite upd_same. exact Hp.
  - exact H3.
  - exact H4.
Qed.

Lemma adj_pid s c t p : pid (adjust_times U s c t p) = pid p.
Proof. destruct (adjust_shape s c t p) as (d & ls & E & _). rewrite E. reflexivity. Qed.

Ltac pidside :=
  repeat match goal with |- context [if ?c then _ else _] => destruct c end;
  rewrite ?adj_pid; autorewrite with procdb; first [assumption | reflexivity | congruence].

Create HintDb fcdb.
Create HintDb tcdb.

Ltac ftac :=
  repeat match goal with
    | |- presG _ (ret _) => apply presG_ret
    | |- presG _ (bind getw _) => apply presG_getw; intros ?w0 _
    | |- presG _ (bind (gets _) _) => apply presG_gets; intros ?s
    | |- presG (FC ?i _) (bind (getp ?i) _) => apply FC_getp; intros ?p ?Hp
    | |- presG (FC ?i _) (setp ?i _) => apply FC_setp; pidside
    | |- presG _ (modp _ _) => unfold modp
    | |- presG _ (Model.move _ _ _ _ _ _ _) => unfold Model.move
    | |- presG _ (Model.change_state _ _ _ _) => unfold Model.change_state
    | |- presG _ (Model.kill_mark _ _ _ _) => unfold Model.kill_mark
    | |- presG (FC _ _) _ => solve [apply (quiet_presG _ obsF _ (FC_obs _ _)); qleaf]
    | |- presG _ _ => solve [eauto with fcdb]
    | |- presG _ (if ?c then _ else _) => destruct c
    | |- presG _ (match ?x with _ => _ end) => destruct x
    | |- presG _ (bind _ _) => apply presG_bind; [ | intros ? ]
    end.

Ltac foctac :=
  repeat match goal with
    | |- foc _ _ (bind getw (fun w => bind (modw (@?g w)) (@?k w))) => fail 1
    | |- foc _ _ (bind getw _) => apply foc_getw; intros ?w0
    | |- foc _ _ (bind (gets _) _) => apply foc_gets; intros ?s
    | |- foc ?i _ (bind (getp ?i) _) => apply foc_getp; intros ?p ?Hp
    | |- foc _ _ _ => solve [apply foc_weak; ftac]
    | |- foc _ _ _ => solve [apply foc_tc; eauto with tcdb]
    | |- foc _ _ (if ?c then _ else _) => destruct c eqn:?
    | |- foc _ _ (match ?x with _ => _ end) => destruct x eqn:?
    | |- foc _ _ (bind _ _) => apply foc_bind; [ solve [ftac] | intros ? ]
    end.

Lemma rollback_FC i x t : presG (FC i x) (rollback_adjust i t).
Proof. unfold Model.rollback_adjust. ftac. Qed.
Lemma give_up_FC i x : presG (FC i x) (give_up i).
Proof. unfold Model.give_up. ftac. Qed.
Lemma kill_FC i x sg : presG (FC i x) (kill i sg).
Proof. unfold Model.kill. ftac. Qed.
Hint Resolve rollback_FC give_up_FC kill_FC : fcdb.
Lemma stop_FC i x : presG (FC i x) (stop i).
Proof. unfold Model.stop. ftac. Qed.
Lemma signal_FC i x sg : presG (FC i x) (signal i sg).
Proof. unfold Model.signal. ftac. Qed.
Hint Resolve stop_FC signal_FC : fcdb.

Lemma rollback_TC i t : presG TC (rollback_adjust i t).
Proof. apply (tc_focus i). intros x. apply foc_weak. apply rollback_FC. Qed.
Lemma give_up_TC i : presG TC (give_up i).
Proof. apply (tc_focus i). intros x. apply foc_weak. apply give_up_FC. Qed.
Lemma kill_TC i sg : presG TC (kill i sg).
Proof. apply (tc_focus i). intros x. apply foc_weak. apply kill_FC. Qed.
Lemma stop_TC i : presG TC (stop i).
Proof. apply (tc_focus i). intros x. apply foc_weak. apply stop_FC. Qed.
Lemma signal_TC i sg : presG TC (signal i sg).
Proof. apply (tc_focus i). intros x. apply foc_weak. apply signal_FC. Qed.
Hint Resolve rollback_TC give_up_TC kill_TC stop_TC signal_TC : tcdb.

(* the tail of spawn: the new pid is fresh, so the filter removes nothing, and the entry is added *)
Lemma spawn_tail_foc i : foc i 0 (spawn_tail i).
Proof.
  intros w (H1 & H2 & H3 & H4). unfold spawn_tail, bind, getw, modw, emit, modp, bind, getp, setp, modw. cbn.
  assert (Ef : filter (fun e : Z * nat => negb (fst e =? nextpid w)) (pidhist w) = pidhist w).
  { apply filter_all. intros [q j] Hin. cbn. apply negb_true_iff. apply Z.eqb_neq.
    assert (q < nextpid w) by (apply H4; unfold keys; apply in_map_iff; exists (q, j); auto). lia. }
  rewrite Ef. split.
  - intros j. cbn. unfold upd. destruct (Nat.eqb_spec j i) as [E|E].
    + subst j. autorewrite with procdb. intros _. left. reflexivity.
    + intros Hj. right. auto.
  - intros q Hq. unfold keys in Hq. cbn in *. destruct Hq as [<-|Hq]; [lia|]. specialize (H4 q Hq). lia.
Qed.

Lemma spawn_TC i : presG TC (spawn i).
Proof.
  apply (tc_focus i). intros x. unfold Model.spawn. foctac.
  all: match goal with Hp : pid ?p = ?y, E : negb (pid ?p =? 0) = false |- _ =>
         let Hy := fresh "Hy" in assert (Hy : y = 0) by lia; rewrite Hy end.
  all: apply spawn_tail_foc.
Qed.
Hint Resolve spawn_TC : tcdb.

(* the end of finish: the pid is forgotten *)
Lemma pid0_foc i x : foc i x (modp i (fun p => p_pid p 0)).
Proof.
  intros w (H1 & H2 & H3 & H4). unfold modp, bind, getp, setp, modw. cbn. split.
  - intros j. cbn. unfold upd. destruct (Nat.eqb_spec j i) as [E|E]; [autorewrite with procdb; intros []; reflexivity | auto].
  - exact H4.
Qed.

Lemma finish_TC i st : presG TC (finish i st).
Proof.
  apply (tc_focus i). intros x. unfold Model.finish. cbv zeta. foctac. all: apply pid0_foc.
Qed.

Ltac tctac :=
  repeat match goal with
    | |- presG _ (ret _) => apply presG_ret
    | |- presG _ (bind getw _) => apply presG_getw; intros ?w0 _
    | |- presG _ (bind (gets _) _) => apply presG_gets; intros ?s
    | |- presG TC (bind (getp ?i) _) => apply (tc_focus i); intros ?x; solve [foctac]
    | |- presG TC _ => solve [apply (quiet_presG _ obsF _ TC_obs); qleaf]
    | |- presG _ _ => solve [eauto with tcdb]
    | |- presG _ (mapM_ _ _) => apply presG_mapM; intros
    | |- presG _ (if ?c then _ else _) => destruct c
    | |- presG _ (match ?x with _ => _ end) => destruct x
    | |- presG _ (bind _ _) => apply presG_bind; [ | intros ? ]
    end.

Lemma transition_TC i : presG TC (transition i).
Proof. unfold Model.transition. cbv zeta. tctac. Qed.
Hint Resolve transition_TC : tcdb.

(* ---------- tracking, upper layer: K together with TR = G0 /\ T1 at every boundary *)
Definition TR (w : world) : Prop := G0 w /\ T1 w.

Definition kt {A} (P : world -> Prop) (m : Model.M A) : Prop :=
  forall w, K w -> TR w -> P w -> exists a w', m w = (Some a, w') /\ K w' /\ TR w'.
Notation kts m := (kt (fun _ => True) m).

Lemma K_C1 w : K w -> C1 w.
Proof.
  intros HK q Hq. unfold keys in Hq. apply in_map_iff in Hq. destruct Hq as ([q' j] & E & Hin). cbn in E. subst q'.
  destruct (k_hist w HK q j Hin). lia.
Qed.

Lemma kt_of {A} P (m : Model.M A) : ipre P m -> presG G0 m -> presG TC m -> kt P m.
Proof.
  intros Hi Hg Ht w HK [HG HT] HP. destruct (Hi w HK HP) as (a & w' & E & K').
  exists a, w'. split; [exact E | split; [exact K'|]].
  specialize (Hg w HG). specialize (Ht w (conj HT (K_C1 w HK))). rewrite E in Hg, Ht. cbn in Hg, Ht.
  split; [exact Hg | apply Ht].
Qed.
Lemma kt_weaken {A} (P : world -> Prop) (m : Model.M A) : kts m -> kt P m.
Proof. intros H w HK HT _. apply H; auto. Qed.
Lemma kt_ret {A} P (a : A) : kt P (ret a).
Proof. intros w HK HT _. exists a, w. auto. Qed.
Lemma kt_bind {A B} P (m : Model.M A) (k : A -> Model.M B) :
  kt P m -> (forall a, kts (k a)) -> kt P (bind m k).
Proof.
  intros Hm Hk w HK HT HP. destruct (Hm w HK HT HP) as (a & w1 & E & K1 & T1').
  unfold bind. rewrite E. apply Hk; auto.
Qed.
Lemma kt_getw {B} P (k : world -> Model.M B) : (forall w0, kt P (k w0)) -> kt P (bind getw k).
Proof. intros H w. unfold bind, getw. apply H. Qed.
Lemma kt_getp {B} P i (k : proc -> Model.M B) : (forall p, kt P (k p)) -> kt P (bind (getp i) k).
Proof. intros H w. unfold bind, getp. apply H. Qed.
Lemma kt_gets {B} P i (k : pstate -> Model.M B) : (forall s, kt (fun w => sts w i = s) (k s)) -> kt P (bind (gets i) k).
Proof. intros H w HK HT _. unfold bind, gets. apply H; auto. Qed.
Lemma kt_mapM {A} P (f : A -> Model.M unit) l : (forall x, kts (f x)) -> kt P (mapM_ f l).
Proof.
  intros H. apply kt_weaken. induction l as [|x l IH]; cbn; [apply kt_ret | apply kt_bind; [apply H | intros _; exact IH]].
Qed.

(* ---- reap *)
Lemma lookup_hist_none zp h : lookup_hist zp h = None -> ~ In zp (map fst h).
Proof.
  unfold lookup_hist. destruct (find (fun e => fst e =? zp) h) eqn:E; [discriminate|]. intros _ Hin.
  apply in_map_iff in Hin. destruct Hin as (e & Ee & Hin). pose proof (find_none _ _ E e Hin) as Hn.
  cbn in Hn. rewrite Ee, Z.eqb_refl in Hn. discriminate.
Qed.

Lemma finish_run i zp st w :
  K w -> In (zp, i) (pidhist w) ->
  exists w2, finish i st w = (Some tt, w2) /\ pid (procs w2 i) = 0 /\
             K (set_pidhist (filter (fun e => negb (fst e =? zp)) (pidhist w2)) w2).
Proof.
  intros HK Hin. destruct (K_split i w HK) as (KX0 & HP & HH).
  destruct (k_hist w HK zp i Hin) as [Epid Hr].
  assert (Hnz : pid (procs w i) <> 0) by lia.
  destruct (finish_spec i st _ _ (pid (procs w i)) HP Hnz w KX0 eq_refl eq_refl HH)
    as ([] & w1 & hp' & E & KX1 & HH1 & HP1 & Ehp & Ep0).
  exists w1. split; [exact E | split; [exact Ep0|]].
  apply (K_join i).
  - destruct KX1. constructor; cbn; auto.
    intros q j Hq. apply filter_In in Hq. destruct Hq as [Hq _]. auto.
  - cbn. exact HP1.
  - cbn. intros q Hq. apply filter_In in Hq. destruct Hq as [Hq Hne]. cbn in Hne.
    specialize (HH1 q Hq). exfalso. rewrite Ehp, Epid in HH1. rewrite HH1, Z.eqb_refl in Hne. discriminate.
Qed.

Lemma keys_filter_in zp (h : list (Z * nat)) q :
  In q (map fst (filter (fun e => negb (fst e =? zp)) h)) -> In q (map fst h) /\ q <> zp.
Proof.
  intros Hq. apply in_map_iff in Hq. destruct Hq as (e & E & Hin). apply filter_In in Hin. destruct Hin as [Hin Hne].
  split; [apply in_map_iff; exists e; auto|]. subst q. apply negb_true_iff in Hne. apply Z.eqb_neq in Hne. exact Hne.
Qed.

(* the zombie at the head of the queue is reaped: G0 once its key (if any) has left the table *)
Lemma G0_pop w zp st rest (h' : list (Z * nat)) w' :
  G0 w -> zombies w = (zp, st) :: rest ->
  NoDup (map fst h') -> (forall q, In q (map fst h') -> In q (keys w) /\ q <> zp) ->
  pidhist w' = h' -> live w' = live w -> zombies w' = rest -> nextpid w' = nextpid w -> G0 w'.
Proof.
  intros [] Ez Hnd Hsub Eh El Ez' En. unfold keys, kern in *. rewrite Ez in *. cbn in *.
  constructor; unfold keys, kern; rewrite ?Eh, ?El, ?Ez', ?En.
  - exact Hnd.
  - intros q Hq. destruct (Hsub q Hq) as [Hq1 Hne]. specialize (g_B0 q Hq1). rewrite in_app_iff in *. cbn in g_B0.
    destruct g_B0 as [H|[H|H]]; [left; exact H | congruence | right; exact H].
  - intros q Hq. apply g_C0. rewrite in_app_iff in *. cbn. tauto.
  - eapply NoDup_remove_1. exact g_D0.
Qed.

Lemma reap_kt fuel : kts (Model.reap U pconfs fuel).
Proof.
  induction fuel as [|f IH]; [apply kt_ret|].
  intros w HK [HG HT] _. cbn [Model.reap]. unfold bind at 1. unfold getw at 1.
  destruct (zombies w) as [|[zp st] rest] eqn:Ez; [exists tt, w; split; [reflexivity | split; [exact HK | split; assumption]]|].
  unfold bind at 1. unfold modw at 1. unfold bind at 1. unfold emit at 1.
  set (w1 := set_out _ _).
  assert (I1 : inertw w w1) by (subst w1; repeat split; cbn; lia).
  assert (K1 : K w1) by (eapply K_inert; eassumption).
  destruct (lookup_hist zp (pidhist w)) as [i|] eqn:EL.
  - apply lookup_hist_in in EL.
    destruct (finish_run i zp st w1 K1 EL) as (w2 & E2 & Ep0 & K3).
    unfold bind at 1. rewrite E2. unfold bind at 1. unfold modw at 1.
    pose proof (finish_quiet i st w1) as Eq. rewrite E2 in Eq. cbn [snd] in Eq. unfold obsG in Eq.
    inversion Eq as [[Eh El Ezz En]]. subst w1. cbn in Eh, El, Ezz, En.
    assert (T2 : TC w2).
    { pose proof (finish_TC i st _ (conj (HT : T1 (set_out _ (set_kernel _ _ _ w))) (K_C1 _ K1))) as H. rewrite E2 in H. exact H. }
    apply IH; [exact K3 | | exact Logic.I]. split.
    + apply (G0_pop w zp st rest (filter (fun e => negb (fst e =? zp)) (pidhist w2)) _ HG Ez); cbn; rewrite ?Eh; auto.
      * apply NoDup_keys_filter. apply HG.
      * apply keys_filter_in.
    + intros j Hj. cbn in *. destruct T2 as [T2 _]. specialize (T2 j Hj). rewrite Eh in *.
      apply filter_In. split; [exact T2|]. cbn. apply negb_true_iff. apply Z.eqb_neq. intros Eq'.
      rewrite Eq' in T2. assert (j = i) by (eapply NoDup_keys_inj; [apply HG | exact T2 | exact EL]).
      subst j. congruence.
  - apply IH; [exact K1 | | exact Logic.I]. split.
    + subst w1. apply (G0_pop w zp st rest (pidhist w) _ HG Ez); cbn; auto.
      * apply HG.
      * intros q Hq. split; [exact Hq|]. intros ->. exact (lookup_hist_none _ _ EL Hq).
    + exact HT.
Qed.

Hint Resolve transition_G0 : g0db.
Create HintDb ktdb.

Ltac kstep :=
  lazymatch goal with
  | |- kt _ (ret _) => apply kt_ret
  | |- kt _ (bind getw _) => apply kt_getw; intros ?w0
  | |- kt _ (bind (getp _) _) => apply kt_getp; intros ?p
  | |- kt _ (bind (gets _) _) =>
    apply kt_gets; let s := fresh "s" in intros s; destruct s;
    cbn [in_running_states in_stopped_states in_signallable_states pstate_eqb negb andb orb pred_one]
  | |- kt _ (mapM_ _ _) => apply kt_mapM; intros
  | |- kt _ (if ?c then _ else _) => destruct c
  | |- kt _ (match ?x with _ => _ end) => destruct x
  | |- kt _ (bind _ _) => apply kt_bind; [ | intros ? ]
  | |- kt (fun _ => True) _ =>
    first [ solve [eauto with ktdb] | apply kt_of; [solve [utac] | solve [gtac] | solve [tctac]] ]
  | |- kt _ _ =>
    first [ solve [apply kt_weaken; eauto with ktdb] | apply kt_of; [solve [utac] | solve [gtac] | solve [tctac]] ]
  end.
Ltac ktac := repeat kstep.

Hint Resolve reap_kt : ktdb.

Lemma transition_kt i : kts (transition i).
Proof. apply kt_of; [apply transition_ipre | apply transition_G0 | apply transition_TC]. Qed.
Hint Resolve transition_kt : ktdb.

Lemma stop_all_kt g : kts (Model.stop_all U pconfs gconfs g).
Proof. unfold Model.stop_all. ktac. Qed.
Hint Resolve stop_all_kt : ktdb.

Lemma handle_signal_kt : kts handle_signal.
Proof. unfold handle_signal. ktac. Qed.
Hint Resolve handle_signal_kt : ktdb.

Lemma start_process_kt i wait : kts (Model.start_process U pconfs i wait).
Proof. unfold Model.start_process, reap_all. ktac. Qed.
Lemma start_onwait_kt i : kts (start_onwait i).
Proof. unfold start_onwait. ktac. Qed.
Lemma stop_process_kt i wait : kts (Model.stop_process U pconfs i wait).
Proof. unfold Model.stop_process, reap_all. ktac. Qed.
Lemma stop_onwait_kt i : kts (Model.stop_onwait U pconfs i).
Proof. unfold Model.stop_onwait. ktac. Qed.
Lemma signal_process_kt i sg ok : kts (Model.signal_process U pconfs i sg ok).
Proof. unfold Model.signal_process. ktac. Qed.
Hint Resolve start_process_kt start_onwait_kt stop_process_kt stop_onwait_kt signal_process_kt : ktdb.

Lemma call_one_kt k wait i : kts (Model.call_one U pconfs k wait i).
Proof. destruct k; cbn; ktac. Qed.
Lemma poll_one_kt k i : kts (Model.poll_one U pconfs k i).
Proof. destruct k; cbn; ktac. Qed.
Hint Resolve call_one_kt poll_one_kt : ktdb.

Lemma all_first_kt k wait l : forall cbs res, kts (Model.all_first U pconfs k wait l cbs res).
Proof. induction l as [|x l IH]; intros; cbn [Model.all_first]; ktac. Qed.
Lemma all_poll_kt k l : forall cbs res, kts (Model.all_poll U pconfs k l cbs res).
Proof. induction l as [|x l IH]; intros; cbn [Model.all_poll]; ktac. Qed.
Hint Resolve all_first_kt all_poll_kt : ktdb.

Lemma poll_deferred_kt d : kts (Model.poll_deferred U pconfs d).
Proof. destruct d; cbn [Model.poll_deferred]; ktac. Qed.
Hint Resolve poll_deferred_kt : ktdb.

Lemma poll_pending_kt l : forall keep, kts (Model.poll_pending U pconfs l keep).
Proof. induction l as [|x l IH]; intros; cbn [Model.poll_pending]; ktac. Qed.
Hint Resolve poll_pending_kt : ktdb.

Lemma defer_now_kt d : kts (Model.defer_now U pconfs d).
Proof. unfold Model.defer_now, add_pending. ktac. Qed.
Hint Resolve defer_now_kt : ktdb.

Lemma do_rpc_kt req r : kts (Model.do_rpc U pconfs gconfs req r).
Proof. unfold Model.do_rpc. destruct r; ktac. Qed.
Hint Resolve do_rpc_kt : ktdb.

Lemma child_dies_G0 k st : presG G0 (child_dies k st).
Proof.
  intros w HG. unfold child_dies, bind, getw. destruct (live w) as [|a l] eqn:El; [exact HG|].
  unfold modw. cbn [snd]. rewrite <- El.
  eapply (G0_move w _ (nth (k mod length (live w)) (live w) 0) st HG); try reflexivity.
  apply nth_In. apply Nat.mod_upper_bound. rewrite El. discriminate.
Qed.

Lemma child_dies_kt k st : kts (child_dies k st).
Proof.
  apply kt_of; [apply child_dies_ipre | apply child_dies_G0 |].
  unfold child_dies. apply (quiet_presG _ obsF _ TC_obs). qleaf.
Qed.
Hint Resolve child_dies_kt : ktdb.

Lemma unknown_child_kt st :
  kts (modw (fun w => set_kernel (live w) (zombies w ++ [(nextpid w, st)]) (nextpid w + 1) w)).
Proof.
  apply kt_of.
  - apply ipre_inert. apply inertm_modw. inert_prim.
  - intros w HG. unfold modw. cbn [snd]. pose proof HG as [].
    assert (Hnk : ~ In (nextpid w) (kern w)) by (intros H; specialize (g_C0 _ H); lia).
    apply (G0_fresh_kern w (live w) (zombies w ++ [(nextpid w, st)]) HG); try reflexivity.
    + intros q. unfold kern. rewrite map_app, !in_app_iff. cbn. intuition.
    + unfold kern in *. rewrite map_app, app_assoc. cbn.
      apply NoDup_app_intro; [exact g_D0 | repeat constructor; intros [] | intros x Hx [E|[]]; subst; auto].
  - intros w [H1 H2]. unfold modw. cbn [snd]. split.
    + exact H1.
    + intros q Hq. specialize (H2 q Hq). cbn. lia.
Qed.
Hint Resolve unknown_child_kt : ktdb.

Lemma do_act_kt a : kts (Model.do_act U pconfs gconfs a).
Proof. destruct a; cbn [Model.do_act]; ktac. Qed.
Hint Resolve do_act_kt : ktdb.

Lemma loop_head_kt : kts (Model.loop_head U pconfs gconfs).
Proof. unfold Model.loop_head. ktac. Qed.
Lemma phase2_kt : kts (Model.phase2 gconfs).
Proof. unfold Model.phase2. ktac. Qed.
Hint Resolve loop_head_kt phase2_kt : ktdb.

Lemma do_pass_kt o : kts (Model.do_pass U pconfs gconfs o).
Proof. unfold Model.do_pass, transition_group, reap_all. ktac. Qed.

End WithConfig.
