(* Preservation of Inv by every operation of the lifecycle model. *)
From Coq Require Import ZArith List Bool Lia Arith ZifyBool.
Import ListNotations.
Require Import SV.Life.Model SV.Life.Inv SV.Life.ProcLemmas.
Open Scope Z_scope.

Section WithConfig.
Variable U : Z.
Variable pconfs : list pconf.
Variable gconfs : list gconf.

Notation cf := (Model.cf pconfs).
Notation change_state := (Model.change_state U).
Notation spawn := (Model.spawn U pconfs).
Notation rollback_adjust := (Model.rollback_adjust U pconfs).
Notation give_up := (Model.give_up U).
Notation kill := (Model.kill U pconfs).
Notation stop := (Model.stop U pconfs).
Notation finish := (Model.finish U pconfs).
Notation transition := (Model.transition U pconfs).

(* ---------- equations for the leaf operations *)
Lemma change_state_eq i t e w :
  change_state i t e w =
  if pstate_eqb t (sts w i) then (Some tt, w)
  else
    let p := procs w i in
    let p2 := if pstate_eqb t BACKOFF
              then p_delay (p_backoff p (backoff p + 1)) (now w + (backoff p + 1) * U) else p in
    (Some tt, set_out (EState i (sts w i) t (extra_value t p2) e :: out w)
                      (set_procs (upd (procs w) i p2) (set_sts (upd (sts w) i t) w))).
Proof.
  unfold Model.change_state, bind, gets. destruct (pstate_eqb t (sts w i)); reflexivity.
Qed.

Lemma assert_in_eq i site ok w :
  assert_in i site ok w =
  if ok (sts w i) then (Some tt, w) else (None, set_crashed (set_out (ECrash site :: out w) w)).
Proof. unfold assert_in, bind, gets. destruct (ok (sts w i)); reflexivity. Qed.

(* ---------- a general way to re-establish Inv after touching one process *)
Lemma Inv_touch w i t p' ss ps o' h' np' l z m sp sg n fq kq sq pd ex :
  Inv w ->
  ss i = t -> (forall j, j <> i -> ss j = sts w j) ->
  ps i = p' -> (forall j, j <> i -> ps j = procs w j) ->
  (t = STOPPING -> killing p' = true) ->
  (killing p' = true -> t = STOPPING \/ t = UNKNOWN) ->
  (live_state t = true -> pid p' <> 0) ->
  (dead_state t = true -> pid p' = 0) ->
  (forall p j, In (p, j) h' ->
     (j = i -> pid p' = p) /\ (j <> i -> In (p, j) (pidhist w)) /\ 1000 <= p < np') ->
  nextpid w <= np' ->
  trace_ok o' ->
  (forall j, last_state o' j = if Nat.eqb i j then t else last_state (out w) j) ->
  Inv (mkW ss ps l z np' h' m sp sg n fq kq sq pd o' false ex).
Proof.
  intros I Hs1 Hs2 Hp1 Hp2 H1 H2 H3 H4 H5 Hnp HT1 HT2. destruct I.
  constructor; cbn.
  - reflexivity.
  - intros j. destruct (Nat.eq_dec j i) as [E|E]; [subst j; rewrite Hs1, Hp1; auto | rewrite Hs2, Hp2; auto].
  - intros j. destruct (Nat.eq_dec j i) as [E|E]; [subst j; rewrite Hs1, Hp1; auto | rewrite Hs2, Hp2; auto].
  - intros j. destruct (Nat.eq_dec j i) as [E|E]; [subst j; rewrite Hs1, Hp1; auto | rewrite Hs2, Hp2; auto].
  - intros j. destruct (Nat.eq_dec j i) as [E|E]; [subst j; rewrite Hs1, Hp1; auto | rewrite Hs2, Hp2; auto].
  - intros p j Hin. destruct (H5 p j Hin) as [Ha [Hb Hc]]. split; [|exact Hc].
    destruct (Nat.eq_dec j i) as [E|E]; [subst j; rewrite Hp1; auto | rewrite Hp2 by exact E].
    apply (i_J3 p j). apply Hb. exact E.
  - lia.
  - exact HT1.
  - intros j. rewrite HT2. destruct (Nat.eqb_spec i j) as [E|E]; [subst j; symmetry; exact Hs1 | rewrite Hs2 by (apply not_eq_sym; exact E); apply i_T2].
Qed.

Ltac upd_solve :=
  intros; cbn; unfold upd;
  repeat match goal with
         | |- context [Nat.eqb ?a ?b] => destruct (Nat.eqb_spec a b)
         end; subst; try congruence; try reflexivity; auto.

(* worlds are records: eta *)
Lemma world_eta w :
  w = mkW (sts w) (procs w) (live w) (zombies w) (nextpid w) (pidhist w) (mood w) (stopping w)
          (stop_groups w) (now w) (forkq w) (killq w) (sigq w) (pend w) (out w) (crashed w) (exited w).
Proof. destruct w; reflexivity. Qed.

(* symbolic execution of monadic code on a world about which some state facts are known *)
Ltac mrun :=
  repeat (cbn; autorewrite with procdb;
          repeat match goal with
                 | H : sts ?w ?i = _ |- context [sts ?w ?i] => rewrite H
                 end).

Ltac trace_solve I :=
  cbn; repeat split; auto; try discriminate; try (apply (i_T1 _ I));
  try (rewrite (i_T2 _ I); auto; congruence); try congruence.

Ltac hist_same I :=
  let p := fresh "p" in let j := fresh "j" in let Hin := fresh "Hin" in
  intros p j Hin; destruct (i_J3 _ I p j Hin) as [? ?]; repeat split; auto; try lia;
  intros ->; assumption.

Ltac fin I :=
  first [ solve [intros; discriminate]
        | solve [hist_same I]
        | solve [trace_solve I]
        | solve [intros; auto]
        | solve [ let j := fresh "j" in intros j; match goal with |- context [Nat.eqb ?i j] => destruct (Nat.eqb_spec i j) end;
                  [subst; rewrite (i_T2 _ I); congruence | reflexivity] ]
        | solve [intros; left; reflexivity]
        | solve [intros; right; reflexivity] ].

Ltac upd_fast :=
  intros; cbn; rewrite ?upd_same;
  repeat (rewrite upd_other by (assumption || (apply not_eq_sym; assumption)));
  try reflexivity; try assumption; try congruence.

Ltac touch I ii tt :=
  unfold set_out, set_procs, set_sts, set_kernel, set_pidhist, set_forkq, set_killq; cbn;
  rewrite ?(i_nocrash _ I);
  eapply Inv_touch with (i := ii) (t := tt);
  [ exact I | solve [upd_fast] | solve [upd_fast] | solve [upd_fast] | solve [upd_fast] | .. ];
  cbn; rewrite ?upd_same; cbn; autorewrite with procdb;
  try (solve [intros; reflexivity]); try (solve [lia]).

(* ---------- give_up *)
Lemma give_up_ok i w :
  Inv w -> sts w i = BACKOFF ->
  exists w', give_up i w = (Some tt, w') /\ Inv w' /\ sts w' i = FATAL
             /\ (forall j, j <> i -> sts w' j = sts w j).
Proof.
  intros I Hs. eexists. split.
  { unfold Model.give_up, modp, bind, getp, setp, modw. mrun. reflexivity. }
  split; [|split; [upd_solve | upd_solve]].
  touch I i FATAL; try fin I.
  - pose proof (i_J1b w I i) as K. rewrite Hs in K. intros Hk. destruct (K Hk); discriminate.
  - intros _. apply (i_J2b w I i). rewrite Hs. reflexivity.
Qed.

(* ---------- rollback adjustment: touches only delay / laststart of process i *)
Definition same_but_times (p p' : proc) : Prop :=
  pid p' = pid p /\ killing p' = killing p /\ backoff p' = backoff p /\ exitstatus p' = exitstatus p
  /\ spawnerr p' = spawnerr p /\ admin_stop p' = admin_stop p /\ system_stop p' = system_stop p
  /\ laststop p' = laststop p.

Lemma adjust_same s c t p : same_but_times p (adjust_times U s c t p).
Proof.
  unfold adjust_times, same_but_times.
  destruct s; cbn; repeat match goal with |- context [if ?b then _ else _] => destruct b end; cbn;
    autorewrite with procdb; repeat split.
Qed.

(* J4: in RUNNING, after the adjustment, an exit is never "too quick" *)
Lemma adjust_running c t p :
  let p' := adjust_times U RUNNING c t p in
  t > laststart p' -> t - laststart p' >= c_startsecs c * U.
Proof.
  cbn. destruct ((t >? laststart p) && (t <? laststart p + c_startsecs c * U)) eqn:E; cbn; autorewrite with procdb; intros H.
  - lia.
  - lia.
Qed.

Lemma rollback_eq i t w :
  rollback_adjust i t w =
  (Some tt, set_procs (upd (procs w) i (adjust_times U (sts w i) (cf i) t (procs w i))) w).
Proof. reflexivity. Qed.

Lemma Inv_times w i p' :
  Inv w -> same_but_times (procs w i) p' -> Inv (set_procs (upd (procs w) i p') w).
Proof.
  intros I (E1 & E2 & _). unfold set_procs. rewrite (i_nocrash w I).
  eapply Inv_touch with (i := i) (t := sts w i); try exact I; try (solve [upd_solve]); cbn.
  - rewrite E2. apply (i_J1a w I).
  - rewrite E2. apply (i_J1b w I).
  - rewrite E1. apply (i_J2a w I).
  - rewrite E1. apply (i_J2b w I).
  - intros p j Hin. destruct (i_J3 w I p j Hin). repeat split; auto; try lia. intros ->. rewrite E1. assumption.
  - apply (i_T1 w I).
  - intros j. destruct (Nat.eqb_spec i j); [subst; apply (i_T2 w I) | reflexivity].
Qed.

(* ---------- operations that leave sts / procs / pidhist alone *)
Record same_core (w w' : world) : Prop := mkSame {
  sc_sts : sts w' = sts w; sc_procs : procs w' = procs w; sc_hist : pidhist w' = pidhist w;
  sc_np : nextpid w' = nextpid w; sc_mood : mood w' = mood w; sc_now : now w' = now w;
  sc_stopping : stopping w' = stopping w; sc_sg : stop_groups w' = stop_groups w;
  sc_forkq : forkq w' = forkq w; sc_sigq : sigq w' = sigq w; sc_pend : pend w' = pend w;
  sc_crashed : crashed w' = crashed w; sc_exited : exited w' = exited w }.

Lemma Inv_same w w' :
  Inv w -> sts w' = sts w -> procs w' = procs w -> pidhist w' = pidhist w ->
  nextpid w <= nextpid w' -> crashed w' = false ->
  trace_ok (out w') -> (forall j, last_state (out w') j = last_state (out w) j) ->
  Inv w'.
Proof.
  intros I Es Ep Eh En Ec HT1 HT2. destruct I.
  constructor; try rewrite Es; try rewrite Ep; try rewrite Eh; auto.
  - intros p i Hin. destruct (i_J3 p i Hin). split; [assumption | lia].
  - lia.
  - intros i. rewrite HT2. apply i_T2.
Qed.

Lemma k_kill_spec t s w :
  exists r w', k_kill t s w = (Some r, w') /\ same_core w w' /\
               exists res, out w' = EKill t s res :: out w /\ (r = 2 <-> res = 2).
Proof.
  unfold k_kill, bind, getw, modw, emit, ret, mem_z.
  destruct (pop (killq w) 0) as [o kq]. cbn.
  destruct (o =? 2) eqn:E2; cbn.
  { eexists; eexists; split; [reflexivity|]. split; [constructor; reflexivity|]. exists 2. split; [reflexivity | tauto]. }
  destruct (o =? 3) eqn:E3; cbn.
  { eexists; eexists; split; [reflexivity|]. split; [constructor; reflexivity|]. exists 1. split; [reflexivity | split; discriminate]. }
  destruct (existsb (fun y : Z => y =? Z.abs t) (live w)) eqn:El; cbn.
  { destruct ((o =? 1) && negb (s =? 9)) eqn:Ei; cbn.
    - eexists; eexists; split; [reflexivity|]. split; [constructor; reflexivity|]. exists 0. split; [reflexivity | split; discriminate].
    - eexists; eexists; split; [reflexivity|]. split; [constructor; reflexivity|]. exists 0. split; [reflexivity | split; discriminate]. }
  destruct (existsb (fun z : Z * Z => fst z =? Z.abs t) (zombies w)) eqn:Ez; cbn.
  - eexists; eexists; split; [reflexivity|]. split; [constructor; reflexivity|]. exists 0. split; [reflexivity | split; discriminate].
  - eexists; eexists; split; [reflexivity|]. split; [constructor; reflexivity|]. exists 1. split; [reflexivity | split; discriminate].
Qed.

Opaque Model.k_kill.

Definition others_same (i : nat) (w w' : world) : Prop :=
  (forall j, j <> i -> sts w' j = sts w j /\ procs w' j = procs w j)
  /\ pidhist w' = pidhist w /\ nextpid w' = nextpid w /\ mood w' = mood w /\ now w' = now w
  /\ stopping w' = stopping w /\ stop_groups w' = stop_groups w /\ exited w' = exited w.

Lemma trace_ok_nonstate e o :
  match e with EState _ _ _ _ _ => False | _ => True end -> trace_ok o -> trace_ok (e :: o).
Proof. destruct e; cbn; tauto. Qed.
Lemma last_state_nonstate e o j :
  match e with EState _ _ _ _ _ => False | _ => True end -> last_state (e :: o) j = last_state o j.
Proof. destruct e; cbn; tauto. Qed.

(* ---------- kill *)
Definition killable (s : pstate) : bool :=
  match s with RUNNING | STARTING | STOPPING | BACKOFF => true | _ => false end.

Ltac others_solve := unfold others_same; cbn; repeat split; intros; try upd_solve.

Lemma kill_ok i sig w :
  Inv w -> (killable (sts w i) = true \/ pid (procs w i) = 0) ->
  exists b w', kill i sig w = (Some b, w') /\ Inv w' /\ others_same i w w'
               /\ (sts w i = BACKOFF -> sts w' i = STOPPED)
               /\ (sts w' i = STOPPING \/ sts w' i = UNKNOWN \/ sts w' i = STOPPED \/ sts w' i = sts w i).
Proof.
  intros I Hpre.
  unfold Model.kill, bind, getw, getp, gets. cbn.
  destruct (pstate_eqb (sts w i) BACKOFF) eqn:Eb.
  { apply pstate_eqb_eq in Eb. unfold Model.change_state, bind, gets, getw, getp, setp, modw, emit, ret. mrun.
    eexists; eexists; split; [reflexivity|].
    split; [|split; [others_solve | split; [intros _; upd_solve | right; right; left; upd_solve]]].
    touch I i STOPPED; try fin I.
    - pose proof (i_J1b w I i) as K. rewrite Eb in K. intros Hk. destruct (K Hk); discriminate.
    - intros _. apply (i_J2b w I i). rewrite Eb. reflexivity. }
  destruct (pid (procs w i) =? 0) eqn:Ep; cbn.
  { eexists; eexists; split; [reflexivity|]. split; [exact I|]. split; [others_solve|].
    split; [intros Hb; rewrite Hb in Eb; discriminate | right; right; right; reflexivity]. }
  apply Z.eqb_neq in Ep. destruct Hpre as [Hk | Hz]; [|contradiction].
  apply pstate_eqb_neq in Eb.
  unfold setp, modw, assert_in, bind, gets, ret. cbn.
  destruct (sts w i) eqn:Hs; try discriminate Hk; try (exfalso; apply Eb; reflexivity); cbn.
  all: unfold Model.change_state, bind, gets, getw, getp, setp, modw, emit, ret; cbn; rewrite ?Hs; cbn.
  all: rewrite ?upd_same.
  all: match goal with
       | |- context [k_kill ?t ?s ?w1] =>
         set (W1 := w1);
         assert (I1 : Inv W1);
         [ subst W1; touch I i STOPPING; try fin I
         | destruct (k_kill_spec t s W1) as (r & w2 & E & SC & res & Eo & Er); rewrite E; clear E;
           assert (I2 : Inv w2);
           [ apply (Inv_same W1 w2 I1 (sc_sts _ _ SC) (sc_procs _ _ SC) (sc_hist _ _ SC));
             [ rewrite (sc_np _ _ SC); lia
             | rewrite (sc_crashed _ _ SC); apply (i_nocrash _ I1)
             | rewrite Eo; apply trace_ok_nonstate; [exact Logic.I | apply (i_T1 _ I1)]
             | intros j; rewrite Eo; apply last_state_nonstate; exact Logic.I ]
           | ] ]
       end.
  all: destruct (r =? 2) eqn:Er2; cbn.
  all: rewrite ?(sc_sts _ _ SC); unfold W1; cbn; rewrite ?Hs, ?upd_same; cbn.
  all: eexists; eexists; (split; [reflexivity|]).
  all: assert (Hsts2 : sts w2 i = STOPPING) by (rewrite (sc_sts _ _ SC); subst W1; cbn; rewrite ?Hs; upd_solve).
  all: assert (Hoth : others_same i w w2)
    by (unfold others_same; rewrite (sc_sts _ _ SC), (sc_procs _ _ SC), (sc_hist _ _ SC), (sc_np _ _ SC),
          (sc_mood _ _ SC), (sc_now _ _ SC), (sc_stopping _ _ SC), (sc_sg _ _ SC), (sc_exited _ _ SC);
        subst W1; cbn; repeat split; intros; upd_solve).
  all: try (split; [exact I2 | split; [exact Hoth | split; [intros; discriminate | left; exact Hsts2]]]).
  all: split; [ | split; [ | split; [intros; discriminate | right; left; upd_solve]]].
  all: try (touch I2 i UNKNOWN; try fin I2).
  all: try (split; [rewrite (i_T2 _ I2); symmetry; exact Hsts2 |
                    split; [discriminate |
                    split; [right; split; [reflexivity | split; [reflexivity |
                              rewrite Eo; assert (res = 2) by (apply Er; lia); subst res; reflexivity]]
                           | apply (i_T1 _ I2)]]]).
  all: destruct Hoth as (Ho1 & Ho2 & Ho3 & Ho4 & Ho5 & Ho6 & Ho7 & Ho8).
  all: unfold others_same; cbn; repeat split; try assumption.
  all: intros; match goal with Hj : ?j <> ?k |- _ => destruct (Ho1 j Hj) as [Ha Hb] end; unfold upd;
       repeat match goal with |- context [Nat.eqb ?a ?b] => destruct (Nat.eqb_spec a b) end; try contradiction; try assumption.
Qed.

(* ==== WIP ==== *)
(* ---------- spawn *)
Definition spawnable (s : pstate) : bool :=
  match s with EXITED | FATAL | BACKOFF | STOPPED => true | _ => false end.

Definition frame_proc (i : nat) (w w' : world) : Prop :=
  (forall j, j <> i -> sts w' j = sts w j /\ procs w' j = procs w j)
  /\ mood w' = mood w /\ now w' = now w
  /\ stopping w' = stopping w /\ stop_groups w' = stop_groups w /\ exited w' = exited w.

Lemma others_frame i w w' : others_same i w w' -> frame_proc i w w'.
Proof. intros (a & b & c & d & e & f & g & h). repeat split; try assumption; apply a; assumption. Qed.

Ltac usimp := repeat (progress (rewrite ?upd_same; cbn; autorewrite with procdb)).

Ltac frame_solve := unfold frame_proc; cbn; repeat split; intros; try upd_solve.

Lemma spawn_ok i w :
  Inv w -> (pid (procs w i) <> 0 \/ spawnable (sts w i) = true) ->
  exists w', spawn i w = (Some tt, w') /\ Inv w' /\ frame_proc i w w'
             /\ (pid (procs w i) <> 0 -> w' = w)
             /\ (pid (procs w i) = 0 ->
                 sts w' i = BACKOFF \/ (sts w' i = STARTING /\ backoff (procs w' i) = backoff (procs w i)
                                         /\ pid (procs w' i) <> 0)).
Proof.
  intros I Hpre.
  unfold Model.spawn, bind, getw, getp, gets. cbn.
  destruct (pid (procs w i) =? 0) eqn:Ep; cbn.
  2:{ exists w. split; [reflexivity|]. split; [exact I|]. split; [frame_solve|]. split; [reflexivity | lia]. }
  assert (Ep0 : pid (procs w i) = 0) by lia.
  destruct Hpre as [Hc | Hsp]; [contradiction|].
  unfold setp, modw, assert_in, bind, gets, ret. cbn.
  destruct (sts w i) eqn:Hs; try discriminate Hsp; cbn.
  all: unfold Model.change_state, bind, gets, getw, getp, setp, modw, emit, ret; cbn; rewrite ?Hs; cbn; rewrite ?upd_same; cbn.
  all: destruct (c_cmd (cf i)) eqn:Ec; cbn.
  all: unfold modp, bind, getp, setp, modw, emit, assert_in, gets, ret; cbn; rewrite ?upd_same; cbn.
  all: try (destruct (pop (forkq w) 0) as [o fq]; cbn;
            destruct ((o =? 1) || (o =? 2)) eqn:E12; cbn; [| destruct ((o =? 3) || (o =? 4)) eqn:E34; cbn]).
  1: rewrite ?upd_same. 1: cbn. 1: autorewrite with procdb. 1: rewrite ?upd_same. 1: cbn. 1: autorewrite with procdb. Show.
Admitted.

End WithConfig.
