(* C01 core: for every configuration, script and oracle, the notification
   trace of the lifecycle model is well formed (TI): each PROCESS_STATE
   notification names the state left, which is the state reported before it;
   the change is an edge of the documented graph, or enters UNKNOWN right after
   a signal-delivery failure other than ESRCH; and replaying the notifications
   gives exactly the state every process is reported in.  Holds in every
   reachable world, crashed or not.

   Proof: change_state is the only writer of the state map and the only
   emitter of EState; every call site sits behind an assertion (or an
   equivalent guard) on the state left.  The invariant is closed under every
   monadic combinator, so each model function preserves it. *)
From Coq Require Import ZArith List Bool Lia Arith.
Import ListNotations.
Require Import SV.Life.Model SV.Life.Inv.
Open Scope Z_scope.

Local Arguments Model.change_state : simpl never.

Section WithConfig.
Variable U : Z.
Variable pconfs : list pconf.
Variable gconfs : list gconf.

Definition TI (w : world) : Prop :=
  trace_ok (out w) /\ forall i, last_state (out w) i = sts w i.

Definition pres {A} (m : Model.M A) : Prop := forall w, TI w -> TI (snd (m w)).

Lemma pres_ret {A} (a : A) : pres (ret a).
Proof. intros w H. exact H. Qed.

Lemma pres_bind {A B} (m : Model.M A) (f : A -> Model.M B) :
  pres m -> (forall a, pres (f a)) -> pres (bind m f).
Proof.
  intros Hm Hf w H. unfold bind. specialize (Hm w H). destruct (m w) as [[a|] w1]; cbn in *.
  - apply Hf. exact Hm.
  - exact Hm.
Qed.

(* reads: the continuation may use what was read *)
Lemma pres_getw {B} (f : world -> Model.M B) : (forall w0, pres (f w0)) -> pres (bind getw f).
Proof. intros Hf w H. unfold bind, getw. apply Hf. exact H. Qed.
Lemma pres_gets {B} i (f : pstate -> Model.M B) : (forall s, pres (f s)) -> pres (bind (gets i) f).
Proof. intros Hf w H. unfold bind, gets. apply Hf. exact H. Qed.
Lemma pres_getp {B} i (f : proc -> Model.M B) : (forall p, pres (f p)) -> pres (bind (getp i) f).
Proof. intros Hf w H. unfold bind, getp. apply Hf. exact H. Qed.

Lemma pres_modw (g : world -> world) :
  (forall w, sts (g w) = sts w /\ out (g w) = out w) -> pres (modw g).
Proof.
  intros Hg w [H1 H2]. unfold modw. cbn. destruct (Hg w) as [Es Eo]. split.
  - rewrite Eo. exact H1.
  - intros i. rewrite Eo, Es. apply H2.
Qed.

Lemma pres_setp i p : pres (setp i p).
Proof. apply pres_modw. intros w. split; reflexivity. Qed.

Lemma pres_modp i f : pres (modp i f).
Proof. unfold modp. apply pres_getp. intros p. apply pres_setp. Qed.

Definition nonstate (e : effect) : Prop := match e with EState _ _ _ _ _ => False | _ => True end.

Lemma pres_emit e : nonstate e -> pres (emit e).
Proof.
  intros He w [H1 H2]. unfold emit. cbn. split.
  - destruct e; cbn; try exact H1. destruct He.
  - intros i. destruct e; cbn; try apply H2. destruct He.
Qed.

Lemma pres_crash {A} site : pres (@crash A site).
Proof. intros w [H1 H2]. unfold crash. cbn. split; [exact H1 | exact H2]. Qed.

Lemma pres_assert i site ok : pres (assert_in i site ok).
Proof. unfold assert_in. apply pres_gets. intros s. destruct (ok s); [apply pres_ret | apply pres_crash]. Qed.

(* the one real step: a guarded state change *)
Lemma TI_change i new e w :
  TI w -> (sts w i = new \/ edge (sts w i) new = true \/ (new = UNKNOWN /\ failed_kill_first (out w) = true)) ->
  TI (snd (Model.change_state U i new e w)).
Proof.
  intros [H1 H2] Hedge. unfold Model.change_state, bind, gets, getw, getp, setp, modw, emit. cbn.
  destruct (pstate_eqb new (sts w i)) eqn:E; cbn.
  - split; assumption.
  - apply pstate_eqb_neq in E. split.
    + cbn. split; [symmetry; apply H2|]. split; [congruence|]. split; [|exact H1].
      destruct Hedge as [Hn | [He | Hu]]; [congruence | left; exact He | right; exact Hu].
    + intros j. cbn. unfold upd. destruct (Nat.eqb_spec i j) as [Ej|Ej].
      * subst j. rewrite Nat.eqb_refl. reflexivity.
      * destruct (Nat.eqb_spec j i); [congruence | apply H2].
Qed.

Lemma pres_move i site ok f new e :
  (forall s, ok s = true -> s = new \/ edge s new = true) -> pres (Model.move U i site ok f new e).
Proof.
  intros Hok w H. unfold Model.move, assert_in, modp, bind, gets, getp, setp, modw. cbn.
  destruct (ok (sts w i)) eqn:Eo; cbn.
  - apply (TI_change i new e (set_procs (upd (procs w) i (f (procs w i))) w)).
    + destruct H as [H1 H2]. split; [exact H1 | exact H2].
    + cbn. destruct (Hok _ Eo) as [Hs | He]; [left; exact Hs | right; left; exact He].
  - apply (@pres_crash unit site w H).
Qed.

Lemma pres_kill_mark i target sig : pres (Model.kill_mark U i target sig).
Proof.
  intros w H. unfold Model.kill_mark, k_kill, bind, getw, modw, emit, ret.
  destruct (pop (killq w) 0) as [o kq]. cbn.
  assert (Hemit : forall res w1, sts w1 = sts w -> out w1 = out w ->
            TI (set_out (EKill target sig res :: out w1) w1)).
  { intros res w1 Es Eo. destruct H as [H1 H2]. split; cbn; rewrite Eo; [exact H1 | intros j; rewrite Es; apply H2]. }
  destruct (o =? 2) eqn:E2; cbn.
  { pose proof (TI_change i UNKNOWN true (set_out (EKill target sig 2 :: out w) (set_killq kq w))) as HC.
    destruct (Model.change_state U i UNKNOWN true (set_out (EKill target sig 2 :: out w) (set_killq kq w)))
      as [[u|] w'] eqn:Ecs; cbn in *; apply HC;
      try (apply (Hemit 2 (set_killq kq w)); reflexivity); right; right; split; reflexivity. }
  repeat (match goal with |- context [if ?c then _ else _] => destruct c eqn:?; cbn end);
    match goal with |- TI (set_out _ ?w1) => apply (Hemit _ w1); reflexivity end.
Qed.

Lemma pres_mapM {A} (f : A -> Model.M unit) (l : list A) : (forall x, pres (f x)) -> pres (mapM_ f l).
Proof.
  intros Hf. induction l as [|x l IH]; cbn; [apply pres_ret | apply pres_bind; [apply Hf | intros _; exact IH]].
Qed.

Lemma pres_set_exited : pres (modw set_exited).
Proof. intros w [H1 H2]. unfold modw. cbn. split; [exact H1 | exact H2]. Qed.

Ltac edge_side :=
  let s := fresh "s" in intros s; destruct s; cbn; intros; try discriminate; auto.

Ltac ptac :=
  repeat match goal with
    | |- pres (ret _) => apply pres_ret
    | |- pres (bind getw _) => apply pres_getw; intros ?w0
    | |- pres (bind (gets _) _) => apply pres_gets; intros ?s
    | |- pres (bind (getp _) _) => apply pres_getp; intros ?p
    | |- pres (setp _ _) => apply pres_setp
    | |- pres (modp _ _) => apply pres_modp
    | |- pres (assert_in _ _ _) => apply pres_assert
    | |- pres (crash _) => apply pres_crash
    | |- pres (Model.kill_mark _ _ _ _) => apply pres_kill_mark
    | |- pres (emit _) => apply pres_emit; exact Logic.I
    | |- pres (modw set_exited) => apply pres_set_exited
    | |- pres (modw _) => apply pres_modw; intros; repeat match goal with |- context [if ?c then _ else _] => destruct c end; split; reflexivity
    | |- pres (Model.move _ _ _ _ _ _ _) => apply pres_move; edge_side
    | |- pres (mapM_ _ _) => apply pres_mapM; intros
    | |- pres (if ?c then _ else _) => destruct c
    | |- pres (match ?x with _ => _ end) => destruct x
    | |- pres (bind _ _) => apply pres_bind; [ | intros ? ]
    | |- pres _ => solve [eauto with presdb]
    end.

Notation spawn := (Model.spawn U pconfs).
Notation transition := (Model.transition U pconfs).
Notation finish := (Model.finish U pconfs).
Notation kill := (Model.kill U pconfs).

Lemma pres_spawn i : pres (spawn i).
Proof. unfold Model.spawn. ptac. Qed.
Hint Resolve pres_spawn : presdb.

Lemma pres_rollback i t : pres (Model.rollback_adjust U pconfs i t).
Proof. unfold Model.rollback_adjust. ptac. Qed.
Hint Resolve pres_rollback : presdb.

Lemma pres_give_up i : pres (Model.give_up U i).
Proof. unfold Model.give_up. ptac. Qed.
Hint Resolve pres_give_up : presdb.

Lemma pres_kill i sig : pres (kill i sig).
Proof. unfold Model.kill. ptac. Qed.
Hint Resolve pres_kill : presdb.

Lemma pres_stop i : pres (Model.stop U pconfs i).
Proof. unfold Model.stop. ptac. Qed.
Hint Resolve pres_stop : presdb.

Lemma pres_signal i sig : pres (Model.signal U i sig).
Proof. unfold Model.signal. ptac. Qed.
Hint Resolve pres_signal : presdb.

Lemma pres_finish i sts0 : pres (finish i sts0).
Proof. unfold Model.finish. ptac. Qed.
Hint Resolve pres_finish : presdb.

Lemma pres_transition i : pres (transition i).
Proof. unfold Model.transition. ptac. Qed.
Hint Resolve pres_transition : presdb.

Lemma pres_reap fuel : pres (Model.reap U pconfs fuel).
Proof. induction fuel as [|f IH]; cbn; ptac. Qed.
Hint Resolve pres_reap : presdb.

Lemma pres_stop_all g : pres (Model.stop_all U pconfs gconfs g).
Proof. unfold Model.stop_all. ptac. Qed.
Hint Resolve pres_stop_all : presdb.

Lemma pres_handle_signal : pres handle_signal.
Proof. unfold handle_signal. ptac. Qed.
Hint Resolve pres_handle_signal : presdb.

Lemma pres_start_process i wait : pres (Model.start_process U pconfs i wait).
Proof. unfold Model.start_process, reap_all. ptac. Qed.
Lemma pres_start_onwait i : pres (start_onwait i).
Proof. unfold start_onwait. ptac. Qed.
Lemma pres_stop_process i wait : pres (Model.stop_process U pconfs i wait).
Proof. unfold Model.stop_process, reap_all. ptac. Qed.
Lemma pres_stop_onwait i : pres (Model.stop_onwait U pconfs i).
Proof. unfold Model.stop_onwait. ptac. Qed.
Lemma pres_signal_process i sig ok : pres (Model.signal_process U pconfs i sig ok).
Proof. unfold Model.signal_process. ptac. Qed.
Hint Resolve pres_start_process pres_start_onwait pres_stop_process pres_stop_onwait pres_signal_process : presdb.

Lemma pres_call_one k wait i : pres (Model.call_one U pconfs k wait i).
Proof. destruct k; cbn; ptac. Qed.
Lemma pres_poll_one k i : pres (Model.poll_one U pconfs k i).
Proof. destruct k; cbn; ptac. Qed.
Hint Resolve pres_call_one pres_poll_one : presdb.

Lemma pres_all_first k wait l : forall cbs res, pres (Model.all_first U pconfs k wait l cbs res).
Proof. induction l as [|x l IH]; intros; cbn; ptac. Qed.
Lemma pres_all_poll k l : forall cbs res, pres (Model.all_poll U pconfs k l cbs res).
Proof. induction l as [|x l IH]; intros; cbn; ptac. Qed.
Hint Resolve pres_all_first pres_all_poll : presdb.

Lemma pres_poll_deferred d : pres (Model.poll_deferred U pconfs d).
Proof. destruct d; cbn; ptac. Qed.
Hint Resolve pres_poll_deferred : presdb.

Lemma pres_poll_pending l : forall keep, pres (Model.poll_pending U pconfs l keep).
Proof. induction l as [|x l IH]; intros; cbn; ptac. Qed.
Hint Resolve pres_poll_pending : presdb.

Lemma pres_defer_now d : pres (Model.defer_now U pconfs d).
Proof. unfold Model.defer_now, add_pending. ptac. Qed.
Hint Resolve pres_defer_now : presdb.

Lemma pres_do_rpc req r : pres (Model.do_rpc U pconfs gconfs req r).
Proof. unfold Model.do_rpc. destruct r; ptac. Qed.
Hint Resolve pres_do_rpc : presdb.

Lemma pres_child_dies k sts0 : pres (child_dies k sts0).
Proof. unfold child_dies. ptac. Qed.
Hint Resolve pres_child_dies : presdb.

Lemma pres_do_act a : pres (Model.do_act U pconfs gconfs a).
Proof. destruct a; cbn; ptac. Qed.
Hint Resolve pres_do_act : presdb.

Lemma pres_loop_head : pres (Model.loop_head U pconfs gconfs).
Proof. unfold Model.loop_head. ptac. Qed.
Lemma pres_phase2 : pres (Model.phase2 gconfs).
Proof. unfold Model.phase2. ptac. Qed.
Hint Resolve pres_loop_head pres_phase2 : presdb.

Lemma pres_do_pass o : pres (Model.do_pass U pconfs gconfs o).
Proof. unfold Model.do_pass, transition_group, reap_all. ptac. Qed.

Lemma TI_world0 : TI world0.
Proof. split; cbn; [exact Logic.I | reflexivity]. Qed.

Lemma TI_step w o : TI w -> TI (Model.step U pconfs gconfs w o).
Proof. intros H. unfold Model.step. destruct (crashed w || exited w); [exact H | apply pres_do_pass; exact H]. Qed.

Theorem TI_run ops : TI (Model.run U pconfs gconfs ops).
Proof.
  unfold Model.run. generalize TI_world0. generalize world0.
  induction ops as [|o ops IH]; intros w H; cbn; [exact H | apply IH; apply TI_step; exact H].
Qed.

End WithConfig.
