(* Theorems about the poller model (supervisor/poller.py), for every state, operation list and kernel answer. *)
From Coq Require Import ZArith List Bool Lia.
Import ListNotations.
Require Import SV.Life.Poller.
Open Scope Z_scope.

(* ---- sets and registry *)
Lemma mem_add x y l : mem x (add y l) = (x =? y) || mem x l.
Proof.
  unfold add. destruct (mem y l) eqn:E; [|reflexivity].
  destruct (x =? y) eqn:Exy; [|reflexivity]. apply Z.eqb_eq in Exy. subst. rewrite E. reflexivity.
Qed.
Lemma mem_del x y l : mem x (del y l) = negb (x =? y) && mem x l.
Proof.
  induction l as [|z l IH]; cbn; [destruct (x =? y); reflexivity|].
  destruct (y =? z) eqn:Eyz.
  - apply Z.eqb_eq in Eyz. subst z. rewrite IH. destruct (x =? y); reflexivity.
  - cbn. rewrite IH. destruct (x =? z) eqn:Exz; [|reflexivity].
    apply Z.eqb_eq in Exz. subst z. cbn. rewrite Z.eqb_sym, Eyz. reflexivity.
Qed.
Lemma kget_kdel x y g : kget x (kdel y g) = if x =? y then None else kget x g.
Proof.
  induction g as [|[f m] g IH]; cbn; [destruct (x =? y); reflexivity|].
  destruct (y =? f) eqn:Eyf.
  - apply Z.eqb_eq in Eyf. subst f. rewrite IH. destruct (x =? y); reflexivity.
  - cbn. rewrite IH. destruct (x =? f) eqn:Exf; [|reflexivity].
    apply Z.eqb_eq in Exf. subst f. rewrite Z.eqb_sym, Eyf. reflexivity.
Qed.
Lemma kget_kset x y m g : kget x (kset y m g) = if x =? y then Some m else kget x g.
Proof. unfold kset. cbn. rewrite kget_kdel. destruct (x =? y); reflexivity. Qed.

Arguments kset : simpl never.
Arguments kdel : simpl never.
Arguments kget : simpl never.
Arguments add : simpl never.
Arguments del : simpl never.
Arguments mem : simpl never.
Arguments has : simpl never.

Definition registered (fd : Z) (s : pst) : bool := match kget fd (reg s) with Some _ => true | None => false end.

(* the poll object's registry and the two Python sets agree: a descriptor is registered with the kernel
   object iff it is in readables or writables *)
Definition Sync (s : pst) : Prop := forall fd, registered fd s = mem fd (rs s) || mem fd (ws s).

Lemma Sync_p0 : Sync p0.
Proof. intros fd. reflexivity. Qed.

Lemma registered_kset fd x m s r w : registered fd (mkP (kset x m (reg s)) r w) = (fd =? x) || registered fd s.
Proof. unfold registered. cbn [reg]. rewrite kget_kset. destruct (fd =? x); reflexivity. Qed.
Lemma registered_kdel fd x s r w : registered fd (mkP (kdel x (reg s)) r w) = negb (fd =? x) && registered fd s.
Proof. unfold registered. cbn [reg]. rewrite kget_kdel. destruct (fd =? x); reflexivity. Qed.

Lemma poll_events_sync l : forall s r w, Sync s -> Sync (fst (fst (fst (poll_events l s r w)))).
Proof.
  induction l as [|[fd m] l IH]; intros s r w H; cbn [poll_events]; [exact H|].
  destruct (has m POLLNVAL).
  - destruct (kget fd (reg s)) eqn:E; [|exact H]. apply IH.
    intros x. unfold registered. cbn [reg rs ws]. rewrite kget_kdel, !mem_del.
    pose proof (H x) as Hx. unfold registered in Hx. destruct (x =? fd); [reflexivity | exact Hx].
  - apply IH. exact H.
Qed.

Ltac sync_norm H x :=
  unfold registered; cbn [reg rs ws fst];
  rewrite ?kget_kset, ?kget_kdel, ?mem_add, ?mem_del;
  pose proof (H x) as Hx; unfold registered in Hx.

Theorem poll_step_sync s o : Sync s -> Sync (fst (poll_step s o)).
Proof.
  intros H. destruct o as [fd|fd|fd|fd|[e|l|r w]]; cbn [poll_step].
  - intros x. sync_norm H x. destruct (x =? fd); [reflexivity | exact Hx].
  - intros x. sync_norm H x. destruct (x =? fd); [rewrite orb_true_r; reflexivity | exact Hx].
  - destruct (kget fd (reg s)) eqn:E.
    + intros x. destruct (mem fd (ws s)) eqn:Ew; sync_norm H x;
        (destruct (x =? fd) eqn:Ex; cbn [negb andb orb]; [apply Z.eqb_eq in Ex; subst x; rewrite ?Ew; reflexivity | exact Hx]).
    + intros x. sync_norm H x. destruct (x =? fd) eqn:Ex; cbn [negb andb orb]; [|exact Hx].
      apply Z.eqb_eq in Ex. subst x. rewrite E in Hx. symmetry in Hx. apply orb_false_iff in Hx. destruct Hx as [_ Hw].
      rewrite E, Hw. reflexivity.
  - destruct (kget fd (reg s)) eqn:E.
    + intros x. destruct (mem fd (rs s)) eqn:Er; sync_norm H x;
        (destruct (x =? fd) eqn:Ex; cbn [negb andb orb]; [apply Z.eqb_eq in Ex; subst x; rewrite ?Er, ?orb_false_r; reflexivity | exact Hx]).
    + intros x. sync_norm H x. destruct (x =? fd) eqn:Ex; cbn [negb andb orb]; [|exact Hx].
      apply Z.eqb_eq in Ex. subst x. rewrite E in Hx. symmetry in Hx. apply orb_false_iff in Hx. destruct Hx as [Hr _].
      rewrite E, Hr. reflexivity.
  - destruct (e =? EINTR); exact H.
  - pose proof (poll_events_sync l s [] [] H) as HS.
    destruct (poll_events l s [] []) as [[[s' r] w] ok]. cbn [fst] in HS. destruct ok; exact HS.
  - exact H.
Qed.

Theorem run_sync ops : Sync (fst (runp poll_step p0 ops)).
Proof.
  assert (G : forall s, Sync s -> Sync (fst (runp poll_step s ops))).
  { induction ops as [|o ops IH]; intros s H; cbn; [exact H|].
    pose proof (poll_step_sync s o H) as H1. destruct (poll_step s o) as [s1 a]. cbn in H1.
    specialize (IH s1 H1). destruct (runp poll_step s1 ops) as [s2 l]. exact IH. }
  apply G. exact Sync_p0.
Qed.

(* ---- an interrupted readiness call is not an error *)
Theorem poll_eintr s : poll_step s (Poll (KErr EINTR)) = (s, OReady [] []).
Proof. reflexivity. Qed.
Theorem select_eintr s : select_step s (Poll (KErr EINTR)) = (s, OReady [] []).
Proof. reflexivity. Qed.
(* select() complaining about a closed descriptor: every descriptor is forgotten (the loop registers the
   live ones again on its next pass) *)
Theorem select_ebadf s : select_step s (Poll (KErr EBADF)) = (mkP (reg s) [] [], OReady [] []).
Proof. reflexivity. Qed.

(* ---- the answer of poll(): soundness, and invalid descriptors are dropped *)
Lemma poll_events_sound l : forall s r w s' r' w' ok,
  poll_events l s r w = (s', r', w', ok) ->
  (forall fd, In fd r' -> In fd r \/ exists m, In (fd, m) l /\ has m READ = true /\ has m POLLNVAL = false) /\
  (forall fd, In fd w' -> In fd w \/ exists m, In (fd, m) l /\ has m WRITE = true /\ has m POLLNVAL = false).
Proof.
  induction l as [|[fd m] l IH]; intros s r w s' r' w' ok E; cbn in E.
  - inversion E; subst. split; intros; left; assumption.
  - destruct (has m POLLNVAL) eqn:En.
    + destruct (kget fd (reg s)).
      * destruct (IH _ _ _ _ _ _ _ E) as [H1 H2]. split; intros x Hx.
        -- destruct (H1 x Hx) as [|(m' & Hin & Hr)]; [left; assumption | right; exists m'; split; [right; exact Hin | exact Hr]].
        -- destruct (H2 x Hx) as [|(m' & Hin & Hr)]; [left; assumption | right; exists m'; split; [right; exact Hin | exact Hr]].
      * inversion E; subst. split; intros; left; assumption.
    + destruct (IH _ _ _ _ _ _ _ E) as [H1 H2]. split; intros x Hx.
      * destruct (H1 x Hx) as [Hx'|(m' & Hin & Hr)].
        -- destruct (has m READ) eqn:Er; [|left; exact Hx'].
           apply in_app_or in Hx'. destruct Hx' as [|[->|[]]]; [left; assumption|].
           right. exists m. split; [left; reflexivity | split; assumption].
        -- right. exists m'. split; [right; exact Hin | exact Hr].
      * destruct (H2 x Hx) as [Hx'|(m' & Hin & Hr)].
        -- destruct (has m WRITE) eqn:Er; [|left; exact Hx'].
           apply in_app_or in Hx'. destruct Hx' as [|[->|[]]]; [left; assumption|].
           right. exists m. split; [left; reflexivity | split; assumption].
        -- right. exists m'. split; [right; exact Hin | exact Hr].
Qed.

(* every descriptor poll() returns was reported by the kernel with a matching event and not as invalid *)
Theorem poll_sound s l s' r w :
  poll_step s (Poll (KEvents l)) = (s', OReady r w) ->
  (forall fd, In fd r -> exists m, In (fd, m) l /\ has m READ = true /\ has m POLLNVAL = false) /\
  (forall fd, In fd w -> exists m, In (fd, m) l /\ has m WRITE = true /\ has m POLLNVAL = false).
Proof.
  cbn. destruct (poll_events l s [] []) as [[[s1 r1] w1] ok] eqn:E. destruct ok; [|discriminate].
  intros H. inversion H; subst. destruct (poll_events_sound _ _ _ _ _ _ _ _ E) as [H1 H2].
  split; intros fd Hfd; [destruct (H1 fd Hfd) as [[]|]| destruct (H2 fd Hfd) as [[]|]]; assumption.
Qed.

Lemma poll_events_mono l : forall s r w s' r' w' ok x,
  poll_events l s r w = (s', r', w', ok) ->
  (registered x s = false -> registered x s' = false) /\
  (mem x (rs s) = false -> mem x (rs s') = false) /\ (mem x (ws s) = false -> mem x (ws s') = false).
Proof.
  induction l as [|[fd m] l IH]; intros s r w s' r' w' ok x E; cbn in E.
  - inversion E; subst. auto.
  - destruct (has m POLLNVAL).
    + destruct (kget fd (reg s)) eqn:Ek.
      * destruct (IH _ _ _ _ _ _ _ x E) as (A & B & C). split; [|split]; intros H.
        -- apply A. rewrite registered_kdel, H. apply andb_false_r.
        -- apply B. cbn. rewrite mem_del, H. apply andb_false_r.
        -- apply C. cbn. rewrite mem_del, H. apply andb_false_r.
      * inversion E; subst. auto.
    + exact (IH _ _ _ _ _ _ _ x E).
Qed.

Lemma poll_events_drops l : forall s r w s' r' w',
  poll_events l s r w = (s', r', w', true) ->
  forall fd m, In (fd, m) l -> has m POLLNVAL = true ->
    registered fd s' = false /\ mem fd (rs s') = false /\ mem fd (ws s') = false.
Proof.
  induction l as [|[f m0] l IH]; intros s r w s' r' w' E fd m Hin Hn; [destruct Hin|].
  cbn in E. destruct Hin as [Heq|Hin].
  - inversion Heq; subst f m0. rewrite Hn in E. destruct (kget fd (reg s)) eqn:Ek; [|inversion E].
    destruct (poll_events_mono _ _ _ _ _ _ _ _ fd E) as (A & B & C). split; [|split].
    + apply A. rewrite registered_kdel, Z.eqb_refl. reflexivity.
    + apply B. cbn. rewrite mem_del, Z.eqb_refl. reflexivity.
    + apply C. cbn. rewrite mem_del, Z.eqb_refl. reflexivity.
  - destruct (has m0 POLLNVAL).
    + destruct (kget f (reg s)); [|inversion E]. exact (IH _ _ _ _ _ _ E fd m Hin Hn).
    + exact (IH _ _ _ _ _ _ E fd m Hin Hn).
Qed.

(* a descriptor the kernel reports as invalid (POLLNVAL) is forgotten: not registered, not in either set *)
Theorem poll_drops_invalid s l s' r w fd m :
  poll_step s (Poll (KEvents l)) = (s', OReady r w) -> In (fd, m) l -> has m POLLNVAL = true ->
  registered fd s' = false /\ mem fd (rs s') = false /\ mem fd (ws s') = false.
Proof.
  cbn. destruct (poll_events l s [] []) as [[[s1 r1] w1] ok] eqn:E. destruct ok; [|discriminate].
  intros H. inversion H; subst. exact (poll_events_drops _ _ _ _ _ _ _ E fd m).
Qed.

(* poll() raises only when the kernel answers with an errno other than EINTR, or reports as invalid a
   descriptor that is not registered (which a kernel never does) *)
Lemma poll_events_ok l : forall s r w,
  NoDup (map fst l) -> (forall fd m, In (fd, m) l -> registered fd s = true) ->
  snd (poll_events l s r w) = true.
Proof.
  induction l as [|[fd m] l IH]; intros s r w Hnd Hreg; cbn; [reflexivity|].
  inversion Hnd as [|? ? Hni Hnd']; subst.
  destruct (has m POLLNVAL).
  - pose proof (Hreg fd m (or_introl eq_refl)) as Hr. unfold registered in Hr.
    destruct (kget fd (reg s)) eqn:Ek; [|discriminate]. apply IH; [exact Hnd'|].
    intros f m' Hin. rewrite registered_kdel. rewrite (Hreg f m' (or_intror Hin)).
    destruct (f =? fd) eqn:Ef; [|reflexivity]. apply Z.eqb_eq in Ef. subst f. exfalso. apply Hni.
    apply in_map_iff. exists (fd, m'). split; [reflexivity | exact Hin].
  - apply IH; [exact Hnd'|]. intros f m' Hin. apply (Hreg f m'). right. exact Hin.
Qed.

Theorem poll_total s l :
  NoDup (map fst l) -> (forall fd m, In (fd, m) l -> registered fd s = true) ->
  exists s' r w, poll_step s (Poll (KEvents l)) = (s', OReady r w).
Proof.
  intros Hnd Hreg. cbn. pose proof (poll_events_ok l s [] [] Hnd Hreg) as H.
  destruct (poll_events l s [] []) as [[[s1 r1] w1] ok]. cbn in H. subst ok. eexists _, _, _. reflexivity.
Qed.

(* with the registry in step with the sets (every reachable state, run_sync), unregistering a descriptor
   that is in one of the sets never raises *)
Theorem unregister_known_ok s fd :
  Sync s -> mem fd (rs s) || mem fd (ws s) = true ->
  snd (poll_step s (UnregR fd)) = ODone /\ snd (poll_step s (UnregW fd)) = ODone.
Proof.
  intros H Hm. specialize (H fd). rewrite Hm in H. unfold registered in H. cbn.
  destruct (kget fd (reg s)); [split; reflexivity | discriminate].
Qed.

(* non-vacuity *)
Example poller_example :
  runp poll_step p0 [RegR 3; RegW 4; Poll (KErr EINTR); Poll (KEvents [(3, 17); (4, 32)]); UnregR 3; UnregW 4]
  = (mkP [] [] [], [ODone; ODone; OReady [] []; OReady [3] []; ODone; OKeyError]).
Proof. vm_compute. reflexivity. Qed.

Theorem interrupted_is_not_an_error s :
  poll_step s (Poll (KErr EINTR)) = (s, OReady [] []) /\
  select_step s (Poll (KErr EINTR)) = (s, OReady [] []) /\
  select_step s (Poll (KErr EBADF)) = (mkP (reg s) [] [], OReady [] []).
Proof. repeat split. Qed.

(* ---------------------------------------------------------------------------------------------
   KQueuePoller *)
Arguments pmem : simpl never.
Arguments padd : simpl never.
Arguments pdel : simpl never.

Lemma pair_eqb_eq a b : pair_eqb a b = true <-> a = b.
Proof.
  destruct a as [a1 a2], b as [b1 b2]. unfold pair_eqb. cbn [fst snd]. rewrite andb_true_iff, !Z.eqb_eq.
  split; [intros [-> ->]; reflexivity | intros H; inversion H; auto].
Qed.
Lemma pair_eqb_refl a : pair_eqb a a = true.
Proof. apply pair_eqb_eq. reflexivity. Qed.

Lemma pmem_padd x y l : pmem x (padd y l) = pair_eqb x y || pmem x l.
Proof.
  unfold padd. destruct (pmem y l) eqn:E; [|reflexivity].
  destruct (pair_eqb x y) eqn:Exy; [|reflexivity]. apply pair_eqb_eq in Exy. subst. rewrite E. reflexivity.
Qed.

Theorem kq_interrupted_is_not_an_error s : kq_step s (KPoll (KErr EINTR)) = (s, OReady [] []).
Proof. reflexivity. Qed.

(* the Python sets follow the request whatever the kernel answers; EBADF from the kernel is tolerated (logged),
   any other errno is re-raised and the kernel registry is left as it was *)
Theorem kq_register_sets s fd e :
  rs (fst (kq_step s (KRegR fd e))) = add fd (rs s) /\ ws (fst (kq_step s (KRegW fd e))) = add fd (ws s) /\
  rs (fst (kq_step s (KUnregR fd e))) = del fd (rs s) /\ ws (fst (kq_step s (KUnregW fd e))) = del fd (ws s).
Proof.
  cbn [kq_step]. repeat split.
  all: match goal with |- context [kq_control ?a ?b ?c ?d ?g] => destruct (kq_control a b c d g) end; reflexivity.
Qed.

Theorem kq_ebadf_tolerated s fd :
  kq_step s (KRegR fd EBADF) = (mkP (reg s) (add fd (rs s)) (ws s), ODone) /\
  kq_step s (KUnregR fd EBADF) = (mkP (reg s) (del fd (rs s)) (ws s), ODone).
Proof. split; reflexivity. Qed.

Theorem kq_other_errno_raised s fd e :
  e <> 0 -> e <> EBADF ->
  snd (kq_step s (KRegR fd e)) = ORaise e /\ reg (fst (kq_step s (KRegR fd e))) = reg s.
Proof.
  intros H0 H9. cbn [kq_step]. unfold kq_control.
  destruct (e =? 0) eqn:E0; [apply Z.eqb_eq in E0; contradiction|].
  destruct (e =? EBADF) eqn:E9; [apply Z.eqb_eq in E9; contradiction|]. split; reflexivity.
Qed.

(* every descriptor poll() returns was reported by the kernel with the matching filter *)
Theorem kq_poll_sound s l s' r w :
  kq_step s (KPoll (KEvents l)) = (s', OReady r w) ->
  s' = s /\ (forall fd, In fd r -> In (fd, KQ_READ) l) /\ (forall fd, In fd w -> In (fd, KQ_WRITE) l).
Proof.
  cbn [kq_step]. intros H. inversion H; subst. split; [reflexivity|]. split; intros fd Hin.
  all: apply in_map_iff in Hin; destruct Hin as ([f m] & Ef & Hin); cbn in Ef; subst f.
  all: apply filter_In in Hin; destruct Hin as [Hin Hm]; cbn in Hm; apply Z.eqb_eq in Hm; subst m; exact Hin.
Qed.

(* after daemonizing (the kqueue does not survive the fork) every descriptor of the two sets is registered
   again, with its own filter, and nothing else is *)
Lemma fold_padd_mem (flt : Z) (l : list Z) (g : list (Z * Z)) x :
  pmem x (fold_right (fun fd g => padd (fd, flt) g) g l) = (mem (fst x) l && (snd x =? flt)) || pmem x g.
Proof.
  induction l as [|y l IH]; cbn [fold_right]; [reflexivity|].
  rewrite pmem_padd, IH. destruct x as [x1 x2]. unfold pair_eqb, mem. cbn [fst snd]. fold (mem x1 l).
  destruct (x1 =? y), (x2 =? flt), (mem x1 l), (pmem (x1, x2) g); reflexivity.
Qed.

Theorem kq_daemonize_registers_all s fd flt :
  pmem (fd, flt) (reg (fst (kq_step s KDaemonize))) =
  (mem fd (rs s) && (flt =? KQ_READ)) || (mem fd (ws s) && (flt =? KQ_WRITE)).
Proof.
  cbn [kq_step fst reg]. rewrite !fold_padd_mem. cbn [fst snd]. unfold pmem. rewrite orb_false_r. apply orb_comm.
Qed.

Theorem kq_all s :
  kq_step s (KPoll (KErr EINTR)) = (s, OReady [] []) /\
  (forall fd, kq_step s (KRegR fd EBADF) = (mkP (reg s) (add fd (rs s)) (ws s), ODone)) /\
  (forall fd flt, pmem (fd, flt) (reg (fst (kq_step s KDaemonize))) =
                  (mem fd (rs s) && (flt =? KQ_READ)) || (mem fd (ws s) && (flt =? KQ_WRITE))).
Proof. split; [reflexivity | split; [intros; reflexivity | intros; apply kq_daemonize_registers_all]]. Qed.
