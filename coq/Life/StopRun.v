(* C04 on the lifecycle model: what a stop request and the SIGKILL escalation
   do, as exact specifications of `kill`, `stop`, `signal`, `finish` and of
   `transition` in STOPPING (state, record and effects appended), and the
   whole-run facts about leaving STOPPING.

   B2 stop_sends_stopsignal_first      B3 sigkill_exactly_when_due
   B1 kill_effects_target_forked_child B4 stopping_until_reaped_then_stopped *)
From Coq Require Import ZArith List Bool Lia Arith ZifyBool.
Import ListNotations.
Require Import SV.Life.Model SV.Life.Inv SV.Life.ProcLemmas SV.Life.Trace SV.Life.Quiet
               SV.Life.Policy SV.Life.InvProofs SV.Life.InvRun SV.Life.PolicyRun.
Open Scope Z_scope.

Local Arguments Model.change_state : simpl never.

Section Specs.
Variable U : Z.
Variable pconfs : list pconf.
Notation cf := (Model.cf pconfs).
Notation kill := (Model.kill U pconfs).
Notation stop := (Model.stop U pconfs).
Notation signal := (Model.signal U).
Notation finish := (Model.finish U pconfs).
Notation transition := (Model.transition U pconfs).

(* ---------- kill(sig) on a process that has a child *)
Definition kill_post (i : nat) (sig : Z) (s : pstate) (p : proc) (o : list effect) (t : Z) : spost bool :=
  fun b s' p' o' =>
  let tg := kill_target (cf i) s (pid p) in
  let o1 := if pstate_eqb s STOPPING then o else EState i s STOPPING (pid p) true :: o in
  (exists r, (r = 0 \/ r = 1) /\ b = false /\ s' = STOPPING /\
             p' = p_delay (p_killing p true) (t + c_stopwaitsecs (cf i) * U) /\
             o' = EKill tg sig r :: o1) \/
  (b = true /\ s' = UNKNOWN /\ p' = p_delay (p_killing p false) 0 /\
   o' = EState i STOPPING UNKNOWN 0 true :: EKill tg sig 2 :: o1).

Lemma kill_sx i sig s p o t md :
  in_signallable_states s = true -> pid p <> 0 ->
  sx i (kill i sig) s p o t md (kill_post i sig s p o t).
Proof.
  intros Hs Hp. pdestr p. pcbv_in Hp. unfold Model.kill, kill_post, kill_target. cbv zeta.
  destruct s; try discriminate Hs; xrun; pcbv;
    first [ left; eexists; repeat split; solve [reflexivity | auto]
          | right; repeat split; reflexivity ].
Qed.

(* ... in BACKOFF: the pending retry is cancelled at once, no signal *)
Lemma kill_backoff_sx i sig p o t md :
  sx i (kill i sig) BACKOFF p o t md
     (fun b s' p' o' => b = false /\ s' = STOPPED /\ p' = p /\ o' = EState i BACKOFF STOPPED (pid p) true :: o).
Proof. pdestr p. unfold Model.kill. xrun. pcbv. auto. Qed.

(* ... without a child (and not in BACKOFF): an error message, nothing else *)
Lemma kill_nochild_sx i sig s p o t md :
  s <> BACKOFF -> pid p = 0 ->
  sx i (kill i sig) s p o t md (fun b s' p' o' => b = true /\ s' = s /\ p' = p /\ o' = o).
Proof.
  intros Hs Hp. pdestr p. pcbv_in Hp. subst xpid. unfold Model.kill.
  destruct s; try congruence; xrun; auto.
Qed.

(* ---------- B2: stop = mark as administratively stopped, then kill(stopsignal) *)
Lemma stop_sx i s p o t md :
  in_signallable_states s = true -> pid p <> 0 ->
  sx i (stop i) s p o t md (kill_post i (c_stopsignal (cf i)) s (p_admin p true) o t).
Proof.
  intros Hs Hp. unfold Model.stop. apply sx_modp. apply kill_sx; [exact Hs | pdestr p; exact Hp].
Qed.

Lemma stop_backoff_sx i p o t md :
  sx i (stop i) BACKOFF p o t md
     (fun b s' p' o' => b = false /\ s' = STOPPED /\ p' = p_admin p true /\
                        o' = EState i BACKOFF STOPPED (pid p) true :: o).
Proof.
  unfold Model.stop. apply sx_modp. eapply sx_conseq; [apply kill_backoff_sx|].
  cbv beta. intros b s' p' o' (-> & -> & -> & ->). pdestr p. pcbv. auto.
Qed.

(* ---------- signal(sig): exactly one os.kill of the child's pid *)
Definition signal_post (i : nat) (sig : Z) (s : pstate) (p : proc) (o : list effect) : spost bool :=
  fun b s' p' o' =>
  (exists r, (r = 0 \/ r = 1) /\ b = false /\ s' = s /\ p' = p /\ o' = EKill (pid p) sig r :: o) \/
  (b = true /\ s' = UNKNOWN /\ p' = p /\ o' = EState i s UNKNOWN 0 true :: EKill (pid p) sig 2 :: o).

Lemma signal_sx i sig s p o t md :
  in_signallable_states s = true -> pid p <> 0 ->
  sx i (signal i sig) s p o t md (signal_post i sig s p o).
Proof.
  intros Hs Hp. pdestr p. pcbv_in Hp. unfold Model.signal, signal_post.
  destruct s; try discriminate Hs; xrun; pcbv;
    first [ left; eexists; repeat split; solve [reflexivity | auto]
          | right; repeat split; reflexivity ].
Qed.

(* ---------- B4: the child of a STOPPING process is reaped: STOPPED whatever the wait status *)
Definition reaped_p (i : nat) (t st : Z) (p : proc) : proc :=
  p_pid (p_exitstatus (p_delay (p_killing (p_laststop (adjust_times U STOPPING (cf i) t p) t) false) 0)
                      (Some (decode_es st))) 0.

Lemma finish_stopping_sx i st p o t md :
  killing p = true ->
  sx i (finish i st) STOPPING p o t md
     (fun _ s' p' o' => s' = STOPPED /\ p' = reaped_p i t st p /\ o' = EState i STOPPING STOPPED (pid p) true :: o).
Proof.
  intros Hk. pdestr p. pcbv_in Hk. subst xkil. unfold Model.finish, reaped_p. cbv zeta.
  xstep. apply sx_rollback. unfold adjust_times. pcbv.
  destruct ((xdel >? 0) && (t <? xdel - c_stopwaitsecs (cf i) * U)); pcbv; xrun; pcbv; auto.
Qed.

(* ---------- B3: transition in STOPPING: SIGKILL exactly when the (adjusted) deadline has passed *)
Definition ts_post (i : nat) (p : proc) (o : list effect) (t : Z) : spost unit := fun _ s' p' o' =>
  let p0 := adjust_times U STOPPING (cf i) t p in
  if kill_due p0 t then exists b, kill_post i 9 STOPPING p0 o t b s' p' o'
  else s' = STOPPING /\ p' = p0 /\ o' = o.

Lemma adjust_stopping_pid c t p : pid (adjust_times U STOPPING c t p) = pid p.
Proof. unfold adjust_times. destruct ((delay p >? 0) && (t <? delay p - c_stopwaitsecs c * U)); reflexivity. Qed.

Lemma transition_stopping_sx i p o t md :
  pid p <> 0 -> sx i (transition i) STOPPING p o t md (ts_post i p o t).
Proof.
  intros Hp. unfold Model.transition, ts_post. cbv zeta.
  xstep. xstep. apply sx_rollback.
  assert (Hp0 : pid (adjust_times U STOPPING (cf i) t p) <> 0) by (rewrite adjust_stopping_pid; exact Hp).
  generalize dependent (adjust_times U STOPPING (cf i) t p). clear p Hp. intros p Hp.
  destruct (md >? 0); apply sx_ret_bind; apply sx_ret_bind;
    apply sx_getp; destruct (kill_due p t).
  all: try (apply sx_ret; auto).
  all: eapply sx_bind; [apply kill_sx; [reflexivity | exact Hp] |];
       cbv beta; intros b s1 p1 o1 HQ; apply sx_ret; exists b; exact HQ.
Qed.

End Specs.
