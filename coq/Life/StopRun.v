(* C04 on the lifecycle model: what a stop request and the SIGKILL escalation
   do, as exact specifications of `kill`, `stop`, `signal`, `finish` and of
   `transition` in STOPPING (state, record and effects appended), and the
   whole-run facts about leaving STOPPING.

   B2 stop_sends_stopsignal_first      B3 sigkill_exactly_when_due
   B1 kill_effects_target_forked_child B4 stopping_until_reaped_then_stopped *)
From Coq Require Import ZArith List Bool Lia Arith ZifyBool.
Import ListNotations.
Require Import SV.Life.Model SV.Life.Inv SV.Life.ProcLemmas SV.Life.Trace SV.Life.Quiet
               SV.Life.Policy SV.Life.InvProofs SV.Life.InvRun SV.Life.PolicyRun.
Open Scope Z_scope.

Local Arguments Model.change_state : simpl never.

Section Specs.
Variable U : Z.
Variable pconfs : list pconf.
Notation cf := (Model.cf pconfs).
Notation kill := (Model.kill U pconfs).
Notation stop := (Model.stop U pconfs).
Notation signal := (Model.signal U).
Notation finish := (Model.finish U pconfs).
Notation transition := (Model.transition U pconfs).

(* ---------- kill(sig) on a process that has a child *)
Definition kill_post (i : nat) (sig : Z) (s : pstate) (p : proc) (o : list effect) (t : Z) : spost bool :=
  fun b s' p' o' =>
  let tg := kill_target (cf i) s (pid p) in
  let o1 := if pstate_eqb s STOPPING then o else EState i s STOPPING (pid p) true :: o in
  (exists r, (r = 0 \/ r = 1) /\ b = false /\ s' = STOPPING /\
             p' = p_delay (p_killing p true) (t + c_stopwaitsecs (cf i) * U) /\
             o' = EKill tg sig r :: o1) \/
  (b = true /\ s' = UNKNOWN /\ p' = p_delay (p_killing p false) 0 /\
   o' = EState i STOPPING UNKNOWN 0 true :: EKill tg sig 2 :: o1).

Lemma kill_sx i sig s p o t md :
  in_signallable_states s = true -> pid p <> 0 ->
  sx i (kill i sig) s p o t md (kill_post i sig s p o t).
Proof.
  intros Hs Hp. pdestr p. pcbv_in Hp. unfold Model.kill, kill_post, kill_target. cbv zeta.
  destruct s; try discriminate Hs; xrun; pcbv;
    first [ left; eexists; repeat split; solve [reflexivity | auto]
          | right; repeat split; reflexivity ].
Qed.

(* ... in BACKOFF: the pending retry is cancelled at once, no signal *)
Lemma kill_backoff_sx i sig p o t md :
  sx i (kill i sig) BACKOFF p o t md
     (fun b s' p' o' => b = false /\ s' = STOPPED /\ p' = p /\ o' = EState i BACKOFF STOPPED (pid p) true :: o).
Proof. pdestr p. unfold Model.kill. xrun. pcbv. auto. Qed.

(* ... without a child (and not in BACKOFF): an error message, nothing else *)
Lemma kill_nochild_sx i sig s p o t md :
  s <> BACKOFF -> pid p = 0 ->
  sx i (kill i sig) s p o t md (fun b s' p' o' => b = true /\ s' = s /\ p' = p /\ o' = o).
Proof.
  intros Hs Hp. pdestr p. pcbv_in Hp. subst xpid. unfold Model.kill.
  destruct s; try congruence; xrun; auto.
Qed.

(* ---------- B2: stop = mark as administratively stopped, then kill(stopsignal) *)
Lemma stop_sx i s p o t md :
  in_signallable_states s = true -> pid p <> 0 ->
  sx i (stop i) s p o t md (kill_post i (c_stopsignal (cf i)) s (p_admin p true) o t).
Proof.
  intros Hs Hp. unfold Model.stop. apply sx_modp. apply kill_sx; [exact Hs | pdestr p; exact Hp].
Qed.

Lemma stop_backoff_sx i p o t md :
  sx i (stop i) BACKOFF p o t md
     (fun b s' p' o' => b = false /\ s' = STOPPED /\ p' = p_admin p true /\
                        o' = EState i BACKOFF STOPPED (pid p) true :: o).
Proof.
  unfold Model.stop. apply sx_modp. eapply sx_conseq; [apply kill_backoff_sx|].
  cbv beta. intros b s' p' o' (-> & -> & -> & ->). pdestr p. pcbv. auto.
Qed.

(* ---------- signal(sig): exactly one os.kill of the child's pid *)
Definition signal_post (i : nat) (sig : Z) (s : pstate) (p : proc) (o : list effect) : spost bool :=
  fun b s' p' o' =>
  (exists r, (r = 0 \/ r = 1) /\ b = false /\ s' = s /\ p' = p /\ o' = EKill (pid p) sig r :: o) \/
  (b = true /\ s' = UNKNOWN /\ p' = p /\ o' = EState i s UNKNOWN 0 true :: EKill (pid p) sig 2 :: o).

Lemma signal_sx i sig s p o t md :
  in_signallable_states s = true -> pid p <> 0 ->
  sx i (signal i sig) s p o t md (signal_post i sig s p o).
Proof.
  intros Hs Hp. pdestr p. pcbv_in Hp. unfold Model.signal, signal_post.
  destruct s; try discriminate Hs; xrun; pcbv;
    first [ left; eexists; repeat split; solve [reflexivity | auto]
          | right; repeat split; reflexivity ].
Qed.

(* ---------- B4: the child of a STOPPING process is reaped: STOPPED whatever the wait status *)
Definition reaped_p (i : nat) (t st : Z) (p : proc) : proc :=
  p_pid (p_exitstatus (p_delay (p_killing (p_laststop (adjust_times U STOPPING (cf i) t p) t) false) 0)
                      (Some (decode_es st))) 0.

Lemma finish_stopping_sx i st p o t md :
  killing p = true ->
  sx i (finish i st) STOPPING p o t md
     (fun _ s' p' o' => s' = STOPPED /\ p' = reaped_p i t st p /\ o' = EState i STOPPING STOPPED (pid p) true :: o).
Proof.
  intros Hk. pdestr p. pcbv_in Hk. subst xkil. unfold Model.finish, reaped_p. cbv zeta.
  xstep. apply sx_rollback. unfold adjust_times. pcbv.
  destruct ((xdel >? 0) && (t <? xdel - c_stopwaitsecs (cf i) * U)); pcbv; xrun; pcbv; auto.
Qed.

(* ---------- B3: transition in STOPPING: SIGKILL exactly when the (adjusted) deadline has passed *)
Definition ts_post (i : nat) (p : proc) (o : list effect) (t : Z) : spost unit := fun _ s' p' o' =>
  let p0 := adjust_times U STOPPING (cf i) t p in
  if kill_due p0 t then exists b, kill_post i 9 STOPPING p0 o t b s' p' o'
  else s' = STOPPING /\ p' = p0 /\ o' = o.

Lemma adjust_stopping_pid c t p : pid (adjust_times U STOPPING c t p) = pid p.
Proof. unfold adjust_times. destruct ((delay p >? 0) && (t <? delay p - c_stopwaitsecs c * U)); reflexivity. Qed.

Lemma transition_stopping_sx i p o t md :
  pid p <> 0 -> sx i (transition i) STOPPING p o t md (ts_post i p o t).
Proof.
  intros Hp. unfold Model.transition, ts_post. cbv zeta.
  xstep. xstep. apply sx_rollback.
  assert (Hp0 : pid (adjust_times U STOPPING (cf i) t p) <> 0) by (rewrite adjust_stopping_pid; exact Hp).
  generalize dependent (adjust_times U STOPPING (cf i) t p). clear p Hp. intros p Hp.
  destruct (md >? 0); apply sx_ret_bind; apply sx_ret_bind;
    apply sx_getp; destruct (kill_due p t).
  all: try (apply sx_ret; auto).
  all: eapply sx_bind; [apply kill_sx; [reflexivity | exact Hp] |];
       cbv beta; intros b s1 p1 o1 HQ; apply sx_ret; exists b; exact HQ.
Qed.

(* ====================================================================== *)
(* The same at the level of worlds *)
Lemma kill_post_shape i sig s p o t b s' p' o' :
  kill_post i sig s p o t b s' p' o' ->
  exists r, (r = 0 \/ r = 1 \/ r = 2) /\ b = (r =? 2) /\
    s' = (if r =? 2 then UNKNOWN else STOPPING) /\
    p' = (if r =? 2 then p_delay (p_killing p false) 0
          else p_delay (p_killing p true) (t + c_stopwaitsecs (cf i) * U)) /\
    o' = (if r =? 2 then [EState i STOPPING UNKNOWN 0 true] else []) ++
         EKill (kill_target (cf i) s (pid p)) sig r ::
         (if pstate_eqb s STOPPING then o else EState i s STOPPING (pid p) true :: o).
Proof.
  unfold kill_post. cbv zeta. intros [(r & Hr & -> & -> & -> & ->) | (-> & -> & -> & ->)].
  - exists r. destruct Hr as [-> | ->]; cbn; auto 10.
  - exists 2. cbn. auto 10.
Qed.

(* B2: a stop request for a RUNNING / STARTING process with a child: the STOPPING notification,
   then exactly one os.kill(target, stopsignal) with the target chosen by stopasgroup; when the kernel
   refuses with an error other than ESRCH (r = 2) the process becomes UNKNOWN and an error is returned *)
Theorem stop_sends_stopsignal_first w i :
  sts w i = RUNNING \/ sts w i = STARTING -> pid (procs w i) > 0 ->
  exists b w', stop i w = (Some b, w') /\ fr i w w' /\
    let pd := pid (procs w i) in
    let tg := kill_target (cf i) (sts w i) pd in
    Z.abs tg = pd /\ (tg < 0 <-> c_stopasgroup (cf i) = true) /\
    exists r, (r = 0 \/ r = 1 \/ r = 2) /\ b = (r =? 2) /\
      out w' = (if r =? 2 then [EState i STOPPING UNKNOWN 0 true] else []) ++
               EKill tg (c_stopsignal (cf i)) r :: EState i (sts w i) STOPPING pd true :: out w /\
      sts w' i = (if r =? 2 then UNKNOWN else STOPPING) /\
      admin_stop (procs w' i) = true /\ pid (procs w' i) = pd /\
      (r <> 2 -> killing (procs w' i) = true /\ delay (procs w' i) = now w + c_stopwaitsecs (cf i) * U).
Proof.
  intros Hs Hp.
  destruct (sx_world i (stop i) w (kill_post i (c_stopsignal (cf i)) (sts w i) (p_admin (procs w i) true) (out w) (now w)))
    as (b & w' & E & F & HQ).
  { apply stop_sx; [destruct Hs as [-> | ->]; reflexivity | lia]. }
  exists b, w'. split; [exact E | split; [exact F|]]. cbv zeta.
  destruct (c04_target (cf i) (sts w i) _ Hp) as (T1 & _ & T3).
  split; [exact T3 | split; [apply T1; destruct Hs as [-> | ->]; discriminate|]].
  destruct (kill_post_shape _ _ _ _ _ _ _ _ _ _ HQ) as (r & Hr & Eb & Es & Ep & Eo).
  exists r. autorewrite with procdb in Eo. split; [exact Hr | split; [exact Eb | split; [|split; [exact Es|]]]].
  - rewrite Eo. destruct Hs as [-> | ->]; reflexivity.
  - rewrite Ep. destruct (r =? 2) eqn:E2; autorewrite with procdb; repeat split; try reflexivity; intros; lia.
Qed.

(* a stop request during BACKOFF cancels the pending retry immediately: STOPPED, no signal *)
Theorem stop_cancels_backoff w i :
  sts w i = BACKOFF ->
  exists w', stop i w = (Some false, w') /\ fr i w w' /\ sts w' i = STOPPED /\
    procs w' i = p_admin (procs w i) true /\ out w' = EState i BACKOFF STOPPED (pid (procs w i)) true :: out w.
Proof.
  intros Hs. destruct (sx_world i (stop i) w _ ltac:(rewrite Hs; apply stop_backoff_sx)) as (b & w' & E & F & -> & H).
  exists w'. auto.
Qed.

(* B3: one pass over a STOPPING process: SIGKILL is sent iff the deadline (as adjusted for a clock
   rollback at this reading) has been reached, to the target chosen by killasgroup, and the wait
   starts again; otherwise nothing happens besides the adjustment *)
Theorem sigkill_exactly_when_due w i :
  sts w i = STOPPING -> pid (procs w i) > 0 ->
  exists w', transition i w = (Some tt, w') /\ fr i w w' /\
    let pd := pid (procs w i) in
    let p0 := adjust_times U STOPPING (cf i) (now w) (procs w i) in
    let tg := kill_target (cf i) STOPPING pd in
    Z.abs tg = pd /\ (tg < 0 <-> c_killasgroup (cf i) = true) /\
    (kill_due p0 (now w) = true ->
       exists r, (r = 0 \/ r = 1 \/ r = 2) /\
         out w' = (if r =? 2 then [EState i STOPPING UNKNOWN 0 true] else []) ++ EKill tg 9 r :: out w /\
         sts w' i = (if r =? 2 then UNKNOWN else STOPPING) /\
         (r <> 2 -> killing (procs w' i) = true /\ delay (procs w' i) = now w + c_stopwaitsecs (cf i) * U)) /\
    (kill_due p0 (now w) = false -> sts w' i = STOPPING /\ procs w' i = p0 /\ out w' = out w) /\
    ((exists l tg' r, out w' = l ++ EKill tg' 9 r :: out w) <-> now w >= delay p0).
Proof.
  intros Hs Hp.
  destruct (sx_world i (transition i) w (ts_post i (procs w i) (out w) (now w))) as ([] & w' & E & F & HQ).
  { rewrite Hs. apply transition_stopping_sx. lia. }
  exists w'. split; [exact E | split; [exact F|]]. cbv zeta.
  destruct (c04_target (cf i) STOPPING _ Hp) as (_ & T2 & T3).
  split; [exact T3 | split; [apply T2; reflexivity|]].
  unfold ts_post in HQ. cbv zeta in HQ. rewrite <- c04_kill_due_iff.
  destruct (kill_due (adjust_times U STOPPING (cf i) (now w) (procs w i)) (now w)) eqn:Ek.
  - destruct HQ as (b & HQ). destruct (kill_post_shape _ _ _ _ _ _ _ _ _ _ HQ) as (r & Hr & Eb & Es & Ep & Eo).
    rewrite adjust_stopping_pid in Eo. cbn [pstate_eqb] in Eo.
    split; [|split; [discriminate|]].
    + intros _. exists r. split; [exact Hr | split; [exact Eo | split; [exact Es|]]].
      rewrite Ep. intros H2. replace (r =? 2) with false by lia. autorewrite with procdb. auto.
    + split; [reflexivity|]. intros _. rewrite Eo. destruct (r =? 2); [eexists [_], _, _ | eexists [], _, _]; reflexivity.
  - split; [discriminate | split; [intros _; exact HQ|]]. split; [|discriminate].
    intros (l & tg' & r & El). destruct HQ as (_ & _ & Eo). rewrite Eo in El. symmetry in El.
    apply app_cons_not_nil in El. destruct El.
Qed.

(* B4 (first half): whatever the wait status, reaping the child of a STOPPING process gives STOPPED *)
Theorem stopping_reaped_then_stopped w i st :
  sts w i = STOPPING -> killing (procs w i) = true ->
  exists w', finish i st w = (Some tt, w') /\ fr i w w' /\
    sts w' i = STOPPED /\ pid (procs w' i) = 0 /\ killing (procs w' i) = false /\
    exitstatus (procs w' i) = Some (decode_es st) /\ laststop (procs w' i) = now w /\
    out w' = EState i STOPPING STOPPED (pid (procs w i)) true :: out w.
Proof.
  intros Hs Hk.
  destruct (sx_world i (finish i st) w _ ltac:(rewrite Hs; apply (finish_stopping_sx i st _ _ _ _ Hk)))
    as ([] & w' & E & F & Es & Ep & Eo).
  exists w'. rewrite Ep. unfold reaped_p. autorewrite with procdb. auto 10.
Qed.

(* B1 (function level): the only emitters of EKill are kill and signal; both address the child of the
   process they are called for: |target| = pid, negative exactly when the group flag selected by the state is set *)
Theorem kill_effects_target_own_child w i sig :
  in_signallable_states (sts w i) = true -> pid (procs w i) > 0 ->
  exists b w', kill i sig w = (Some b, w') /\ fr i w w' /\
    forall l tg sg r, out w' = l ++ out w -> In (EKill tg sg r) l ->
      tg = kill_target (cf i) (sts w i) (pid (procs w i)) /\ sg = sig /\ Z.abs tg = pid (procs w i) /\
      (tg < 0 <-> (if pstate_eqb (sts w i) STOPPING then c_killasgroup (cf i) else c_stopasgroup (cf i)) = true).
Proof.
  intros Hs Hp.
  destruct (sx_world i (kill i sig) w (kill_post i sig (sts w i) (procs w i) (out w) (now w))) as (b & w' & E & F & HQ).
  { apply kill_sx; [exact Hs | lia]. }
  exists b, w'. split; [exact E | split; [exact F|]]. intros l tg sg r El Hin.
  destruct (kill_post_shape _ _ _ _ _ _ _ _ _ _ HQ) as (r0 & Hr & _ & _ & _ & Eo).
  assert (Hl : l = (if r0 =? 2 then [EState i STOPPING UNKNOWN 0 true] else []) ++
               EKill (kill_target (cf i) (sts w i) (pid (procs w i))) sig r0 ::
               (if pstate_eqb (sts w i) STOPPING then [] else [EState i (sts w i) STOPPING (pid (procs w i)) true])).
  { apply (app_inv_tail (out w)). rewrite <- El, Eo. rewrite <- app_assoc. cbn.
    destruct (pstate_eqb (sts w i) STOPPING); reflexivity. }
  assert (Hin' : EKill tg sg r = EKill (kill_target (cf i) (sts w i) (pid (procs w i))) sig r0).
  { rewrite Hl in Hin. apply in_app_or in Hin. destruct Hin as [Hin | [Hin | Hin]].
    - destruct (r0 =? 2); cbn in Hin; intuition discriminate.
    - symmetry. exact Hin.
    - destruct (pstate_eqb (sts w i) STOPPING); cbn in Hin; intuition discriminate. }
  inversion Hin'; subst. split; [reflexivity | split; [reflexivity|]].
  destruct (c04_target (cf i) (sts w i) _ Hp) as (T1 & T2 & T3). split; [exact T3|].
  destruct (pstate_eqb (sts w i) STOPPING) eqn:E1.
  - apply T2. apply pstate_eqb_eq in E1. exact E1.
  - apply T1. apply pstate_eqb_neq in E1. exact E1.
Qed.

End Specs.

(* ====================================================================== *)
(* B4 (second half), on whole runs.
   (a) from Trace.TI_run: a notification that leaves STOPPING enters STOPPED, or enters UNKNOWN
       right after a failed kill;
   (b) STOPPING -> STOPPED is announced only by `finish`, i.e. immediately after the waitpid
       (EWait) that reaped a child: a trace-shape invariant proved like A1. *)
Lemma trace_ok_suffix l o : trace_ok (l ++ o) -> trace_ok o.
Proof.
  induction l as [|e l IH]; cbn; [auto|]. intros H. apply IH. destruct e; try exact H. apply H.
Qed.

Fixpoint stop_ok (o : list effect) : Prop :=
  match o with
  | [] => True
  | EState i STOPPING STOPPED _ _ :: r =>
    match r with EWait _ _ :: _ => True | _ => False end /\ stop_ok r
  | _ :: r => stop_ok r
  end.

Definition nostop (e : effect) : Prop :=
  match e with EState _ STOPPING STOPPED _ _ => False | _ => True end.

Lemma stop_ok_cons e o : nostop e -> stop_ok o -> stop_ok (e :: o).
Proof. destruct e; cbn; intros H Ho; try exact Ho. destruct from, to; try exact Ho. destruct H. Qed.

Definition SK : world -> Prop := TP stop_ok.
(* right after a waitpid *)
Definition SKW (w : world) : Prop := stop_ok (out w) /\ exists q s r, out w = EWait q s :: r.

Lemma SKW_SK w : SKW w -> SK w.
Proof. intros [H _]. exact H. Qed.

Ltac sk_leaf :=
  first [ apply (tp_exited stop_ok nostop stop_ok_cons); exact Logic.I
        | apply (tp_emit stop_ok nostop stop_ok_cons); exact Logic.I
        | apply (tp_crash stop_ok nostop stop_ok_cons); exact Logic.I
        | apply (tp_modw stop_ok); intros;
          repeat match goal with |- context [if ?c then _ else _] => destruct c end; reflexivity ].

Create HintDb skdb.
Ltac sktac := ctac sk_leaf ltac:(eauto with skdb).

Section StopShape.
Variable U : Z.
Variable pconfs : list pconf.
Variable gconfs : list gconf.
Notation run := (Model.run U pconfs gconfs).

Lemma sk_cs i new e : new <> STOPPED -> presG SK (Model.change_state U i new e).
Proof.
  intros Hn w H. unfold Model.change_state, bind, gets, getw, getp, setp, modw, emit, ret.
  destruct (pstate_eqb new (sts w i)); [exact H|]. unfold SK, TP in *. cbn [snd out set_out set_procs set_sts].
  apply stop_ok_cons; [|exact H]. destruct (sts w i), new; cbn; try exact Logic.I. congruence.
Qed.

Lemma sk_move_ne i site ok f new e : new <> STOPPED -> presG SK (Model.move U i site ok f new e).
Proof.
  intros Hn. unfold Model.move. apply presG_bind; [sktac|]. intros _. apply presG_bind; [sktac|]. intros _.
  apply sk_cs. exact Hn.
Qed.

(* a move to STOPPED whose assertion excludes STOPPING (kill in BACKOFF) *)
Lemma sk_move_stopped i site ok f e : ok STOPPING = false -> presG SK (Model.move U i site ok f STOPPED e).
Proof.
  intros Hok w H. unfold Model.move, assert_in, modp, Model.change_state, bind, gets, getw, getp, setp, modw, emit, crash, ret.
  cbn. destruct (ok (sts w i)) eqn:Eo; cbn.
  - destruct (sts w i) eqn:Es; cbn; rewrite ?Es; cbn; try exact H; try (rewrite Hok in Eo; discriminate Eo).
  - exact H.
Qed.

Hint Extern 1 (presG SK (Model.move _ _ _ _ _ STOPPED _)) => apply sk_move_stopped; reflexivity : skdb.
Hint Extern 1 (presG SK (Model.move _ _ _ _ _ _ _)) => apply sk_move_ne; discriminate : skdb.
Hint Extern 1 (presG SK (Model.change_state _ _ _ _)) => apply sk_cs; discriminate : skdb.

(* the move of finish: STOPPING -> STOPPED, right after the waitpid *)
Lemma skw_move8 i :
  tri SKW (Model.move U i 8 (fun s => pstate_eqb s STOPPING) (fun p => p) STOPPED true) (fun _ => SK) SK.
Proof.
  unfold tri. intros w [H (q & s & r & Eo)].
  unfold Model.move, assert_in, modp, Model.change_state, bind, gets, getw, getp, setp, modw, emit, crash, ret.
  cbn. destruct (sts w i) eqn:Es; cbn; rewrite ?Es; cbn; try exact H.
  unfold SK, TP. cbn. rewrite Eo. rewrite Eo in H. split; [exact Logic.I | exact H].
Qed.

Lemma skw_quiet {A} (m : Model.M A) : quiet out m -> tri SKW m (fun _ => SKW) SK.
Proof.
  intros Hq w H. specialize (Hq w). destruct (m w) as [[a|] w1]; cbn in Hq; unfold SKW, SK, TP in *; rewrite Hq;
    [exact H | apply H].
Qed.

Lemma skw_weak {A} (m : Model.M A) : presG SK m -> tri SKW m (fun _ => SK) SK.
Proof. intros H. eapply tri_conseq; [apply tri_of_presG; exact H | apply SKW_SK | auto | auto]. Qed.

Lemma sk_finish_tri i st : tri SKW (Model.finish U pconfs i st) (fun _ => SK) SK.
Proof.
  unfold Model.finish. cbv zeta.
  eapply tri_bind; [apply skw_quiet; intros w; reflexivity|]. intros w0; cbv beta.
  eapply tri_bind; [apply skw_quiet; intros w; reflexivity|]. intros u1; cbv beta.
  eapply tri_bind; [apply skw_quiet; intros w; reflexivity|]. intros u2; cbv beta.
  eapply tri_bind; [apply skw_quiet; intros w; reflexivity|]. intros p; cbv beta.
  eapply tri_bind; [apply skw_quiet; intros w; reflexivity|]. intros s; cbv beta.
  eapply tri_bind; [|intros u3; apply tri_of_presG; sktac].
  destruct (pstate_eqb s UNKNOWN); [apply skw_weak; sktac|].
  destruct (killing p).
  - eapply tri_bind; [apply skw_quiet; intros w; reflexivity|]. intros u4; cbv beta. apply skw_move8.
  - apply skw_weak. sktac.
Qed.

Lemma sk_rollback i t : presG SK (Model.rollback_adjust U pconfs i t).
Proof. unfold Model.rollback_adjust. sktac. Qed.
Lemma sk_give_up i : presG SK (Model.give_up U i).
Proof. unfold Model.give_up. sktac. Qed.
Lemma sk_kill i sig : presG SK (Model.kill U pconfs i sig).
Proof. unfold Model.kill. sktac. Qed.
Lemma sk_spawn i : presG SK (Model.spawn U pconfs i).
Proof. unfold Model.spawn. sktac. Qed.
Hint Resolve sk_rollback sk_give_up sk_kill sk_spawn : skdb.
Lemma sk_stop i : presG SK (Model.stop U pconfs i).
Proof. unfold Model.stop. sktac. Qed.
Lemma sk_signal i sig : presG SK (Model.signal U i sig).
Proof. unfold Model.signal. sktac. Qed.
Hint Resolve sk_stop sk_signal : skdb.
Lemma sk_transition i : presG SK (Model.transition U pconfs i).
Proof. unfold Model.transition. sktac. Qed.
Hint Resolve sk_transition : skdb.

Lemma sk_reap fuel : presG SK (Model.reap U pconfs fuel).
Proof.
  induction fuel as [|f IH]; cbn [Model.reap]; [apply presG_ret|].
  apply presG_getw. intros w0 _. destruct (zombies w0) as [|[zp st] rest]; [apply presG_ret|].
  apply presG_bind; [sktac|]. intros _.
  apply presG_of_tri. eapply (tri_bind _ _ _ (fun _ => SKW)).
  - intros w H. unfold emit. cbn [fst snd]. split; [apply (stop_ok_cons (EWait zp st)); [exact Logic.I | exact H] | do 3 eexists; reflexivity].
  - intros u1; cbv beta. destruct (lookup_hist zp (pidhist w0)) as [i|].
    + eapply tri_bind; [apply sk_finish_tri|]. intros u2; cbv beta. apply tri_of_presG.
      apply presG_bind; [sktac | intros _; exact IH].
    + apply skw_weak. exact IH.
Qed.
Hint Resolve sk_reap : skdb.

Lemma sk_stop_all g : presG SK (Model.stop_all U pconfs gconfs g).
Proof. unfold Model.stop_all. sktac. Qed.
Lemma sk_handle_signal : presG SK handle_signal.
Proof. unfold handle_signal. sktac. Qed.
Lemma sk_start_process i wait : presG SK (Model.start_process U pconfs i wait).
Proof. unfold Model.start_process, reap_all. sktac. Qed.
Lemma sk_start_onwait i : presG SK (start_onwait i).
Proof. unfold start_onwait. sktac. Qed.
Lemma sk_stop_process i wait : presG SK (Model.stop_process U pconfs i wait).
Proof. unfold Model.stop_process, reap_all. sktac. Qed.
Lemma sk_stop_onwait i : presG SK (Model.stop_onwait U pconfs i).
Proof. unfold Model.stop_onwait. sktac. Qed.
Lemma sk_signal_process i sig ok : presG SK (Model.signal_process U pconfs i sig ok).
Proof. unfold Model.signal_process. sktac. Qed.
Hint Resolve sk_stop_all sk_handle_signal sk_start_process sk_start_onwait sk_stop_process sk_stop_onwait sk_signal_process : skdb.
Lemma sk_call_one k wait i : presG SK (Model.call_one U pconfs k wait i).
Proof. destruct k; cbn; sktac. Qed.
Lemma sk_poll_one k i : presG SK (Model.poll_one U pconfs k i).
Proof. destruct k; cbn; sktac. Qed.
Hint Resolve sk_call_one sk_poll_one : skdb.
Lemma sk_all_first k wait l : forall cbs res, presG SK (Model.all_first U pconfs k wait l cbs res).
Proof. induction l as [|x l IH]; intros; cbn; sktac. Qed.
Lemma sk_all_poll k l : forall cbs res, presG SK (Model.all_poll U pconfs k l cbs res).
Proof. induction l as [|x l IH]; intros; cbn; sktac. Qed.
Hint Resolve sk_all_first sk_all_poll : skdb.
Lemma sk_poll_deferred d : presG SK (Model.poll_deferred U pconfs d).
Proof. destruct d; cbn; sktac. Qed.
Hint Resolve sk_poll_deferred : skdb.
Lemma sk_poll_pending l : forall keep, presG SK (Model.poll_pending U pconfs l keep).
Proof. induction l as [|x l IH]; intros; cbn; sktac. Qed.
Hint Resolve sk_poll_pending : skdb.
Lemma sk_defer_now d : presG SK (Model.defer_now U pconfs d).
Proof. unfold Model.defer_now, add_pending. sktac. Qed.
Hint Resolve sk_defer_now : skdb.
Lemma sk_do_rpc req r : presG SK (Model.do_rpc U pconfs gconfs req r).
Proof. unfold Model.do_rpc. destruct r; sktac. Qed.
Lemma sk_child_dies k s : presG SK (child_dies k s).
Proof. unfold child_dies. sktac. Qed.
Hint Resolve sk_do_rpc sk_child_dies : skdb.
Lemma sk_do_act a : presG SK (Model.do_act U pconfs gconfs a).
Proof. destruct a; cbn; sktac. Qed.
Lemma sk_loop_head : presG SK (Model.loop_head U pconfs gconfs).
Proof. unfold Model.loop_head. sktac. Qed.
Lemma sk_phase2 : presG SK (Model.phase2 gconfs).
Proof. unfold Model.phase2. sktac. Qed.
Hint Resolve sk_do_act sk_loop_head sk_phase2 : skdb.
Lemma sk_do_pass o : presG SK (Model.do_pass U pconfs gconfs o).
Proof. unfold Model.do_pass, transition_group, reap_all. sktac. Qed.

Theorem stopped_only_after_wait ops : stop_ok (out (run ops)).
Proof.
  unfold Model.run. assert (H0 : SK world0) by (cbn; exact Logic.I). revert H0. generalize world0.
  induction ops as [|o ops IH]; intros w H; cbn; [exact H|].
  apply IH. unfold Model.step. destruct (crashed w || exited w); [exact H | apply sk_do_pass; exact H].
Qed.

Lemma stop_ok_split l i x e r : stop_ok (l ++ EState i STOPPING STOPPED x e :: r) -> exists q s r', r = EWait q s :: r'.
Proof.
  induction l as [|e0 l IH]; cbn.
  - intros [H _]. destruct r as [|[] r']; try contradiction. eauto.
  - intros H. apply IH. destruct e0; try exact H. destruct from, to; try exact H. apply H.
Qed.

(* B4 (second half): in every run, a notification that leaves STOPPING either enters STOPPED, and then
   it is the immediate continuation of a waitpid (only `finish` announces it), or enters UNKNOWN
   right after an os.kill that failed with an error other than ESRCH *)
Theorem stopping_until_reaped_then_stopped ops l i t x e r :
  out (run ops) = l ++ EState i STOPPING t x e :: r ->
  (t = STOPPED /\ exists q s r', r = EWait q s :: r') \/
  (t = UNKNOWN /\ exists tg sg r', r = EKill tg sg 2 :: r').
Proof.
  intros Eo. destruct (TI_run U pconfs gconfs ops) as [HT _]. rewrite Eo in HT.
  apply trace_ok_suffix in HT. cbn in HT. destruct HT as (_ & _ & [He | [-> Hf]] & _).
  - left. destruct t; try discriminate He. split; [reflexivity|].
    pose proof (stopped_only_after_wait ops) as HS. rewrite Eo in HS. exact (stop_ok_split _ _ _ _ _ HS).
  - right. split; [reflexivity|]. destruct r as [|[] r']; try discriminate Hf. cbn in Hf.
    assert (res = 2) as ->
      by (destruct res as [|q|q]; try discriminate Hf; destruct q as [q|q|]; try discriminate Hf;
          destruct q; try discriminate Hf; reflexivity).
    eauto.
Qed.

End StopShape.

(* ====================================================================== *)
(* Examples: the hypotheses of the theorems above are satisfiable on concrete runs *)
Definition ex_grp : pconf := mkConf 1 3 10 15 999 true ARUnexpected [0] true false CmdOk 0%nat.

(* B2 / B1: a RUNNING process with a child (pid 1000 > 0), stopasgroup set *)
Example stop_sends_stopsignal_first_example :
  let w := Model.run 10 [ex_grp] ex_g [mkPass 5 [] [0] []; mkPass 30 [] [] [0]] in
  sts w 0%nat = RUNNING /\ pid (procs w 0%nat) > 0 /\
  out (snd (Model.stop 10 [ex_grp] 0%nat w)) = EKill (-1000) 15 0 :: EState 0%nat RUNNING STOPPING 1000 true :: out w.
Proof. vm_compute. repeat split. Qed.

Example stop_cancels_backoff_example :
  let w := Model.run 10 [ex_nf3] ex_g [mkPass 5 [] [] []] in sts w 0%nat = BACKOFF.
Proof. vm_compute. reflexivity. Qed.

(* B3 / B4: the child ignores SIGTERM: STOPPING at the boundary, the deadline is 30 + 10 * 10 *)
Example sigkill_exactly_when_due_example :
  let w := Model.run 10 [ex_ok] ex_g [mkPass 5 [] [0] []; mkPass 30 [ARpc 1 (RStop 0%nat false)] [] [1]] in
  sts w 0%nat = STOPPING /\ pid (procs w 0%nat) > 0 /\ killing (procs w 0%nat) = true /\
  delay (procs w 0%nat) = 130 /\
  kill_due (adjust_times 10 STOPPING (Model.cf [ex_ok] 0%nat) (now w) (procs w 0%nat)) (now w) = false.
Proof. vm_compute. repeat split. Qed.

(* ... and two passes later, at 131: SIGKILL *)
Example sigkill_sent_after_deadline_example :
  let w := Model.run 10 [ex_ok] ex_g [mkPass 5 [] [0] []; mkPass 30 [ARpc 1 (RStop 0%nat false)] [] [1];
                                      mkPass 129 [] [] []; mkPass 131 [] [] [0]] in
  exists l r, out w = l ++ EKill 1000 9 0 :: r /\ sts w 0%nat = STOPPED.
Proof. vm_compute. eexists [_; _], _. split; reflexivity. Qed.

Example stopping_until_reaped_then_stopped_example :
  let w := Model.run 10 [ex_ok] ex_g [mkPass 5 [] [0] []; mkPass 30 [ARpc 1 (RStop 0%nat false)] [] [0]] in
  exists l r, out w = l ++ EState 0%nat STOPPING STOPPED 1000 true :: EWait 1000 15 :: r.
Proof. vm_compute. eexists [_], _. reflexivity. Qed.

(* ====================================================================== *)
(* B1 on whole runs: every signal the daemon sends goes to a child it forked.
   Invariant: every process that has a pid was forked with that pid (the EFork is in the trace), and every
   EKill in the trace has, before it, the EFork of the pid it addresses (the pid itself, or minus the pid
   for a process group).  Proved with the generic upper layer of PolicyRun (pass_kx). *)
Fixpoint kills_ok (o : list effect) : Prop :=
  match o with
  | [] => True
  | EKill tg _ _ :: r => (exists j q, In (EFork j q) r /\ (tg = q \/ tg = - q)) /\ kills_ok r
  | _ :: r => kills_ok r
  end.
Definition kf_loc (j : nat) (p : proc) (o : list effect) : Prop := pid p <> 0 -> In (EFork j (pid p)) o.
Definition KF (w : world) : Prop := kills_ok (out w) /\ forall j, kf_loc j (procs w j) (out w).

Ltac kfleaf j :=
  unfold kf_loc in *; unfold kill_target; pcbv; cbn [kills_ok];
  repeat match goal with |- _ /\ _ => split end;
  first [ assumption
        | intros ? ?; cbn [In]; solve [auto 12]
        | let H := fresh "H" in intros H; cbn [In]; first [ solve [auto 12] | exfalso; lia | exfalso; congruence ]
        | eexists j, _; split;
          [ cbn [In]; solve [auto 12]
          | repeat match goal with |- context [if ?c then _ else _] => destruct c end; solve [auto] ] ].

Section KillsForked.
Variable U : Z.
Variable pconfs : list pconf.
Variable gconfs : list gconf.
Notation cf := (Model.cf pconfs).
Notation run := (Model.run U pconfs gconfs).

Definition kfpost {A} (j : nat) (o : list effect) : spost A :=
  fun _ _ p' o' => kills_ok o' /\ kf_loc j p' o' /\ forall e, In e o -> In e o'.

Ltac kfstart p Hk Hf := pdestr p; unfold kfpost; unfold kf_loc in Hf; pcbv_in Hf.

Lemma transition_kf j s p o t md :
  PI s p -> kills_ok o -> kf_loc j p o -> sx j (Model.transition U pconfs j) s p o t md (kfpost j o).
Proof.
  intros HPI Hk Hf. kfstart p Hk Hf.
  pose proof HPI as (_ & _ & Hlive & Hdead); destruct s; cbn [live_state dead_state] in Hlive, Hdead; pcbv_in Hlive; pcbv_in Hdead;
  try specialize (Hlive eq_refl); try specialize (Hdead eq_refl); try subst.
  all: unfold Model.transition, Model.spawn, Model.give_up, Model.kill; cbv zeta.
  all: xstep; xstep; apply sx_rollback; cbn [adjust_times]; pcbv; padj.
  all: xrun.
  all: try solve [kfleaf j].
  all: try xarith.
Qed.

Ltac kfstates HPI s :=
  pose proof HPI as (_ & _ & Hlive & Hdead); destruct s; cbn [live_state dead_state] in Hlive, Hdead;
  pcbv_in Hlive; pcbv_in Hdead; try specialize (Hlive eq_refl); try specialize (Hdead eq_refl); try subst.

Lemma spawn_kf j s p o t md :
  PI s p -> kills_ok o -> kf_loc j p o -> spawnable s = true \/ s = STOPPING ->
  sx j (Model.spawn U pconfs j) s p o t md (kfpost j o).
Proof.
  intros HPI Hk Hf Hs. kfstart p Hk Hf. kfstates HPI s.
  all: destruct Hs as [Hs | Hs]; try discriminate Hs.
  all: unfold Model.spawn; xrun.
  all: try solve [kfleaf j].
  all: try xarith.
Qed.

Lemma stop_kf j s p o t md :
  PI s p -> kills_ok o -> kf_loc j p o -> killable s = true -> sx j (Model.stop U pconfs j) s p o t md (kfpost j o).
Proof.
  intros HPI Hk Hf Hs. kfstart p Hk Hf. kfstates HPI s; try discriminate Hs.
  all: unfold Model.stop, Model.kill; xrun.
  all: try solve [kfleaf j].
  all: try xarith.
Qed.

Lemma give_up_kf j p o t md :
  kills_ok o -> kf_loc j p o -> sx j (Model.give_up U j) BACKOFF p o t md (kfpost j o).
Proof. intros Hk Hf. kfstart p Hk Hf. unfold Model.give_up. xrun. kfleaf j. Qed.

Lemma signal_kf j sg s p o t md :
  PI s p -> kills_ok o -> kf_loc j p o -> in_signallable_states s = true ->
  sx j (Model.signal U j sg) s p o t md (kfpost j o).
Proof.
  intros HPI Hk Hf Hs. kfstart p Hk Hf. kfstates HPI s; try discriminate Hs.
  all: unfold Model.signal; xrun.
  all: try solve [kfleaf j].
  all: try xarith.
Qed.

Lemma rollback_kf j t0 s p o t md :
  kills_ok o -> kf_loc j p o -> sx j (Model.rollback_adjust U pconfs j t0) s p o t md (kfpost j o).
Proof.
  intros Hk Hf. kfstart p Hk Hf. apply sx_tail. apply sx_rollback.
  destruct s; cbn [adjust_times]; pcbv; padj; xrun.
  all: try solve [kfleaf j].
Qed.

Lemma finish_kf j st s p o t md :
  PI s p -> kills_ok o -> kf_loc j p o -> pid p <> 0 -> sx j (Model.finish U pconfs j st) s p o t md (kfpost j o).
Proof.
  intros HPI Hk Hf Hp. kfstart p Hk Hf. kfstates HPI s; pcbv_in Hp; try congruence.
  all: unfold Model.finish; cbv zeta.
  all: xstep; apply sx_rollback; cbn [adjust_times]; pcbv; padj.
  all: xrun.
  all: try solve [kfleaf j].
  all: try (exfalso; destruct HPI as (_ & Hk2 & _); pcbv_in Hk2; destruct (Hk2 eq_refl); discriminate).
  all: try (exfalso; destruct HPI as (Hk1 & _); pcbv_in Hk1; specialize (Hk1 eq_refl); discriminate).
  all: try (exfalso; unfold too_quickly in *;
            match goal with H : (if ?c then _ else _) = true |- _ => destruct c eqn:? end; lia).
Qed.

Lemma kf_of_sx {A} j (m : Model.M A) (Pre : pstate -> proc -> Prop) :
  (forall s p o t md, PI s p -> kills_ok o -> kf_loc j p o -> Pre s p -> sx j m s p o t md (kfpost j o)) ->
  xp KF (fun w => Pre (sts w j) (procs w j)) m.
Proof.
  intros H w a w' HK [Hk HF] HP E.
  destruct (H _ _ _ _ _ (k_pi w HK j) Hk (HF j) HP w eq_refl eq_refl eq_refl eq_refl eq_refl)
    as (a2 & w2 & E2 & (f1 & f2 & f3 & f4) & (Q1 & Q2 & Q3)).
  rewrite E2 in E. inversion E; subst a2 w2. split; [exact Q1|].
  intros j'. destruct (Nat.eq_dec j' j) as [-> | Hj]; [exact Q2|]. destruct (f4 j' Hj) as [_ ->].
  intros Hp. apply Q3. apply HF. exact Hp.
Qed.

Lemma KF_emit e w : upper e -> KF w -> KF (set_out (e :: out w) w).
Proof.
  intros He [Hk HF]. split.
  - cbn. destruct e; try exact Hk; destruct He.
  - intros j Hp. cbn. right. apply HF. exact Hp.
Qed.
Lemma KF_modw w w' : sts w' = sts w -> procs w' = procs w -> now w' = now w -> out w' = out w -> KF w -> KF w'.
Proof. unfold KF. intros _ -> _ -> H. exact H. Qed.

Lemma KF_transition j : xp KF (fun _ => True) (Model.transition U pconfs j).
Proof.
  intros w a w' HK HX _ E.
  apply (kf_of_sx j (Model.transition U pconfs j) (fun _ _ => True)) with (w := w) (a := a); auto.
  intros. apply transition_kf; assumption.
Qed.
Lemma KF_stop j s : killable s = true -> xp KF (fun w => sts w j = s) (Model.stop U pconfs j).
Proof.
  intros Hk w a w' HK HX Hs E.
  apply (kf_of_sx j (Model.stop U pconfs j) (fun s' _ => s' = s)) with (w := w) (a := a); auto.
  intros s0 p o t md HPI Hko Hf ->. apply stop_kf; assumption.
Qed.
Lemma KF_give_up j : xp KF (fun w => sts w j = BACKOFF) (Model.give_up U j).
Proof.
  intros w a w' HK HX Hs E.
  apply (kf_of_sx j (Model.give_up U j) (fun s' _ => s' = BACKOFF)) with (w := w) (a := a); auto.
  intros s0 p o t md HPI Hko Hf ->. apply give_up_kf; assumption.
Qed.
Lemma KF_signal j sg s : in_signallable_states s = true -> xp KF (fun w => sts w j = s) (Model.signal U j sg).
Proof.
  intros Hk w a w' HK HX Hs E.
  apply (kf_of_sx j (Model.signal U j sg) (fun s' _ => s' = s)) with (w := w) (a := a); auto.
  intros s0 p o t md HPI Hko Hf ->. apply signal_kf; assumption.
Qed.
Lemma KF_rollback j w0 : xp KF (fun w => w = w0) (Model.rollback_adjust U pconfs j (now w0)).
Proof.
  intros w a w' HK HX Hw E. subst w0.
  apply (kf_of_sx j (Model.rollback_adjust U pconfs j (now w)) (fun _ _ => True)) with (w := w) (a := a); auto.
  intros. apply rollback_kf; assumption.
Qed.
Lemma KF_spawn j s : True -> spawnable s = true \/ s = STOPPING -> xp KF (fun w => sts w j = s) (Model.spawn U pconfs j).
Proof.
  intros _ Hk w a w' HK HX Hs E.
  apply (kf_of_sx j (Model.spawn U pconfs j) (fun s' _ => s' = s)) with (w := w) (a := a); auto.
  intros s0 p o t md HPI Hko Hf ->. apply spawn_kf; assumption.
Qed.

Lemma KF_reap fuel : xp KF (fun _ => True) (Model.reap U pconfs fuel).
Proof.
  induction fuel as [|f IH]; intros w a w' HK HX _ E; [inversion E; subst; exact HX|].
  cbn [Model.reap] in E. unfold bind at 1 in E. unfold getw at 1 in E.
  destruct (zombies w) as [|[zp st] rest] eqn:Ez; [inversion E; subst; exact HX|].
  unfold bind at 1 in E. unfold modw at 1 in E. unfold bind at 1 in E. unfold emit at 1 in E.
  set (w1 := set_out _ _) in E.
  assert (I1 : inertw w w1) by (subst w1; repeat split; cbn; lia).
  assert (K1 : K w1) by (eapply K_inert; eassumption).
  assert (X1 : KF w1).
  { destruct HX as [Hk HF]. subst w1. split; [exact Hk|]. intros j Hp. cbn. right. apply HF. exact Hp. }
  destruct (lookup_hist zp (pidhist w)) as [j|] eqn:EL.
  - apply lookup_hist_in in EL.
    destruct (finish_run U pconfs j zp st w1 K1 EL) as (w2 & E2 & Ep0 & K3).
    unfold bind at 1 in E. rewrite E2 in E. unfold bind at 1 in E. unfold modw at 1 in E.
    assert (X2 : KF w2).
    { apply (kf_of_sx j (Model.finish U pconfs j st) (fun _ p => pid p <> 0)) with (w := w1) (a := tt); auto.
      - intros. apply finish_kf; assumption.
      - destruct (k_hist w1 K1 zp j EL). lia. }
    eapply (IH _ a w' K3); [exact X2 | exact Logic.I | exact E].
  - eapply (IH _ a w' K1); [exact X1 | exact Logic.I | exact E].
Qed.

Theorem kills_forked_step w o :
  K w -> Forall def_ok (pend w) -> KF w ->
  let w' := Model.step U pconfs gconfs w o in K w' /\ Forall def_ok (pend w') /\ KF w'.
Proof.
  intros HK HP HX. cbv zeta. unfold Model.step. destruct (crashed w || exited w); [auto|].
  destruct (pass_kx U pconfs gconfs KF (fun _ => True) KF_emit KF_modw KF_transition KF_stop KF_give_up
                    KF_signal KF_rollback KF_reap KF_spawn o w) as (w' & E & K' & X' & P'); auto.
  - apply Forall_forall. intros a _. apply act_ok_all.
  - split; [exact HX | exact HP].
  - rewrite E. auto.
Qed.

Theorem kills_forked_run ops : KF (run ops).
Proof.
  unfold Model.run.
  assert (H0 : K world0 /\ Forall def_ok (pend world0) /\ KF world0).
  { split; [apply K_world0 | split; [constructor|]]. split; [exact Logic.I|]. intros j Hp. exfalso. apply Hp. reflexivity. }
  revert H0. generalize world0.
  induction ops as [|o ops IH]; intros w (HK & HP & HX); cbn; [exact HX|].
  apply IH. apply kills_forked_step; assumption.
Qed.

Lemma kills_ok_split l tg sg r rest :
  kills_ok (l ++ EKill tg sg r :: rest) -> exists j q, In (EFork j q) rest /\ (tg = q \/ tg = - q).
Proof.
  induction l as [|e l IH]; cbn.
  - intros [H _]. exact H.
  - intros H. apply IH. destruct e; try exact H. apply H.
Qed.

(* B1: in every run, every os.kill addresses a pid that the daemon forked earlier in the run (the pid itself,
   or minus the pid: the process group) *)
Theorem kill_effects_target_forked_child ops l tg sg r rest :
  out (run ops) = l ++ EKill tg sg r :: rest ->
  exists j q, In (EFork j q) rest /\ (tg = q \/ tg = - q).
Proof.
  intros Eo. destruct (kills_forked_run ops) as [Hk _]. rewrite Eo in Hk. exact (kills_ok_split _ _ _ _ _ Hk).
Qed.

(* ... and at every boundary, every process that has a pid was forked with that pid *)
Theorem pid_was_forked ops j :
  let w := run ops in pid (procs w j) <> 0 -> In (EFork j (pid (procs w j))) (out w).
Proof. cbv zeta. destruct (kills_forked_run ops) as [_ HF]. apply HF. Qed.

End KillsForked.

Example kill_effects_target_forked_child_example :
  let w := Model.run 10 [ex_grp] ex_g [mkPass 5 [] [0] []; mkPass 30 [ARpc 1 (RStop 0%nat false)] [] [0]] in
  exists l rest, out w = l ++ EKill (-1000) 15 0 :: rest /\ In (EFork 0%nat 1000) rest.
Proof. vm_compute. eexists [_; _; _], _. split; [reflexivity|]. cbn. tauto. Qed.
