(* C06, second half: "after any such disturbance every other process is still
   monitored".  The reaper of the model, at the reap point of every pass of every
   run, waits for the zombies in the order in which the children died, up to the
   bound of 100 per pass that Supervisor.reap has, whatever happened before in the
   run (faults, unknown children, failed kills, requests).  Consequences:
   - the wait effects emitted by the reap step are exactly the first 100 dead
     children, oldest first (nothing is skipped, nothing is waited for twice);
   - live children are not touched by the reaper;
   - when at most 100 children are dead at the reap point, right after it every
     process that still has a pid has a live child: no death stays unnoticed. *)
From Coq Require Import ZArith List Bool Lia Arith.
Import ListNotations.
Require Import SV.Life.Model SV.Life.Inv SV.Life.Quiet SV.Life.ProcLemmas SV.Life.InvProofs SV.Life.InvRun.
Require Import SV.Life.PolicyRun SV.Life.StopRun SV.Life.RpcRun.
Open Scope Z_scope.

(* the wait effects of a trace (the trace is newest first, so is the result) *)
Fixpoint waits (o : list effect) : list (Z * Z) :=
  match o with
  | [] => []
  | EWait p s :: r => (p, s) :: waits r
  | _ :: r => waits r
  end.

Definition obsW (w : world) : list (Z * Z) := waits (out w).

Ltac qleaf :=
  repeat match goal with
    | |- quiet _ (ret _) => apply quiet_ret
    | |- quiet _ (bind getw _) => apply quiet_getw; intros ?w0
    | |- quiet _ (bind (gets _) _) => apply quiet_gets; intros ?s
    | |- quiet _ (bind (getp _) _) => apply quiet_getp; intros ?p
    | |- quiet _ (setp _ _) => unfold setp
    | |- quiet _ (modp _ _) => unfold modp
    | |- quiet _ (assert_in _ _ _) => unfold assert_in
    | |- quiet _ (Model.change_state _ _ _ _) => unfold Model.change_state
    | |- quiet _ (Model.move _ _ _ _ _ _ _) => unfold Model.move
    | |- quiet _ (modw _) => qprim
    | |- quiet _ (emit _) => qprim
    | |- quiet _ (crash _) => qprim
    | |- quiet _ (if ?c then _ else _) => destruct c
    | |- quiet _ (match ?x with _ => _ end) => destruct x
    | |- quiet _ (bind _ _) => apply quiet_bind; [ | intros ? ]
    end.

Section WithConfig.
Variable U : Z.
Variable pconfs : list pconf.
Variable gconfs : list gconf.

Notation finish := (Model.finish U pconfs).
Notation reap := (Model.reap U pconfs).

Lemma finish_quiet_waits i st : quiet obsW (finish i st).
Proof. unfold Model.finish, Model.rollback_adjust. qleaf. Qed.

Lemma skipn_cons_S {X} (x : X) l n : skipn (S n) (x :: l) = skipn n l.
Proof. reflexivity. Qed.

(* the reaper, from any world that satisfies the kernel/tracking invariants *)
Lemma reap_service fuel : forall w, K w -> TR w ->
  exists w', reap fuel w = (Some tt, w') /\ K w' /\ TR w' /\
    zombies w' = skipn fuel (zombies w) /\ live w' = live w /\
    waits (out w') = rev (firstn fuel (zombies w)) ++ waits (out w).
Proof.
  induction fuel as [|f IH]; intros w HK HTR.
  { exists w. split; [reflexivity | split; [exact HK | split; [exact HTR | split; [reflexivity | split; reflexivity]]]]. }
  destruct HTR as [HG HT].
  cbn [Model.reap]. unfold bind at 1. unfold getw at 1.
  destruct (zombies w) as [|[zp st] rest] eqn:Ez.
  { exists w. split; [reflexivity | split; [exact HK | split; [split; assumption | split; [exact Ez | split; reflexivity]]]]. }
  unfold bind at 1. unfold modw at 1. unfold bind at 1. unfold emit at 1.
  set (w1 := set_out _ _).
  assert (I1 : inertw w w1) by (subst w1; repeat split; cbn; lia).
  assert (K1 : K w1) by (eapply K_inert; eassumption).
  assert (Ew1 : waits (out w1) = (zp, st) :: waits (out w)) by (subst w1; reflexivity).
  assert (Ez1 : zombies w1 = rest) by (subst w1; reflexivity).
  assert (El1 : live w1 = live w) by (subst w1; reflexivity).
  destruct (lookup_hist zp (pidhist w)) as [i|] eqn:EL.
  - apply lookup_hist_in in EL.
    destruct (finish_run U pconfs i zp st w1 K1 EL) as (w2 & E2 & Ep0 & K3).
    unfold bind at 1. rewrite E2. unfold bind at 1. unfold modw at 1.
    pose proof (finish_quiet U pconfs i st w1) as Eq. rewrite E2 in Eq. cbn [snd] in Eq. unfold obsG in Eq.
    pose proof (finish_quiet_waits i st w1) as Eqw. rewrite E2 in Eqw. cbn [snd] in Eqw. unfold obsW in Eqw.
    inversion Eq as [[Eh El Ezz En]].
    assert (T2 : TC w2).
    { pose proof (finish_TC U pconfs i st w1) as H. rewrite E2 in H. apply H. split; [|apply K_C1; exact K1].
      subst w1. exact HT. }
    set (w3 := set_pidhist _ w2).
    destruct (IH w3) as (w' & E' & K' & T' & Z' & L' & W').
    + exact K3.
    + split.
      * subst w1. cbn in Eh, El, Ezz, En.
        apply (G0_pop w zp st rest (filter (fun e => negb (fst e =? zp)) (pidhist w2)) w3 HG Ez); subst w3; cbn; rewrite ?Eh; auto.
        -- apply NoDup_keys_filter. apply HG.
        -- apply keys_filter_in.
      * intros j Hj. subst w3. cbn in *. destruct T2 as [T2 _]. specialize (T2 j Hj).
        apply filter_In. split; [exact T2|]. cbn. apply negb_true_iff. apply Z.eqb_neq. intros Eq'.
        rewrite Eq' in T2. rewrite Eh in T2. subst w1. cbn in T2.
        assert (j = i) by (eapply NoDup_keys_inj; [apply HG | exact T2 | exact EL]).
        subst j. congruence.
    + assert (Ez3 : zombies w3 = rest) by (subst w3; cbn [zombies set_pidhist]; congruence).
      assert (El3 : live w3 = live w) by (subst w3; cbn [live set_pidhist]; congruence).
      assert (Ew3 : waits (out w3) = (zp, st) :: waits (out w)) by (subst w3; cbn [out set_pidhist]; unfold obsW in Eqw; congruence).
      exists w'. split; [exact E' | split; [exact K' | split; [exact T' | split; [|split]]]].
      * rewrite Z', Ez3, ?Ezz. reflexivity.
      * rewrite L', El3, ?El. reflexivity.
      * rewrite W', Ez3, Ew3, ?Ezz. cbn [firstn rev]. rewrite <- app_assoc. reflexivity.
  - destruct (IH w1) as (w' & E' & K' & T' & Z' & L' & W').
    + exact K1.
    + split.
      * subst w1. apply (G0_pop w zp st rest (pidhist w) _ HG Ez); cbn; auto.
        -- apply HG.
        -- intros q Hq. split; [exact Hq|]. intros ->. exact (lookup_hist_none _ _ EL Hq).
      * exact HT.
    + exists w'. split; [exact E' | split; [exact K' | split; [exact T' | split; [|split]]]].
      * rewrite Z', Ez1. reflexivity.
      * rewrite L', El1. reflexivity.
      * rewrite W', Ez1, Ew1. cbn [firstn rev]. rewrite <- app_assoc. reflexivity.
Qed.

End WithConfig.

(* ---------- the reap point of a pass *)
Section Pass.
Variable U : Z.
Variable pconfs : list pconf.
Variable gconfs : list gconf.

Notation kts m := (kt (fun _ => True) m).
Notation do_pass := (Model.do_pass U pconfs gconfs).
Notation run := (Model.run U pconfs gconfs).
Notation reap_all := (Model.reap_all U pconfs).

(* what a pass does before it reaps (poll: clock and script actions; transition of every group) and after *)
Definition pre_reap (o : passop) : Model.M unit :=
  bind (modw (set_pass (p_now o) (p_forkq o) (p_killq o))) (fun _ =>
  bind (mapM_ (Model.do_act U pconfs gconfs) (p_acts o)) (fun _ =>
  mapM_ (transition_group U pconfs gconfs) (sorted_groups gconfs))).
Definition post_reap : Model.M unit :=
  bind handle_signal (fun _ => bind (Model.phase2 gconfs) (fun _ => Model.loop_head U pconfs gconfs)).

Lemma set_pass_kt t fq kq : kts (modw (set_pass t fq kq)).
Proof.
  intros w HK [HG HT] _. exists tt, (set_pass t fq kq w). split; [reflexivity|]. split; [|split].
  - eapply K_inert; [exact HK|]. repeat split; cbn; lia.
  - eapply G0_obs; [|exact HG]. reflexivity.
  - exact HT.
Qed.

Lemma pre_reap_kt o : kts (pre_reap o).
Proof.
  unfold pre_reap. apply kt_bind; [apply set_pass_kt | intros _].
  apply kt_bind; [apply kt_mapM; intros a; apply do_act_kt | intros _].
  apply kt_mapM. intros g. unfold transition_group. apply kt_mapM. intros i. apply transition_kt.
Qed.

Lemma post_reap_kt : kts post_reap.
Proof.
  unfold post_reap. apply kt_bind; [apply handle_signal_kt | intros _].
  apply kt_bind; [apply phase2_kt | intros _]. apply loop_head_kt.
Qed.

Lemma bind_assoc_run {A B C} (m : Model.M A) (f : A -> Model.M B) (g : B -> Model.M C) w :
  bind (bind m f) g w = bind m (fun a => bind (f a) g) w.
Proof. unfold bind. destruct (m w) as [[a|] w1]; [|reflexivity]. reflexivity. Qed.

Lemma do_pass_split o w :
  do_pass o w = bind (pre_reap o) (fun _ => bind reap_all (fun _ => post_reap)) w.
Proof.
  unfold Model.do_pass, pre_reap, post_reap. rewrite !bind_assoc_run.
  unfold bind. destruct (modw _ w) as [[a|] w1]; [|reflexivity].
  destruct (mapM_ _ _ w1) as [[b|] w2]; reflexivity.
Qed.

(* Every pass from a world satisfying the invariants: the part before the reap point
   succeeds, the reaper waits for the first 100 dead children in order of death and
   touches no live child, the rest of the pass succeeds. *)
Theorem pass_reap_point o w :
  K w -> TR w ->
  exists w1 w2 w3,
    pre_reap o w = (Some tt, w1) /\ K w1 /\ TR w1 /\
    reap_all w1 = (Some tt, w2) /\ K w2 /\ TR w2 /\
    zombies w2 = skipn 100 (zombies w1) /\ live w2 = live w1 /\
    waits (out w2) = rev (firstn 100 (zombies w1)) ++ waits (out w1) /\
    post_reap w2 = (Some tt, w3) /\ K w3 /\ TR w3 /\
    do_pass o w = (Some tt, w3).
Proof.
  intros HK HT.
  destruct (pre_reap_kt o w HK HT Logic.I) as ([] & w1 & E1 & K1 & T1).
  destruct (reap_service U pconfs 100 w1 K1 T1) as (w2 & E2 & K2 & T2 & Z2 & L2 & W2).
  destruct (post_reap_kt w2 K2 T2 Logic.I) as ([] & w3 & E3 & K3 & T3).
  exists w1, w2, w3. repeat (split; [assumption|]).
  rewrite do_pass_split. unfold bind. rewrite E1. unfold reap_all. rewrite E2. exact E3.
Qed.

(* ... in particular at every boundary of every run *)
Theorem run_reap_point ops o :
  let w := run ops in
  exists w1 w2 w3,
    pre_reap o w = (Some tt, w1) /\ reap_all w1 = (Some tt, w2) /\ post_reap w2 = (Some tt, w3) /\
    do_pass o w = (Some tt, w3) /\
    zombies w2 = skipn 100 (zombies w1) /\ live w2 = live w1 /\
    waits (out w2) = rev (firstn 100 (zombies w1)) ++ waits (out w1).
Proof.
  cbv zeta. destruct (track_run U pconfs gconfs ops) as [HK HT].
  destruct (pass_reap_point o _ HK HT) as (w1 & w2 & w3 & H).
  exists w1, w2, w3. tauto.
Qed.

(* no death stays unnoticed: when at most 100 children are dead at the reap point,
   right after it no zombie is left, and every process that (still) has a pid has a live child *)
Theorem reap_point_all_noticed o w :
  K w -> TR w ->
  exists w1 w2,
    pre_reap o w = (Some tt, w1) /\ reap_all w1 = (Some tt, w2) /\
    ((length (zombies w1) <= 100)%nat ->
       zombies w2 = [] /\
       waits (out w2) = rev (zombies w1) ++ waits (out w1) /\
       forall j, pid (procs w2 j) <> 0 -> In (pid (procs w2 j)) (live w2)).
Proof.
  intros HK HT.
  destruct (pass_reap_point o w HK HT) as (w1 & w2 & w3 & E1 & K1 & T1 & E2 & K2 & T2 & Z2 & L2 & W2 & _).
  exists w1, w2. split; [exact E1 | split; [exact E2|]]. intros Hlen.
  assert (Ez : zombies w2 = []) by (rewrite Z2; apply skipn_all2; exact Hlen).
  split; [exact Ez | split].
  - rewrite W2, firstn_all2 by exact Hlen. reflexivity.
  - intros j Hj. destruct T2 as [HG HT1]. specialize (HT1 j Hj).
    assert (Hk : In (pid (procs w2 j)) (map fst (pidhist w2))) by (apply in_map_iff; exists (pid (procs w2 j), j); auto).
    apply (g_B _ HG) in Hk. unfold kern in Hk. rewrite Ez in Hk. cbn in Hk. rewrite app_nil_r in Hk. exact Hk.
Qed.


Theorem run_all_noticed ops o :
  let w := run ops in
  exists w1 w2,
    pre_reap o w = (Some tt, w1) /\ reap_all w1 = (Some tt, w2) /\
    ((length (zombies w1) <= 100)%nat ->
       zombies w2 = [] /\
       waits (out w2) = rev (zombies w1) ++ waits (out w1) /\
       forall j, pid (procs w2 j) <> 0 -> In (pid (procs w2 j)) (live w2)).
Proof. cbv zeta. destruct (track_run U pconfs gconfs ops) as [HK HT]. exact (reap_point_all_noticed o _ HK HT). Qed.

(* "restarted according to its policy": whatever the history, a process found EXITED by the next
   transition (daemon RUNNING) is started again iff its autorestart policy says so *)
Theorem run_exited_restarted_by_policy ops i :
  let w := run ops in
  sts w i = EXITED -> mood w >= 1 ->
  exists w', Model.transition U pconfs i w = (Some tt, w') /\
    ((exists l x e, out w' = l ++ EState i EXITED STARTING x e :: out w) <->
     should_restart (Model.cf pconfs i) (exitstatus (procs w i)) = true).
Proof.
  cbv zeta. intros Hs Hm. destruct (track_run U pconfs gconfs ops) as [HK _].
  assert (Hp : pid (procs (run ops) i) = 0) by (apply K_pid_dead; [exact HK | rewrite Hs; reflexivity]).
  destruct (autorestart_decision U pconfs _ i Hs Hp Hm) as (w' & E & _ & _ & _ & H).
  exists w'. split; [exact E | exact H].
Qed.

(* "and stoppable": whatever the history, a stop request for a process that is RUNNING or STARTING
   announces STOPPING and sends the configured stop signal to its own child (or its group) *)
Theorem run_still_stoppable ops i :
  let w := run ops in
  sts w i = RUNNING \/ sts w i = STARTING ->
  exists b w', Model.stop U pconfs i w = (Some b, w') /\
    let pd := pid (procs w i) in
    let tg := kill_target (Model.cf pconfs i) (sts w i) pd in
    Z.abs tg = pd /\
    exists r, (r = 0 \/ r = 1 \/ r = 2) /\ b = (r =? 2) /\
      out w' = (if r =? 2 then [EState i STOPPING UNKNOWN 0 true] else []) ++
               EKill tg (c_stopsignal (Model.cf pconfs i)) r :: EState i (sts w i) STOPPING pd true :: out w /\
      sts w' i = (if r =? 2 then UNKNOWN else STOPPING).
Proof.
  cbv zeta. intros Hs. destruct (track_run U pconfs gconfs ops) as [HK _].
  assert (Hp : pid (procs (run ops) i) > 0).
  { destruct (k_pi _ HK i) as (_ & _ & c & _).
    assert (pid (procs (run ops) i) <> 0) by (apply c; destruct Hs as [-> | ->]; reflexivity).
    destruct (Z_lt_le_dec 0 (pid (procs (run ops) i))) as [|Hle]; [lia|].
    pose proof (c02_pid_has_entry U pconfs gconfs ops i H) as Hin.
    destruct (k_hist _ HK _ _ Hin). lia. }
  destruct (stop_sends_stopsignal_first U pconfs _ i Hs Hp) as (b & w' & E & _ & H).
  cbv zeta in H. destruct H as (H1 & _ & r & Hr & Hb & Ho & Hst & _).
  exists b, w'. split; [exact E|]. split; [exact H1|]. exists r. auto.
Qed.

End Pass.
