(* C06, second half: "after any such disturbance every other process is still
   monitored".  The reaper of the model, at the reap point of every pass of every
   run, waits for the zombies in the order in which the children died, up to the
   bound of 100 per pass that Supervisor.reap has, whatever happened before in the
   run (faults, unknown children, failed kills, requests).  Consequences:
   - the wait effects emitted by the reap step are exactly the first 100 dead
     children, oldest first (nothing is skipped, nothing is waited for twice);
   - live children are not touched by the reaper;
   - when at most 100 children are dead at the reap point, right after it every
     process that still has a pid has a live child: no death stays unnoticed. *)
From Coq Require Import ZArith List Bool Lia Arith.
Import ListNotations.
Require Import SV.Life.Model SV.Life.Inv SV.Life.Quiet SV.Life.ProcLemmas SV.Life.InvProofs SV.Life.InvRun.
Open Scope Z_scope.

(* the wait effects of a trace (the trace is newest first, so is the result) *)
Fixpoint waits (o : list effect) : list (Z * Z) :=
  match o with
  | [] => []
  | EWait p s :: r => (p, s) :: waits r
  | _ :: r => waits r
  end.

Definition obsW (w : world) : list (Z * Z) := waits (out w).

Ltac qleaf :=
  repeat match goal with
    | |- quiet _ (ret _) => apply quiet_ret
    | |- quiet _ (bind getw _) => apply quiet_getw; intros ?w0
    | |- quiet _ (bind (gets _) _) => apply quiet_gets; intros ?s
    | |- quiet _ (bind (getp _) _) => apply quiet_getp; intros ?p
    | |- quiet _ (setp _ _) => unfold setp
    | |- quiet _ (modp _ _) => unfold modp
    | |- quiet _ (assert_in _ _ _) => unfold assert_in
    | |- quiet _ (Model.change_state _ _ _ _) => unfold Model.change_state
    | |- quiet _ (Model.move _ _ _ _ _ _ _) => unfold Model.move
    | |- quiet _ (modw _) => qprim
    | |- quiet _ (emit _) => qprim
    | |- quiet _ (crash _) => qprim
    | |- quiet _ (if ?c then _ else _) => destruct c
    | |- quiet _ (match ?x with _ => _ end) => destruct x
    | |- quiet _ (bind _ _) => apply quiet_bind; [ | intros ? ]
    end.

Section WithConfig.
Variable U : Z.
Variable pconfs : list pconf.
Variable gconfs : list gconf.

Notation finish := (Model.finish U pconfs).
Notation reap := (Model.reap U pconfs).

Lemma finish_quiet_waits i st : quiet obsW (finish i st).
Proof. unfold Model.finish, Model.rollback_adjust. qleaf. Qed.

Lemma skipn_cons_S {X} (x : X) l n : skipn (S n) (x :: l) = skipn n l.
Proof. reflexivity. Qed.

(* the reaper, from any world that satisfies the kernel/tracking invariants *)
Lemma reap_service fuel : forall w, K w -> TR w ->
  exists w', reap fuel w = (Some tt, w') /\ K w' /\ TR w' /\
    zombies w' = skipn fuel (zombies w) /\ live w' = live w /\
    waits (out w') = rev (firstn fuel (zombies w)) ++ waits (out w).
Proof.
  induction fuel as [|f IH]; intros w HK HTR.
  { exists w. split; [reflexivity | split; [exact HK | split; [exact HTR | split; [reflexivity | split; reflexivity]]]]. }
  destruct HTR as [HG HT].
  cbn [Model.reap]. unfold bind at 1. unfold getw at 1.
  destruct (zombies w) as [|[zp st] rest] eqn:Ez.
  { exists w. split; [reflexivity | split; [exact HK | split; [split; assumption | split; [exact Ez | split; reflexivity]]]]. }
  unfold bind at 1. unfold modw at 1. unfold bind at 1. unfold emit at 1.
  set (w1 := set_out _ _).
  assert (I1 : inertw w w1) by (subst w1; repeat split; cbn; lia).
  assert (K1 : K w1) by (eapply K_inert; eassumption).
  assert (Ew1 : waits (out w1) = (zp, st) :: waits (out w)) by (subst w1; reflexivity).
  assert (Ez1 : zombies w1 = rest) by (subst w1; reflexivity).
  assert (El1 : live w1 = live w) by (subst w1; reflexivity).
  destruct (lookup_hist zp (pidhist w)) as [i|] eqn:EL.
  - apply lookup_hist_in in EL.
    destruct (finish_run U pconfs i zp st w1 K1 EL) as (w2 & E2 & Ep0 & K3).
    unfold bind at 1. rewrite E2. unfold bind at 1. unfold modw at 1.
    pose proof (finish_quiet U pconfs i st w1) as Eq. rewrite E2 in Eq. cbn [snd] in Eq. unfold obsG in Eq.
    pose proof (finish_quiet_waits i st w1) as Eqw. rewrite E2 in Eqw. cbn [snd] in Eqw. unfold obsW in Eqw.
    inversion Eq as [[Eh El Ezz En]].
    assert (T2 : TC w2).
    { pose proof (finish_TC U pconfs i st w1) as H. rewrite E2 in H. apply H. split; [|apply K_C1; exact K1].
      subst w1. exact HT. }
    set (w3 := set_pidhist _ w2).
    destruct (IH w3) as (w' & E' & K' & T' & Z' & L' & W').
    + exact K3.
    + split.
      * subst w1. cbn in Eh, El, Ezz, En.
        apply (G0_pop w zp st rest (filter (fun e => negb (fst e =? zp)) (pidhist w2)) w3 HG Ez); subst w3; cbn; rewrite ?Eh; auto.
        -- apply NoDup_keys_filter. apply HG.
        -- apply keys_filter_in.
      * intros j Hj. subst w3. cbn in *. destruct T2 as [T2 _]. specialize (T2 j Hj).
        apply filter_In. split; [exact T2|]. cbn. apply negb_true_iff. apply Z.eqb_neq. intros Eq'.
        rewrite Eq' in T2. rewrite Eh in T2. subst w1. cbn in T2.
        assert (j = i) by (eapply NoDup_keys_inj; [apply HG | exact T2 | exact EL]).
        subst j. congruence.
    + assert (Ez3 : zombies w3 = rest) by (subst w3; cbn [zombies set_pidhist]; congruence).
      assert (El3 : live w3 = live w) by (subst w3; cbn [live set_pidhist]; congruence).
      assert (Ew3 : waits (out w3) = (zp, st) :: waits (out w)) by (subst w3; cbn [out set_pidhist]; unfold obsW in Eqw; congruence).
      exists w'. split; [exact E' | split; [exact K' | split; [exact T' | split; [|split]]]].
      * rewrite Z', Ez3, ?Ezz. reflexivity.
      * rewrite L', El3, ?El. reflexivity.
      * rewrite W', Ez3, Ew3, ?Ezz. cbn [firstn rev]. rewrite <- app_assoc. reflexivity.
  - destruct (IH w1) as (w' & E' & K' & T' & Z' & L' & W').
    + exact K1.
    + split.
      * subst w1. apply (G0_pop w zp st rest (pidhist w) _ HG Ez); cbn; auto.
        -- apply HG.
        -- intros q Hq. split; [exact Hq|]. intros ->. exact (lookup_hist_none _ _ EL Hq).
      * exact HT.
    + exists w'. split; [exact E' | split; [exact K' | split; [exact T' | split; [|split]]]].
      * rewrite Z', Ez1. reflexivity.
      * rewrite L', El1. reflexivity.
      * rewrite W', Ez1, Ew1. cbn [firstn rev]. rewrite <- app_assoc. reflexivity.
Qed.

End WithConfig.
