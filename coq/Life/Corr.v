(* Correspondence entry points for the lifecycle model: run a script, collect
   the boundary snapshot seen at every poll() and the effect trace, and compare
   them with what the implementation produced. *)
From Coq Require Import ZArith List Bool Lia.
Import ListNotations.
Require Import SV.Common SV.Life.Model.
Open Scope Z_scope.

Definition rpc_dummy := 0.

Fixpoint insert_z (x : Z) (l : list Z) : list Z :=
  match l with [] => [x] | y :: r => if x <=? y then x :: l else y :: insert_z x r end.
Definition sort_z (l : list Z) : list Z := fold_right insert_z [] l.

Record snap := mkSnap { s_procs : list (Z * Z); s_live : list Z; s_zombies : list Z; s_hist : list Z; s_mood : Z }.

Definition snap_of (pc : list pconf) (w : world) : snap :=
  mkSnap (snapshot pc w) (live w) (map fst (zombies w)) (sort_z (map fst (pidhist w))) (mood w).

Fixpoint run_snaps (U : Z) (pc : list pconf) (gc : list gconf) (ops : list passop) (w : world) (acc : list snap)
  : world * list snap :=
  match ops with
  | [] => (w, rev acc)
  | o :: r =>
    if crashed w || exited w then (w, rev acc)
    else run_snaps U pc gc r (step U pc gc w o) (snap_of pc w :: acc)
  end.

Definition pair_eqb (a b : Z * Z) : bool := (fst a =? fst b) && (snd a =? snd b).
Definition snap_eqb (a b : snap) : bool :=
  list_eqb pair_eqb (s_procs a) (s_procs b) && zlist_eqb (s_live a) (s_live b)
  && zlist_eqb (s_zombies a) (s_zombies b) && zlist_eqb (s_hist a) (s_hist b) && (s_mood a =? s_mood b).

Definition nz_eqb (a b : nat * Z) : bool := Nat.eqb (fst a) (fst b) && (snd a =? snd b).

Definition effect_eqb (a b : effect) : bool :=
  match a, b with
  | EFork i p, EFork j q => Nat.eqb i j && (p =? q)
  | ESpawnFail i k, ESpawnFail j l => Nat.eqb i j && (k =? l)
  | EKill t s r, EKill t' s' r' => (t =? t') && (s =? s') && (r =? r')
  | EWait p s, EWait p' s' => (p =? p') && (s =? s')
  | EState i f t x e, EState j f' t' x' e' =>
    Nat.eqb i j && pstate_eqb f f' && pstate_eqb t t' && (x =? x') && Bool.eqb e e'
  | ESup s, ESup s' => s =? s'
  | EAns r a, EAns r' a' => (r =? r') && (a =? a')
  | EAnsAll r a, EAnsAll r' a' => (r =? r') && list_eqb nz_eqb a a'
  | ECrash _, ECrash _ => true
  | EExitNow, EExitNow => true
  | _, _ => false
  end.

Record lcase := mkCase {
  k_U : Z; k_pconfs : list pconf; k_gconfs : list gconf; k_ops : list passop;
  k_snaps : list snap; k_trace : list effect }.

Definition check_case (c : lcase) : bool :=
  let '(w, snaps) := run_snaps (k_U c) (k_pconfs c) (k_gconfs c) (k_ops c) world0 [] in
  list_eqb snap_eqb snaps (k_snaps c) && list_eqb effect_eqb (rev (out w)) (k_trace c).

(* for diagnostics: the model's own answer *)
Definition model_answer (c : lcase) : list snap * list effect :=
  let '(w, snaps) := run_snaps (k_U c) (k_pconfs c) (k_gconfs c) (k_ops c) world0 [] in
  (snaps, rev (out w)).
