(* supervisor/poller.py: PollPoller and SelectPoller, the readiness layer of the main
   loop (C06: a transient failure of the readiness call must not end the loop; stale
   descriptors must not be reported for ever).  Executable model over what the
   kernel object answers; compared with the real classes (driven over a fake `select`
   module) by the C06 check. *)
From Coq Require Import ZArith List Bool Lia.
Import ListNotations.
Open Scope Z_scope.

Definition EINTR := 4.
Definition EBADF := 9.
Definition POLLIN := 1.
Definition POLLPRI := 2.
Definition POLLOUT := 4.
Definition POLLHUP := 16.
Definition POLLNVAL := 32.
Definition READ := 19.   (* POLLIN | POLLPRI | POLLHUP *)
Definition WRITE := 4.   (* POLLOUT *)

(* Python sets of descriptors, kept as duplicate-free lists (compared as sets) *)
Fixpoint mem (x : Z) (l : list Z) : bool :=
  match l with [] => false | y :: r => (x =? y) || mem x r end.
Definition add (x : Z) (l : list Z) : list Z := if mem x l then l else x :: l.
Fixpoint del (x : Z) (l : list Z) : list Z :=
  match l with [] => [] | y :: r => if x =? y then del x r else y :: del x r end.

(* the kernel poll object's registry: descriptor -> event mask *)
Fixpoint kget (fd : Z) (g : list (Z * Z)) : option Z :=
  match g with [] => None | (f, m) :: r => if fd =? f then Some m else kget fd r end.
Fixpoint kdel (fd : Z) (g : list (Z * Z)) : list (Z * Z) :=
  match g with [] => [] | (f, m) :: r => if fd =? f then kdel fd r else (f, m) :: kdel fd r end.
Definition kset (fd m : Z) (g : list (Z * Z)) : list (Z * Z) := (fd, m) :: kdel fd g.

Record pst := mkP { reg : list (Z * Z); rs : list Z; ws : list Z }.
Definition p0 := mkP [] [] [].

Inductive kans :=
| KErr (e : Z)                        (* the call failed with errno e *)
| KEvents (l : list (Z * Z))          (* poll(): (descriptor, event mask) pairs *)
| KSel (r w : list Z).                (* select(): ready lists *)

Inductive pop := RegR (fd : Z) | RegW (fd : Z) | UnregR (fd : Z) | UnregW (fd : Z) | Poll (a : kans).

Inductive pout :=
| ODone                               (* returned None *)
| OKeyError                           (* select.poll.unregister of an unknown descriptor *)
| ORaise (e : Z)                      (* the OSError was re-raised *)
| OReady (r w : list Z).              (* poll() returned (readables, writables) *)

(* ---- PollPoller *)
Definition has (m bit : Z) : bool := negb (Z.land m bit =? 0).

(* the loop of PollPoller.poll over the kernel's answer; the flag is false when select.poll.unregister
   raised KeyError (a descriptor reported invalid that is not registered): the loop stops there *)
Fixpoint poll_events (l : list (Z * Z)) (s : pst) (r w : list Z) : pst * list Z * list Z * bool :=
  match l with
  | [] => (s, r, w, true)
  | (fd, m) :: rest =>
    if has m POLLNVAL then
      match kget fd (reg s) with
      | None => (s, r, w, false)
      | Some _ => poll_events rest (mkP (kdel fd (reg s)) (del fd (rs s)) (del fd (ws s))) r w
      end
    else
      poll_events rest s (if has m READ then r ++ [fd] else r) (if has m WRITE then w ++ [fd] else w)
  end.

Definition poll_step (s : pst) (o : pop) : pst * pout :=
  match o with
  | RegR fd => (mkP (kset fd READ (reg s)) (add fd (rs s)) (ws s), ODone)
  | RegW fd => (mkP (kset fd WRITE (reg s)) (rs s) (add fd (ws s)), ODone)
  | UnregR fd =>
    let s1 := mkP (reg s) (del fd (rs s)) (ws s) in
    match kget fd (reg s) with
    | None => (s1, OKeyError)
    | Some _ =>
      let g := kdel fd (reg s) in
      (mkP (if mem fd (ws s) then kset fd WRITE g else g) (rs s1) (ws s1), ODone)
    end
  | UnregW fd =>
    let s1 := mkP (reg s) (rs s) (del fd (ws s)) in
    match kget fd (reg s) with
    | None => (s1, OKeyError)
    | Some _ =>
      let g := kdel fd (reg s) in
      (mkP (if mem fd (rs s) then kset fd READ g else g) (rs s1) (ws s1), ODone)
    end
  | Poll (KErr e) => if e =? EINTR then (s, OReady [] []) else (s, ORaise e)
  | Poll (KEvents l) =>
    let '(s', r, w, ok) := poll_events l s [] [] in
    if ok then (s', OReady r w) else (s', OKeyError)
  | Poll (KSel _ _) => (s, ODone)      (* not an answer of poll() *)
  end.

(* ---- SelectPoller (reg is unused) *)
Definition select_step (s : pst) (o : pop) : pst * pout :=
  match o with
  | RegR fd => (mkP (reg s) (add fd (rs s)) (ws s), ODone)
  | RegW fd => (mkP (reg s) (rs s) (add fd (ws s)), ODone)
  | UnregR fd => (mkP (reg s) (del fd (rs s)) (ws s), ODone)
  | UnregW fd => (mkP (reg s) (rs s) (del fd (ws s)), ODone)
  | Poll (KErr e) =>
    if e =? EINTR then (s, OReady [] [])
    else if e =? EBADF then (mkP (reg s) [] [], OReady [] [])
    else (s, ORaise e)
  | Poll (KSel r w) => (s, OReady r w)
  | Poll (KEvents _) => (s, ODone)
  end.

Fixpoint runp (step : pst -> pop -> pst * pout) (s : pst) (ops : list pop) : pst * list pout :=
  match ops with
  | [] => (s, [])
  | o :: r => let '(s1, a) := step s o in let '(s2, l) := runp step s1 r in (s2, a :: l)
  end.

(* ---- correspondence: the harness records, for an operation list, the outputs of the real class and the
   final sets (sorted); sets are compared as sets *)
Fixpoint insert (x : Z) (l : list Z) : list Z :=
  match l with [] => [x] | y :: r => if x <=? y then x :: l else y :: insert x r end.
Definition sortz (l : list Z) : list Z := fold_right insert [] l.

Definition zl_eqb (a b : list Z) : bool :=
  (Nat.eqb (length a) (length b)) && forallb (fun p => fst p =? snd p) (combine a b).
Definition pout_eqb (a b : pout) : bool :=
  match a, b with
  | ODone, ODone | OKeyError, OKeyError => true
  | ORaise x, ORaise y => x =? y
  | OReady r w, OReady r' w' => zl_eqb r r' && zl_eqb w w'
  | _, _ => false
  end.
Fixpoint pouts_eqb (a b : list pout) : bool :=
  match a, b with
  | [], [] => true
  | x :: r, y :: r' => pout_eqb x y && pouts_eqb r r'
  | _, _ => false
  end.

Record pcase := mkPC { pc_select : bool; pc_ops : list pop; pc_outs : list pout; pc_rs : list Z; pc_ws : list Z;
                       pc_reg : list (Z * Z) }.

Definition sort_reg (g : list (Z * Z)) : list Z := sortz (map (fun e => fst e * 64 + snd e) g).

Definition check_pcase (c : pcase) : bool :=
  let '(s, outs) := runp (if pc_select c then select_step else poll_step) p0 (pc_ops c) in
  pouts_eqb outs (pc_outs c) &&
  zl_eqb (sortz (rs s)) (pc_rs c) && zl_eqb (sortz (ws s)) (pc_ws c) &&
  (pc_select c || zl_eqb (sort_reg (reg s)) (sort_reg (pc_reg c))).

(* ---------------------------------------------------------------------------------------------
   KQueuePoller (BSD / macOS; on Linux it is driven over a scripted select.kqueue).
   kreg is the kernel's filter registry as a list of (descriptor, filter). *)
Definition ENOENT := 2.
Definition KQ_READ := -1.
Definition KQ_WRITE := -2.

Definition pair_eqb (a b : Z * Z) : bool := (fst a =? fst b) && (snd a =? snd b).
Fixpoint pmem (x : Z * Z) (l : list (Z * Z)) : bool :=
  match l with [] => false | y :: r => pair_eqb x y || pmem x r end.
Definition padd (x : Z * Z) (l : list (Z * Z)) : list (Z * Z) := if pmem x l then l else x :: l.
Fixpoint pdel (x : Z * Z) (l : list (Z * Z)) : list (Z * Z) :=
  match l with [] => [] | y :: r => if pair_eqb x y then pdel x r else y :: pdel x r end.

Inductive kqop :=
| KRegR (fd e : Z) | KRegW (fd e : Z) | KUnregR (fd e : Z) | KUnregW (fd e : Z)   (* e: errno of the control() call, 0 = none *)
| KPoll (a : kans)                                                               (* KEvents pairs are (ident, filter) *)
| KDaemonize.                                                                    (* before_daemonize ; after_daemonize *)

(* what _kqueue_control does with the kernel's answer to one ADD / DELETE *)
Definition kq_control (add_it : bool) (fd flt e : Z) (g : list (Z * Z)) : list (Z * Z) * pout :=
  if e =? 0 then
    (if add_it then (padd (fd, flt) g, ODone)
     else if pmem (fd, flt) g then (pdel (fd, flt) g, ODone) else (g, ORaise ENOENT))
  else if e =? EBADF then (g, ODone)
  else (g, ORaise e).

Definition kq_step (s : pst) (o : kqop) : pst * pout :=
  match o with
  | KRegR fd e => let '(g, a) := kq_control true fd KQ_READ e (reg s) in (mkP g (add fd (rs s)) (ws s), a)
  | KRegW fd e => let '(g, a) := kq_control true fd KQ_WRITE e (reg s) in (mkP g (rs s) (add fd (ws s)), a)
  | KUnregR fd e => let '(g, a) := kq_control false fd KQ_READ e (reg s) in (mkP g (del fd (rs s)) (ws s), a)
  | KUnregW fd e => let '(g, a) := kq_control false fd KQ_WRITE e (reg s) in (mkP g (rs s) (del fd (ws s)), a)
  | KPoll (KErr e) => if e =? EINTR then (s, OReady [] []) else (s, ORaise e)
  | KPoll (KEvents l) =>
    (s, OReady (map fst (filter (fun p => snd p =? KQ_READ) l)) (map fst (filter (fun p => snd p =? KQ_WRITE) l)))
  | KPoll (KSel _ _) => (s, ODone)
  | KDaemonize =>
    (mkP (fold_right (fun fd g => padd (fd, KQ_WRITE) g) (fold_right (fun fd g => padd (fd, KQ_READ) g) [] (rs s)) (ws s))
         (rs s) (ws s), ODone)
  end.

Fixpoint runk (s : pst) (ops : list kqop) : pst * list pout :=
  match ops with
  | [] => (s, [])
  | o :: r => let '(s1, a) := kq_step s o in let '(s2, l) := runk s1 r in (s2, a :: l)
  end.

Record kcase := mkKC { kc_ops : list kqop; kc_outs : list pout; kc_rs : list Z; kc_ws : list Z; kc_reg : list (Z * Z) }.

(* filters are -1 / -2: shift them so that the sort key stays monotone *)
Definition sort_kreg (g : list (Z * Z)) : list Z := sortz (map (fun e => fst e * 4 + (snd e + 2)) g).

Definition check_kcase (c : kcase) : bool :=
  let '(s, outs) := runk p0 (kc_ops c) in
  pouts_eqb outs (kc_outs c) &&
  zl_eqb (sortz (rs s)) (kc_rs c) && zl_eqb (sortz (ws s)) (kc_ws c) &&
  zl_eqb (sort_kreg (reg s)) (sort_kreg (kc_reg c)).
