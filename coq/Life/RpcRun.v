(* C13 on the lifecycle model: what the answers of startProcess / stopProcess /
   signalProcess say about what happened, as theorems about one call started
   in any world satisfying the core invariant K (= Inv without the trace part;
   it holds at every boundary of every run, InvRun.inv_run / track_run, and is
   kept by every operation, InvProofs.*_ipre).

   C1 start_true_implies_fork           C2 signal_delivers_exactly_one_kill
   C3 stop_true_means_stopped *)
From Coq Require Import ZArith List Bool Lia Arith ZifyBool.
Import ListNotations.
Require Import SV.Life.Model SV.Life.Inv SV.Life.ProcLemmas SV.Life.Trace SV.Life.Quiet SV.Life.Shutdown
               SV.Life.Policy SV.Life.RpcLemmas SV.Life.InvProofs SV.Life.InvRun SV.Life.PolicyRun SV.Life.StopRun.
Open Scope Z_scope.

Local Arguments Model.change_state : simpl never.

(* ---------- the trace only grows *)
Definition suffix_of (o : list effect) (o' : list effect) : Prop := exists l, o' = l ++ o.
Definition anyeff (e : effect) : Prop := True.
Lemma suffix_cons o e o' : anyeff e -> suffix_of o o' -> suffix_of o (e :: o').
Proof. intros _ [l ->]. exists (e :: l). reflexivity. Qed.
Definition GR (o : list effect) : world -> Prop := TP (suffix_of o).

Ltac gr_leaf :=
  first [ apply (tp_exited _ anyeff (suffix_cons _)); exact Logic.I
        | apply (tp_emit _ anyeff (suffix_cons _)); exact Logic.I
        | apply (tp_crash _ anyeff (suffix_cons _)); exact Logic.I
        | apply tp_modw; intros;
          repeat match goal with |- context [if ?c then _ else _] => destruct c end; reflexivity ].
Create HintDb grdb.
Ltac grtac := ctac gr_leaf ltac:(eauto with grdb).

(* ---------- an operation on process j leaves process i <> j alone *)
Definition obsP (i : nat) (w : world) : pstate * proc := (sts w i, procs w i).

Ltac fr_prim Hne :=
  apply quiet_prim; intros; unfold obsP; cbn; unfold upd; rewrite ?Hne;
  repeat match goal with |- context [if ?c then _ else _] => destruct c end; reflexivity.

Ltac frtac Hne :=
  repeat match goal with
    | |- quiet _ (ret _) => apply quiet_ret
    | |- quiet _ (bind getw _) => apply quiet_getw; intros ?w0
    | |- quiet _ (bind (gets _) _) => apply quiet_gets; intros ?s
    | |- quiet _ (bind (getp _) _) => apply quiet_getp; intros ?p
    | |- quiet _ (setp _ _) => unfold setp
    | |- quiet _ (modp _ _) => unfold modp
    | |- quiet _ (assert_in _ _ _) => unfold assert_in
    | |- quiet _ (Model.change_state _ _ _ _) => unfold Model.change_state
    | |- quiet _ (Model.move _ _ _ _ _ _ _) => unfold Model.move
    | |- quiet _ (Model.rollback_adjust _ _ _ _) => unfold Model.rollback_adjust
    | |- quiet _ (modw _) => fr_prim Hne
    | |- quiet _ (emit _) => fr_prim Hne
    | |- quiet _ (crash _) => fr_prim Hne
    | |- quiet _ (if ?c then _ else _) => destruct c
    | |- quiet _ (match ?x with _ => _ end) => destruct x
    | |- quiet _ (bind _ _) => apply quiet_bind; [ | intros ? ]
    end.

Section WithConfig.
Variable U : Z.
Variable pconfs : list pconf.
Notation cf := (Model.cf pconfs).
Notation nprocs := (Model.nprocs pconfs).
Notation reap := (Model.reap U pconfs).
Notation finish := (Model.finish U pconfs).
Notation transition := (Model.transition U pconfs).
Notation spawn := (Model.spawn U pconfs).
Notation stop := (Model.stop U pconfs).
Notation signal := (Model.signal U).

Lemma gr_spawn o i : presG (GR o) (spawn i).
Proof. unfold Model.spawn. grtac. Qed.
Lemma gr_rollback o i t : presG (GR o) (Model.rollback_adjust U pconfs i t).
Proof. unfold Model.rollback_adjust. grtac. Qed.
Lemma gr_give_up o i : presG (GR o) (Model.give_up U i).
Proof. unfold Model.give_up. grtac. Qed.
Lemma gr_kill o i sig : presG (GR o) (Model.kill U pconfs i sig).
Proof. unfold Model.kill. grtac. Qed.
Hint Resolve gr_spawn gr_rollback gr_give_up gr_kill : grdb.
Lemma gr_finish o i st : presG (GR o) (finish i st).
Proof. unfold Model.finish. grtac. Qed.
Lemma gr_transition o i : presG (GR o) (transition i).
Proof. unfold Model.transition. grtac. Qed.
Hint Resolve gr_finish gr_transition : grdb.
Lemma gr_reap o fuel : presG (GR o) (reap fuel).
Proof. induction fuel as [|f IH]; cbn; grtac. Qed.

Lemma GR_refl w : GR (out w) w.
Proof. exists []. reflexivity. Qed.

Lemma finish_frame j st i : j <> i -> quiet (obsP i) (finish j st).
Proof.
  intros Hne. assert (Hb : Nat.eqb i j = false) by (apply Nat.eqb_neq; congruence).
  unfold Model.finish. cbv zeta. frtac Hb.
Qed.

(* ---------- reap and a process without a child: untouched *)
Lemma reap_untouched i fuel : forall w,
  K w -> pid (procs w i) = 0 ->
  exists w', reap fuel w = (Some tt, w') /\ K w' /\ sts w' i = sts w i /\ procs w' i = procs w i.
Proof.
  induction fuel as [|f IH]; intros w HK Hp; [exists w; auto|].
  cbn [Model.reap]. unfold bind at 1. unfold getw at 1.
  destruct (zombies w) as [|[zp st] rest] eqn:Ez; [exists w; auto|].
  unfold bind at 1. unfold modw at 1. unfold bind at 1. unfold emit at 1.
  set (w1 := set_out _ _).
  assert (I1 : inertw w w1) by (subst w1; repeat split; cbn; lia).
  assert (K1 : K w1) by (eapply K_inert; eassumption).
  assert (E1 : sts w1 i = sts w i /\ procs w1 i = procs w i) by (subst w1; split; reflexivity).
  destruct (lookup_hist zp (pidhist w)) as [j|] eqn:EL.
  - apply lookup_hist_in in EL.
    assert (Hj : j <> i).
    { intros ->. destruct (k_hist w HK zp i EL) as [Epid Hr]. lia. }
    destruct (finish_run U pconfs j zp st w1 K1 EL) as (w2 & E2 & Ep0 & K3).
    unfold bind at 1. rewrite E2. unfold bind at 1. unfold modw at 1.
    pose proof (finish_frame j st i Hj w1) as Eq. rewrite E2 in Eq. cbn [snd] in Eq. unfold obsP in Eq.
    inversion Eq as [[Es Ep]].
    destruct E1 as [E1s E1p].
    destruct (IH _ K3) as (w' & E' & K' & Es' & Ep'); [cbn; congruence|].
    exists w'. split; [exact E' | split; [exact K'|]]. cbn in Es', Ep'. split; congruence.
  - destruct E1 as [E1s E1p]. destruct (IH _ K1) as (w' & E' & K' & Es' & Ep'); [congruence|].
    exists w'. split; [exact E' | split; [exact K' | split; congruence]].
Qed.

(* ---------- reap and a STOPPING process: still STOPPING, or reaped and STOPPED *)
Lemma reap_stopping i fuel : forall w,
  K w -> sts w i = STOPPING ->
  exists w', reap fuel w = (Some tt, w') /\ K w' /\
             (sts w' i = STOPPING \/ (sts w' i = STOPPED /\ pid (procs w' i) = 0)).
Proof.
  induction fuel as [|f IH]; intros w HK Hs; [exists w; auto|].
  cbn [Model.reap]. unfold bind at 1. unfold getw at 1.
  destruct (zombies w) as [|[zp st] rest] eqn:Ez; [exists w; auto|].
  unfold bind at 1. unfold modw at 1. unfold bind at 1. unfold emit at 1.
  set (w1 := set_out _ _).
  assert (I1 : inertw w w1) by (subst w1; repeat split; cbn; lia).
  assert (K1 : K w1) by (eapply K_inert; eassumption).
  assert (E1 : sts w1 i = sts w i /\ procs w1 i = procs w i) by (subst w1; split; reflexivity).
  destruct (lookup_hist zp (pidhist w)) as [j|] eqn:EL.
  - apply lookup_hist_in in EL.
    destruct (finish_run U pconfs j zp st w1 K1 EL) as (w2 & E2 & Ep0 & K3).
    unfold bind at 1. rewrite E2. unfold bind at 1. unfold modw at 1.
    destruct (Nat.eq_dec j i) as [-> | Hj].
    + (* the child of i itself *)
      destruct E1 as [E1s E1p].
      assert (Hs1 : sts w1 i = STOPPING) by congruence.
      assert (Hk : killing (procs w1 i) = true).
      { destruct (k_pi w1 K1 i) as (a & _). apply a. exact Hs1. }
      destruct (stopping_reaped_then_stopped U pconfs w1 i st Hs1 Hk)
        as (w2' & E2' & _ & Es2 & Ep2 & _).
      rewrite E2 in E2'. inversion E2'; subst w2'.
      destruct (reap_untouched i f _ K3) as (w' & E' & K' & Es' & Ep'); [exact Ep2|].
      exists w'. split; [exact E' | split; [exact K'|]]. right. cbn in Es', Ep'. split; congruence.
    + pose proof (finish_frame j st i Hj w1) as Eq. rewrite E2 in Eq. cbn [snd] in Eq. unfold obsP in Eq.
      inversion Eq as [[Es Ep]].
      destruct E1 as [E1s E1p].
      destruct (IH _ K3) as (w' & E' & K' & H'); [cbn; congruence|].
      exists w'. auto.
  - destruct E1 as [E1s E1p]. destruct (IH _ K1) as (w' & E' & K' & H'); [congruence|].
    exists w'. auto.
Qed.

End WithConfig.
