(* C13 on the lifecycle model: what the answers of startProcess / stopProcess /
   signalProcess say about what happened, as theorems about one call started
   in any world satisfying the core invariant K (= Inv without the trace part;
   it holds at every boundary of every run, InvRun.inv_run / track_run, and is
   kept by every operation, InvProofs.*_ipre).

   C1 start_true_implies_fork           C2 signal_delivers_exactly_one_kill
   C3 stop_true_means_stopped *)
From Coq Require Import ZArith List Bool Lia Arith ZifyBool.
Import ListNotations.
Require Import SV.Life.Model SV.Life.Inv SV.Life.ProcLemmas SV.Life.Trace SV.Life.Quiet SV.Life.Shutdown
               SV.Life.Policy SV.Life.RpcLemmas SV.Life.InvProofs SV.Life.InvRun SV.Life.PolicyRun SV.Life.StopRun.
Open Scope Z_scope.

Local Arguments Model.change_state : simpl never.

(* ---------- the trace only grows *)
Definition suffix_of (o : list effect) (o' : list effect) : Prop := exists l, o' = l ++ o.
Definition anyeff (e : effect) : Prop := True.
Lemma suffix_cons o e o' : anyeff e -> suffix_of o o' -> suffix_of o (e :: o').
Proof. intros _ [l ->]. exists (e :: l). reflexivity. Qed.
Definition GR (o : list effect) : world -> Prop := TP (suffix_of o).

Ltac gr_leaf :=
  first [ apply (tp_exited _ anyeff (suffix_cons _)); exact Logic.I
        | apply (tp_emit _ anyeff (suffix_cons _)); exact Logic.I
        | apply (tp_crash _ anyeff (suffix_cons _)); exact Logic.I
        | apply tp_modw; intros;
          repeat match goal with |- context [if ?c then _ else _] => destruct c end; reflexivity ].
Create HintDb grdb.
Ltac grtac := ctac gr_leaf ltac:(eauto with grdb).

Section WithConfig.
Variable U : Z.
Variable pconfs : list pconf.
Notation cf := (Model.cf pconfs).
Notation nprocs := (Model.nprocs pconfs).
Notation reap := (Model.reap U pconfs).
Notation finish := (Model.finish U pconfs).
Notation transition := (Model.transition U pconfs).
Notation spawn := (Model.spawn U pconfs).
Notation stop := (Model.stop U pconfs).
Notation signal := (Model.signal U).

Lemma gr_spawn o i : presG (GR o) (spawn i).
Proof. unfold Model.spawn. grtac. Qed.
Lemma gr_rollback o i t : presG (GR o) (Model.rollback_adjust U pconfs i t).
Proof. unfold Model.rollback_adjust. grtac. Qed.
Lemma gr_give_up o i : presG (GR o) (Model.give_up U i).
Proof. unfold Model.give_up. grtac. Qed.
Lemma gr_kill o i sig : presG (GR o) (Model.kill U pconfs i sig).
Proof. unfold Model.kill. grtac. Qed.
Hint Resolve gr_spawn gr_rollback gr_give_up gr_kill : grdb.
Lemma gr_finish o i st : presG (GR o) (finish i st).
Proof. unfold Model.finish. grtac. Qed.
Lemma gr_transition o i : presG (GR o) (transition i).
Proof. unfold Model.transition. grtac. Qed.
Hint Resolve gr_finish gr_transition : grdb.
Lemma gr_reap o fuel : presG (GR o) (reap fuel).
Proof. induction fuel as [|f IH]; cbn; grtac. Qed.

Lemma GR_refl w : GR (out w) w.
Proof. exists []. reflexivity. Qed.

(* reap and a process without a child: PolicyRun.reap_untouched, in the form used below *)
Lemma reap_untouched i fuel w :
  K w -> pid (procs w i) = 0 ->
  exists w', reap fuel w = (Some tt, w') /\ K w' /\ sts w' i = sts w i /\ procs w' i = procs w i.
Proof.
  intros HK Hp. destruct (PolicyRun.reap_untouched U pconfs i fuel w HK Hp) as (w' & E & K' & Eo).
  exists w'. unfold obsN in Eo. inversion Eo. auto.
Qed.

(* ---------- reap and a STOPPING process: still STOPPING, or reaped and STOPPED *)
Lemma reap_stopping i fuel : forall w,
  K w -> sts w i = STOPPING ->
  exists w', reap fuel w = (Some tt, w') /\ K w' /\
             (sts w' i = STOPPING \/ (sts w' i = STOPPED /\ pid (procs w' i) = 0)).
Proof.
  induction fuel as [|f IH]; intros w HK Hs; [exists w; auto|].
  cbn [Model.reap]. unfold bind at 1. unfold getw at 1.
  destruct (zombies w) as [|[zp st] rest] eqn:Ez; [exists w; auto|].
  unfold bind at 1. unfold modw at 1. unfold bind at 1. unfold emit at 1.
  set (w1 := set_out _ _).
  assert (I1 : inertw w w1) by (subst w1; repeat split; cbn; lia).
  assert (K1 : K w1) by (eapply K_inert; eassumption).
  assert (E1 : sts w1 i = sts w i /\ procs w1 i = procs w i) by (subst w1; split; reflexivity).
  destruct (lookup_hist zp (pidhist w)) as [j|] eqn:EL.
  - apply lookup_hist_in in EL.
    destruct (finish_run U pconfs j zp st w1 K1 EL) as (w2 & E2 & Ep0 & K3).
    unfold bind at 1. rewrite E2. unfold bind at 1. unfold modw at 1.
    destruct (Nat.eq_dec j i) as [-> | Hj].
    + (* the child of i itself *)
      destruct E1 as [E1s E1p].
      assert (Hs1 : sts w1 i = STOPPING) by congruence.
      assert (Hk : killing (procs w1 i) = true).
      { destruct (k_pi w1 K1 i) as (a & _). apply a. exact Hs1. }
      destruct (stopping_reaped_then_stopped U pconfs w1 i st Hs1 Hk)
        as (w2' & E2' & _ & Es2 & Ep2 & _).
      rewrite E2 in E2'. inversion E2'; subst w2'.
      destruct (reap_untouched i f _ K3) as (w' & E' & K' & Es' & Ep'); [exact Ep2|].
      exists w'. split; [exact E' | split; [exact K'|]]. right. cbn in Es', Ep'. split; congruence.
    + pose proof (n_finish U pconfs i j Hj st w1) as Eq. rewrite E2 in Eq. cbn [snd] in Eq. unfold obsN in Eq.
      inversion Eq as [[Es Ep Eo]].
      destruct E1 as [E1s E1p].
      destruct (IH _ K3) as (w' & E' & K' & H'); [cbn; congruence|].
      exists w'. auto.
  - destruct E1 as [E1s E1p]. destruct (IH _ K1) as (w' & E' & K' & H'); [congruence|].
    exists w'. auto.
Qed.


(* ---------- what a call can answer: a predicate on the returned value only *)
Definition rv {A} (P : A -> Prop) (m : Model.M A) : Prop := forall w a w', m w = (Some a, w') -> P a.
Lemma rv_bind {A B} (P : B -> Prop) (m : Model.M A) (f : A -> Model.M B) : (forall a, rv P (f a)) -> rv P (bind m f).
Proof. intros H w b w' E. unfold bind in E. destruct (m w) as [[a|] w1]; [eapply H; exact E | discriminate E]. Qed.
Lemma rv_ret {A} (P : A -> Prop) (a : A) : P a -> rv P (ret a).
Proof. intros H w b w' E. inversion E; subst. exact H. Qed.

Ltac refuse E := exfalso; unfold ret in E; inversion E; try discriminate; try congruence.

Lemma K_pid_live w i : K w -> in_signallable_states (sts w i) = true -> pid (procs w i) <> 0.
Proof. intros HK Hs. destruct (k_pi w HK i) as (_ & _ & c & _). apply c. destruct (sts w i); try discriminate Hs; reflexivity. Qed.
Lemma K_pid_dead w i : K w -> dead_state (sts w i) = true -> pid (procs w i) = 0.
Proof. intros HK Hs. destruct (k_pi w HK i) as (_ & _ & _ & d). apply d. exact Hs. Qed.

(* C2: signalProcess answering `true` has delivered exactly one signal, the named one, to the pid of the
   named process's child (r = 0) or found the child gone (r = 1, ESRCH is not an error for signal());
   nothing else was emitted and no process changed *)
Theorem signal_delivers_exactly_one_kill w i sig w' :
  K w -> Model.signal_process U pconfs i sig true w = (Some (CDone 0), w') ->
  in_signallable_states (sts w i) = true /\ pid (procs w i) <> 0 /\
  exists r, (r = 0 \/ r = 1) /\ out w' = EKill (pid (procs w i)) sig r :: out w /\
            forall j, sts w' j = sts w j /\ procs w' j = procs w j.
Proof.
  intros HK E. unfold Model.signal_process in E. unfold bind at 1 in E. unfold getw at 1 in E. cbv beta in E.
  destruct (mood w <? 1); [refuse E|].
  destruct (Nat.ltb i nprocs); cbn [negb] in E; [|refuse E].
  unfold bind at 1 in E. unfold gets at 1 in E. cbv beta in E.
  destruct (in_signallable_states (sts w i)) eqn:Es; cbn [negb] in E; [|refuse E].
  pose proof (K_pid_live w i HK Es) as Hp.
  destruct (sx_world i (signal i sig) w (signal_post i sig (sts w i) (procs w i) (out w))) as (b & w1 & E1 & F & HQ).
  { apply signal_sx; assumption. }
  unfold bind in E. rewrite E1 in E.
  split; [reflexivity | split; [exact Hp|]].
  destruct HQ as [(r & Hr & -> & Hs' & Hp' & Ho) | (-> & _)]; [|refuse E].
  unfold ret in E. inversion E; subst w1. exists r. split; [exact Hr | split; [exact Ho|]].
  intros j. destruct (Nat.eq_dec j i) as [-> | Hj]; [auto|]. destruct F as (_ & _ & _ & F). exact (F j Hj).
Qed.

(* stop_process / start_process with the fuel of reap_all as a parameter: the proofs below are done for an
   abstract fuel (conversion problems that mention the closed term `reap 100` make the kernel unfold it) *)
Definition stop_process_f (fuel : nat) (i : nat) (wait : bool) : Model.M callres :=
  bind getw (fun w =>
  if mood w <? 1 then ret (CDone F_SHUTDOWN_STATE)
  else if negb (Nat.ltb i nprocs) then ret (CDone F_BAD_NAME)
  else
    bind (gets i) (fun s =>
    if negb (in_running_states s) then ret (CDone F_NOT_RUNNING)
    else
      bind (stop i) (fun err =>
      if err then ret (CDone F_FAILED)
      else
        bind (reap fuel) (fun _ =>
        bind (gets i) (fun s =>
        if wait && negb (in_stopped_states s) then ret CDefer
        else ret (CDone 0)))))).

Lemma stop_process_f_eq i wait : Model.stop_process U pconfs i wait = stop_process_f 100 i wait.
Proof. unfold Model.stop_process, stop_process_f, reap_all. reflexivity. Qed.

Definition start_rest (fuel : nat) (i : nat) (wait : bool) : Model.M callres :=
  bind (reap fuel) (fun _ =>
  bind (getp i) (fun p =>
  if spawnerr p then ret (CDone F_SPAWN_ERROR)
  else bind (transition i) (fun _ => bind (gets i) (fun s =>
       if wait && negb (pstate_eqb s RUNNING) then ret CDefer else ret (CDone 0))))).

Definition start_process_f (fuel : nat) (i : nat) (wait : bool) : Model.M callres :=
  bind getw (fun w =>
  if mood w <? 1 then ret (CDone F_SHUTDOWN_STATE)
  else if negb (Nat.ltb i nprocs) then ret (CDone F_BAD_NAME)
  else
    match c_cmd (cf i) with
    | CmdNotFound => ret (CDone F_NO_FILE)
    | CmdNotExec => ret (CDone F_NOT_EXECUTABLE)
    | CmdOk =>
      bind (gets i) (fun s =>
      if in_running_states s then ret (CDone F_ALREADY_STARTED)
      else if pstate_eqb s UNKNOWN then ret (CDone F_FAILED)
      else bind (spawn i) (fun _ => start_rest fuel i wait))
    end).

Lemma start_process_f_eq i wait : Model.start_process U pconfs i wait = start_process_f 100 i wait.
Proof. unfold Model.start_process, start_process_f, start_rest, reap_all. reflexivity. Qed.

(* C3: stopProcess(wait=true) answering `true` at once: the process is STOPPED and has no child *)
Lemma stop_true_means_stopped_f fuel w i w' :
  K w -> stop_process_f fuel i true w = (Some (CDone 0), w') ->
  K w' /\ sts w' i = STOPPED /\ pid (procs w' i) = 0.
Proof.
  intros HK E. unfold stop_process_f in E.
  unfold bind at 1 in E. unfold getw at 1 in E. cbv beta in E.
  destruct (mood w <? 1); [refuse E|].
  destruct (Nat.ltb i nprocs); cbn [negb] in E; [|refuse E].
  unfold bind at 1 in E. unfold gets at 1 in E. cbv beta in E.
  destruct (in_running_states (sts w i)) eqn:Es; cbn [negb] in E; [|refuse E].
  assert (Hkill : killable (sts w i) = true) by (destruct (sts w i); try discriminate Es; reflexivity).
  destruct (stop_ipre U pconfs i (sts w i) Hkill w HK eq_refl) as (b0 & w1' & E0 & K1).
  unfold bind at 1 in E.
  destruct (sts w i) eqn:Hs; try discriminate Es.
  - (* STARTING *)
    destruct (sx_world i (stop i) w (kill_post U pconfs i (c_stopsignal (cf i)) (sts w i) (p_admin (procs w i) true) (out w) (now w)))
      as (b & w1 & E1 & F & HQ).
    { apply stop_sx; [rewrite Hs; reflexivity | apply K_pid_live; [exact HK | rewrite Hs; reflexivity]]. }
    rewrite E1 in E0. inversion E0; subst b0 w1'. rewrite E1 in E.
    destruct (kill_post_shape _ _ _ _ _ _ _ _ _ _ _ _ HQ) as (r & Hr & Eb & Es1 & _).
    destruct (r =? 2); subst b; [refuse E|].
    destruct (reap_stopping i fuel w1 K1 Es1) as (w2 & E2 & K2 & H2).
    unfold bind at 1 in E. rewrite E2 in E. unfold bind, gets in E.
    destruct H2 as [H2 | [H2 H3]]; rewrite H2 in E; cbn in E; [refuse E|].
    unfold ret in E. inversion E; subst w2. auto.
  - (* RUNNING *)
    destruct (sx_world i (stop i) w (kill_post U pconfs i (c_stopsignal (cf i)) (sts w i) (p_admin (procs w i) true) (out w) (now w)))
      as (b & w1 & E1 & F & HQ).
    { apply stop_sx; [rewrite Hs; reflexivity | apply K_pid_live; [exact HK | rewrite Hs; reflexivity]]. }
    rewrite E1 in E0. inversion E0; subst b0 w1'. rewrite E1 in E.
    destruct (kill_post_shape _ _ _ _ _ _ _ _ _ _ _ _ HQ) as (r & Hr & Eb & Es1 & _).
    destruct (r =? 2); subst b; [refuse E|].
    destruct (reap_stopping i fuel w1 K1 Es1) as (w2 & E2 & K2 & H2).
    unfold bind at 1 in E. rewrite E2 in E. unfold bind, gets in E.
    destruct H2 as [H2 | [H2 H3]]; rewrite H2 in E; cbn in E; [refuse E|].
    unfold ret in E. inversion E; subst w2. auto.
  - (* BACKOFF: the retry is cancelled, STOPPED at once *)
    destruct (stop_cancels_backoff U pconfs w i Hs) as (w1 & E1 & F & Es1 & Ep1 & _).
    rewrite E1 in E0. inversion E0; subst b0 w1'. rewrite E1 in E.
    assert (Hp1 : pid (procs w1 i) = 0).
    { rewrite Ep1. autorewrite with procdb. apply K_pid_dead; [exact HK | rewrite Hs; reflexivity]. }
    destruct (reap_untouched i fuel w1 K1 Hp1) as (w2 & E2 & K2 & Es2 & Ep2).
    unfold bind at 1 in E. rewrite E2 in E. unfold bind, gets in E. rewrite Es2, Es1 in E. cbn in E.
    unfold ret in E. inversion E; subst w2. split; [exact K2 | split; congruence].
Qed.

Theorem stop_true_means_stopped w i w' :
  K w -> Model.stop_process U pconfs i true w = (Some (CDone 0), w') ->
  K w' /\ sts w' i = STOPPED /\ pid (procs w' i) = 0.
Proof. intros HK E. rewrite stop_process_f_eq in E. exact (stop_true_means_stopped_f 100 w i w' HK E). Qed.

(* ... and the deferred form: the poll callback answers `true` only in a stopped state; the world is not
   changed; the process has no child unless it is UNKNOWN (a kill that failed with an error other than
   ESRCH leaves the pid in place) *)
Theorem stop_onwait_true_means_stopped w i w' :
  K w -> Model.stop_onwait U pconfs i w = (Some (Some 0), w') ->
  w' = w /\ in_stopped_states (sts w i) = true /\ (sts w i <> UNKNOWN -> pid (procs w i) = 0).
Proof.
  intros HK E. unfold Model.stop_onwait, bind, getw, gets in E.
  destruct (sts w i) eqn:Hs; cbn in E; try (refuse E; fail).
  all: assert (Ew : w' = w) by (unfold ret in E; congruence).
  all: split; [exact Ew|]. all: split; [reflexivity|]. all: intros Hn; try congruence.
  all: apply K_pid_dead; [exact HK | rewrite Hs; reflexivity].
Qed.

(* C1: the answers of startProcess *)
Lemma gr_start_rest o fuel i wait : presG (GR o) (start_rest fuel i wait).
Proof. unfold start_rest. pose proof gr_reap. grtac. Qed.

Lemma rv_start_rest fuel i wait :
  rv (fun c => c = CDone F_SPAWN_ERROR \/ c = CDefer \/ c = CDone 0) (start_rest fuel i wait).
Proof.
  unfold start_rest. apply rv_bind; intros _. apply rv_bind; intros p.
  destruct (spawnerr p); [apply rv_ret; auto|]. apply rv_bind; intros _. apply rv_bind; intros s.
  destruct (wait && negb (pstate_eqb s RUNNING)); apply rv_ret; auto.
Qed.

(* (a) an answer other than true / deferred / SPAWN_ERROR is a pure refusal *)
Lemma start_fault_is_pure_f fuel w i wait code w' :
  start_process_f fuel i wait w = (Some (CDone code), w') ->
  code <> 0 -> code <> F_SPAWN_ERROR -> w' = w.
Proof.
  intros E H0 H1. unfold start_process_f in E.
  unfold bind at 1 in E. unfold getw at 1 in E. cbv beta in E.
  destruct (mood w <? 1); [unfold ret in E; inversion E; reflexivity|].
  destruct (Nat.ltb i nprocs); cbn [negb] in E; [|unfold ret in E; inversion E; reflexivity].
  destruct (c_cmd (cf i)); try (unfold ret in E; inversion E; reflexivity).
  unfold bind at 1 in E. unfold gets at 1 in E. cbv beta in E.
  destruct (in_running_states (sts w i)); [unfold ret in E; inversion E; reflexivity|].
  destruct (pstate_eqb (sts w i) UNKNOWN); [unfold ret in E; inversion E; reflexivity|].
  exfalso.
  unfold bind at 1 in E. destruct (spawn i w) as [[u|] w1]; [|discriminate E].
  destruct (rv_start_rest fuel i wait _ _ _ E) as [H | [H | H]]; inversion H; congruence.
Qed.

Theorem start_fault_is_pure w i wait code w' :
  Model.start_process U pconfs i wait w = (Some (CDone code), w') ->
  code <> 0 -> code <> F_SPAWN_ERROR -> w' = w.
Proof. intros E. rewrite start_process_f_eq in E. exact (start_fault_is_pure_f 100 w i wait code w' E). Qed.

(* (b) `true` (or a deferred answer) means that this call forked a child for the process, unless the
   process was STOPPING when the request arrived (the known finding: nothing is started then) *)
Lemma start_true_implies_fork_f fuel w i wait c w' :
  K w -> start_process_f fuel i wait w = (Some c, w') -> c = CDone 0 \/ c = CDefer ->
  sts w i = STOPPING \/
  (spawnable_state (sts w i) = true /\
   exists np l, out w' = l ++ EFork i np :: EState i (sts w i) STARTING (backoff (procs w i)) true :: out w).
Proof.
  intros HK E Hc. unfold start_process_f in E.
  unfold bind at 1 in E. unfold getw at 1 in E. cbv beta in E.
  assert (Hne : forall code w0, (Some (CDone code), w0) = (Some c, w') -> code <> 0 -> False).
  { intros code w0 E0 Hn. inversion E0; subst. destruct Hc as [Hc | Hc]; inversion Hc; congruence. }
  destruct (mood w <? 1); [exfalso; eapply Hne; [exact E | discriminate]|].
  destruct (Nat.ltb i nprocs); cbn [negb] in E; [|exfalso; eapply Hne; [exact E | discriminate]].
  destruct (c_cmd (cf i)); try (exfalso; eapply Hne; [exact E | discriminate]).
  unfold bind at 1 in E. unfold gets at 1 in E. cbv beta in E.
  destruct (in_running_states (sts w i)) eqn:Er; [exfalso; eapply Hne; [exact E | discriminate]|].
  destruct (pstate_eqb (sts w i) UNKNOWN) eqn:Eu; [exfalso; eapply Hne; [exact E | discriminate]|].
  destruct (sts w i) eqn:Hs; try discriminate Er; try discriminate Eu; [| left; reflexivity | |].
  all: right; split; [reflexivity|].
  all: assert (Hp : pid (procs w i) = 0) by (apply K_pid_dead; [exact HK | rewrite Hs; reflexivity]).
  all: assert (Hsp' : spawnable (sts w i) = true \/ sts w i = STOPPING) by (rewrite Hs; left; reflexivity).
  all: destruct (spawn_ipre U pconfs i (sts w i) Hsp' w HK eq_refl) as (u0 & w1' & E0 & K1).
  all: destruct (sx_world i (spawn i) w (spawn_post U pconfs i (sts w i) (procs w i) (out w) (now w)))
         as (u & w1 & E1 & F & HQ); [apply spawn_sx; [exact Hp | rewrite Hs; reflexivity]|].
  all: rewrite E1 in E0; inversion E0; subst u0 w1'; unfold bind at 1 in E; rewrite E1 in E.
  all: destruct HQ as [(np & _ & _ & _ & Eo) | (k & Es1 & Ep1 & _)].
  all: try (pose proof (gr_start_rest (out w1) fuel i wait w1 (GR_refl w1)) as HG; rewrite E in HG; destruct HG as [l El];
            exists np, l; cbn [snd] in El; rewrite El, Eo, Hs; reflexivity).
  all: exfalso.
  all: assert (Hp1 : pid (procs w1 i) = 0) by (rewrite Ep1; unfold spawn_fail_p, sp1; autorewrite with procdb; exact Hp).
  all: destruct (reap_untouched i fuel w1 K1 Hp1) as (w2 & E2 & K2 & Es2 & Ep2).
  all: unfold start_rest in E; unfold bind at 1 in E; rewrite E2 in E; unfold bind at 1 in E; unfold getp at 1 in E;
       rewrite Ep2, Ep1 in E; unfold spawn_fail_p at 1 in E; autorewrite with procdb in E.
  all: eapply Hne; [exact E | discriminate].
Qed.

Theorem start_true_implies_fork w i wait c w' :
  K w -> Model.start_process U pconfs i wait w = (Some c, w') -> c = CDone 0 \/ c = CDefer ->
  sts w i = STOPPING \/
  (spawnable_state (sts w i) = true /\
   exists np l, out w' = l ++ EFork i np :: EState i (sts w i) STARTING (backoff (procs w i)) true :: out w).
Proof. intros HK E. rewrite start_process_f_eq in E. exact (start_true_implies_fork_f 100 w i wait c w' HK E). Qed.

End WithConfig.

(* ====================================================================== *)
(* Every boundary of every run satisfies the hypothesis K of the theorems above *)
Theorem K_run U pconfs gconfs ops : K (Model.run U pconfs gconfs ops).
Proof. apply (pend_no_todo_run U pconfs gconfs ops). Qed.

(* Examples: the calls of the theorems above on concrete boundaries *)
Definition ex_manual : pconf := mkConf 1 3 10 15 999 false ARUnexpected [0] false false CmdOk 0%nat.

(* C1: startProcess(wait=false) on a STOPPED process answers true, having forked *)
Example start_true_implies_fork_example :
  let w := Model.run 10 [ex_manual] ex_g [mkPass 5 [] [0] []] in
  sts w 0%nat = STOPPED /\
  exists w', Model.start_process 10 [ex_manual] 0%nat false w = (Some (CDone 0), w') /\
             out w' = EFork 0%nat 1000 :: EState 0%nat STOPPED STARTING 0 true :: out w.
Proof. vm_compute. split; [reflexivity|]. eexists. split; reflexivity. Qed.

(* ... and the known finding: `true` on a STOPPING process, nothing forked *)
Example start_true_on_stopping_example :
  let w := Model.run 10 [ex_ok] ex_g [mkPass 5 [] [0] []; mkPass 30 [ARpc 1 (RStop 0%nat false)] [] [1]] in
  sts w 0%nat = STOPPING /\
  exists w', Model.start_process 10 [ex_ok] 0%nat false w = (Some (CDone 0), w') /\ out w' = out w.
Proof. vm_compute. split; [reflexivity|]. eexists. split; reflexivity. Qed.

(* C2 *)
Example signal_delivers_exactly_one_kill_example :
  let w := Model.run 10 [ex_ok] ex_g [mkPass 5 [] [0] []; mkPass 30 [] [] [1]] in
  exists w', Model.signal_process 10 [ex_ok] 0%nat 10 true w = (Some (CDone 0), w') /\
             out w' = EKill 1000 10 0 :: out w.
Proof. vm_compute. eexists. split; reflexivity. Qed.

(* C3: the child dies at once and is reaped inside the call *)
Example stop_true_means_stopped_example :
  let w := Model.run 10 [ex_ok] ex_g [mkPass 5 [] [0] []; mkPass 30 [] [] [0]] in
  exists w', Model.stop_process 10 [ex_ok] 0%nat true w = (Some (CDone 0), w') /\
             sts w' 0%nat = STOPPED /\ pid (procs w' 0%nat) = 0.
Proof. vm_compute. eexists. repeat split. Qed.

Example stop_onwait_true_means_stopped_example :
  let w := Model.run 10 [ex_ok] ex_g [mkPass 5 [] [0] []; mkPass 30 [ARpc 1 (RStop 0%nat false)] [] [0]] in
  Model.stop_onwait 10 [ex_ok] 0%nat w = (Some (Some 0), w).
Proof. vm_compute. reflexivity. Qed.

(* ---------- a finding about the model (and the code it transcribes): stopProcess(wait=true) can answer
   `true` while the child is alive.  UNKNOWN is one of the STOPPED_STATES, and a SIGKILL that fails with an
   error other than ESRCH (here EPERM, kill oracle 2) moves the STOPPING process to UNKNOWN with its pid in
   place: the deferred stop is then answered `true` (EAns 1 0) although pid 1000 is still live. *)
Example stop_answers_true_in_unknown_with_live_child :
  let w := Model.run 10 [ex_ok] ex_g
             [mkPass 5 [] [0] []; mkPass 30 [ARpc 1 (RStop 0%nat true)] [] [1]; mkPass 200 [] [] [2];
              mkPass 201 [APoll] [] []] in
  In (EAns 1 0) (out w) /\ sts w 0%nat = UNKNOWN /\ pid (procs w 0%nat) = 1000 /\ live w = [1000].
Proof. vm_compute. repeat split. auto. Qed.
