(* A generic way to show that an operation of the lifecycle model leaves an
   observable of the world alone: `quiet obs m` says m never changes `obs`.
   The property is closed under every monadic combinator, so it is proved for
   each model function by structural decomposition down to the seven base
   primitives (ret, getw, gets, getp, modw, emit, crash). *)
From Coq Require Import ZArith List Bool Lia Arith.
Import ListNotations.
Require Import SV.Life.Model.
Open Scope Z_scope.

Section Q.
Context {T : Type} (obs : world -> T).

Definition quiet {A} (m : Model.M A) : Prop := forall w, obs (snd (m w)) = obs w.

Lemma quiet_ret {A} (a : A) : quiet (ret a).
Proof. intros w. reflexivity. Qed.

Lemma quiet_bind {A B} (m : Model.M A) (f : A -> Model.M B) :
  quiet m -> (forall a, quiet (f a)) -> quiet (bind m f).
Proof.
  intros Hm Hf w. unfold bind. specialize (Hm w). destruct (m w) as [[a|] w1]; cbn in *.
  - rewrite Hf. exact Hm.
  - exact Hm.
Qed.

Lemma quiet_getw {B} (f : world -> Model.M B) : (forall w0, quiet (f w0)) -> quiet (bind getw f).
Proof. intros Hf w. unfold bind, getw. apply Hf. Qed.
Lemma quiet_gets {B} i (f : pstate -> Model.M B) : (forall s, quiet (f s)) -> quiet (bind (gets i) f).
Proof. intros Hf w. unfold bind, gets. apply Hf. Qed.
Lemma quiet_getp {B} i (f : proc -> Model.M B) : (forall p, quiet (f p)) -> quiet (bind (getp i) f).
Proof. intros Hf w. unfold bind, getp. apply Hf. Qed.

Lemma quiet_prim {A} (m : Model.M A) : (forall w, obs (snd (m w)) = obs w) -> quiet m.
Proof. intros H. exact H. Qed.

Lemma quiet_mapM {A} (f : A -> Model.M unit) (l : list A) : (forall x, quiet (f x)) -> quiet (mapM_ f l).
Proof.
  intros Hf. induction l as [|x l IH]; cbn; [apply quiet_ret | apply quiet_bind; [apply Hf | intros _; exact IH]].
Qed.

End Q.

Section G.
Variable P : world -> Prop.
Definition presG {A} (m : Model.M A) : Prop := forall w, P w -> P (snd (m w)).

Lemma presG_ret {A} (a : A) : presG (ret a).
Proof. intros w H. exact H. Qed.
Lemma presG_bind {A B} (m : Model.M A) (f : A -> Model.M B) :
  presG m -> (forall a, presG (f a)) -> presG (bind m f).
Proof.
  intros Hm Hf w H. unfold bind. specialize (Hm w H). destruct (m w) as [[a|] w1]; cbn in *.
  - apply Hf. exact Hm.
  - exact Hm.
Qed.
(* a read exposes that the world read satisfies P *)
Lemma presG_getw {B} (f : world -> Model.M B) : (forall w0, P w0 -> presG (f w0)) -> presG (bind getw f).
Proof. intros Hf w H. unfold bind, getw. apply (Hf w H w H). Qed.
Lemma presG_getw_at {B} (f : world -> Model.M B) : (forall w0, P w0 -> P (snd (f w0 w0))) -> presG (bind getw f).
Proof. intros Hf w H. unfold bind, getw. apply Hf. exact H. Qed.
Lemma presG_bind_at {A B} (m : Model.M A) (f : A -> Model.M B) w :
  P (snd (m w)) -> (forall a, presG (f a)) -> P (snd (bind m f w)).
Proof.
  intros Hm Hf. unfold bind. destruct (m w) as [[a|] w1]; cbn in *; [apply Hf; exact Hm | exact Hm].
Qed.
Lemma presG_gets {B} i (f : pstate -> Model.M B) : (forall s, presG (f s)) -> presG (bind (gets i) f).
Proof. intros Hf w H. unfold bind, gets. apply Hf. exact H. Qed.
Lemma presG_getp {B} i (f : proc -> Model.M B) : (forall p, presG (f p)) -> presG (bind (getp i) f).
Proof. intros Hf w H. unfold bind, getp. apply Hf. exact H. Qed.
Lemma presG_mapM {A} (f : A -> Model.M unit) (l : list A) : (forall x, presG (f x)) -> presG (mapM_ f l).
Proof.
  intros Hf. induction l as [|x l IH]; cbn; [apply presG_ret | apply presG_bind; [apply Hf | intros _; exact IH]].
Qed.
Lemma quiet_presG {T A} (obs : world -> T) (m : Model.M A) :
  (forall w w', obs w' = obs w -> P w -> P w') -> quiet obs m -> presG m.
Proof. intros HP Hq w H. apply (HP w). apply Hq. exact H. Qed.
End G.

Ltac qprim :=
  apply quiet_prim; intros; cbn;
  repeat match goal with |- context [if ?c then _ else _] => destruct c end; reflexivity.

Ltac qtac :=
  repeat match goal with
    | |- quiet _ (ret _) => apply quiet_ret
    | |- quiet _ (bind getw _) => apply quiet_getw; intros ?w0
    | |- quiet _ (bind (gets _) _) => apply quiet_gets; intros ?s
    | |- quiet _ (bind (getp _) _) => apply quiet_getp; intros ?p
    | |- quiet _ (setp _ _) => unfold setp
    | |- quiet _ (modp _ _) => unfold modp
    | |- quiet _ (assert_in _ _ _) => unfold assert_in
    | |- quiet _ (Model.change_state _ _ _ _) => unfold Model.change_state
    | |- quiet _ (Model.move _ _ _ _ _ _ _) => unfold Model.move
    | |- quiet _ (Model.kill_mark _ _ _ _) => unfold Model.kill_mark
    | |- quiet _ (k_kill _ _) => unfold k_kill
    | |- quiet _ (modw _) => qprim
    | |- quiet _ (emit _) => qprim
    | |- quiet _ (crash _) => qprim
    | |- quiet _ (mapM_ _ _) => apply quiet_mapM; intros
    | |- quiet _ (if ?c then _ else _) => destruct c
    | |- quiet _ (match ?x with _ => _ end) => destruct x
    | |- quiet _ (bind _ _) => apply quiet_bind; [ | intros ? ]
    | |- quiet _ _ => solve [eauto with quietdb]
    end.
