(* C03 / C04: the timing and policy decisions of the lifecycle model, proved for
   every configuration, clock reading and process record.

   The decisions are taken by small pure pieces of the model (adjust_times,
   the guards of transition / finish, change_state's BACKOFF bookkeeping); the
   theorems below characterise each of them.  Readings are integers in ticks,
   U ticks per second. *)
From Coq Require Import ZArith List Bool Lia Arith ZifyBool.
Import ListNotations.
Require Import SV.Life.Model SV.Life.ProcLemmas.
Open Scope Z_scope.

Section WithConfig.
Variable U : Z.
Hypothesis U_pos : 0 < U.
Variable pconfs : list pconf.
Notation cf := (Model.cf pconfs).
Notation too_quickly := (Model.too_quickly U).
Notation running_due := (Model.running_due U).

(* ---- clock rollback never postpones a deadline beyond the configured wait after the jump *)
Lemma c04_rollback_bound c t p :
  delay p > 0 ->
  delay (adjust_times U STOPPING c t p) <= Z.max (delay p) (t + c_stopwaitsecs c * U) /\
  (t < delay p - c_stopwaitsecs c * U -> delay (adjust_times U STOPPING c t p) = t + c_stopwaitsecs c * U) /\
  (t >= delay p - c_stopwaitsecs c * U -> delay (adjust_times U STOPPING c t p) = delay p).
Proof.
  intros Hd. unfold adjust_times.
  destruct ((delay p >? 0) && (t <? delay p - c_stopwaitsecs c * U)) eqn:E; autorewrite with procdb; lia.
Qed.

Lemma c04_deadline_within_wait c t p :
  delay p > 0 -> delay (adjust_times U STOPPING c t p) <= t + c_stopwaitsecs c * U \/
                 delay (adjust_times U STOPPING c t p) = delay p.
Proof. intros Hd. destruct (c04_rollback_bound c t p Hd) as (_ & H1 & H2). lia. Qed.

Lemma c03_backoff_rollback_bound c t p :
  delay p > 0 ->
  (t < delay p - backoff p * U -> delay (adjust_times U BACKOFF c t p) = t + backoff p * U) /\
  (t >= delay p - backoff p * U -> delay (adjust_times U BACKOFF c t p) = delay p) /\
  backoff (adjust_times U BACKOFF c t p) = backoff p.
Proof.
  intros Hd. unfold adjust_times.
  destruct ((delay p >? 0) && (t <? delay p - backoff p * U)) eqn:E; autorewrite with procdb; lia.
Qed.

Lemma c03_starting_rollback c t p :
  laststart (adjust_times U STARTING c t p) = Z.min t (laststart p).
Proof.
  unfold adjust_times. cbv zeta.
  destruct (t <? laststart p) eqn:E1.
  - destruct ((delay (p_laststart p t) >? 0) && (t <? delay (p_laststart p t) - c_startsecs c * U));
      autorewrite with procdb; lia.
  - destruct ((delay p >? 0) && (t <? delay p - c_startsecs c * U)); autorewrite with procdb; lia.
Qed.

(* J4: a process that reached RUNNING is never treated as having exited too quickly *)

Lemma c03_running_not_too_quick c t p :
  too_quickly t (laststart (adjust_times U RUNNING c t p)) (c_startsecs c) = false.
Proof.
  unfold too_quickly, adjust_times.
  destruct ((t >? laststart p) && (t <? laststart p + c_startsecs c * U)) eqn:E; autorewrite with procdb;
    match goal with |- (if ?b then _ else _) = _ => destruct b eqn:E2 end; lia.
Qed.

(* the start succeeds only if the child stayed up longer than startsecs (timer edge of transition) *)

Lemma c03_running_due_strict now ls ss : running_due now ls ss = true <-> now - ls > ss * U.
Proof. unfold running_due. lia. Qed.

Lemma c03_exit_decision now ls ss :
  now > ls -> (too_quickly now ls ss = true <-> now - ls < ss * U).
Proof. intros H. unfold too_quickly. replace (now >? ls) with true by lia. lia. Qed.

Lemma c03_startsecs_zero_never_too_quick now ls : too_quickly now ls 0 = false.
Proof. unfold too_quickly. destruct (now >? ls) eqn:E; lia. Qed.

(* ---- retry bookkeeping done by change_state(BACKOFF): the k-th failure sets the delay k seconds ahead *)
Lemma c03_backoff_step i e w :
  sts w i <> BACKOFF ->
  let w' := snd (Model.change_state U i BACKOFF e w) in
  backoff (procs w' i) = backoff (procs w i) + 1 /\
  delay (procs w' i) = now w + (backoff (procs w i) + 1) * U /\
  sts w' i = BACKOFF.
Proof.
  intros Hs. unfold Model.change_state, bind, gets, getw, getp, setp, modw, emit.
  destruct (pstate_eqb BACKOFF (sts w i)) eqn:E.
  - exfalso. apply Hs. destruct (sts w i); try discriminate; reflexivity.
  - cbn. unfold upd. rewrite Nat.eqb_refl. autorewrite with procdb. repeat split; reflexivity.
Qed.

(* the retry guard of transition: retried iff retries are left and the delay has strictly passed *)

Lemma c03_retry_iff c p now :
  retry_due c p now = true <-> backoff p <= c_startretries c /\ now > delay p.
Proof. unfold retry_due. lia. Qed.

Lemma c03_retry_or_give_up c p now :
  retry_due c p now = true -> give_up_due c p = false.
Proof. unfold retry_due, give_up_due. lia. Qed.

Lemma c03_no_retry_before_k_seconds c p now (t_fail : Z) :
  delay p = t_fail + backoff p * U -> retry_due c p now = true -> now > t_fail + backoff p * U.
Proof. unfold retry_due. lia. Qed.

(* ---- autorestart table *)

Lemma c03_autorestart_table c es :
  should_restart c es = true <->
  (c_autorestart c = ARAlways \/
   (c_autorestart c = ARUnexpected /\ match es with Some e => mem_z e (c_exitcodes c) = false | None => True end)).
Proof.
  unfold should_restart. destruct (c_autorestart c); split; intro H.
  - discriminate.
  - destruct H as [H|[H _]]; discriminate.
  - right. split; [reflexivity|]. destruct es; [destruct (mem_z z (c_exitcodes c)); [discriminate | reflexivity] | exact I].
  - destruct H as [H|[_ H]]; [discriminate|]. destruct es; [rewrite H; reflexivity | reflexivity].
  - left. reflexivity.
  - reflexivity.
Qed.

(* death by signal is decoded as exit status -1 *)
Lemma c03_signal_death_status s : 0 < s < 128 -> decode_es s = -1.
Proof.
  intros H. unfold decode_es.
  replace (Z.land s 127) with s.
  - replace (s =? 0) with false by lia. reflexivity.
  - symmetry. change 127 with (Z.ones 7). rewrite Z.land_ones by lia. apply Z.mod_small. change (2 ^ 7) with 128. lia.
Qed.

Lemma c03_exit_code_status c : 0 <= c < 256 -> decode_es (c * 256) = c.
Proof.
  intros H. unfold decode_es.
  assert (E1 : Z.land (c * 256) 127 = 0).
  { change 127 with (Z.ones 7). rewrite Z.land_ones by lia. change (2 ^ 7) with 128.
    replace (c * 256) with ((c * 2) * 128) by lia. apply Z_mod_mult. }
  rewrite E1. cbn [Z.eqb].
  rewrite Z.shiftr_div_pow2 by lia. change (2 ^ 8) with 256. rewrite Z_div_mult by lia.
  change 255 with (Z.ones 8). rewrite Z.land_ones by lia. apply Z.mod_small. change (2 ^ 8) with 256. lia.
Qed.

(* ---- SIGKILL escalation guard of transition *)

Lemma c04_kill_due_iff p now : kill_due p now = true <-> now >= delay p.
Proof. unfold kill_due. lia. Qed.

(* target selection of kill(): the stop signal goes to the group iff stopasgroup, SIGKILL iff killasgroup *)

Lemma c04_target c s pid :
  pid > 0 ->
  (s <> STOPPING -> (kill_target c s pid < 0 <-> c_stopasgroup c = true)) /\
  (s = STOPPING -> (kill_target c s pid < 0 <-> c_killasgroup c = true)) /\
  Z.abs (kill_target c s pid) = pid.
Proof.
  intros Hp. unfold kill_target. repeat split; intros.
  - destruct (pstate_eqb s STOPPING) eqn:E; [destruct s; try discriminate; congruence|].
    destruct (c_stopasgroup c); [reflexivity | lia].
  - destruct (pstate_eqb s STOPPING) eqn:E; [destruct s; try discriminate; congruence|].
    rewrite H0. lia.
  - subst s. cbn in *. destruct (c_killasgroup c); [reflexivity | lia].
  - subst s. cbn. rewrite H0. lia.
  - destruct (if pstate_eqb s STOPPING then c_killasgroup c else c_stopasgroup c); lia.
Qed.

End WithConfig.
