(* C10, part 1: model of supervisor.dispatchers.PEventListenerDispatcher
   (handle_read_event, handle_listener_state_change, handle_result,
   _change_listener_state) and of default_handler / RejectEvent
   (supervisor/dispatchers.py:285-488, 555-561).

   Bytes are list Z.  An event is represented by an identifier (Python
   compares and stores event objects by identity).  The fields of the record
   are the attributes the code reads and writes:
     l_state  = process.listener_state        l_event  = process.event
     l_buf    = dispatcher.state_buffer       l_rlen   = dispatcher.resultlen
     l_result = dispatcher.result             l_closed = dispatcher.closed
   The result handler (group.config.result_handler) and CPython's limit on the
   number of digits int() converts (sys.get_int_max_str_digits(), 0 = none)
   are explicit arguments.  No proofs in this file. *)
From Coq Require Import ZArith List Bool Lia.
Import ListNotations.
Require Import SV.Common SV.C10.Gen_tokens.
Open Scope Z_scope.

Definition bytes := list Z.
Definition ev := Z.
Definition zlen (c : bytes) : Z := Z.of_nat (length c).

Inductive lstate := ACK | READY | BUSY | UNKNOWN.

(* what calling the result handler does *)
Inductive hres := HOk | HReject | HRaise.
Definition handler := option ev -> bytes -> hres.

(* dispatchers.default_handler: `if response != b'OK': raise RejectEvent` *)
Definition default_handler : handler :=
  fun _ response => if zlist_eqb response OK_TOKEN then HOk else HReject.

(* observable effects, in program order *)
Inductive out :=
| OState (n : lstate)          (* _change_listener_state(n): process.listener_state = n *)
| ORejected (e : option ev)    (* notify(EventRejectedEvent(process, e)) *)
| OProcessed (e : option ev)   (* the result handler returned normally for event e *)
| OCrash.                      (* recursion fuel exhausted = RecursionError *)

Record listener := mkL {
  l_state : lstate; l_buf : bytes; l_rlen : option Z; l_result : bytes;
  l_event : option ev; l_closed : bool }.

(* PEventListenerDispatcher.__init__ *)
Definition lstate_of_code (c : Z) : lstate :=
  if c =? LS_CODE_ACK then ACK else if c =? LS_CODE_READY then READY
  else if c =? LS_CODE_BUSY then BUSY else UNKNOWN.
Definition fresh_listener : listener :=
  mkL (lstate_of_code INIT_LS_CODE) [] None [] None false.

(* ---- Python bytes primitives *)
Fixpoint starts_with (p l : bytes) : bool :=
  match p, l with
  | [], _ => true
  | a :: p', b :: l' => (a =? b) && starts_with p' l'
  | _ :: _, [] => false
  end.

(* data.find(b'\n'): index of the first LF *)
Fixpoint find_nl (l : bytes) : option nat :=
  match l with
  | [] => None
  | c :: r => if c =? 10 then Some O
              else match find_nl r with Some k => Some (S k) | None => None end
  end.

Definition is_digit (c : Z) : bool := (48 <=? c) && (c <=? 57).
(* bytes.isdigit(): non-empty, ASCII digits only *)
Definition is_digits (l : bytes) : bool :=
  match l with [] => false | _ => forallb is_digit l end.
(* int(b) for a string of ASCII digits *)
Definition dec_val (l : bytes) : Z := fold_left (fun a c => a * 10 + (c - 48)) l 0.
(* int() raises ValueError beyond the configured number of digits *)
Definition digits_ok (maxdig : Z) (l : bytes) : bool :=
  (maxdig <=? 0) || (zlen l <=? maxdig).

(* l[:n] and l[n:] for any Python int n (negative = from the end) *)
Definition py_upto (n : Z) (l : bytes) : bytes :=
  if n <? 0 then firstn (Z.to_nat (Z.max 0 (zlen l + n))) l
  else firstn (Z.to_nat (Z.min n (zlen l))) l.
Definition py_from (n : Z) (l : bytes) : bytes :=
  if n <? 0 then skipn (Z.to_nat (Z.max 0 (zlen l + n))) l
  else skipn (Z.to_nat (Z.min n (zlen l))) l.

Definition nonempty (l : bytes) : bool := match l with [] => false | _ => true end.

Definition ready_len : nat := length READY_TOKEN.      (* READY_FOR_EVENTS_LEN *)
Definition result_start_len : nat := length RESULT_START. (* RESULT_TOKEN_START_LEN *)

Section Model.
Variable h : handler.
Variable maxdig : Z.

(* One activation of handle_listener_state_change, without its recursive
   call.  The third component says whether control reaches one of the two
   `if self.state_buffer: self.handle_listener_state_change()` statements. *)
Definition step1 (s : listener) : listener * list out * bool :=
  let buf := l_buf s in
  match buf with
  | [] => (s, [], false)                               (* if not data: return *)
  | _ :: _ =>
    match l_state s with
    | UNKNOWN =>                                       (* fatal state: drop the data *)
      (mkL UNKNOWN [] (l_rlen s) (l_result s) (l_event s) (l_closed s), [], false)
    | ACK =>
      if zlen buf <? Z.of_nat ready_len then (s, [], false)
      else if starts_with READY_TOKEN buf then
        (mkL READY (skipn ready_len buf) (l_rlen s) (l_result s) None (l_closed s),
         [OState READY], true)
      else
        (mkL UNKNOWN [] (l_rlen s) (l_result s) None (l_closed s), [OState UNKNOWN], true)
    | READY =>                                         (* spurious data *)
      (mkL UNKNOWN [] (l_rlen s) (l_result s) None (l_closed s), [OState UNKNOWN], false)
    | BUSY =>
      match l_rlen s with
      | None =>
        match find_nl buf with
        | None => (s, [], false)
        | Some pos =>
          let line := firstn pos buf in
          let rest := skipn (S pos) buf in
          let digits := skipn result_start_len line in
          if starts_with RESULT_START line && is_digits digits && digits_ok maxdig digits then
            (mkL BUSY rest (Some (dec_val digits)) (l_result s) (l_event s) (l_closed s), [], true)
          else
            (mkL UNKNOWN [] None (l_result s) None (l_closed s),
             [OState UNKNOWN; ORejected (l_event s)], false)
        end
      | Some n =>
        let needed := n - zlen (l_result s) in
        let '(res1, buf1) :=
           if needed =? 0 then (l_result s, buf)
           else (l_result s ++ py_upto needed buf, py_from needed buf) in
        let needed1 := n - zlen res1 in
        if needed1 =? 0 then
          (* handle_result(self.result); process.event = None; result = b''; resultlen = None *)
          match h (l_event s) res1 with
          | HOk => (mkL ACK buf1 None [] None (l_closed s),
                    [OProcessed (l_event s); OState ACK], true)
          | HReject => (mkL ACK buf1 None [] None (l_closed s),
                        [OState ACK; ORejected (l_event s)], true)
          | HRaise => (mkL UNKNOWN buf1 None [] None (l_closed s),
                       [OState UNKNOWN; ORejected (l_event s)], true)
          end
        else (mkL BUSY buf1 (Some n) res1 (l_event s) (l_closed s), [], true)
      end
    end
  end.

(* handle_listener_state_change with explicit recursion fuel *)
Fixpoint run (fuel : nat) (s : listener) : listener * list out :=
  match fuel with
  | O => (s, [OCrash])
  | S f =>
    let '(s', o, again) := step1 s in
    if again && nonempty (l_buf s') then
      let '(s'', o') := run f s' in (s'', o ++ o')
    else (s', o)
  end.

(* The recursion is at most 4 deep whatever the buffer holds (ListenerProofs:
   run_no_crash, run_fuel_irrelevant); Python allows about 1000 frames. *)
Definition fuel0 : nat := 8.

Definition app_buf (s : listener) (d : bytes) : listener :=
  mkL (l_state s) (l_buf s ++ d) (l_rlen s) (l_result s) (l_event s) (l_closed s).

(* handle_read_event when readfd returned the non-empty string `data`
   (for data = [] this is handle_listener_state_change alone) *)
Definition feed (s : listener) (data : bytes) : listener * list out :=
  run fuel0 (app_buf s data).

(* handle_read_event when readfd returned b'': EOF, the dispatcher closes *)
Definition feed_eof (s : listener) : listener * list out :=
  run fuel0 (mkL (l_state s) (l_buf s) (l_rlen s) (l_result s) (l_event s) true).

(* handle_read_event *)
Definition read_event (s : listener) (data : bytes) : listener * list out :=
  match data with [] => feed_eof s | _ => feed s data end.

End Model.

(* ---- comparison helpers for the correspondence *)
Definition lstate_eqb (a b : lstate) : bool :=
  match a, b with
  | ACK, ACK | READY, READY | BUSY, BUSY | UNKNOWN, UNKNOWN => true
  | _, _ => false
  end.

Definition out_eqb (a b : out) : bool :=
  match a, b with
  | OState x, OState y => lstate_eqb x y
  | ORejected x, ORejected y => option_eqb Z.eqb x y
  | OProcessed x, OProcessed y => option_eqb Z.eqb x y
  | OCrash, OCrash => true
  | _, _ => false
  end.

Definition listener_eqb (a b : listener) : bool :=
  lstate_eqb (l_state a) (l_state b) && zlist_eqb (l_buf a) (l_buf b) &&
  option_eqb Z.eqb (l_rlen a) (l_rlen b) && zlist_eqb (l_result a) (l_result b) &&
  option_eqb Z.eqb (l_event a) (l_event b) && Bool.eqb (l_closed a) (l_closed b).

(* a second handler used by the correspondence runs: raises on a response that
   starts with '!' (33), accepts one that starts with 'O' (79), rejects the rest *)
Definition test_handler : handler :=
  fun _ response =>
    match response with
    | 33 :: _ => HRaise
    | 79 :: _ => HOk
    | _ => HReject
    end.

(* handler code used by the correspondence cases: 0 = default_handler, 1 = test_handler *)
Definition handler_of (k : Z) : handler := if k =? 0 then default_handler else test_handler.

(* int() of digit strings, checked against CPython by the correspondence
   (values compared modulo a prime to keep the literals short) *)
Definition check_int (cs : bytes * Z * option Z) : bool :=
  let '(b, maxdig, r) := cs in
  option_eqb Z.eqb (if is_digits b && digits_ok maxdig b then Some (dec_val b mod 1000000007) else None) r.
