(* C10: the parser refines the documented byte-at-a-time automaton. *)
From Coq Require Import ZArith List Bool Lia ZifyBool.
Import ListNotations.
Require Import SV.Common SV.C10.Gen_tokens SV.C10.Listener SV.C10.ListenerProofs SV.C10.Automaton.
Open Scope Z_scope.

Arguments zlen : simpl never.
Arguments Listener.run : simpl never.

(* the generated tokens are the documented ones: a change of
   READY_FOR_EVENTS_TOKEN / RESULT_TOKEN_START in dispatchers.py breaks this *)
Transparent READY_TOKEN RESULT_START.
Lemma ready_token_doc : READY_TOKEN = DOC_READY. Proof. reflexivity. Qed.
Lemma result_start_doc : RESULT_START = DOC_RESULT. Proof. reflexivity. Qed.
Lemma ready_len_6 : Z.of_nat ready_len = 6. Proof. reflexivity. Qed.
Lemma ready_len_nat : ready_len = 6%nat. Proof. reflexivity. Qed.
Lemma result_start_len_7 : result_start_len = 7%nat. Proof. reflexivity. Qed.
Opaque READY_TOKEN RESULT_START.

Lemma starts_with_len_eq p : forall l, length p = length l -> starts_with p l = zlist_eqb l p.
Proof.
  induction p as [|a p IH]; intros l H; destruct l as [|b l]; simpl in *; try discriminate; [reflexivity|].
  rewrite IH by lia. unfold zlist_eqb. simpl. rewrite (Z.eqb_sym a b). reflexivity.
Qed.

Lemma find_nl_snoc p c :
  find_nl p = None -> find_nl (p ++ [c]) = if c =? 10 then Some (length p) else None.
Proof.
  induction p as [|a p IH]; simpl; intros H.
  - destruct (c =? 10); reflexivity.
  - destruct (a =? 10); [discriminate|].
    destruct (find_nl p); [discriminate|]. rewrite IH by reflexivity. destruct (c =? 10); reflexivity.
Qed.

Lemma firstn_snoc_len {A} (p : list A) c : firstn (length p) (p ++ [c]) = p.
Proof. rewrite firstn_app, firstn_all, Nat.sub_diag. simpl. apply app_nil_r. Qed.
Lemma skipn_snoc_len {A} (p : list A) c : skipn (S (length p)) (p ++ [c]) = [].
Proof. apply skipn_all2. rewrite app_length. simpl. lia. Qed.
Lemma skipn_len_eq {A} (l : list A) n : length l = n -> skipn n l = [].
Proof. intros <-. apply skipn_all. Qed.

Lemma zlen_one c : zlen [c] = 1. Proof. reflexivity. Qed.

Section Proofs.
Variable h : handler.
Variable maxdig : Z.

Notation step1 := (Listener.step1 h maxdig).
Notation run := (Listener.run h maxdig).
Notation feed := (Listener.feed h maxdig).
Notation settle := (Automaton.settle h).
Notation settled := (Automaton.settled h).
Notation astep := (Automaton.astep h maxdig).
Notation proto_ref := (Automaton.proto_ref h maxdig).

Lemma good_line_doc line : good_line maxdig line = true -> doc_line_len maxdig line = Some (dec_val (skipn result_start_len line)).
Proof.
  unfold good_line, doc_line_len. rewrite result_start_doc, result_start_len_7. intros ->. reflexivity.
Qed.
Lemma bad_line_doc line : good_line maxdig line = false -> doc_line_len maxdig line = None.
Proof.
  unfold good_line, doc_line_len. rewrite result_start_doc, result_start_len_7. intros ->. reflexivity.
Qed.

(* every state reached by a read is stable *)
Lemma step1_stop_stable s :
  let '(s', o, again) := step1 s in
  again && nonempty (l_buf s') = false -> stable s'.
Proof.
  destruct s as [st buf rl res e cl].
  destruct buf as [|c buf].
  { rewrite step1_nil. intros _. unfold stable; simpl. destruct st; try reflexivity.
    destruct rl; reflexivity. }
  destruct st.
  - rewrite step1_ack.
    destruct (zlen (c :: buf) <? Z.of_nat ready_len) eqn:Sh.
    + intros _. unfold stable; simpl. rewrite ready_len_6 in Sh. lia.
    + destruct (starts_with READY_TOKEN (c :: buf)); simpl; intros K.
      * apply nonempty_false in K. unfold stable; simpl. exact K.
      * reflexivity.
  - rewrite step1_ready. intros _. reflexivity.
  - destruct rl as [n|].
    + rewrite step1_collect. destruct (collect n res (c :: buf)) as [res1 buf1].
      destruct (n - zlen res1 =? 0); [destruct (h e res1)|]; simpl; intros K;
        apply nonempty_false in K; subst buf1; unfold stable; simpl; try reflexivity; rewrite zlen_nil; lia.
    + rewrite step1_busy_none. destruct (find_nl (c :: buf)) eqn:NL.
      * destruct (good_line maxdig _); simpl; intros K.
        -- apply nonempty_false in K. unfold stable; simpl. exact K.
        -- reflexivity.
      * intros _. unfold stable; simpl. exact NL.
  - rewrite step1_unknown. intros _. reflexivity.
Qed.

Lemma run_stable f : forall s, wf s -> (rank s <= f)%nat -> stable (fst (run f s)).
Proof.
  induction f as [|f IH]; intros s W R; [pose proof (rank_pos s); lia|].
  rewrite run_S. pose proof (step1_stop_stable s) as St. pose proof (step1_wf h maxdig s W) as W'.
  destruct (step1 s) as [[s' o] again] eqn:E. simpl in W'.
  destruct (again && nonempty (l_buf s')) eqn:C; [|exact (St eq_refl)].
  apply andb_true_iff in C. destruct C as [-> C]. apply nonempty_true in C.
  pose proof (step1_rank_lt h maxdig s s' o W E C) as L.
  specialize (IH s' W' ltac:(lia)). destruct (run f s'). exact IH.
Qed.

Lemma feed_stable s a : wf s -> stable (fst (feed s a)).
Proof.
  intros W. apply run_stable; [apply wf_app_buf; exact W|].
  pose proof (rank_le_4 (app_buf s a)). unfold fuel0. lia.
Qed.

Lemma stable_feed_nil s : stable s -> feed s [] = (s, []).
Proof.
  destruct s as [st buf rl res e cl]. unfold stable, Listener.feed, app_buf, fuel0; simpl.
  rewrite app_nil_r. intros St.
  destruct buf as [|c buf]; [apply run_nil|].
  destruct st; try discriminate.
  - rewrite run_S, step1_ack. rewrite ready_len_6. replace (zlen (c :: buf) <? 6) with true by lia. reflexivity.
  - destruct rl; [discriminate|]. rewrite run_S, step1_busy_none, St. reflexivity.
Qed.

Lemma settle_ack buf rl res e cl :
  settle (mkL ACK buf rl res e cl) = (mkL ACK buf rl res e cl, []).
Proof. reflexivity. Qed.
Lemma settle_ready buf rl res e cl :
  settle (mkL READY buf rl res e cl) = (mkL READY buf rl res e cl, []).
Proof. reflexivity. Qed.
Lemma settle_unknown buf rl res e cl :
  settle (mkL UNKNOWN buf rl res e cl) = (mkL UNKNOWN buf rl res e cl, []).
Proof. reflexivity. Qed.
Lemma settle_busy_none buf res e cl :
  settle (mkL BUSY buf None res e cl) = (mkL BUSY buf None res e cl, []).
Proof. reflexivity. Qed.
Lemma settle_busy_some buf n res e cl :
  settle (mkL BUSY buf (Some n) res e cl) =
  if n - zlen res =? 0 then
    match h e res with
    | HOk => (mkL ACK buf None [] None cl, [OProcessed e; OState ACK])
    | HReject => (mkL ACK buf None [] None cl, [OState ACK; ORejected e])
    | HRaise => (mkL UNKNOWN buf None [] None cl, [OState UNKNOWN; ORejected e])
    end
  else (mkL BUSY buf (Some n) res e cl, []).
Proof. reflexivity. Qed.

Lemma settled_pair s o :
  settled (s, o) = let '(s', o') := settle s in (abs s', o ++ o').
Proof. reflexivity. Qed.

(* one byte into a stable state = pending zero-length completion, then one
   automaton step *)
Ltac fin := simpl; try rewrite settled_pair;
  rewrite ?settle_ack, ?settle_ready, ?settle_unknown, ?settle_busy_none; simpl; reflexivity.

Lemma one_byte s c :
  wf s -> stable s ->
  settled (feed s [c]) =
  let '(s0, o0) := settle s in let '(a, o) := astep (abs s0) c in (a, o0 ++ o).
Proof.
  destruct s as [st buf rl res e cl]. unfold wf, stable, Listener.feed, app_buf, fuel0; simpl.
  intros W St. destruct st.
  - (* ACKNOWLEDGED *)
    rewrite settle_ack. unfold abs; simpl. unfold Automaton.astep.
    assert (NE : exists d r, buf ++ [c] = d :: r) by (destruct buf; simpl; eauto).
    destruct NE as [d [r NE]]. rewrite NE.
    rewrite run_S, step1_ack. rewrite <- NE. rewrite ready_len_6.
    destruct (zlen (buf ++ [c]) <? 6) eqn:Sh.
    + simpl. fin.
    + assert (L6 : length (buf ++ [c]) = 6%nat).
      { rewrite zlen_app, zlen_one in Sh. unfold zlen in *. rewrite app_length. simpl. lia. }
      rewrite ready_token_doc, starts_with_len_eq by (rewrite L6; reflexivity).
      destruct (zlist_eqb (buf ++ [c]) DOC_READY).
      * rewrite ready_len_nat, (skipn_len_eq _ _ L6). simpl.
        fin.
      * simpl. fin.
  - (* READY *)
    subst buf. rewrite settle_ready. simpl. rewrite ?run_S, ?step1_ready. simpl.
    fin.
  - (* BUSY *)
    destruct rl as [n|].
    + subst buf. simpl.
      pose proof (zlen_nonneg res) as Hr.
      rewrite run_S, step1_collect. unfold collect.
      rewrite settle_busy_some.
      destruct (n - zlen res =? 0) eqn:N0.
      * (* a zero-length (or already complete) result was pending *)
        rewrite N0.
        destruct (h e res); simpl.
        -- rewrite ?run_S, ?step1_ack, ?ready_len_6. simpl.
           fin.
        -- rewrite ?run_S, ?step1_ack, ?ready_len_6. simpl.
           fin.
        -- rewrite ?run_unknown. fin.
      * rewrite py_upto_all, py_from_all by (rewrite zlen_one; lia).
        unfold abs; simpl. unfold Automaton.complete.
        destruct (n - zlen (res ++ [c]) =? 0) eqn:N1.
        -- destruct (h e (res ++ [c])); fin.
        -- simpl. try rewrite settled_pair; rewrite ?settle_busy_some, ?N1; simpl; rewrite ?N1; reflexivity.
    + subst res. rewrite settle_busy_none. unfold abs; simpl.
      assert (NE : exists d r, buf ++ [c] = d :: r) by (destruct buf; simpl; eauto).
      destruct NE as [d [r NE]]. rewrite NE.
      rewrite run_S, step1_busy_none. rewrite <- NE.
      rewrite (find_nl_snoc buf c St).
      destruct (c =? 10) eqn:C10.
      * rewrite firstn_snoc_len, skipn_snoc_len.
        destruct (good_line maxdig buf) eqn:G.
        -- rewrite (good_line_doc buf G). simpl.
           try rewrite settled_pair; rewrite ?settle_busy_some; simpl; rewrite ?zlen_nil, ?Z.sub_0_r.
           destruct (dec_val (skipn result_start_len buf) =? 0); [|reflexivity].
           unfold Automaton.complete. destruct (h e []); reflexivity.
        -- rewrite (bad_line_doc buf G). simpl.
           fin.
      * simpl. fin.
  - (* UNKNOWN *)
    subst buf. rewrite settle_unknown. simpl. rewrite ?run_unknown.
    fin.
Qed.

Theorem refines_automaton s stream :
  wf s -> stable s ->
  settled (feed s stream) =
  (let '(s0, o0) := settle s in
   let '(a, o) := proto_ref (abs s0) stream in (a, o0 ++ o)).
Proof.
  intros W St. induction stream as [|c x IH] using rev_ind.
  - rewrite (stable_feed_nil s St). unfold Automaton.settled.
    destruct (settle s) as [s0 o0]. simpl. rewrite app_nil_r. reflexivity.
  - rewrite (feed_frag h maxdig s x [c] W).
    pose proof (feed_wf h maxdig s x W) as W1. pose proof (feed_stable s x W) as St1.
    destruct (feed s x) as [s1 o1]. simpl in W1, St1.
    pose proof (one_byte s1 c W1 St1) as OB.
    destruct (feed s1 [c]) as [s2 o2].
    unfold Automaton.settled in *.
    destruct (settle s) as [s0 o0]. rewrite proto_ref_app.
    destruct (proto_ref (abs s0) x) as [a1 oa1].
    destruct (settle s1) as [s1' os1]. destruct (settle s2) as [s2' os2].
    simpl. destruct (astep a1 c) as [a2 oa2] eqn:A2.
    inversion IH as [[EA EO]]. subst a1. rewrite A2 in OB.
    inversion OB as [[EA2 EO2]].
    f_equal. rewrite app_nil_r. rewrite <- !app_assoc. rewrite EO2.
    rewrite !app_assoc. rewrite EO. reflexivity.
Qed.

End Proofs.

(* ---- the zero-length result: signature predicate, strict refinement outside
   it, and the witness that the unqualified statement is false of the code *)
Definition lagging_b (s : listener) : bool :=
  match l_state s, l_rlen s with
  | BUSY, Some n => n - zlen (l_result s) =? 0
  | _, _ => false
  end.

Lemma settle_not_lagging h s : lagging_b s = false -> settle h s = (s, []).
Proof.
  unfold lagging_b, settle. destruct (l_state s); try reflexivity.
  destruct (l_rlen s); [|reflexivity]. intros ->. reflexivity.
Qed.

Theorem refines_automaton_strict h maxdig s stream :
  wf s -> stable s -> lagging_b s = false ->
  lagging_b (fst (feed h maxdig s stream)) = false ->
  (abs (fst (feed h maxdig s stream)), snd (feed h maxdig s stream)) = proto_ref h maxdig (abs s) stream.
Proof.
  intros W St L0 L1. pose proof (refines_automaton h maxdig s stream W St) as R.
  rewrite (settle_not_lagging h s L0) in R.
  destruct (feed h maxdig s stream) as [s1 o1]. simpl in *.
  unfold settled in R. rewrite (settle_not_lagging h s1 L1) in R.
  destruct (proto_ref h maxdig (abs s) stream) as [a o]. rewrite app_nil_r in R. simpl in R. exact R.
Qed.

Definition busy7 : listener := mkL BUSY [] None [] (Some 7) false.
Definition RESULT0 : bytes := [82; 69; 83; 85; 76; 84; 32; 48; 10].        (* "RESULT 0\n" *)

Theorem zero_length_lag_refuted :
  exists s stream, wf s /\ stable s /\ lagging_b s = false /\
    abs (fst (feed default_handler 0 s stream)) <> fst (proto_ref default_handler 0 (abs s) stream).
Proof.
  exists busy7, RESULT0. split; [reflexivity|]. split; [reflexivity|]. split; [reflexivity|].
  vm_compute. discriminate.
Qed.

(* ---- examples: the hypotheses of the theorems are met by non-trivial values *)
Definition RESULT2_OK_READY : bytes :=
  [82; 69; 83; 85; 76; 84; 32; 50; 10; 79; 75; 82; 69; 65; 68; 89; 10].   (* "RESULT 2\nOKREADY\n" *)

Example ex_feed_whole :
  wf busy7 /\ stable busy7 /\
  feed default_handler 4300 busy7 RESULT2_OK_READY =
  (mkL READY [] None [] None false, [OProcessed (Some 7); OState ACK; OState READY]).
Proof. repeat split. Qed.

Example ex_feed_fragmented :
  let '(s1, o1) := feed default_handler 4300 busy7 (firstn 10 RESULT2_OK_READY) in
  let '(s2, o2) := feed default_handler 4300 s1 (skipn 10 RESULT2_OK_READY) in
  (s2, o1 ++ o2) = feed default_handler 4300 busy7 RESULT2_OK_READY /\ l_buf s1 = [] /\ l_result s1 = [79].
Proof. vm_compute. repeat split. Qed.

Example ex_unknown_absorbs :
  feed default_handler 4300 (mkL UNKNOWN [] None [] None false) RESULT2_OK_READY =
  (mkL UNKNOWN [] None [] None false, []).
Proof. reflexivity. Qed.

Example ex_bad_line_rejects_once :
  feed default_handler 4300 busy7 [82; 69; 83; 85; 76; 84; 32; 45; 49; 10; 88] =   (* "RESULT -1\nX" *)
  (mkL UNKNOWN [] None [] None false, [OState UNKNOWN; ORejected (Some 7)]).
Proof. reflexivity. Qed.

Example ex_zero_length_pending :
  feed default_handler 4300 busy7 RESULT0 = (mkL BUSY [] (Some 0) [] (Some 7) false, []) /\
  settled default_handler (feed default_handler 4300 busy7 RESULT0) = (AAck [], [OState ACK; ORejected (Some 7)]).
Proof. split; reflexivity. Qed.
