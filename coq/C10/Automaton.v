(* C10: the documented listener protocol as a byte-at-a-time automaton
   (docs/events.rst, "Event Listener States"), and the proof that the buffer
   based parser of PEventListenerDispatcher refines it.

     ACKNOWLEDGED --"READY\n"--> READY --(event sent)--> BUSY
     BUSY --"RESULT " digits "\n" + that many bytes--> ACKNOWLEDGED   (handler: accept / reject)
     anything else --> UNKNOWN (absorbing)

   The automaton consumes one byte at a time and acts as soon as a token is
   complete.  The implementation differs in one respect only: a result of
   length zero ("RESULT 0\n") is handed to the result handler when the next
   byte arrives (handle_listener_state_change returns while the buffer is
   empty).  `settle` performs that pending step; the refinement theorem
   compares settled states, and feed_frag shows that the delay is invisible to
   whatever follows. *)
From Coq Require Import ZArith List Bool Lia ZifyBool.
Import ListNotations.
Require Import SV.Common SV.C10.Gen_tokens SV.C10.Listener SV.C10.ListenerProofs.
Open Scope Z_scope.

Arguments zlen : simpl never.

(* the documented tokens, written out here independently of the generated ones *)
Definition DOC_READY : bytes := [82; 69; 65; 68; 89; 10].        (* "READY\n" *)
Definition DOC_RESULT : bytes := [82; 69; 83; 85; 76; 84; 32].   (* "RESULT " *)

Inductive astate :=
| AAck (pending : bytes)                          (* waiting for READY\n; bytes seen so far *)
| AReady                                          (* may be sent an event *)
| ABusyLine (e : option ev) (pending : bytes)     (* working on e; result line so far *)
| ABusyBody (e : option ev) (n : Z) (got : bytes) (* n result bytes announced, got collected *)
| AUnknown.

Section Spec.
Variable h : handler.
Variable maxdig : Z.

Definition complete (e : option ev) (r : bytes) : astate * list out :=
  match h e r with
  | HOk => (AAck [], [OProcessed e; OState ACK])
  | HReject => (AAck [], [OState ACK; ORejected e])
  | HRaise => (AUnknown, [OState UNKNOWN; ORejected e])
  end.

(* "RESULT " followed by one or more ASCII digits *)
Definition doc_line_len (line : bytes) : option Z :=
  if starts_with DOC_RESULT line && is_digits (skipn 7 line) && digits_ok maxdig (skipn 7 line)
  then Some (dec_val (skipn 7 line)) else None.

Definition astep (a : astate) (c : Z) : astate * list out :=
  match a with
  | AAck p =>
    let p' := p ++ [c] in
    if zlen p' <? 6 then (AAck p', [])
    else if zlist_eqb p' DOC_READY then (AReady, [OState READY])
    else (AUnknown, [OState UNKNOWN])
  | AReady => (AUnknown, [OState UNKNOWN])
  | ABusyLine e p =>
    if c =? 10 then
      match doc_line_len p with
      | Some n => if n =? 0 then complete e [] else (ABusyBody e n [], [])
      | None => (AUnknown, [OState UNKNOWN; ORejected e])
      end
    else (ABusyLine e (p ++ [c]), [])
  | ABusyBody e n got =>
    let got' := got ++ [c] in
    if n - zlen got' =? 0 then complete e got' else (ABusyBody e n got', [])
  | AUnknown => (AUnknown, [])
  end.

Fixpoint proto_ref (a : astate) (stream : bytes) : astate * list out :=
  match stream with
  | [] => (a, [])
  | c :: r => let '(a1, o1) := astep a c in
              let '(a2, o2) := proto_ref a1 r in (a2, o1 ++ o2)
  end.

Lemma proto_ref_app a x y :
  proto_ref a (x ++ y) =
  let '(a1, o1) := proto_ref a x in let '(a2, o2) := proto_ref a1 y in (a2, o1 ++ o2).
Proof.
  revert a; induction x as [|c x IH]; intros a; simpl.
  - destruct (proto_ref a y). reflexivity.
  - destruct (astep a c) as [a1 o1]. rewrite IH.
    destruct (proto_ref a1 x) as [a2 o2]. destruct (proto_ref a2 y) as [a3 o3].
    rewrite app_assoc. reflexivity.
Qed.

(* ---- relating concrete states to automaton states *)
Definition abs (s : listener) : astate :=
  match l_state s with
  | ACK => AAck (l_buf s)
  | READY => AReady
  | UNKNOWN => AUnknown
  | BUSY => match l_rlen s with
            | None => ABusyLine (l_event s) (l_buf s)
            | Some n => ABusyBody (l_event s) n (l_result s)
            end
  end.

(* states in which handle_listener_state_change has nothing more to do *)
Definition stable (s : listener) : Prop :=
  match l_state s with
  | ACK => zlen (l_buf s) < 6
  | READY | UNKNOWN => l_buf s = []
  | BUSY => match l_rlen s with
            | None => find_nl (l_buf s) = None
            | Some _ => l_buf s = []
            end
  end.

(* the pending zero-length result, if any *)
Definition settle (s : listener) : listener * list out :=
  match l_state s, l_rlen s with
  | BUSY, Some n =>
    if n - zlen (l_result s) =? 0 then
      match h (l_event s) (l_result s) with
      | HOk => (mkL ACK (l_buf s) None [] None (l_closed s), [OProcessed (l_event s); OState ACK])
      | HReject => (mkL ACK (l_buf s) None [] None (l_closed s), [OState ACK; ORejected (l_event s)])
      | HRaise => (mkL UNKNOWN (l_buf s) None [] None (l_closed s), [OState UNKNOWN; ORejected (l_event s)])
      end
    else (s, [])
  | _, _ => (s, [])
  end.

Definition settled (r : listener * list out) : astate * list out :=
  let '(s, o) := r in let '(s', o') := settle s in (abs s', o ++ o').

End Spec.

(* ---- judging an implementation trace with the specification itself: from the
   observed stable start state, the observed final state and effects of a
   delivery of `stream` must be what the documented automaton says *)
Definition astate_eqb (a b : astate) : bool :=
  match a, b with
  | AAck p, AAck q => zlist_eqb p q
  | AReady, AReady => true
  | ABusyLine e p, ABusyLine f q => option_eqb Z.eqb e f && zlist_eqb p q
  | ABusyBody e n g, ABusyBody f m k => option_eqb Z.eqb e f && (n =? m) && zlist_eqb g k
  | AUnknown, AUnknown => true
  | _, _ => false
  end.

Definition check_spec (cs : Z * Z * listener * bytes * listener * list out) : bool :=
  let '(hk, md, s0, stream, s1, o1) := cs in
  let hd := handler_of hk in
  let '(a_impl, o_impl) := settled hd (s1, o1) in
  let '(s0', o0) := settle hd s0 in
  let '(a, o) := proto_ref hd md (abs s0') stream in
  astate_eqb a_impl a && list_eqb out_eqb o_impl (o0 ++ o).
