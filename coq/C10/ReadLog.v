(* C10, part 3: handle_read_event with the child log and options.strip_ansi
   (supervisor/dispatchers.py:340-358, stripEscapes 533-553).

   What readfd returned is appended to state_buffer as it is; escape stripping
   is applied afterwards and only to the copy that goes to the child log.  The
   protocol state and effects are those of Listener.read_event on the raw
   bytes, whatever strip_ansi is and whether or not a child log exists. *)
From Coq Require Import ZArith List Bool Lia.
Import ListNotations.
Require Import SV.Common SV.C10.Gen_tokens SV.C10.Listener.
Open Scope Z_scope.

Definition is_ansi_term (c : Z) : bool := existsb (fun t => t =? c) ANSI_TERMS.

(* stripEscapes: in `show` mode bytes are copied until ESC [ is met; the ESC
   byte is skipped and everything up to and including the next terminator
   letter is dropped *)
Fixpoint strip_escapes_from (show : bool) (l : bytes) : bytes :=
  match l with
  | [] => []
  | c :: r =>
    if show then
      if starts_with ANSI_BEGIN (c :: r) then strip_escapes_from false r
      else c :: strip_escapes_from true r
    else if is_ansi_term c then strip_escapes_from true r
    else strip_escapes_from false r
  end.
Definition strip_escapes (l : bytes) : bytes := strip_escapes_from true l.

(* handle_read_event: new listener state, effects, and what childlog.info received *)
Definition read_event_full (h : handler) (maxdig : Z) (strip_ansi has_childlog : bool)
           (s : listener) (data : bytes) : listener * list out * option bytes :=
  let '(s', o) := read_event h maxdig s data in
  (s', o,
   match data with
   | [] => None
   | _ => if has_childlog then Some (if strip_ansi then strip_escapes data else data) else None
   end).

(* correspondence: escape stripping against the real stripEscapes / child log *)
Definition check_childlog (cs : bool * bytes * bytes) : bool :=
  let '(strip, data, logged) := cs in
  zlist_eqb (if strip then strip_escapes data else data) logged.
