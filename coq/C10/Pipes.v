(* C10, part 4: the write(2) that PInputDispatcher.flush issues on a listener's
   stdin, as the kernel answers it, depending on the descriptor's mode.

   A pipe has `room` free bytes.  If the data fits it is taken whole.  If it
   does not fit, a non-blocking descriptor takes what fits (or reports EAGAIN
   when nothing fits) and returns at once; a blocking descriptor makes the
   caller sleep until the reader has made room - supervisord's main loop
   stands still, for ever if the listener does not read.

   Which mode supervisord's ends have is decided by ServerOptions.make_pipes;
   the facts PIPE_NONBLOCK_* are generated from its source. *)
From Coq Require Import ZArith List Bool Lia.
Import ListNotations.
Require Import SV.Common SV.C10.Gen_tokens SV.C10.Listener SV.C10.Proc.
Open Scope Z_scope.

Inductive kwrite := KWrote (n : Z) | KAgain | KBlocks.

Definition kernel_write (nonblock : bool) (room len : Z) : kwrite :=
  if len <=? Z.max 0 room then KWrote len
  else if nonblock then (if room <=? 0 then KAgain else KWrote room)
  else KBlocks.

(* the oracle of Proc.flush that stands for a kernel answer *)
Definition wres_of (k : kwrite) : option wres :=
  match k with KWrote n => Some (WRoom n) | KAgain => Some WAgain | KBlocks => None end.
