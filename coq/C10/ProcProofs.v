(* C10: proofs about the process-level model (Proc.v):
   - an event is written only to a RUNNING, READY listener, which becomes BUSY
     in the same step; per listener, events sent minus events given back is
     0 or 1 at every point of every history
   - the bytes a listener's stdin pipe accepted are a prefix of the
     concatenation of the whole envelopes handed to Subprocess.write
   - frame: an operation on listener i leaves every other listener unchanged *)
From Coq Require Import ZArith List Bool Lia ZifyBool.
Import ListNotations.
Require Import SV.Common SV.C10.Gen_tokens SV.C10.Listener SV.C10.Proc SV.C10.ListenerProofs.
Open Scope Z_scope.

Arguments zlen : simpl never.

Lemma pstate_eqb_eq a b : pstate_eqb a b = true -> a = b.
Proof. destruct a, b; simpl; congruence. Qed.
Lemma lstate_eqb_eq a b : lstate_eqb a b = true -> a = b.
Proof. destruct a, b; simpl; congruence. Qed.

(* ---------------------------------------------------------------- frame *)
Lemma upd_other {A} (l : list A) i j x : i <> j -> nth_error (upd l i x) j = nth_error l j.
Proof.
  revert i j; induction l as [|y l IH]; intros i j H; destruct i, j; simpl; try reflexivity.
  - congruence.
  - apply IH. congruence.
Qed.

Lemma upd_same {A} (l : list A) i x p : nth_error l i = Some p -> nth_error (upd l i x) i = Some x.
Proof.
  revert i; induction l as [|y l IH]; intros i H; destruct i; simpl in *; try discriminate.
  - reflexivity.
  - apply IH. assumption.
Qed.

Lemma upd_length {A} (l : list A) i x : length (upd l i x) = length l.
Proof. revert i; induction l as [|y l IH]; intros i; destruct i; simpl; auto. Qed.

Section Proofs.
Variable h : handler.
Variable maxdig : Z.

Notation proc_step := (proc_step h maxdig).
Notation sys_step := (sys_step h maxdig).
Notation sys_run := (sys_run h maxdig).

Theorem no_cross_effect s i op j :
  i <> j -> nth_error (fst (sys_step s (SProc i op))) j = nth_error s j.
Proof.
  intros H. simpl. destruct (nth_error s i) as [p|]; [|reflexivity].
  destruct (proc_step i p op) as [p' o]. simpl. apply upd_other. assumption.
Qed.

(* ------------------------------------------- sending: local statement *)
Theorem try_send_only_ready p e env w p' :
  try_send p e env w = (p', SSentOk) ->
  p_state p = PS_RUNNING /\ l_state (p_l p) = READY /\ p_pid p <> 0 /\ p_killing p = false /\
  l_state (p_l p') = BUSY /\ l_event (p_l p') = Some e.
Proof.
  unfold try_send.
  destruct (pstate_eqb (p_state p) PS_RUNNING) eqn:R; simpl; [|intros H; inversion H].
  destruct (lstate_eqb (l_state (p_l p)) READY) eqn:L; simpl; [|intros H; inversion H].
  unfold proc_write.
  destruct ((p_pid p =? 0) || p_killing p) eqn:K; [intros H; inversion H|].
  destruct (negb (p_has_stdin p)); [intros H; inversion H|].
  destruct (p_iclosed p); [intros H; inversion H|].
  destruct (flush _ w) as [q r]. destruct r; intros H; inversion H; subst. simpl.
  apply pstate_eqb_eq in R. apply lstate_eqb_eq in L.
  apply orb_false_iff in K. destruct K as [K1 K2]. repeat split; auto. lia.
Qed.

Lemma flush_l p w : p_l (fst (flush p w)) = p_l p /\ p_state (fst (flush p w)) = p_state p /\
                    p_pid (fst (flush p w)) = p_pid p.
Proof. unfold flush. destruct (if p_broken p then WEpipe else w); simpl; auto. Qed.

Lemma proc_write_l p chars w :
  p_l (fst (proc_write p chars w)) = p_l p /\ p_pid (fst (proc_write p chars w)) = p_pid p.
Proof.
  unfold proc_write.
  destruct ((p_pid p =? 0) || p_killing p); [auto|].
  destruct (negb (p_has_stdin p)); [auto|]. destruct (p_iclosed p); [auto|].
  match goal with |- context [flush ?q w] => destruct (flush_l q w) as [A [_ B]] end.
  simpl in *. split; assumption.
Qed.

Theorem try_send_not_sent p e env w p' r :
  try_send p e env w = (p', r) -> r <> SSentOk -> p_l p' = p_l p /\ p_pid p' = p_pid p.
Proof.
  unfold try_send.
  destruct (negb (pstate_eqb (p_state p) PS_RUNNING)); [intros H; inversion H; auto|].
  destruct (negb (lstate_eqb (l_state (p_l p)) READY)); [intros H; inversion H; auto|].
  pose proof (proc_write_l p env w) as L.
  destruct (proc_write p env w) as [q fr]. simpl in L.
  destruct fr; intros H; inversion H; subst; auto. congruence.
Qed.

(* --------------------------------------------- contiguity of the stdin bytes *)
(* p_envs = the strings handed to Subprocess.write that reached the dispatcher's
   buffer (whole envelopes, in order).  While the dispatcher is open, what the
   pipe accepted plus what is still buffered is exactly their concatenation;
   after it closed (EPIPE, exit) the accepted bytes stay a prefix of it. *)
Definition contig (p : proc) : Prop :=
  if p_iclosed p then exists rest, p_accepted p ++ rest = concat (p_envs p)
  else p_accepted p ++ p_ibuf p = concat (p_envs p).

Lemma py_split n l : 0 <= n <= zlen l -> py_upto n l ++ py_from n l = l.
Proof.
  intros H. rewrite py_upto_nonneg, py_from_nonneg by lia. apply firstn_skipn.
Qed.

Lemma contig_flush_open p w :
  p_iclosed p = false -> contig p ->
  contig (fst (flush p w)) /\ p_iclosed (fst (flush p w)) = false.
Proof.
  unfold contig. intros IC C. rewrite IC in C. unfold flush.
  destruct (if p_broken p then WEpipe else w); simpl; rewrite ?IC; auto.
  split; [|reflexivity].
  set (sent := Z.max 0 (Z.min n (zlen (p_ibuf p)))).
  assert (S : 0 <= sent <= zlen (p_ibuf p)) by (pose proof (zlen_nonneg (p_ibuf p)); lia).
  rewrite <- app_assoc, py_split by exact S. exact C.
Qed.

Lemma contig_proc_write p chars w : contig p -> contig (fst (proc_write p chars w)).
Proof.
  intros C. unfold proc_write.
  destruct ((p_pid p =? 0) || p_killing p); [exact C|].
  destruct (negb (p_has_stdin p)); [exact C|]. destruct (p_iclosed p) eqn:IC; [exact C|].
  apply contig_flush_open; [reflexivity|].
  unfold contig in *. simpl. rewrite IC in C.
  rewrite concat_app. simpl. rewrite app_nil_r, app_assoc, C. reflexivity.
Qed.

Lemma contig_write_event p w : contig p -> contig (fst (write_event p w)).
Proof.
  intros C. unfold write_event.
  destruct (p_has_stdin p && nonempty (p_ibuf p) && negb (p_iclosed p)) eqn:G; [|exact C].
  assert (IC : p_iclosed p = false) by (destruct (p_iclosed p); [rewrite andb_false_r in G; discriminate | reflexivity]).
  destruct (contig_flush_open p w IC C) as [C' IC'].
  destruct (flush p w) as [q r]. simpl in *. destruct r; try exact C'.
  unfold contig in *. simpl. rewrite IC' in C'. exists (p_ibuf q). exact C'.
Qed.

Lemma contig_try_send p e env w : contig p -> contig (fst (try_send p e env w)).
Proof.
  intros C. unfold try_send.
  destruct (negb (pstate_eqb (p_state p) PS_RUNNING)); [exact C|].
  destruct (negb (lstate_eqb (l_state (p_l p)) READY)); [exact C|].
  pose proof (contig_proc_write p env w C) as C'.
  destruct (proc_write p env w) as [q r]. simpl in C'. destruct r; exact C'.
Qed.

(* -------------------------------------------------------- the invariant *)
Definition slot (l : listener) : Z := match l_event l with Some _ => 1 | None => 0 end.

Definition pinv (p : proc) : Prop :=
  wf (p_l p) /\ slot_inv (p_l p) /\ (p_pid p = 0 -> l_event (p_l p) = None) /\ contig p.

Lemma pinv_proc0 : pinv proc0.
Proof.
  unfold pinv, contig, wf, slot_inv; simpl. split; [reflexivity|]. split; [reflexivity|].
  split; [reflexivity|]. exists []. reflexivity.
Qed.

(* per listener: +1 for an event sent to it, -1 for an event it gave back *)
Definition bal1 (i : nat) (o : sout) : Z :=
  match o with
  | SSent j _ => if Nat.eqb i j then 1 else 0
  | SOut j (ORejected (Some _)) | SOut j (OProcessed (Some _)) => if Nat.eqb i j then -1 else 0
  | _ => 0
  end.
Definition bal (i : nat) (o : list sout) : Z := fold_right (fun x a => bal1 i x + a) 0 o.

Lemma bal_app i a b : bal i (a ++ b) = bal i a + bal i b.
Proof. induction a as [|x a IH]; simpl; [reflexivity|]. rewrite IH. lia. Qed.

Definition gb1 (x : out) : Z :=
  match x with ORejected (Some _) | OProcessed (Some _) => 1 | _ => 0 end.
Definition given_back (o : list out) : Z := fold_right (fun x a => gb1 x + a) 0 o.

Lemma given_back_cons x o : given_back (x :: o) = gb1 x + given_back o.
Proof. reflexivity. Qed.
Lemma bal_cons i x o : bal i (x :: o) = bal1 i x + bal i o.
Proof. reflexivity. Qed.

Lemma bal_outs_of i j o :
  bal i (outs_of j o) = if Nat.eqb i j then - given_back o else 0.
Proof.
  unfold outs_of. induction o as [|x o IH]; [simpl; destruct (Nat.eqb i j); reflexivity|].
  change (map (SOut j) (x :: o)) with (SOut j x :: map (SOut j) o).
  rewrite bal_cons, given_back_cons, IH.
  destruct x as [n|e|e|]; try destruct e; unfold bal1, gb1; destruct (Nat.eqb i j); lia.
Qed.

Definition ans1 (e : option ev) : Z := match e with Some _ => 1 | None => 0 end.
Definition ans_count (l : list (option ev)) : Z := fold_right (fun e a => ans1 e + a) 0 l.

Lemma given_back_answers o : given_back o = ans_count (answers o).
Proof.
  induction o as [|x o IH]; [reflexivity|].
  rewrite given_back_cons, IH.
  destruct x as [n|e|e|]; unfold gb1; try reflexivity; destruct e; reflexivity.
Qed.

Lemma given_back_app a b : given_back (a ++ b) = given_back a + given_back b.
Proof.
  induction a as [|x a IH]; [reflexivity|].
  change ((x :: a) ++ b) with (x :: (a ++ b)). rewrite !given_back_cons, IH. lia.
Qed.

(* one read event: what is given back is exactly what leaves the slot *)
Lemma feed_slot l a :
  wf l -> slot_inv l ->
  let '(l', o) := feed h maxdig l a in
  wf l' /\ slot_inv l' /\ slot l = slot l' + given_back o /\
  (l_event l = None -> l_event l' = None).
Proof.
  intros W SI. pose proof (feed_answers h maxdig l a W) as A.
  pose proof (feed_wf h maxdig l a W) as W'.
  destruct (feed h maxdig l a) as [l' o]. simpl in W'.
  destruct A as [A1 [A2 A3]]. specialize (A3 SI).
  split; [exact W'|]. split; [exact A3|].
  rewrite given_back_answers, A1. unfold slot, slot_inv in *.
  destruct (is_busy l) eqn:B, (is_busy l') eqn:B'; unfold ans_count, ans1; cbn [andb negb fold_right].
  - destruct (A2 eq_refl) as [_ E]. rewrite E. split; [lia | congruence].
  - rewrite (A3 eq_refl). destruct (l_event l); split; auto; lia.
  - destruct (A2 eq_refl). congruence.
  - rewrite (A3 eq_refl), (SI eq_refl). split; auto.
Qed.

Lemma feed_eof_as_feed l :
  feed_eof h maxdig l =
  feed h maxdig (mkL (l_state l) (l_buf l) (l_rlen l) (l_result l) (l_event l) true) [].
Proof. unfold feed_eof, Listener.feed, app_buf. simpl. rewrite app_nil_r. reflexivity. Qed.

Lemma read_event_slot l a :
  wf l -> slot_inv l ->
  let '(l', o) := read_event h maxdig l a in
  wf l' /\ slot_inv l' /\ slot l = slot l' + given_back o /\
  (l_event l = None -> l_event l' = None).
Proof.
  intros W SI. unfold read_event. destruct a as [|c a].
  - rewrite feed_eof_as_feed.
    apply (feed_slot (mkL (l_state l) (l_buf l) (l_rlen l) (l_result l) (l_event l) true) []);
      destruct l; assumption.
  - apply feed_slot; assumption.
Qed.

Lemma write_event_l p w :
  p_l (fst (write_event p w)) = p_l p /\ p_pid (fst (write_event p w)) = p_pid p.
Proof.
  unfold write_event. destruct (p_has_stdin p && nonempty (p_ibuf p) && negb (p_iclosed p)); [|auto].
  destruct (flush_l p w) as [A [_ B]]. destruct (flush p w) as [q r]. simpl in *.
  destruct r; simpl; auto.
Qed.

Lemma contig_set_l p l : contig p -> contig (set_l p l).
Proof. unfold contig. simpl. auto. Qed.

(* every operation on one process keeps the invariant; the balance of its
   effects is the change of its event slot *)
Lemma proc_step_inv i p op :
  pinv p ->
  let '(p', o) := proc_step i p op in
  pinv p' /\ slot (p_l p) + bal i o = slot (p_l p') /\ (forall j, j <> i -> bal j o = 0).
Proof.
  intros [W [SI [PZ C]]]. unfold Proc.proc_step.
  assert (other : forall o j, j <> i -> bal j (outs_of i o) = 0).
  { intros o j H. rewrite bal_outs_of. destruct (Nat.eqb j i) eqn:E; [|reflexivity].
    apply Nat.eqb_eq in E. contradiction. }
  assert (same : forall o, bal i (outs_of i o) = - given_back o).
  { intros o. rewrite bal_outs_of, Nat.eqb_refl. reflexivity. }
  destruct op as [data|w|pid| | |last w quick| | ].
  - (* PFeed *)
    destruct (l_closed (p_l p)).
    { simpl. repeat split; auto; lia. }
    pose proof (read_event_slot (p_l p) data W SI) as R.
    destruct (read_event h maxdig (p_l p) data) as [l' o].
    destruct R as [W' [SI' [B N]]].
    split; [|split].
    + unfold pinv. simpl. repeat split; auto.
    + rewrite same. simpl. lia.
    + intros j H. apply other. exact H.
  - (* PWritable *)
    pose proof (write_event_l p w) as [L P]. pose proof (contig_write_event p w C) as C'.
    destruct (write_event p w) as [q r]. simpl in *.
    assert (pinv q) by (unfold pinv; rewrite L, P; auto).
    destruct r; simpl; rewrite L; repeat split; auto; try lia; apply H.
  - (* PSpawn *)
    destruct ((p_pid p =? 0) && negb (pid =? 0) &&
              match p_state p with PS_EXITED | PS_FATAL | PS_BACKOFF | PS_STOPPED => true | _ => false end) eqn:G.
    + assert (Z0 : p_pid p = 0) by lia.
      simpl. split; [|split].
      * unfold pinv, contig, wf, slot_inv; simpl. repeat split; auto.
      * unfold slot. rewrite (PZ Z0). reflexivity.
      * intros; reflexivity.
    + simpl. repeat split; auto; lia.
  - (* PRunning *)
    destruct (pstate_eqb (p_state p) PS_STARTING && negb (p_pid p =? 0)); simpl;
      repeat split; auto; lia.
  - (* PStop *)
    destruct (negb (p_pid p =? 0) && match p_state p with PS_RUNNING | PS_STARTING => true | _ => false end);
      simpl; repeat split; auto; lia.
  - (* PFinish *)
    match goal with |- context [if negb ?g then _ else _] => destruct g eqn:Gd end; simpl.
    2:{ repeat split; auto; lia. }
    assert (R : let '(l1, o1) := if l_closed (p_l p) then (p_l p, []) else read_event h maxdig (p_l p) last in
                wf l1 /\ slot_inv l1 /\ slot (p_l p) = slot l1 + given_back o1).
    { destruct (l_closed (p_l p)).
      - simpl. repeat split; auto. lia.
      - pose proof (read_event_slot (p_l p) last W SI) as R.
        destruct (read_event h maxdig (p_l p) last) as [l' o]. tauto. }
    destruct (if l_closed (p_l p) then (p_l p, []) else read_event h maxdig (p_l p) last) as [l1 o1].
    destruct R as [W1 [SI1 B1]].
    pose proof (write_event_l (set_l p l1) w) as [L P].
    pose proof (contig_write_event (set_l p l1) w (contig_set_l p l1 C)) as C'.
    destruct (write_event (set_l p l1) w) as [p2 r]. simpl in L, P, C'.
    assert (Hfin : forall st', pinv (mkP st'
                             0 false (mkL (l_state (p_l p2)) [] None [] None true) false [] true
                             (p_accepted p2) (p_broken p2) (p_envs p2))).
    { intros st'. unfold pinv, contig, wf, slot_inv; simpl. repeat split; auto.
      unfold contig in C'. destruct (p_iclosed p2).
      - exact C'.
      - exists (p_ibuf p2). exact C'. }
    apply andb_true_iff in Gd. destruct Gd as [Gd _].
    assert (Hraise : pinv p2).
    { unfold pinv; rewrite L, P. repeat split; auto. intros K. rewrite K in Gd. discriminate. }
    destruct r.
    + split; [apply Hfin|]. rewrite L. simpl. split.
      * rewrite same. unfold slot at 2. simpl.
        assert (G : given_back (o1 ++ match l_event l1 with Some e => [ORejected (Some e)] | None => [] end)
                    = given_back o1 + slot l1).
        { rewrite given_back_app. unfold slot. destruct (l_event l1); reflexivity. }
        rewrite G. lia.
      * intros j H. apply other. exact H.
    + split; [apply Hfin|]. rewrite L. simpl. split.
      * rewrite same. unfold slot at 2. simpl.
        assert (G : given_back (o1 ++ match l_event l1 with Some e => [ORejected (Some e)] | None => [] end)
                    = given_back o1 + slot l1).
        { rewrite given_back_app. unfold slot. destruct (l_event l1); reflexivity. }
        rewrite G. lia.
      * intros j H. apply other. exact H.
    + split; [apply Hfin|]. rewrite L. simpl. split.
      * rewrite same. unfold slot at 2. simpl.
        assert (G : given_back (o1 ++ match l_event l1 with Some e => [ORejected (Some e)] | None => [] end)
                    = given_back o1 + slot l1).
        { rewrite given_back_app. unfold slot. destruct (l_event l1); reflexivity. }
        rewrite G. lia.
      * intros j H. apply other. exact H.
  - (* PStopFail *)
    destruct (negb (p_pid p =? 0) && match p_state p with PS_RUNNING | PS_STARTING => true | _ => false end);
      simpl; repeat split; auto; lia.
  - (* PSpawnFail *)
    destruct ((p_pid p =? 0) &&
              match p_state p with PS_EXITED | PS_FATAL | PS_BACKOFF | PS_STOPPED => true | _ => false end) eqn:Gd.
    + assert (Z0 : p_pid p = 0) by lia.
      simpl. split; [|split].
      * unfold pinv, contig, wf, slot_inv in *; simpl. repeat split; auto.
        destruct (p_iclosed p); [exact C | exists (p_ibuf p); exact C].
      * unfold slot. rewrite (PZ Z0). reflexivity.
      * intros; reflexivity.
    + simpl. repeat split; auto; lia.
Qed.

(* ----------------------------------------------------------- dispatching *)
Definition slot_at (ps : list proc) (j : nat) : Z :=
  match nth_error ps j with Some p => slot (p_l p) | None => 0 end.

Lemma proc_write_ok_pid p chars w : snd (proc_write p chars w) = FOk -> p_pid p <> 0.
Proof.
  unfold proc_write. destruct (p_pid p =? 0) eqn:E; simpl; [discriminate|]. intros _. lia.
Qed.

Lemma try_send_inv p e env w :
  pinv p ->
  pinv (fst (try_send p e env w)) /\
  match snd (try_send p e env w) with
  | SSentOk => slot (p_l p) = 0 /\ slot (p_l (fst (try_send p e env w))) = 1
  | _ => slot (p_l (fst (try_send p e env w))) = slot (p_l p)
  end.
Proof.
  intros [W [SI [PZ C]]].
  pose proof (contig_try_send p e env w C) as C'.
  unfold try_send in *.
  destruct (negb (pstate_eqb (p_state p) PS_RUNNING)); [simpl; split; [unfold pinv; auto | reflexivity]|].
  destruct (negb (lstate_eqb (l_state (p_l p)) READY)) eqn:RD; [simpl; split; [unfold pinv; auto | reflexivity]|].
  pose proof (proc_write_l p env w) as [L P].
  pose proof (proc_write_ok_pid p env w) as OK.
  destruct (proc_write p env w) as [q fr]. simpl in L, P, C', OK.
  destruct fr; simpl in *.
  - split.
    + unfold pinv; simpl. split; [unfold wf in *; simpl; rewrite L; exact W|].
      split; [unfold slot_inv, is_busy; simpl; discriminate|].
      split; [intros K; rewrite P in K; contradiction (OK eq_refl K) | exact C'].
    + split; [|reflexivity]. unfold slot. rewrite SI; [reflexivity|].
      unfold is_busy. apply negb_false_iff in RD. apply lstate_eqb_eq in RD. rewrite RD. reflexivity.
  - split; [unfold pinv; rewrite L, P; auto | rewrite L; reflexivity].
  - split; [unfold pinv; rewrite L, P; auto | rewrite L; reflexivity].
Qed.

Lemma bal_single_other i j e : i <> j -> bal i [SSent j e] = 0.
Proof. intros H. simpl. destruct (Nat.eqb i j) eqn:E; [apply Nat.eqb_eq in E; contradiction | reflexivity]. Qed.

Lemma dispatch_inv e env ws : forall ps k,
  Forall pinv ps ->
  let '(ps', o, ok) := dispatch_from k ps e env ws in
  Forall pinv ps' /\ length ps' = length ps /\
  forall i, bal i o = if (k <=? i)%nat then slot_at ps' (i - k) - slot_at ps (i - k) else 0.
Proof.
  induction ps as [|p rest IH]; intros k F.
  - simpl. split; [constructor|]. split; [reflexivity|]. intros i.
    unfold slot_at. destruct (i - k)%nat; simpl; destruct (k <=? i)%nat; reflexivity.
  - inversion F as [|? ? Ip Fr]; subst. simpl.
    pose proof (try_send_inv p e env (wnth ws k) Ip) as [Ip' T].
    destruct (try_send p e env (wnth ws k)) as [p' r]. simpl in Ip', T.
    destruct r.
    + (* skipped *)
      specialize (IH (S k) Fr). destruct (dispatch_from (S k) rest e env ws) as [[rest' o] ok].
      destruct IH as [F' [Len B]].
      split; [constructor; assumption|]. split; [simpl; congruence|].
      intros i. rewrite (B i).
      destruct (k <=? i)%nat eqn:K1; destruct (S k <=? i)%nat eqn:K2; try lia.
      * replace (i - k)%nat with (S (i - S k)) by lia. reflexivity.
      * assert (i = k) by lia. subst i. replace (k - k)%nat with O by lia. unfold slot_at; simpl. lia.
    + (* sent *)
      destruct T as [T0 T1].
      split; [constructor; assumption|]. split; [reflexivity|].
      intros i. destruct (k <=? i)%nat eqn:K1.
      * destruct (Nat.eq_dec i k) as [->|N].
        -- replace (k - k)%nat with O by lia. unfold slot_at; simpl. rewrite Nat.eqb_refl. lia.
        -- rewrite bal_single_other by exact N.
           replace (i - k)%nat with (S (i - S k)) by lia. unfold slot_at; simpl. lia.
      * apply bal_single_other. lia.
    + (* EPIPE: next listener *)
      specialize (IH (S k) Fr). destruct (dispatch_from (S k) rest e env ws) as [[rest' o] ok].
      destruct IH as [F' [Len B]].
      split; [constructor; assumption|]. split; [simpl; congruence|].
      intros i. rewrite bal_cons. unfold bal1. rewrite (B i).
      destruct (k <=? i)%nat eqn:K1; destruct (S k <=? i)%nat eqn:K2; try lia.
      * replace (i - k)%nat with (S (i - S k)) by lia. reflexivity.
      * assert (i = k) by lia. subst i. replace (k - k)%nat with O by lia. unfold slot_at; simpl. lia.
    + (* exception *)
      split; [constructor; assumption|]. split; [reflexivity|].
      intros i. simpl. destruct (k <=? i)%nat eqn:K1; [|reflexivity].
      destruct (i - k)%nat eqn:D; unfold slot_at; simpl; lia.
Qed.

(* ------------------------------------------------------- whole histories *)
Lemma Forall_upd {A} (P : A -> Prop) l i x : Forall P l -> P x -> Forall P (upd l i x).
Proof.
  intros F Px. revert i. induction F as [|y l Py F IH]; intros i; destruct i; simpl; constructor; auto.
Qed.

Lemma slot_at_upd_same ps i p q : nth_error ps i = Some p -> slot_at (upd ps i q) i = slot (p_l q).
Proof. intros H. unfold slot_at. rewrite (upd_same ps i q p H). reflexivity. Qed.

Lemma slot_at_upd_other ps i j q : i <> j -> slot_at (upd ps i q) j = slot_at ps j.
Proof. intros H. unfold slot_at. rewrite upd_other by exact H. reflexivity. Qed.

Lemma sys_step_inv s op :
  Forall pinv s ->
  let '(s', o) := sys_step s op in
  Forall pinv s' /\ length s' = length s /\ forall i, slot_at s i + bal i o = slot_at s' i.
Proof.
  intros F. destruct op as [i op|e env ws]; simpl.
  - destruct (nth_error s i) as [p|] eqn:N.
    + assert (Ip : pinv p).
      { rewrite Forall_forall in F. apply F. eapply nth_error_In. exact N. }
      pose proof (proc_step_inv i p op Ip) as R.
      destruct (proc_step i p op) as [p' o]. destruct R as [Ip' [B O]].
      split; [apply Forall_upd; assumption|]. split; [apply upd_length|].
      intros j. destruct (Nat.eq_dec i j) as [<-|NE].
      * rewrite (slot_at_upd_same s i p p' N). unfold slot_at at 1. rewrite N. exact B.
      * rewrite slot_at_upd_other by exact NE. rewrite O by congruence. lia.
    + split; [assumption|]. split; [reflexivity|]. intros j. simpl. lia.
  - pose proof (dispatch_inv e env ws s 0%nat F) as D.
    destruct (dispatch_from 0 s e env ws) as [[s' o] ok]. destruct D as [F' [Len B]].
    split; [assumption|]. split; [assumption|].
    intros i. rewrite (B i). simpl. rewrite Nat.sub_0_r. lia.
Qed.

Theorem sys_run_inv ops : forall s,
  Forall pinv s ->
  let '(s', o) := sys_run s ops in
  Forall pinv s' /\ length s' = length s /\ forall i, slot_at s i + bal i o = slot_at s' i.
Proof.
  induction ops as [|op ops IH]; intros s F; simpl.
  - split; [assumption|]. split; [reflexivity|]. intros i. simpl. lia.
  - pose proof (sys_step_inv s op F) as S1.
    destruct (sys_step s op) as [s1 o1]. destruct S1 as [F1 [L1 B1]].
    specialize (IH s1 F1). destruct (sys_run s1 ops) as [s2 o2]. destruct IH as [F2 [L2 B2]].
    split; [assumption|]. split; [congruence|].
    intros i. rewrite bal_app. rewrite <- (B2 i), <- (B1 i). lia.
Qed.

Definition init_sys (n : nat) : sys := repeat proc0 n.

Lemma init_inv n : Forall pinv (init_sys n).
Proof. unfold init_sys. induction n; simpl; constructor; [apply pinv_proc0 | assumption]. Qed.

Lemma slot_at_init n i : slot_at (init_sys n) i = 0.
Proof.
  unfold slot_at, init_sys. destruct (nth_error (repeat proc0 n) i) as [p|] eqn:E; [|reflexivity].
  apply nth_error_In in E. apply repeat_spec in E. subst p. reflexivity.
Qed.

Lemma slot_at_01 s i : slot_at s i = 0 \/ slot_at s i = 1.
Proof. unfold slot_at, slot. destruct (nth_error s i) as [p|]; [destruct (l_event (p_l p))|]; auto. Qed.

(* At every point of every history: (events sent to listener i) minus (events
   it gave back: accepted, rejected, or returned at its death) is the content
   of its event slot, hence 0 or 1. *)
Theorem at_most_one_outstanding n ops i :
  let '(s', o) := sys_run (init_sys n) ops in
  bal i o = slot_at s' i /\ (bal i o = 0 \/ bal i o = 1).
Proof.
  pose proof (sys_run_inv ops (init_sys n) (init_inv n)) as R.
  destruct (sys_run (init_sys n) ops) as [s' o]. destruct R as [_ [_ B]].
  specialize (B i). rewrite slot_at_init in B.
  split; [lia|]. replace (bal i o) with (slot_at s' i) by lia. apply slot_at_01.
Qed.

(* and the accepted stdin bytes are a prefix of the whole envelopes, in order *)
Theorem contiguous n ops :
  forall p, In p (fst (sys_run (init_sys n) ops)) ->
  (exists rest, p_accepted p ++ rest = concat (p_envs p)) /\
  (p_iclosed p = false -> p_accepted p ++ p_ibuf p = concat (p_envs p)).
Proof.
  pose proof (sys_run_inv ops (init_sys n) (init_inv n)) as R.
  destruct (sys_run (init_sys n) ops) as [s' o]. destruct R as [F _]. simpl.
  intros p H. rewrite Forall_forall in F. destruct (F p H) as [_ [_ [_ C]]].
  unfold contig in C. destruct (p_iclosed p).
  - split; [exact C | discriminate].
  - split; [exists (p_ibuf p); exact C | intros _; exact C].
Qed.

End Proofs.

(* ---- example: a history over two listeners with a partial write, EAGAIN,
   an answer, a death; balance and contiguity as the theorems state *)
Definition ex_env : bytes := [1; 2; 3; 4; 5; 6].
Definition ex_ops : list sop :=
  [SProc 0 (PSpawn 101); SProc 0 PRunning; SProc 0 (PFeed [82; 69; 65; 68; 89; 10]);
   SProc 1 (PSpawn 102); SProc 1 PRunning; SProc 1 (PFeed [82; 69; 65; 68; 89; 10]);
   SDispatch 7 ex_env [WRoom 4; WRoom 100]; SDispatch 8 ex_env [WRoom 100; WAgain];
   SProc 0 (PWritable (WRoom 1)); SProc 0 (PFeed [82; 69; 83; 85; 76; 84; 32; 50; 10; 79; 75]);
   SProc 1 (PFinish [] (WRoom 100) false)].

Example ex_history :
  let '(s, o) := sys_run default_handler 4300 (init_sys 2) ex_ops in
  map (fun p => (p_accepted p, p_ibuf p, l_event (p_l p))) s =
    [([1; 2; 3; 4; 5], [6], None); ([1; 2; 3; 4; 5; 6], [], None)] /\
  o = [SOut 0 (OState READY); SOut 1 (OState READY); SSent 0 7; SSent 1 8;
       SOut 0 (OProcessed (Some 7)); SOut 0 (OState ACK); SOut 1 (ORejected (Some 8))] /\
  bal 0 o = 0 /\ bal 1 o = 0.
Proof. vm_compute. repeat split. Qed.
