(* C10, part 2: the listener process as the protocol code sees it.

   Models supervisor.dispatchers.PInputDispatcher (writable, flush,
   handle_write_event; dispatchers.py:490-530), Subprocess.write
   (process.py:90-103), the loop of EventListenerPool._dispatchEvent
   (process.py:973-1005), and the parts of spawn / transition / stop / finish
   that touch what the protocol code reads: state == RUNNING, pid, killing,
   the creation of fresh dispatchers at spawn and the EventRejectedEvent for a
   listener that dies holding an event (process.py:544-650).  The life cycle
   itself (timing, retries, exit codes) belongs to C01-C06; here the operations
   carry guards and are no-ops (SInapplicable) outside them.

   Environment: the kernel side of the stdin pipe.  Each write consults an
   oracle: `WRoom n` = the pipe takes at most n more bytes (os.write returns
   min n (len data)), `WAgain` = EAGAIN, `WEpipe` = the reader has closed its
   end, `WErr` = any other OSError.  p_accepted (bytes the pipe accepted so
   far) and p_broken (the reader has gone; EPIPE is permanent, every later
   write fails the same way) describe that kernel object; they are not
   attributes of supervisord.  No proofs in this file. *)
From Coq Require Import ZArith List Bool Lia.
Import ListNotations.
Require Import SV.Common SV.C10.Gen_tokens SV.C10.Listener.
Open Scope Z_scope.

Inductive pstate :=
  PS_STOPPED | PS_STARTING | PS_RUNNING | PS_BACKOFF | PS_STOPPING | PS_EXITED | PS_FATAL | PS_UNKNOWN.

Definition pstate_eqb (a b : pstate) : bool :=
  match a, b with
  | PS_STOPPED, PS_STOPPED | PS_STARTING, PS_STARTING | PS_RUNNING, PS_RUNNING
  | PS_BACKOFF, PS_BACKOFF | PS_STOPPING, PS_STOPPING | PS_EXITED, PS_EXITED
  | PS_FATAL, PS_FATAL | PS_UNKNOWN, PS_UNKNOWN => true
  | _, _ => false
  end.

Inductive wres := WRoom (n : Z) | WAgain | WEpipe | WErr.

Record proc := mkP {
  p_state : pstate; p_pid : Z; p_killing : bool;
  p_l : listener;                (* listener_state, event, stdout dispatcher *)
  p_has_stdin : bool;            (* a stdin dispatcher exists *)
  p_ibuf : bytes;                (* PInputDispatcher.input_buffer *)
  p_iclosed : bool;              (* PInputDispatcher.closed *)
  p_accepted : bytes;            (* kernel: bytes accepted by the pipe (this incarnation) *)
  p_broken : bool;               (* kernel: reader gone *)
  p_envs : list bytes            (* ghost: strings Subprocess.write appended (this incarnation) *)
}.

Definition set_l (p : proc) (l : listener) : proc :=
  mkP (p_state p) (p_pid p) (p_killing p) l (p_has_stdin p) (p_ibuf p) (p_iclosed p)
      (p_accepted p) (p_broken p) (p_envs p).

(* a never-started process *)
Definition proc0 : proc :=
  mkP PS_STOPPED 0 false (mkL ACK [] None [] None true) false [] true [] false [].

Inductive fres := FOk | FEpipe | FErr.

(* PInputDispatcher.flush: options.write(fd, input_buffer); EAGAIN = 0 sent *)
Definition flush (p : proc) (w : wres) : proc * fres :=
  let w := if p_broken p then WEpipe else w in
  match w with
  | WRoom n =>
    let sent := Z.max 0 (Z.min n (zlen (p_ibuf p))) in
    (mkP (p_state p) (p_pid p) (p_killing p) (p_l p) (p_has_stdin p)
         (py_from sent (p_ibuf p)) (p_iclosed p)
         (p_accepted p ++ py_upto sent (p_ibuf p)) (p_broken p) (p_envs p), FOk)
  | WAgain => (p, FOk)
  | WEpipe =>
    (mkP (p_state p) (p_pid p) (p_killing p) (p_l p) (p_has_stdin p) (p_ibuf p) (p_iclosed p)
         (p_accepted p) true (p_envs p), FEpipe)
  | WErr => (p, FErr)
  end.

(* Subprocess.write(chars) *)
Definition proc_write (p : proc) (chars : bytes) (w : wres) : proc * fres :=
  if (p_pid p =? 0) || p_killing p then (p, FEpipe)
  else if negb (p_has_stdin p) then (p, FEpipe)
  else if p_iclosed p then (p, FEpipe)
  else
    flush (mkP (p_state p) (p_pid p) (p_killing p) (p_l p) (p_has_stdin p)
               (p_ibuf p ++ chars) (p_iclosed p) (p_accepted p) (p_broken p)
               (p_envs p ++ [chars])) w.

(* `if dispatcher.writable(): dispatcher.handle_write_event()` (main loop, drain) *)
Definition write_event (p : proc) (w : wres) : proc * fres :=
  if p_has_stdin p && nonempty (p_ibuf p) && negb (p_iclosed p) then
    match flush p w with
    | (p', FEpipe) =>
      (mkP (p_state p') (p_pid p') (p_killing p') (p_l p') (p_has_stdin p') [] true
           (p_accepted p') (p_broken p') (p_envs p'), FOk)
    | r => r
    end
  else (p, FOk).

Inductive sres := SSkip | SSentOk | SEpipeSkip | SRaised.

(* body of the `for process in self.processes.values()` loop of _dispatchEvent *)
Definition try_send (p : proc) (e : ev) (env : bytes) (w : wres) : proc * sres :=
  if negb (pstate_eqb (p_state p) PS_RUNNING) then (p, SSkip)
  else if negb (lstate_eqb (l_state (p_l p)) READY) then (p, SSkip)
  else
    match proc_write p env w with
    | (p', FOk) =>
      let l := p_l p' in
      (set_l p' (mkL BUSY (l_buf l) (l_rlen l) (l_result l) (Some e) (l_closed l)), SSentOk)
    | (p', FEpipe) => (p', SEpipeSkip)
    | (p', FErr) => (p', SRaised)
    end.

Inductive sout :=
| SOut (i : nat) (o : out)       (* effect of listener i's stdout dispatcher / finish *)
| SSent (i : nat) (e : ev)       (* event e written to listener i, which is now BUSY *)
| SEpipe (i : nat)               (* EPIPE while writing to listener i: skipped *)
| SNotSent                       (* _dispatchEvent returned False *)
| SRaise                         (* an exception leaves the operation *)
| SInapplicable.                 (* guard of a life-cycle operation not met: nothing done *)

Definition wnth (ws : list wres) (i : nat) : wres := nth i ws (WRoom 1000000).

(* _dispatchEvent(event): first RUNNING+READY listener that takes the envelope *)
Fixpoint dispatch_from (i : nat) (ps : list proc) (e : ev) (env : bytes) (ws : list wres)
  : list proc * list sout * bool :=
  match ps with
  | [] => ([], [SNotSent], false)
  | p :: rest =>
    match try_send p e env (wnth ws i) with
    | (p', SSentOk) => (p' :: rest, [SSent i e], true)
    | (p', SRaised) => (p' :: rest, [SRaise], false)
    | (p', SEpipeSkip) =>
      let '(rest', o, ok) := dispatch_from (S i) rest e env ws in (p' :: rest', SEpipe i :: o, ok)
    | (p', SSkip) =>
      let '(rest', o, ok) := dispatch_from (S i) rest e env ws in (p' :: rest', o, ok)
    end
  end.

Inductive pop :=
| PFeed (data : bytes)            (* stdout readable: handle_read_event, readfd returned data ([] = EOF) *)
| PWritable (w : wres)            (* stdin: if writable() then handle_write_event() *)
| PSpawn (pid : Z)                (* spawn(), parent side *)
| PRunning                        (* transition(): STARTING -> RUNNING *)
| PStop                           (* stop(): signal sent, STOPPING *)
| PFinish (last : bytes) (w : wres) (quick : bool)   (* reaped: finish() *)
| PStopFail                       (* stop(): signalling fails (not ESRCH): process state UNKNOWN, pid kept *)
| PSpawnFail.                     (* spawn() whose fork() fails: BACKOFF, the new pipes and dispatchers are dropped *)

Section Model.
Variable h : handler.
Variable maxdig : Z.

Definition outs_of (i : nat) (o : list out) : list sout := map (SOut i) o.

Definition proc_step (i : nat) (p : proc) (op : pop) : proc * list sout :=
  match op with
  | PFeed data =>
    if l_closed (p_l p) then (p, [SInapplicable])     (* readable() is False *)
    else let '(l', o) := read_event h maxdig (p_l p) data in (set_l p l', outs_of i o)
  | PWritable w =>
    match write_event p w with
    | (p', FErr) => (p', [SRaise])
    | (p', _) => (p', [])
    end
  | PSpawn pid =>
    if (p_pid p =? 0) && negb (pid =? 0) &&
       (match p_state p with PS_EXITED | PS_FATAL | PS_BACKOFF | PS_STOPPED => true | _ => false end)
    then (mkP PS_STARTING pid false fresh_listener true [] false [] false [], [])
    else (p, [SInapplicable])
  | PRunning =>
    if pstate_eqb (p_state p) PS_STARTING && negb (p_pid p =? 0) then
      (mkP PS_RUNNING (p_pid p) (p_killing p) (p_l p) (p_has_stdin p) (p_ibuf p) (p_iclosed p)
           (p_accepted p) (p_broken p) (p_envs p), [])
    else (p, [SInapplicable])
  | PStop =>
    if negb (p_pid p =? 0) &&
       (match p_state p with PS_RUNNING | PS_STARTING => true | _ => false end)
    then (mkP PS_STOPPING (p_pid p) true (p_l p) (p_has_stdin p) (p_ibuf p) (p_iclosed p)
              (p_accepted p) (p_broken p) (p_envs p), [])
    else (p, [SInapplicable])
  | PFinish last w quick =>
    let st := p_state p in
    (* finish() looks at process state UNKNOWN first (the child of a process that could not be signalled) *)
    let ok := negb (p_pid p =? 0) &&
              (if pstate_eqb st PS_UNKNOWN then true
               else if p_killing p then pstate_eqb st PS_STOPPING
               else if quick then pstate_eqb st PS_STARTING
               else pstate_eqb st PS_RUNNING || pstate_eqb st PS_STARTING) in
    if negb ok then (p, [SInapplicable])
    else
      (* drain(): stdout dispatcher first, then stdin *)
      let '(l1, o1) := if l_closed (p_l p) then (p_l p, [])
                       else read_event h maxdig (p_l p) last in
      let p1 := set_l p l1 in
      (* drain() guards every dispatcher like the main loop does: an error
         raised by the write (WErr) ends in handle_error(), which closes that
         dispatcher; finish() goes on (the dispatchers are dropped below anyway) *)
      match write_event p1 w with
      | (p2, _) =>
        let st' := if pstate_eqb st PS_UNKNOWN then PS_UNKNOWN      (* no state change *)
                   else if p_killing p then PS_STOPPED else if quick then PS_BACKOFF else PS_EXITED in
        let l2 := p_l p2 in
        (* pid = 0; pipes = {}; dispatchers = {}; rejected event *)
        let o2 := match l_event l2 with Some e => [ORejected (Some e)] | None => [] end in
        (mkP st' 0 false (mkL (l_state l2) [] None [] None true) false [] true
             (p_accepted p2) (p_broken p2) (p_envs p2),
         outs_of i (o1 ++ o2))
      end
  | PStopFail =>
    if negb (p_pid p =? 0) &&
       (match p_state p with PS_RUNNING | PS_STARTING => true | _ => false end)
    then (mkP PS_UNKNOWN (p_pid p) false (p_l p) (p_has_stdin p) (p_ibuf p) (p_iclosed p)
              (p_accepted p) (p_broken p) (p_envs p), [])
    else (p, [SInapplicable])
  | PSpawnFail =>
    (* make_dispatchers ran (the new PEventListenerDispatcher reset listener_state and event), then
       fork failed: pipes closed, self.pipes = {}, self.dispatchers = {} *)
    if (p_pid p =? 0) &&
       (match p_state p with PS_EXITED | PS_FATAL | PS_BACKOFF | PS_STOPPED => true | _ => false end)
    then (mkP PS_BACKOFF 0 false
              (mkL (l_state fresh_listener) [] None [] None true) false [] true
              (p_accepted p) (p_broken p) (p_envs p), [])
    else (p, [SInapplicable])
  end.

Definition sys := list proc.

Inductive sop :=
| SProc (i : nat) (op : pop)
| SDispatch (e : ev) (env : bytes) (ws : list wres).

Fixpoint upd {A} (l : list A) (i : nat) (x : A) : list A :=
  match l, i with
  | [], _ => []
  | _ :: r, O => x :: r
  | y :: r, S k => y :: upd r k x
  end.

Definition sys_step (s : sys) (op : sop) : sys * list sout :=
  match op with
  | SProc i pop =>
    match nth_error s i with
    | None => (s, [SInapplicable])
    | Some p => let '(p', o) := proc_step i p pop in (upd s i p', o)
    end
  | SDispatch e env ws =>
    let '(s', o, _) := dispatch_from 0 s e env ws in (s', o)
  end.

Fixpoint sys_run (s : sys) (ops : list sop) : sys * list sout :=
  match ops with
  | [] => (s, [])
  | op :: r => let '(s1, o1) := sys_step s op in
               let '(s2, o2) := sys_run s1 r in (s2, o1 ++ o2)
  end.

End Model.

(* ---- correspondence: one case = a start system, a list of operations and,
   for every operation, what the implementation showed afterwards *)
Definition wres_dummy := WAgain.

Definition sout_eqb (a b : sout) : bool :=
  match a, b with
  | SOut i x, SOut j y => Nat.eqb i j && out_eqb x y
  | SSent i x, SSent j y => Nat.eqb i j && (x =? y)
  | SEpipe i, SEpipe j => Nat.eqb i j
  | SNotSent, SNotSent | SRaise, SRaise | SInapplicable, SInapplicable => true
  | _, _ => false
  end.

Definition proc_eqb (a b : proc) : bool :=
  pstate_eqb (p_state a) (p_state b) && (p_pid a =? p_pid b) && Bool.eqb (p_killing a) (p_killing b) &&
  listener_eqb (p_l a) (p_l b) && Bool.eqb (p_has_stdin a) (p_has_stdin b) &&
  zlist_eqb (p_ibuf a) (p_ibuf b) && Bool.eqb (p_iclosed a) (p_iclosed b) &&
  zlist_eqb (p_accepted a) (p_accepted b) && Bool.eqb (p_broken a) (p_broken b).

(* observation after one operation: every process and the effects *)
Definition obs := (list proc * list sout)%type.

Fixpoint check_steps (h : handler) (md : Z) (s : sys) (ops : list sop) (expect : list obs) : bool :=
  match ops, expect with
  | [], [] => true
  | op :: r, (ps, outs) :: er =>
    let '(s', o) := sys_step h md s op in
    list_eqb proc_eqb s' ps && list_eqb sout_eqb o outs && check_steps h md s' r er
  | _, _ => false
  end.


Definition check_sys (cs : Z * Z * sys * list sop * list obs) : bool :=
  let '(hk, md, s, ops, expect) := cs in check_steps (handler_of hk) md s ops expect.
