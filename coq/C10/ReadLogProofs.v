(* C10: the protocol interpretation is a function of the raw bytes only. *)
From Coq Require Import ZArith List Bool.
Import ListNotations.
Require Import SV.Common SV.C10.Gen_tokens SV.C10.Listener SV.C10.ReadLog.
Open Scope Z_scope.

Lemma read_event_full_protocol h maxdig strip haslog s data :
  fst (read_event_full h maxdig strip haslog s data) = read_event h maxdig s data.
Proof. unfold read_event_full. destruct (read_event h maxdig s data). reflexivity. Qed.

(* so two settings of strip_ansi / child log can never be told apart by the protocol *)
Lemma read_event_full_same h maxdig s data b1 l1 b2 l2 :
  fst (read_event_full h maxdig b1 l1 s data) = fst (read_event_full h maxdig b2 l2 s data).
Proof. rewrite !read_event_full_protocol. reflexivity. Qed.

(* stripping really changes bytes: the statement above is not vacuous *)
Example strip_changes :
  strip_escapes [79; 27; 91; 51; 49; 109; 75] = [79; 75] /\          (* "O\x1b[31mK" -> "OK" *)
  strip_escapes [82; 69; 27; 91; 49; 109; 65; 68; 89; 10] = [82; 69; 65; 68; 89; 10].  (* "RE\x1b[1mADY\n" -> "READY\n" *)
Proof. split; reflexivity. Qed.
