(* C10: proofs about the listener stdout parser (Listener.v).
   - the recursion of handle_listener_state_change is at most 4 deep
   - fragmentation invariance: feed (feed s a) b = feed s (a ++ b)
   - UNKNOWN is absorbing
   - refinement of the documented byte-at-a-time automaton *)
From Coq Require Import ZArith List Bool Lia ZifyBool.
Import ListNotations.
Require Import SV.Common SV.C10.Gen_tokens SV.C10.Listener.
Open Scope Z_scope.

Arguments zlen : simpl never.

(* ------------------------------------------------------------ list facts *)
Lemma zlen_nil : zlen [] = 0. Proof. reflexivity. Qed.
Lemma zlen_cons c l : zlen (c :: l) = 1 + zlen l.
Proof. unfold zlen. simpl length. lia. Qed.
Lemma zlen_app a b : zlen (a ++ b) = zlen a + zlen b.
Proof. unfold zlen. rewrite app_length. lia. Qed.
Lemma zlen_nonneg l : 0 <= zlen l. Proof. unfold zlen. lia. Qed.
Lemma zlen_zero l : zlen l = 0 -> l = [].
Proof. destruct l; [reflexivity|]. rewrite zlen_cons. pose proof (zlen_nonneg l). lia. Qed.

Lemma nonempty_app_r x b : nonempty x = true -> nonempty (x ++ b) = true.
Proof. destruct x; simpl; congruence. Qed.

Lemma starts_with_app p x b :
  (length p <= length x)%nat -> starts_with p (x ++ b) = starts_with p x.
Proof.
  revert x; induction p as [|a p IH]; intros x H; [reflexivity|].
  destruct x as [|c x]; simpl in H; [lia|]. simpl. rewrite IH by lia. reflexivity.
Qed.

Lemma find_nl_app_some x b pos : find_nl x = Some pos -> find_nl (x ++ b) = Some pos.
Proof.
  revert pos; induction x as [|c x IH]; intros pos H; simpl in *; [discriminate|].
  destruct (c =? 10); [assumption|].
  destruct (find_nl x) as [k|]; [|discriminate].
  rewrite (IH k eq_refl). assumption.
Qed.

Lemma find_nl_lt x pos : find_nl x = Some pos -> (pos < length x)%nat.
Proof.
  revert pos; induction x as [|c x IH]; intros pos H; simpl in *; [discriminate|].
  destruct (c =? 10); [inversion H; lia|].
  destruct (find_nl x) as [k|]; [|discriminate]. inversion H. specialize (IH k eq_refl). lia.
Qed.

Lemma firstn_app_lt {A} (x b : list A) k : (k <= length x)%nat -> firstn k (x ++ b) = firstn k x.
Proof. intros H. rewrite firstn_app. replace (k - length x)%nat with O by lia. simpl. apply app_nil_r. Qed.

Lemma skipn_app_le {A} (x b : list A) k : (k <= length x)%nat -> skipn k (x ++ b) = skipn k x ++ b.
Proof. intros H. rewrite skipn_app. replace (k - length x)%nat with O by lia. reflexivity. Qed.

Lemma skipn_nil_len {A} (x : list A) k : skipn k x = [] -> (length x <= k)%nat.
Proof. intros H. pose proof (skipn_length k x) as L. rewrite H in L. simpl in L. lia. Qed.

(* l[:n], l[n:] for 0 <= n *)
Lemma py_upto_nonneg n l : 0 <= n -> py_upto n l = firstn (Z.to_nat (Z.min n (zlen l))) l.
Proof. intros H. unfold py_upto. replace (n <? 0) with false by lia. reflexivity. Qed.
Lemma py_from_nonneg n l : 0 <= n -> py_from n l = skipn (Z.to_nat (Z.min n (zlen l))) l.
Proof. intros H. unfold py_from. replace (n <? 0) with false by lia. reflexivity. Qed.

Lemma py_upto_all n l : zlen l <= n -> py_upto n l = l.
Proof.
  intros H. pose proof (zlen_nonneg l). rewrite py_upto_nonneg by lia.
  replace (Z.min n (zlen l)) with (zlen l) by lia. unfold zlen. rewrite Nat2Z.id. apply firstn_all.
Qed.
Lemma py_from_all n l : zlen l <= n -> py_from n l = [].
Proof.
  intros H. pose proof (zlen_nonneg l). rewrite py_from_nonneg by lia.
  replace (Z.min n (zlen l)) with (zlen l) by lia. unfold zlen. rewrite Nat2Z.id. apply skipn_all.
Qed.
Lemma py_upto_len n l : 0 <= n -> zlen (py_upto n l) = Z.min n (zlen l).
Proof.
  intros H. rewrite py_upto_nonneg by lia. unfold zlen. rewrite firstn_length. lia.
Qed.
Lemma py_upto_app n x b : zlen x <= n -> py_upto n (x ++ b) = x ++ py_upto (n - zlen x) b.
Proof.
  intros H. pose proof (zlen_nonneg x). pose proof (zlen_nonneg b).
  rewrite !py_upto_nonneg by lia. rewrite zlen_app.
  rewrite firstn_app.
  replace (firstn (Z.to_nat (Z.min n (zlen x + zlen b))) x) with x.
  2:{ symmetry. apply firstn_all2. unfold zlen in *. lia. }
  f_equal. f_equal. unfold zlen in *. lia.
Qed.
Lemma py_from_app n x b : zlen x <= n -> py_from n (x ++ b) = py_from (n - zlen x) b.
Proof.
  intros H. pose proof (zlen_nonneg x). pose proof (zlen_nonneg b).
  rewrite !py_from_nonneg by lia. rewrite zlen_app.
  rewrite skipn_app.
  replace (skipn (Z.to_nat (Z.min n (zlen x + zlen b))) x) with (@nil Z).
  2:{ symmetry. apply skipn_all2. unfold zlen in *. lia. }
  simpl. f_equal. unfold zlen in *. lia.
Qed.
Lemma py_upto_app_ge n x b : 0 <= n <= zlen x -> py_upto n (x ++ b) = py_upto n x.
Proof.
  intros H. pose proof (zlen_nonneg b). rewrite !py_upto_nonneg by lia. rewrite zlen_app.
  replace (Z.min n (zlen x + zlen b)) with n by lia. replace (Z.min n (zlen x)) with n by lia.
  apply firstn_app_lt. unfold zlen in *. lia.
Qed.
Lemma py_from_app_ge n x b : 0 <= n <= zlen x -> py_from n (x ++ b) = py_from n x ++ b.
Proof.
  intros H. pose proof (zlen_nonneg b). rewrite !py_from_nonneg by lia. rewrite zlen_app.
  replace (Z.min n (zlen x + zlen b)) with n by lia. replace (Z.min n (zlen x)) with n by lia.
  apply skipn_app_le. unfold zlen in *. lia.
Qed.
Lemma py_from_len n l : 0 <= n -> zlen (py_from n l) = zlen l - Z.min n (zlen l).
Proof.
  intros H. pose proof (zlen_nonneg l). rewrite py_from_nonneg by lia. unfold zlen in *.
  rewrite skipn_length. lia.
Qed.

(* ------------------------------------------------------ well-formed states *)
(* established by PEventListenerDispatcher.__init__ and preserved by every
   step: the collected result never exceeds the announced length, and nothing
   is collected before a length was announced *)
Definition wf (s : listener) : Prop :=
  match l_rlen s with Some n => zlen (l_result s) <= n | None => l_result s = [] end.

Definition rank (s : listener) : nat :=
  match l_state s, l_rlen s with
  | BUSY, None => 4
  | BUSY, Some _ => 3
  | ACK, _ => 2
  | _, _ => 1
  end.

Lemma dec_val_acc_nonneg l a : forallb is_digit l = true -> 0 <= a ->
  0 <= fold_left (fun a c => a * 10 + (c - 48)) l a.
Proof.
  revert a; induction l as [|c l IH]; intros a H Ha; simpl in *; [assumption|].
  apply andb_true_iff in H. destruct H as [Hc Hl]. apply IH; [assumption|].
  unfold is_digit in Hc. lia.
Qed.

Lemma dec_val_nonneg l : is_digits l = true -> 0 <= dec_val l.
Proof.
  intros H. unfold dec_val. apply dec_val_acc_nonneg; [|lia].
  unfold is_digits in H. destruct l; [discriminate | assumption].
Qed.

(* what one activation does in the BUSY/collecting state *)
Definition collect (n : Z) (res buf : bytes) : bytes * bytes :=
  if n - zlen res =? 0 then (res, buf)
  else (res ++ py_upto (n - zlen res) buf, py_from (n - zlen res) buf).

Lemma collect_wf n res buf : zlen res <= n -> zlen (fst (collect n res buf)) <= n.
Proof.
  intros H. unfold collect. destruct (n - zlen res =? 0) eqn:E; simpl; [lia|].
  rewrite zlen_app, py_upto_len by lia. lia.
Qed.

Lemma collect_short n res buf :
  zlen res <= n -> n - zlen (fst (collect n res buf)) <> 0 -> snd (collect n res buf) = [].
Proof.
  intros H. unfold collect. destruct (n - zlen res =? 0) eqn:E; simpl; [lia|].
  rewrite zlen_app, py_upto_len by lia. intros K. apply py_from_all. lia.
Qed.

Section Proofs.
Variable h : handler.
Variable maxdig : Z.

Notation step1 := (step1 h maxdig).
Notation run := (run h maxdig).
Notation feed := (feed h maxdig).

Lemma run_S f s :
  run (S f) s =
  let '(s', o, again) := step1 s in
  if again && nonempty (l_buf s') then let '(s'', o') := run f s' in (s'', o ++ o') else (s', o).
Proof. reflexivity. Qed.

(* step1 on the collecting state, in terms of collect *)
Lemma step1_collect c buf n res e cl :
  step1 (mkL BUSY (c :: buf) (Some n) res e cl) =
  let '(res1, buf1) := collect n res (c :: buf) in
  if n - zlen res1 =? 0 then
    match h e res1 with
    | HOk => (mkL ACK buf1 None [] None cl, [OProcessed e; OState ACK], true)
    | HReject => (mkL ACK buf1 None [] None cl, [OState ACK; ORejected e], true)
    | HRaise => (mkL UNKNOWN buf1 None [] None cl, [OState UNKNOWN; ORejected e], true)
    end
  else (mkL BUSY buf1 (Some n) res1 e cl, [], true).
Proof. reflexivity. Qed.

Lemma step1_nil st rl res e cl :
  step1 (mkL st [] rl res e cl) = (mkL st [] rl res e cl, [], false).
Proof. reflexivity. Qed.

Lemma step1_unknown c buf rl res e cl :
  step1 (mkL UNKNOWN (c :: buf) rl res e cl) = (mkL UNKNOWN [] rl res e cl, [], false).
Proof. reflexivity. Qed.

Lemma step1_ready c buf rl res e cl :
  step1 (mkL READY (c :: buf) rl res e cl) = (mkL UNKNOWN [] rl res None cl, [OState UNKNOWN], false).
Proof. reflexivity. Qed.

Lemma step1_ack c buf rl res e cl :
  step1 (mkL ACK (c :: buf) rl res e cl) =
  if zlen (c :: buf) <? Z.of_nat ready_len then (mkL ACK (c :: buf) rl res e cl, [], false)
  else if starts_with READY_TOKEN (c :: buf) then
    (mkL READY (skipn ready_len (c :: buf)) rl res None cl, [OState READY], true)
  else (mkL UNKNOWN [] rl res None cl, [OState UNKNOWN], true).
Proof. reflexivity. Qed.

Definition good_line (line : bytes) : bool :=
  starts_with RESULT_START line && is_digits (skipn result_start_len line) &&
  digits_ok maxdig (skipn result_start_len line).

Lemma step1_busy_none c buf res e cl :
  step1 (mkL BUSY (c :: buf) None res e cl) =
  match find_nl (c :: buf) with
  | None => (mkL BUSY (c :: buf) None res e cl, [], false)
  | Some pos =>
    if good_line (firstn pos (c :: buf)) then
      (mkL BUSY (skipn (S pos) (c :: buf))
           (Some (dec_val (skipn result_start_len (firstn pos (c :: buf))))) res e cl, [], true)
    else (mkL UNKNOWN [] None res None cl, [OState UNKNOWN; ORejected e], false)
  end.
Proof. reflexivity. Qed.

Lemma good_line_nonneg line : good_line line = true -> 0 <= dec_val (skipn result_start_len line).
Proof.
  unfold good_line. intros E.
  apply andb_true_iff in E. destruct E as [E _]. apply andb_true_iff in E. destruct E as [_ E].
  apply dec_val_nonneg; assumption.
Qed.

Opaque Listener.step1 READY_TOKEN RESULT_START.
Arguments Listener.run : simpl never.

Lemma step1_wf s : wf s -> wf (fst (fst (step1 s))).
Proof.
  destruct s as [st buf rl res e cl]. unfold wf. simpl.
  destruct buf as [|c buf]; [rewrite step1_nil; auto|].
  destruct st.
  - rewrite step1_ack.
    destruct (zlen (c :: buf) <? Z.of_nat ready_len); simpl; auto.
    destruct (starts_with READY_TOKEN (c :: buf)); simpl; auto.
  - rewrite step1_ready; simpl; auto.
  - destruct rl as [n|].
    + intros H. rewrite step1_collect.
      pose proof (collect_wf n res (c :: buf) H) as W.
      destruct (collect n res (c :: buf)) as [res1 buf1]. simpl in W.
      destruct (n - zlen res1 =? 0); [destruct (h e res1); reflexivity | simpl; assumption].
    + intros ->. rewrite step1_busy_none.
      destruct (find_nl (c :: buf)); simpl; auto.
      destruct (good_line _) eqn:E; simpl; auto.
      apply good_line_nonneg in E. rewrite zlen_nil. assumption.
  - rewrite step1_unknown; simpl; auto.
Qed.

(* rank never increases, and decreases whenever the recursive call is made *)
Lemma step1_rank_le s : (rank (fst (fst (step1 s))) <= rank s)%nat.
Proof.
  destruct s as [st buf rl res e cl].
  destruct buf as [|c buf]; [rewrite step1_nil; simpl; lia|].
  destruct st.
  - rewrite step1_ack.
    destruct (zlen (c :: buf) <? Z.of_nat ready_len); [simpl; lia|].
    destruct (starts_with READY_TOKEN (c :: buf)); unfold rank; simpl; lia.
  - rewrite step1_ready. unfold rank; simpl; lia.
  - destruct rl as [n|].
    + rewrite step1_collect. destruct (collect n res (c :: buf)) as [res1 buf1].
      destruct (n - zlen res1 =? 0); [destruct (h e res1)|]; unfold rank; simpl; lia.
    + rewrite step1_busy_none. destruct (find_nl (c :: buf)); [|simpl; lia].
      destruct (good_line _); unfold rank; simpl; lia.
  - rewrite step1_unknown. unfold rank; simpl; lia.
Qed.

Lemma step1_rank_lt s s' o :
  wf s -> step1 s = (s', o, true) -> l_buf s' <> [] -> (rank s' < rank s)%nat.
Proof.
  destruct s as [st buf rl res e cl]. unfold wf; simpl.
  destruct buf as [|c buf]; [rewrite step1_nil; intros _ H; inversion H|].
  destruct st.
  - rewrite step1_ack.
    destruct (zlen (c :: buf) <? Z.of_nat ready_len); [intros _ H; inversion H|].
    destruct (starts_with READY_TOKEN (c :: buf)); intros _ H; inversion H; subst; unfold rank; simpl.
    + lia.
    + intros K; contradiction K; reflexivity.
  - rewrite step1_ready. intros _ H; inversion H.
  - destruct rl as [n|].
    + intros W. rewrite step1_collect.
      pose proof (collect_short n res (c :: buf) W) as Sh.
      destruct (collect n res (c :: buf)) as [res1 buf1]. simpl in Sh.
      destruct (n - zlen res1 =? 0) eqn:E; [destruct (h e res1)|]; intros H; inversion H; subst;
        unfold rank; simpl; try lia.
      intros K. contradiction K. apply Sh. lia.
    + intros _. rewrite step1_busy_none. destruct (find_nl (c :: buf)); [|intros H; inversion H].
      destruct (good_line _); intros H; inversion H; subst; unfold rank; simpl; lia.
  - rewrite step1_unknown. intros _ H; inversion H.
Qed.

Lemma nonempty_true l : nonempty l = true -> l <> [].
Proof. destruct l; simpl; congruence. Qed.
Lemma nonempty_false l : nonempty l = false -> l = [].
Proof. destruct l; simpl; congruence. Qed.

Lemma rank_pos s : (1 <= rank s)%nat.
Proof. unfold rank. destruct (l_state s), (l_rlen s); lia. Qed.

(* enough fuel: the result does not depend on it *)
Lemma run_fuel_irrelevant f1 : forall f2 s,
  wf s -> (rank s <= f1)%nat -> (rank s <= f2)%nat -> run f1 s = run f2 s.
Proof.
  induction f1 as [|f1 IH]; intros f2 s W R1 R2; [pose proof (rank_pos s); lia|].
  destruct f2 as [|f2]; [pose proof (rank_pos s); lia|].
  rewrite !run_S. destruct (step1 s) as [[s' o] again] eqn:E.
  destruct (again && nonempty (l_buf s')) eqn:C; [|reflexivity].
  apply andb_true_iff in C. destruct C as [-> C]. apply nonempty_true in C.
  pose proof (step1_rank_lt s s' o W E C) as L.
  pose proof (step1_wf s W) as W'. rewrite E in W'. simpl in W'.
  rewrite (IH f2 s') by (assumption || lia). reflexivity.
Qed.

Lemma run_wf f : forall s, wf s -> wf (fst (run f s)).
Proof.
  induction f as [|f IH]; intros s W; [assumption|].
  rewrite run_S. pose proof (step1_wf s W) as W'.
  destruct (step1 s) as [[s' o] again]. simpl in W'.
  destruct (again && nonempty (l_buf s')); [|assumption].
  specialize (IH s' W'). destruct (run f s'). assumption.
Qed.

Lemma run_rank_le f : forall s, (rank (fst (run f s)) <= rank s)%nat.
Proof.
  induction f as [|f IH]; intros s; [simpl; lia|].
  rewrite run_S. pose proof (step1_rank_le s) as L.
  destruct (step1 s) as [[s' o] again]. simpl in L.
  destruct (again && nonempty (l_buf s')); [|simpl; assumption].
  specialize (IH s'). destruct (run f s'). simpl in *. lia.
Qed.

Lemma step1_no_crash s : ~ In OCrash (snd (fst (step1 s))).
Proof.
  destruct s as [st buf rl res e cl].
  destruct buf as [|c buf]; [rewrite step1_nil; simpl; tauto|].
  destruct st.
  - rewrite step1_ack.
    destruct (zlen (c :: buf) <? Z.of_nat ready_len); [simpl; tauto|].
    destruct (starts_with READY_TOKEN (c :: buf)); simpl; intuition discriminate.
  - rewrite step1_ready. simpl; intuition discriminate.
  - destruct rl as [n|].
    + rewrite step1_collect. destruct (collect n res (c :: buf)) as [res1 buf1].
      destruct (n - zlen res1 =? 0); [destruct (h e res1)|]; simpl; intuition discriminate.
    + rewrite step1_busy_none. destruct (find_nl (c :: buf)); [|simpl; tauto].
      destruct (good_line _); simpl; intuition discriminate.
  - rewrite step1_unknown. simpl; tauto.
Qed.

(* RecursionError is impossible: four frames are always enough *)
Lemma run_no_crash f : forall s, wf s -> (rank s <= f)%nat -> ~ In OCrash (snd (run f s)).
Proof.
  induction f as [|f IH]; intros s W R; [pose proof (rank_pos s); lia|].
  rewrite run_S. pose proof (step1_no_crash s) as N. pose proof (step1_wf s W) as W'.
  destruct (step1 s) as [[s' o] again] eqn:E. simpl in N, W'.
  destruct (again && nonempty (l_buf s')) eqn:C; [|assumption].
  apply andb_true_iff in C. destruct C as [-> C]. apply nonempty_true in C.
  pose proof (step1_rank_lt s s' o W E C) as L.
  specialize (IH s' W' ltac:(lia)). destruct (run f s') as [s'' o'']. simpl in *.
  intros K. apply in_app_or in K. tauto.
Qed.

(* ------------------------------------------------ fragmentation invariance *)
Definition seq2 (f : nat) (r : listener * list out) (b : bytes) : listener * list out :=
  let '(s1, o1) := r in let '(s2, o2) := run f (app_buf s1 b) in (s2, o1 ++ o2).

Definition frag_stmt (f : nat) : Prop :=
  forall st x rl res e cl b,
    wf (mkL st x rl res e cl) -> (rank (mkL st x rl res e cl) <= f)%nat ->
    run f (mkL st (x ++ b) rl res e cl) = seq2 f (run f (mkL st x rl res e cl)) b.

Lemma run_nil f st rl res e cl :
  run (S f) (mkL st [] rl res e cl) = (mkL st [] rl res e cl, []).
Proof. rewrite run_S, step1_nil. reflexivity. Qed.

Lemma run_unknown f b rl res e cl :
  run (S f) (mkL UNKNOWN b rl res e cl) = (mkL UNKNOWN [] rl res e cl, []).
Proof. destruct b; [apply run_nil|]. rewrite run_S, step1_unknown. reflexivity. Qed.

Lemma wf_buf st x y rl res e cl : wf (mkL st x rl res e cl) -> wf (mkL st y rl res e cl).
Proof. unfold wf; simpl; auto. Qed.

Lemma frag_same f st x rl res e cl b :
  step1 (mkL st x rl res e cl) = (mkL st x rl res e cl, [], false) ->
  run (S f) (mkL st (x ++ b) rl res e cl) = seq2 (S f) (run (S f) (mkL st x rl res e cl)) b.
Proof.
  intros E. rewrite (run_S f (mkL st x rl res e cl)), E. simpl.
  unfold app_buf; simpl. destruct (run _ _). reflexivity.
Qed.

Lemma frag_dead f s sb rl' res' e' cl' o ag b :
  step1 s = (mkL UNKNOWN [] rl' res' e' cl', o, ag) ->
  step1 sb = (mkL UNKNOWN [] rl' res' e' cl', o, ag) ->
  run (S f) sb = seq2 (S f) (run (S f) s) b.
Proof.
  intros E1 E2. rewrite (run_S f s), (run_S f sb), E1, E2. simpl.
  rewrite andb_false_r. unfold seq2, app_buf; simpl.
  rewrite run_unknown. rewrite app_nil_r. reflexivity.
Qed.

Lemma frag_cont f s sb st' x' rl' res' e' cl' o b :
  frag_stmt f ->
  wf (mkL st' x' rl' res' e' cl') -> (rank (mkL st' x' rl' res' e' cl') <= f)%nat ->
  step1 s = (mkL st' x' rl' res' e' cl', o, true) ->
  step1 sb = (mkL st' (x' ++ b) rl' res' e' cl', o, true) ->
  run (S f) sb = seq2 (S f) (run (S f) s) b.
Proof.
  intros IH W R E1 E2. rewrite (run_S f s), (run_S f sb), E1, E2. simpl.
  destruct (nonempty x') eqn:NX.
  - rewrite (nonempty_app_r _ b NX). rewrite (IH st' x' rl' res' e' cl' b W R).
    pose proof (run_wf f _ W) as W1. pose proof (run_rank_le f (mkL st' x' rl' res' e' cl')) as R1.
    destruct (run f (mkL st' x' rl' res' e' cl')) as [s1 o1]. simpl in *.
    assert (F : run f (app_buf s1 b) = run (S f) (app_buf s1 b)).
    { apply run_fuel_irrelevant.
      - destruct s1; exact W1.
      - destruct s1; unfold rank in *; simpl in *; lia.
      - destruct s1; unfold rank in *; simpl in *; lia. }
    rewrite F. destruct (run (S f) (app_buf s1 b)). rewrite app_assoc. reflexivity.
  - apply nonempty_false in NX. subst x'. simpl.
    unfold app_buf; simpl.
    destruct (nonempty b) eqn:NB.
    + assert (F : run f (mkL st' b rl' res' e' cl') = run (S f) (mkL st' b rl' res' e' cl')).
      { apply run_fuel_irrelevant; [eapply wf_buf; exact W | exact R | unfold rank in *; simpl in *; lia]. }
      rewrite F. reflexivity.
    + apply nonempty_false in NB. subst b. rewrite run_nil. rewrite app_nil_r. reflexivity.
Qed.

Lemma length_ready : length READY_TOKEN = ready_len. Proof. reflexivity. Qed.

Lemma zlen_ge_len x n : Z.of_nat n <= zlen x -> (n <= length x)%nat.
Proof. unfold zlen. lia. Qed.

Lemma frag_step f : frag_stmt f -> frag_stmt (S f).
Proof.
  intros IH st x rl res e cl b W R.
  destruct x as [|c x0].
  { (* nothing buffered *)
    rewrite run_nil. unfold seq2, app_buf. simpl.
    destruct (run _ _). reflexivity. }
  destruct st.
  - (* ACKNOWLEDGED *)
    destruct (zlen (c :: x0) <? Z.of_nat ready_len) eqn:Short.
    + apply frag_same. rewrite step1_ack, Short. reflexivity.
    + assert (Len : (ready_len <= length (c :: x0))%nat) by (apply zlen_ge_len; lia).
      destruct (starts_with READY_TOKEN (c :: x0)) eqn:Tok.
      * eapply frag_cont with (st' := READY) (x' := skipn ready_len (c :: x0)) (rl' := rl) (res' := res) (e' := None) (cl' := cl); try exact IH.
        -- unfold wf in *; simpl in *; exact W.
        -- unfold rank in *; simpl in *; lia.
        -- rewrite step1_ack, Short, Tok. reflexivity.
        -- change ((c :: x0) ++ b) with (c :: (x0 ++ b)). rewrite step1_ack.
           change (c :: (x0 ++ b)) with ((c :: x0) ++ b).
           replace (zlen ((c :: x0) ++ b) <? Z.of_nat ready_len) with false
             by (rewrite zlen_app; pose proof (zlen_nonneg b); lia).
           rewrite starts_with_app by (rewrite length_ready; exact Len). rewrite Tok.
           rewrite skipn_app_le by exact Len. reflexivity.
      * eapply frag_dead.
        -- rewrite step1_ack, Short, Tok. reflexivity.
        -- change ((c :: x0) ++ b) with (c :: (x0 ++ b)). rewrite step1_ack.
           change (c :: (x0 ++ b)) with ((c :: x0) ++ b).
           replace (zlen ((c :: x0) ++ b) <? Z.of_nat ready_len) with false
             by (rewrite zlen_app; pose proof (zlen_nonneg b); lia).
           rewrite starts_with_app by (rewrite length_ready; exact Len). rewrite Tok. reflexivity.
  - (* READY *)
    eapply frag_dead; [apply step1_ready | simpl; apply step1_ready].
  - (* BUSY *)
    destruct rl as [n|].
    + (* collecting the result *)
      unfold wf in W; simpl in W.
      pose proof (zlen_nonneg res) as Hres. pose proof (zlen_nonneg (c :: x0)) as Hx.
      pose proof (zlen_cons c x0) as Hc. pose proof (zlen_nonneg x0) as Hx0.
      destruct (n - zlen res =? 0) eqn:N0.
      * (* already complete (zero-length result pending) *)
        destruct (h e res) eqn:Hh.
        -- eapply frag_cont with (st' := ACK) (x' := c :: x0) (rl' := None) (res' := []) (e' := None) (cl' := cl); try exact IH.
           ++ unfold wf; reflexivity.
           ++ unfold rank in *; simpl in *; lia.
           ++ rewrite step1_collect. unfold collect. rewrite N0, N0, Hh. reflexivity.
           ++ simpl. rewrite step1_collect. unfold collect. rewrite N0, N0, Hh. reflexivity.
        -- eapply frag_cont with (st' := ACK) (x' := c :: x0) (rl' := None) (res' := []) (e' := None) (cl' := cl); try exact IH.
           ++ unfold wf; reflexivity.
           ++ unfold rank in *; simpl in *; lia.
           ++ rewrite step1_collect. unfold collect. rewrite N0, N0, Hh. reflexivity.
           ++ simpl. rewrite step1_collect. unfold collect. rewrite N0, N0, Hh. reflexivity.
        -- eapply frag_cont with (st' := UNKNOWN) (x' := c :: x0) (rl' := None) (res' := []) (e' := None) (cl' := cl); try exact IH.
           ++ unfold wf; reflexivity.
           ++ unfold rank in *; simpl in *; lia.
           ++ rewrite step1_collect. unfold collect. rewrite N0, N0, Hh. reflexivity.
           ++ simpl. rewrite step1_collect. unfold collect. rewrite N0, N0, Hh. reflexivity.
      * destruct (n - zlen res <=? zlen (c :: x0)) eqn:Enough.
        -- (* the buffer completes the result *)
           assert (R1 : res ++ py_upto (n - zlen res) (c :: x0) = res ++ py_upto (n - zlen res) ((c :: x0) ++ b))
             by (rewrite py_upto_app_ge by lia; reflexivity).
           assert (L1 : n - zlen (res ++ py_upto (n - zlen res) (c :: x0)) =? 0 = true)
             by (rewrite zlen_app, py_upto_len by lia; lia).
           destruct (h e (res ++ py_upto (n - zlen res) (c :: x0))) eqn:Hh.
           ++ eapply frag_cont with (st' := ACK) (x' := py_from (n - zlen res) (c :: x0)) (rl' := None) (res' := []) (e' := None) (cl' := cl); try exact IH.
              ** unfold wf; reflexivity.
              ** unfold rank in *; simpl in *; lia.
              ** rewrite step1_collect. unfold collect. rewrite N0, L1, Hh. reflexivity.
              ** change ((c :: x0) ++ b) with (c :: (x0 ++ b)). rewrite step1_collect.
                 change (c :: (x0 ++ b)) with ((c :: x0) ++ b).
                 unfold collect. rewrite N0, <- R1, L1, Hh. rewrite py_from_app_ge by lia. reflexivity.
           ++ eapply frag_cont with (st' := ACK) (x' := py_from (n - zlen res) (c :: x0)) (rl' := None) (res' := []) (e' := None) (cl' := cl); try exact IH.
              ** unfold wf; reflexivity.
              ** unfold rank in *; simpl in *; lia.
              ** rewrite step1_collect. unfold collect. rewrite N0, L1, Hh. reflexivity.
              ** change ((c :: x0) ++ b) with (c :: (x0 ++ b)). rewrite step1_collect.
                 change (c :: (x0 ++ b)) with ((c :: x0) ++ b).
                 unfold collect. rewrite N0, <- R1, L1, Hh. rewrite py_from_app_ge by lia. reflexivity.
           ++ eapply frag_cont with (st' := UNKNOWN) (x' := py_from (n - zlen res) (c :: x0)) (rl' := None) (res' := []) (e' := None) (cl' := cl); try exact IH.
              ** unfold wf; reflexivity.
              ** unfold rank in *; simpl in *; lia.
              ** rewrite step1_collect. unfold collect. rewrite N0, L1, Hh. reflexivity.
              ** change ((c :: x0) ++ b) with (c :: (x0 ++ b)). rewrite step1_collect.
                 change (c :: (x0 ++ b)) with ((c :: x0) ++ b).
                 unfold collect. rewrite N0, <- R1, L1, Hh. rewrite py_from_app_ge by lia. reflexivity.
        -- (* still short after this buffer: everything is moved to result *)
           assert (E1 : step1 (mkL BUSY (c :: x0) (Some n) res e cl) =
                        (mkL BUSY [] (Some n) (res ++ (c :: x0)) e cl, [], true)).
           { rewrite step1_collect. unfold collect. rewrite N0.
             rewrite py_upto_all, py_from_all by lia.
             replace (n - zlen (res ++ c :: x0) =? 0) with false by (rewrite zlen_app; lia).
             reflexivity. }
           rewrite (run_S f (mkL BUSY (c :: x0) (Some n) res e cl)), E1. simpl.
           unfold app_buf; simpl.
           destruct b as [|d b0].
           { rewrite app_nil_r, run_nil, run_S, E1. reflexivity. }
           rewrite (run_S f (mkL BUSY (c :: x0 ++ d :: b0) (Some n) res e cl)).
           rewrite (run_S f (mkL BUSY (d :: b0) (Some n) (res ++ c :: x0) e cl)).
           rewrite !step1_collect.
           change (c :: x0 ++ d :: b0) with ((c :: x0) ++ d :: b0).
           assert (C : collect n res ((c :: x0) ++ d :: b0) = collect n (res ++ c :: x0) (d :: b0)).
           { unfold collect. rewrite N0.
             replace (n - zlen (res ++ c :: x0) =? 0) with false by (rewrite zlen_app; lia).
             rewrite py_upto_app, py_from_app by lia. rewrite zlen_app.
             replace (n - (zlen res + zlen (c :: x0))) with (n - zlen res - zlen (c :: x0)) by lia.
             rewrite <- app_assoc. reflexivity. }
           rewrite C. destruct (collect n (res ++ c :: x0) (d :: b0)) as [res1 buf1].
           destruct (n - zlen res1 =? 0); [destruct (h e res1)|];
             simpl; destruct (nonempty buf1 && true); destruct (nonempty buf1);
             try destruct (run _ _); reflexivity.
    + (* waiting for the result line *)
      destruct (find_nl (c :: x0)) as [pos|] eqn:NL.
      * pose proof (find_nl_lt _ _ NL) as PL.
        pose proof (find_nl_app_some _ b _ NL) as NLb.
        destruct (good_line (firstn pos (c :: x0))) eqn:G.
        -- eapply frag_cont with (st' := BUSY) (x' := skipn (S pos) (c :: x0)) (rl' := Some (dec_val (skipn result_start_len (firstn pos (c :: x0))))) (res' := res) (e' := e) (cl' := cl); try exact IH.
           ++ unfold wf in *; simpl in *. rewrite W, zlen_nil. apply good_line_nonneg. exact G.
           ++ unfold rank in *; simpl in *; lia.
           ++ rewrite step1_busy_none, NL, G. reflexivity.
           ++ change ((c :: x0) ++ b) with (c :: (x0 ++ b)). rewrite step1_busy_none.
              change (c :: (x0 ++ b)) with ((c :: x0) ++ b). rewrite NLb.
              rewrite firstn_app_lt by lia. rewrite G.
              rewrite skipn_app_le by lia. reflexivity.
        -- eapply frag_dead.
           ++ rewrite step1_busy_none, NL, G. reflexivity.
           ++ change ((c :: x0) ++ b) with (c :: (x0 ++ b)). rewrite step1_busy_none.
              change (c :: (x0 ++ b)) with ((c :: x0) ++ b). rewrite NLb.
              rewrite firstn_app_lt by lia. rewrite G. reflexivity.
      * apply frag_same. rewrite step1_busy_none, NL. reflexivity.
  - (* UNKNOWN *)
    eapply frag_dead; [apply step1_unknown | simpl; apply step1_unknown].
Qed.

Lemma frag_all f : frag_stmt f.
Proof.
  induction f as [|f IH]; [|apply frag_step; exact IH].
  intros st x rl res e cl b W R. pose proof (rank_pos (mkL st x rl res e cl)). lia.
Qed.

(* ------------------------------------------------------------- corollaries *)
Lemma rank_le_4 s : (rank s <= 4)%nat.
Proof. unfold rank. destruct (l_state s), (l_rlen s); lia. Qed.

Lemma wf_app_buf s d : wf s -> wf (app_buf s d).
Proof. destruct s; unfold wf; simpl; auto. Qed.

Lemma rank_app_buf s d : rank (app_buf s d) = rank s.
Proof. destruct s; reflexivity. Qed.

Theorem feed_frag s a b :
  wf s ->
  feed s (a ++ b) =
  let '(s1, o1) := feed s a in let '(s2, o2) := feed s1 b in (s2, o1 ++ o2).
Proof.
  intros W. unfold Listener.feed. destruct s as [st buf rl res e cl]. unfold app_buf at 1 2. simpl.
  rewrite app_assoc. rewrite (frag_all fuel0 st (buf ++ a) rl res e cl b).
  - reflexivity.
  - eapply wf_buf; exact W.
  - pose proof (rank_le_4 (mkL st (buf ++ a) rl res e cl)). unfold fuel0. lia.
Qed.

Theorem feed_wf s a : wf s -> wf (fst (feed s a)).
Proof. intros W. apply run_wf. apply wf_app_buf. exact W. Qed.

Lemma wf_fresh : wf fresh_listener.
Proof. reflexivity. Qed.

(* RecursionError cannot happen, and 4 frames are enough for any input *)
Theorem feed_no_crash s a : wf s -> ~ In OCrash (snd (feed s a)).
Proof.
  intros W. apply run_no_crash; [apply wf_app_buf; exact W|].
  pose proof (rank_le_4 (app_buf s a)). unfold fuel0. lia.
Qed.

Theorem feed_depth_4 s a f : wf s -> (4 <= f)%nat -> run f (app_buf s a) = feed s a.
Proof.
  intros W F. apply run_fuel_irrelevant; [apply wf_app_buf; exact W| |];
    pose proof (rank_le_4 (app_buf s a)); unfold fuel0; lia.
Qed.

(* an empty chunk is the identity on every state a feed leaves behind *)
Theorem feed_nil_after_feed s a :
  wf s -> feed (fst (feed s a)) [] = (fst (feed s a), []).
Proof.
  intros W. pose proof (feed_frag s a [] W) as F. rewrite app_nil_r in F.
  destruct (feed s a) as [s1 o1]. simpl. destruct (feed s1 []) as [s2 o2].
  inversion F as [[E1 E2]]. f_equal.
  rewrite <- (app_nil_r o1) in E2 at 1. apply app_inv_head in E2. congruence.
Qed.

(* UNKNOWN is absorbing: whatever arrives is discarded, nothing is emitted *)
Theorem unknown_absorbing s a :
  l_state s = UNKNOWN ->
  feed s a = (mkL UNKNOWN [] (l_rlen s) (l_result s) (l_event s) (l_closed s), []).
Proof.
  intros U. destruct s as [st buf rl res e cl]. simpl in U. subst st.
  unfold Listener.feed, app_buf, fuel0. simpl. apply run_unknown.
Qed.

(* ---- answers: the event of a BUSY listener is given back (accepted or
   rejected) exactly once, at the moment the listener leaves BUSY *)
Definition answers (o : list out) : list (option ev) :=
  flat_map (fun x => match x with ORejected e => [e] | OProcessed e => [e] | _ => [] end) o.

Lemma answers_app a b : answers (a ++ b) = answers a ++ answers b.
Proof. unfold answers. apply flat_map_app. Qed.

Definition is_busy (s : listener) : bool := lstate_eqb (l_state s) BUSY.

(* the event slot is empty unless the listener is BUSY *)
Definition slot_inv (s : listener) : Prop := is_busy s = false -> l_event s = None.

Lemma step1_answers s :
  let '(s', o, _) := step1 s in
  answers o = (if is_busy s && negb (is_busy s') then [l_event s] else []) /\
  (is_busy s' = true -> is_busy s = true /\ l_event s' = l_event s) /\
  (slot_inv s -> slot_inv s').
Proof.
  destruct s as [st buf rl res e cl]. unfold slot_inv, is_busy.
  destruct buf as [|c buf]; [rewrite step1_nil; simpl; destruct st; simpl; auto|].
  destruct st.
  - rewrite step1_ack.
    destruct (zlen (c :: buf) <? Z.of_nat ready_len); [simpl; auto|].
    destruct (starts_with READY_TOKEN (c :: buf)); simpl; repeat split; auto; discriminate.
  - rewrite step1_ready. simpl; repeat split; auto; discriminate.
  - destruct rl as [n|].
    + rewrite step1_collect. destruct (collect n res (c :: buf)) as [res1 buf1].
      destruct (n - zlen res1 =? 0); [destruct (h e res1)|]; simpl; repeat split; auto; discriminate.
    + rewrite step1_busy_none. destruct (find_nl (c :: buf)); [|simpl; auto].
      destruct (good_line _); simpl; repeat split; auto; discriminate.
  - rewrite step1_unknown. simpl; repeat split; auto; discriminate.
Qed.

Lemma run_answers f : forall s,
  let '(s', o) := run f s in
  ~ In OCrash o ->
  answers o = (if is_busy s && negb (is_busy s') then [l_event s] else []) /\
  (is_busy s' = true -> is_busy s = true /\ l_event s' = l_event s) /\
  (slot_inv s -> slot_inv s').
Proof.
  induction f as [|f IH]; intros s.
  - change (run 0 s) with (s, [OCrash]). intros N. contradiction N. left. reflexivity.
  - rewrite run_S. pose proof (step1_answers s) as A.
    destruct (step1 s) as [[s1 o1] again].
    destruct (again && nonempty (l_buf s1)); [|intros _; exact A].
    specialize (IH s1). destruct (run f s1) as [s2 o2].
    intros N. destruct A as [A1 [A2 A3]].
    destruct IH as [B1 [B2 B3]]; [intros K; apply N; apply in_or_app; right; exact K|].
    rewrite answers_app, A1, B1. split; [|split].
    + destruct (is_busy s) eqn:Bs, (is_busy s1) eqn:B1', (is_busy s2) eqn:B2'; simpl; auto;
        try (destruct (A2 eq_refl); congruence); try (destruct (B2 eq_refl); congruence).
    + intros K. destruct (B2 K) as [K1 K2]. destruct (A2 K1). split; congruence.
    + auto.
Qed.

Theorem feed_answers s a :
  wf s ->
  let '(s', o) := feed s a in
  answers o = (if is_busy s && negb (is_busy s') then [l_event s] else []) /\
  (is_busy s' = true -> is_busy s = true /\ l_event s' = l_event s) /\
  (slot_inv s -> slot_inv s').
Proof.
  intros W. pose proof (feed_no_crash s a W) as N.
  pose proof (run_answers fuel0 (app_buf s a)) as A. unfold Listener.feed in *.
  destruct (run fuel0 (app_buf s a)) as [s' o]. simpl in N.
  destruct s; exact (A N).
Qed.

End Proofs.
