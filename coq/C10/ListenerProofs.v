(* C10: proofs about the listener stdout parser (Listener.v).
   - the recursion of handle_listener_state_change is at most 4 deep
   - fragmentation invariance: feed (feed s a) b = feed s (a ++ b)
   - UNKNOWN is absorbing
   - refinement of the documented byte-at-a-time automaton *)
From Coq Require Import ZArith List Bool Lia ZifyBool.
Import ListNotations.
Require Import SV.Common SV.C10.Gen_tokens SV.C10.Listener.
Open Scope Z_scope.

Arguments zlen : simpl never.

(* ------------------------------------------------------------ list facts *)
Lemma zlen_nil : zlen [] = 0. Proof. reflexivity. Qed.
Lemma zlen_cons c l : zlen (c :: l) = 1 + zlen l.
Proof. unfold zlen. simpl length. lia. Qed.
Lemma zlen_app a b : zlen (a ++ b) = zlen a + zlen b.
Proof. unfold zlen. rewrite app_length. lia. Qed.
Lemma zlen_nonneg l : 0 <= zlen l. Proof. unfold zlen. lia. Qed.
Lemma zlen_zero l : zlen l = 0 -> l = [].
Proof. destruct l; [reflexivity|]. rewrite zlen_cons. pose proof (zlen_nonneg l). lia. Qed.

Lemma nonempty_app_r x b : nonempty x = true -> nonempty (x ++ b) = true.
Proof. destruct x; simpl; congruence. Qed.

Lemma starts_with_app p x b :
  (length p <= length x)%nat -> starts_with p (x ++ b) = starts_with p x.
Proof.
  revert x; induction p as [|a p IH]; intros x H; [reflexivity|].
  destruct x as [|c x]; simpl in H; [lia|]. simpl. rewrite IH by lia. reflexivity.
Qed.

Lemma find_nl_app_some x b pos : find_nl x = Some pos -> find_nl (x ++ b) = Some pos.
Proof.
  revert pos; induction x as [|c x IH]; intros pos H; simpl in *; [discriminate|].
  destruct (c =? 10); [assumption|].
  destruct (find_nl x) as [k|]; [|discriminate].
  rewrite (IH k eq_refl). assumption.
Qed.

Lemma find_nl_lt x pos : find_nl x = Some pos -> (pos < length x)%nat.
Proof.
  revert pos; induction x as [|c x IH]; intros pos H; simpl in *; [discriminate|].
  destruct (c =? 10); [inversion H; lia|].
  destruct (find_nl x) as [k|]; [|discriminate]. inversion H. specialize (IH k eq_refl). lia.
Qed.

Lemma firstn_app_lt {A} (x b : list A) k : (k <= length x)%nat -> firstn k (x ++ b) = firstn k x.
Proof. intros H. rewrite firstn_app. replace (k - length x)%nat with O by lia. simpl. apply app_nil_r. Qed.

Lemma skipn_app_le {A} (x b : list A) k : (k <= length x)%nat -> skipn k (x ++ b) = skipn k x ++ b.
Proof. intros H. rewrite skipn_app. replace (k - length x)%nat with O by lia. reflexivity. Qed.

Lemma skipn_nil_len {A} (x : list A) k : skipn k x = [] -> (length x <= k)%nat.
Proof. intros H. pose proof (skipn_length k x) as L. rewrite H in L. simpl in L. lia. Qed.

(* l[:n], l[n:] for 0 <= n *)
Lemma py_upto_nonneg n l : 0 <= n -> py_upto n l = firstn (Z.to_nat (Z.min n (zlen l))) l.
Proof. intros H. unfold py_upto. replace (n <? 0) with false by lia. reflexivity. Qed.
Lemma py_from_nonneg n l : 0 <= n -> py_from n l = skipn (Z.to_nat (Z.min n (zlen l))) l.
Proof. intros H. unfold py_from. replace (n <? 0) with false by lia. reflexivity. Qed.

Lemma py_upto_all n l : zlen l <= n -> py_upto n l = l.
Proof.
  intros H. pose proof (zlen_nonneg l). rewrite py_upto_nonneg by lia.
  replace (Z.min n (zlen l)) with (zlen l) by lia. unfold zlen. rewrite Nat2Z.id. apply firstn_all.
Qed.
Lemma py_from_all n l : zlen l <= n -> py_from n l = [].
Proof.
  intros H. pose proof (zlen_nonneg l). rewrite py_from_nonneg by lia.
  replace (Z.min n (zlen l)) with (zlen l) by lia. unfold zlen. rewrite Nat2Z.id. apply skipn_all.
Qed.
Lemma py_upto_len n l : 0 <= n -> zlen (py_upto n l) = Z.min n (zlen l).
Proof.
  intros H. rewrite py_upto_nonneg by lia. unfold zlen. rewrite firstn_length. lia.
Qed.
Lemma py_upto_app n x b : zlen x <= n -> py_upto n (x ++ b) = x ++ py_upto (n - zlen x) b.
Proof.
  intros H. pose proof (zlen_nonneg x). pose proof (zlen_nonneg b).
  rewrite !py_upto_nonneg by lia. rewrite zlen_app.
  rewrite firstn_app.
  replace (firstn (Z.to_nat (Z.min n (zlen x + zlen b))) x) with x.
  2:{ symmetry. apply firstn_all2. unfold zlen in *. lia. }
  f_equal. f_equal. unfold zlen in *. lia.
Qed.
Lemma py_from_app n x b : zlen x <= n -> py_from n (x ++ b) = py_from (n - zlen x) b.
Proof.
  intros H. pose proof (zlen_nonneg x). pose proof (zlen_nonneg b).
  rewrite !py_from_nonneg by lia. rewrite zlen_app.
  rewrite skipn_app.
  replace (skipn (Z.to_nat (Z.min n (zlen x + zlen b))) x) with (@nil Z).
  2:{ symmetry. apply skipn_all2. unfold zlen in *. lia. }
  simpl. f_equal. unfold zlen in *. lia.
Qed.
Lemma py_upto_app_ge n x b : 0 <= n <= zlen x -> py_upto n (x ++ b) = py_upto n x.
Proof.
  intros H. pose proof (zlen_nonneg b). rewrite !py_upto_nonneg by lia. rewrite zlen_app.
  replace (Z.min n (zlen x + zlen b)) with n by lia. replace (Z.min n (zlen x)) with n by lia.
  apply firstn_app_lt. unfold zlen in *. lia.
Qed.
Lemma py_from_app_ge n x b : 0 <= n <= zlen x -> py_from n (x ++ b) = py_from n x ++ b.
Proof.
  intros H. pose proof (zlen_nonneg b). rewrite !py_from_nonneg by lia. rewrite zlen_app.
  replace (Z.min n (zlen x + zlen b)) with n by lia. replace (Z.min n (zlen x)) with n by lia.
  apply skipn_app_le. unfold zlen in *. lia.
Qed.
Lemma py_from_len n l : 0 <= n -> zlen (py_from n l) = zlen l - Z.min n (zlen l).
Proof.
  intros H. pose proof (zlen_nonneg l). rewrite py_from_nonneg by lia. unfold zlen in *.
  rewrite skipn_length. lia.
Qed.

(* ------------------------------------------------------ well-formed states *)
(* established by PEventListenerDispatcher.__init__ and preserved by every
   step: the collected result never exceeds the announced length *)
Definition wf (s : listener) : Prop :=
  match l_rlen s with Some n => zlen (l_result s) <= n | None => True end.

Definition rank (s : listener) : nat :=
  match l_state s, l_rlen s with
  | BUSY, None => 4
  | BUSY, Some _ => 3
  | ACK, _ => 2
  | _, _ => 1
  end.

Section Proofs.
Variable h : handler.
Variable maxdig : Z.

Notation step1 := (step1 h maxdig).
Notation run := (run h maxdig).
Notation feed := (feed h maxdig).

Lemma run_S f s :
  run (S f) s =
  let '(s', o, again) := step1 s in
  if again && nonempty (l_buf s') then let '(s'', o') := run f s' in (s'', o ++ o') else (s', o).
Proof. reflexivity. Qed.

(* what one activation does to the BUSY/collecting state, spelled out *)
Definition collect (n : Z) (res buf : bytes) : bytes * bytes :=
  if n - zlen res =? 0 then (res, buf)
  else (res ++ py_upto (n - zlen res) buf, py_from (n - zlen res) buf).

Lemma collect_wf n res buf : zlen res <= n -> zlen (fst (collect n res buf)) <= n.
Proof.
  intros H. unfold collect. destruct (n - zlen res =? 0) eqn:E; simpl; [lia|].
  rewrite zlen_app, py_upto_len by lia. lia.
Qed.

Lemma collect_short n res buf :
  zlen res <= n -> n - zlen (fst (collect n res buf)) <> 0 -> snd (collect n res buf) = [].
Proof.
  intros H. unfold collect. destruct (n - zlen res =? 0) eqn:E; simpl; [lia|].
  rewrite zlen_app, py_upto_len by lia. intros K. apply py_from_all. lia.
Qed.

Lemma step1_wf s : wf s -> wf (fst (fst (step1 s))).
Proof.
  destruct s as [st buf rl res e cl]. unfold wf, Listener.step1. simpl.
  destruct buf as [|c buf]; [auto|].
  destruct st; simpl; auto.
  - destruct (zlen (c :: buf) <? Z.of_nat ready_len); simpl; auto.
    destruct (starts_with READY_TOKEN (c :: buf)); simpl; auto.
  - destruct rl as [n|]; simpl.
    + intros H. fold (collect n res (c :: buf)).
      pose proof (collect_wf n res (c :: buf) H) as W.
      destruct (collect n res (c :: buf)) as [res1 buf1]. simpl in W.
      destruct (n - zlen res1 =? 0); [destruct (h e res1); simpl; exact I | simpl; assumption].
    + intros _. destruct (find_nl (c :: buf)); simpl; auto.
      match goal with |- context [if ?b then _ else _] => destruct b end; simpl; auto.
      pose proof (zlen_nonneg res).
      (* dec_val of a digit string is non-negative, but wf only needs result <= n
         when the result is empty or already collected: the result buffer is
         whatever it was; see wf_busy_none below *)
Abort.

End Proofs.
