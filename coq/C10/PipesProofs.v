(* C10: supervisord never sleeps in a write to a listener's stdin. *)
From Coq Require Import ZArith List Bool Lia ZifyBool.
Import ListNotations.
Require Import SV.Common SV.C10.Gen_tokens SV.C10.Listener SV.C10.Proc SV.C10.ListenerProofs SV.C10.Pipes.
Open Scope Z_scope.

(* generated from ServerOptions.make_pipes: all three parent-side ends are non-blocking *)
Lemma parent_ends_nonblocking :
  PIPE_NONBLOCK_STDIN = true /\ PIPE_NONBLOCK_STDOUT = true /\ PIPE_NONBLOCK_STDERR = true.
Proof. repeat split; reflexivity. Qed.

Lemma nonblocking_write_returns room len :
  0 <= len ->
  exists n, (kernel_write true room len = KWrote n /\ 0 <= n <= len /\ (n < len -> n = Z.max 0 room /\ 0 < room)) \/
            (kernel_write true room len = KAgain /\ n = 0 /\ room <= 0 /\ 0 < len).
Proof.
  intros H. unfold kernel_write. destruct (len <=? Z.max 0 room) eqn:F.
  - exists len. left. repeat split; lia.
  - destruct (room <=? 0) eqn:R.
    + exists 0. right. repeat split; lia.
    + exists room. left. repeat split; lia.
Qed.

Lemma blocking_write_can_sleep : kernel_write false 10 11 = KBlocks /\ kernel_write false 0 1 = KBlocks.
Proof. split; reflexivity. Qed.

(* With the mode make_pipes gives the stdin end, write(2) never blocks: it
   returns at once having taken a prefix of the data (possibly all, possibly
   nothing = EAGAIN); these are exactly the answers WRoom / WAgain that the
   model of flush consumes, and what flush then keeps is the unsent rest. *)
Theorem write_never_blocks p room :
  let len := zlen (p_ibuf p) in
  exists w, wres_of (kernel_write PIPE_NONBLOCK_STDIN room len) = Some w /\
            (p_broken p = false ->
             let '(p', r) := flush p w in
             r = FOk /\ p_accepted p' ++ p_ibuf p' = p_accepted p ++ p_ibuf p /\
             exists k, p_accepted p' = p_accepted p ++ k).
Proof.
  intros len. destruct parent_ends_nonblocking as [S _]. rewrite S.
  pose proof (zlen_nonneg (p_ibuf p)) as L. fold len in L.
  unfold kernel_write. destruct (len <=? Z.max 0 room) eqn:F; [|destruct (room <=? 0) eqn:R].
  - exists (WRoom len). split; [reflexivity|]. intros B. unfold flush. rewrite B.
    replace (Z.max 0 (Z.min len (zlen (p_ibuf p)))) with len by (unfold len; lia). simpl.
    split; [reflexivity|]. split; [|eexists; reflexivity].
    rewrite <- app_assoc. f_equal. rewrite py_upto_nonneg, py_from_nonneg by lia. apply firstn_skipn.
  - exists WAgain. split; [reflexivity|]. intros B. unfold flush. rewrite B. simpl.
    split; [reflexivity|]. split; [reflexivity|]. exists []. rewrite app_nil_r. reflexivity.
  - exists (WRoom room). split; [reflexivity|]. intros B. unfold flush. rewrite B. simpl.
    split; [reflexivity|]. split; [|eexists; reflexivity].
    rewrite <- app_assoc. f_equal.
    set (sent := Z.max 0 (Z.min room (zlen (p_ibuf p)))).
    rewrite py_upto_nonneg, py_from_nonneg by (unfold sent; lia). apply firstn_skipn.
Qed.
