(* C08: specification (reference splitter on the unfragmented stream) and
   theorems about the dispatcher model of Stream.v, for arbitrary non-empty
   tokens.  props/C08.v instantiates them with the tokens generated from
   supervisor/events.py. *)
From Coq Require Import ZArith List Bool Lia Arith.
Import ListNotations.
Require Import SV.Common SV.C08.Stream.

(* ------------------------------------------------------------------ lists *)
Lemma is_prefix_app p r : is_prefix p (p ++ r) = true.
Proof. induction p; simpl; auto. rewrite Z.eqb_refl. auto. Qed.

Lemma is_prefix_true p : forall s, is_prefix p s = true -> s = p ++ skipn (length p) s.
Proof.
  induction p; intros s H; simpl; auto.
  destruct s; simpl in *; try discriminate.
  apply andb_true_iff in H. destruct H as [H1 H2]. apply Z.eqb_eq in H1. subst.
  f_equal. auto.
Qed.

Lemma is_prefix_long p : forall s R, length p <= length s -> is_prefix p (s ++ R) = is_prefix p s.
Proof.
  induction p; intros s R H; simpl; auto.
  destruct s; simpl in *; try lia. f_equal. apply IHp. lia.
Qed.

Lemma is_prefix_short p : forall s R, is_prefix p (s ++ R) = true -> length s <= length p ->
  s = firstn (length s) p.
Proof.
  induction p; intros s R H L; destruct s; simpl in *; auto; try lia.
  apply andb_true_iff in H. destruct H as [H1 H2]. apply Z.eqb_eq in H1. subst.
  f_equal. eapply IHp; eauto. lia.
Qed.

Lemma skipn_app_exact (a b : bytes) : skipn (length a) (a ++ b) = b.
Proof. rewrite skipn_app, skipn_all, Nat.sub_diag. reflexivity. Qed.

(* an occurrence of t in s at index i *)
Definition occurs_at (t s : bytes) (i : nat) : Prop := exists p q, s = p ++ t ++ q /\ length p = i.

Lemma occurs_at_iff t s i : occurs_at t s i <-> (i <= length s /\ is_prefix t (skipn i s) = true).
Proof.
  split.
  - intros (p & q & E & L). subst. split.
    + rewrite app_length. lia.
    + rewrite skipn_app_exact. apply is_prefix_app.
  - intros [L H]. apply is_prefix_true in H.
    exists (firstn i s), (skipn (length t) (skipn i s)). split.
    + rewrite <- H. symmetry. apply firstn_skipn.
    + rewrite firstn_length. lia.
Qed.

(* ------------------------------------------------------------------ split *)
Lemma split_tok_eq t d :
  split_tok t d =
  if is_prefix t d then Some ([], skipn (length t) d)
  else match d with
       | [] => None
       | x :: r => match split_tok t r with Some (b, a) => Some (x :: b, a) | None => None end
       end.
Proof. destruct d; reflexivity. Qed.

Lemma split_tok_some_inv : forall d t b a, split_tok t d = Some (b, a) ->
  d = b ++ t ++ a /\ forall i, i < length b -> is_prefix t (skipn i d) = false.
Proof.
  induction d as [|x d IH]; intros t b a H; rewrite split_tok_eq in H.
  - destruct (is_prefix t []) eqn:P; try discriminate. inversion H; subst. split.
    + simpl. apply is_prefix_true. exact P.
    + simpl. intros; lia.
  - destruct (is_prefix t (x :: d)) eqn:P.
    + inversion H; subst. split; [simpl; apply is_prefix_true; exact P | simpl; intros; lia].
    + destruct (split_tok t d) as [[b' a']|] eqn:S; try discriminate.
      inversion H; subst. destruct (IH _ _ _ S) as [E N]. split.
      * simpl. f_equal. exact E.
      * intros i Hi. destruct i; simpl; [exact P|]. apply N. simpl in Hi. lia.
Qed.

Lemma split_tok_none_inv : forall d t, split_tok t d = None -> forall i, is_prefix t (skipn i d) = false.
Proof.
  induction d as [|x d IH]; intros t H i; rewrite split_tok_eq in H.
  - destruct (is_prefix t []) eqn:P; try discriminate. rewrite skipn_nil. exact P.
  - destruct (is_prefix t (x :: d)) eqn:P; try discriminate.
    destruct (split_tok t d) as [[b' a']|] eqn:S; try discriminate.
    destruct i; simpl; auto.
Qed.

Lemma split_tok_char : forall b t a d, d = b ++ t ++ a ->
  (forall i, i < length b -> is_prefix t (skipn i d) = false) -> split_tok t d = Some (b, a).
Proof.
  induction b as [|x b IH]; intros t a d E N; subst; rewrite split_tok_eq.
  - simpl. rewrite is_prefix_app. rewrite skipn_app_exact. reflexivity.
  - pose proof (N 0) as N0. simpl in N0. simpl app. rewrite N0 by lia.
    rewrite (IH t a (b ++ t ++ a) eq_refl); auto.
    intros i Hi. apply (N (S i)). simpl. lia.
Qed.

Lemma split_tok_none_char : forall d t,
  (forall i, i <= length d -> is_prefix t (skipn i d) = false) -> split_tok t d = None.
Proof.
  induction d as [|x d IH]; intros t N; rewrite split_tok_eq.
  - pose proof (N 0) as N0. simpl in N0. rewrite N0 by lia. reflexivity.
  - pose proof (N 0) as N0. simpl in N0. rewrite N0 by lia.
    rewrite IH; auto. intros i Hi. apply (N (S i)). simpl. lia.
Qed.

Lemma split_tok_app t d b a R : split_tok t d = Some (b, a) -> split_tok t (d ++ R) = Some (b, a ++ R).
Proof.
  intros H. apply split_tok_some_inv in H. destruct H as [E N].
  apply split_tok_char.
  - subst. repeat rewrite <- app_assoc. reflexivity.
  - intros i Hi. rewrite skipn_app.
    assert (L : length d = length b + (length t + length a)) by (subst; repeat rewrite app_length; lia).
    replace (i - length d) with 0 by lia. simpl skipn.
    rewrite is_prefix_long; [apply N; exact Hi|]. rewrite skipn_length. lia.
Qed.

Definition lift (d0 : bytes) (o : option (bytes * bytes)) : option (bytes * bytes) :=
  match o with Some (b, a) => Some (d0 ++ b, a) | None => None end.

Lemma split_tok_prepend t d0 Y :
  (forall i, i < length d0 -> is_prefix t (skipn i (d0 ++ Y)) = false) ->
  split_tok t (d0 ++ Y) = lift d0 (split_tok t Y).
Proof.
  intros H. destruct (split_tok t Y) as [[b a]|] eqn:S; simpl.
  - apply split_tok_some_inv in S. destruct S as [E N]. apply split_tok_char.
    + rewrite E. rewrite <- app_assoc. reflexivity.
    + intros i Hi. rewrite app_length in Hi.
      destruct (lt_dec i (length d0)) as [L|L]; [apply H; exact L|].
      rewrite skipn_app. rewrite skipn_all2 by lia. simpl. apply N. lia.
  - apply split_tok_none_char. intros i Hi.
    destruct (lt_dec i (length d0)) as [L|L]; [apply H; exact L|].
    rewrite skipn_app. rewrite skipn_all2 by lia. simpl. eapply split_tok_none_inv; eauto.
Qed.

(* ------------------------------------------------------ find_prefix_at_end *)
Lemma ends_with_true h p : ends_with h p = true -> exists q, h = q ++ p.
Proof.
  unfold ends_with. intros H. apply andb_true_iff in H. destruct H as [_ H].
  apply zlist_eqb_eq in H. exists (firstn (length h - length p) h).
  rewrite <- H at 2. symmetry. apply firstn_skipn.
Qed.

Lemma ends_with_skipn (h : bytes) i : i <= length h -> ends_with h (skipn i h) = true.
Proof.
  intros L. unfold ends_with. rewrite skipn_length. apply andb_true_iff. split.
  - apply Nat.leb_le. lia.
  - replace (length h - (length h - i)) with i by lia. apply zlist_eqb_eq. reflexivity.
Qed.

Lemma fpe_loop_max h t : forall L l, 1 <= l <= L -> ends_with h (firstn l t) = true -> l <= fpe_loop h t L.
Proof.
  induction L as [|L IH]; intros l Hl E; [lia|]. cbn [fpe_loop].
  destruct (ends_with h (firstn (S L) t)) eqn:X; [lia|].
  destruct (Nat.eq_dec l (S L)) as [->|N]; [congruence|]. apply IH; auto. lia.
Qed.

Lemma fpe_loop_le h t : forall L, fpe_loop h t L <= L.
Proof. induction L as [|L IH]; cbn [fpe_loop]; [lia|]. destruct (ends_with h (firstn (S L) t)); lia. Qed.

Lemma fpe_loop_ends h t : forall L, 0 < fpe_loop h t L -> ends_with h (firstn (fpe_loop h t L) t) = true.
Proof.
  induction L as [|L IH]; cbn [fpe_loop]; intros H; [lia|].
  destruct (ends_with h (firstn (S L) t)) eqn:X; auto.
Qed.

(* DESIGN Appendix B, `holdback_complete`: when the token does not occur in
   `data`, no occurrence of it in `data ++ X` (whatever X the child writes next)
   starts before the part held back by find_prefix_at_end *)
Lemma no_early_occ t data X i :
  split_tok t data = None -> i < length data - find_prefix_at_end data t ->
  is_prefix t (skipn i (data ++ X)) = false.
Proof.
  intros S Hi. destruct (is_prefix t (skipn i (data ++ X))) eqn:P; auto. exfalso.
  rewrite skipn_app in P. replace (i - length data) with 0 in P by lia. simpl skipn in P.
  assert (Ls : length (skipn i data) = length data - i) by apply skipn_length.
  destruct (le_lt_dec (length t) (length (skipn i data))) as [L|L].
  - rewrite is_prefix_long in P by exact L. rewrite (split_tok_none_inv _ _ S i) in P. discriminate.
  - pose proof (is_prefix_short _ _ _ P (Nat.lt_le_incl _ _ L)) as E.
    assert (EW : ends_with data (firstn (length (skipn i data)) t) = true).
    { rewrite <- E. apply ends_with_skipn. lia. }
    pose proof (fpe_loop_max data t (length t - 1) (length (skipn i data))) as M.
    unfold find_prefix_at_end in Hi.
    assert (M1 : 1 <= length (skipn i data) <= length t - 1) by lia.
    specialize (M M1 EW). lia.
Qed.

Theorem holdback_complete t data :
  split_tok t data = None ->
  let n := length data - find_prefix_at_end data t in
  forall X, split_tok t (firstn n data ++ skipn n data ++ X) =
            lift (firstn n data) (split_tok t (skipn n data ++ X)).
Proof.
  intros S n X. apply split_tok_prepend. intros i Hi.
  rewrite app_assoc, firstn_skipn. apply no_early_occ; auto.
  rewrite firstn_length in Hi. unfold n in Hi. lia.
Qed.

(* what is held back is a proper prefix of the token *)
Lemma holdback_is_prefix t data :
  let k := find_prefix_at_end data t in
  k <= length t - 1 /\ k <= length data /\ skipn (length data - k) data = firstn k t.
Proof.
  intros k. unfold k, find_prefix_at_end.
  pose proof (fpe_loop_le data t (length t - 1)) as L. split; [exact L|].
  destruct (Nat.eq_dec (fpe_loop data t (length t - 1)) 0) as [Z|NZ].
  - rewrite Z. split; [lia|]. rewrite Nat.sub_0_r, skipn_all. reflexivity.
  - pose proof (fpe_loop_ends data t (length t - 1)) as E.
    assert (P : 0 < fpe_loop data t (length t - 1)) by lia. specialize (E P).
    unfold ends_with in E. apply andb_true_iff in E. destruct E as [E1 E2].
    apply Nat.leb_le in E1. apply zlist_eqb_eq in E2.
    rewrite firstn_length in E1, E2.
    rewrite Nat.min_l in E1, E2 by lia. split; [exact E1|exact E2].
Qed.

(* ------------------------------------------------- observations and equivalence *)
(* abstract output alphabet: bytes to the ordinary log, bytes captured, end of a
   section (= one PROCESS_COMMUNICATION event) *)
Inductive sym := SLog (d : bytes) | SCap (d : bytes) | SEnd.

Record obs := mkO { o_log : bytes; o_closed : list bytes; o_open : bytes }.
Definition obs0 : obs := mkO [] [] [].

Definition istep (o : obs) (s : sym) : obs :=
  match s with
  | SLog d => mkO (o_log o ++ d) (o_closed o) (o_open o)
  | SCap d => mkO (o_log o) (o_closed o) (o_open o ++ d)
  | SEnd => mkO (o_log o) (o_closed o ++ [o_open o]) []
  end.
Definition interp (o : obs) (l : list sym) : obs := fold_left istep l o.

Definition equiv (l1 l2 : list sym) : Prop := forall o, interp o l1 = interp o l2.

Lemma interp_app o l1 l2 : interp o (l1 ++ l2) = interp (interp o l1) l2.
Proof. apply fold_left_app. Qed.

Lemma equiv_refl l : equiv l l. Proof. intro; reflexivity. Qed.
Lemma equiv_sym l1 l2 : equiv l1 l2 -> equiv l2 l1. Proof. intros H o; symmetry; apply H. Qed.
Lemma equiv_trans l1 l2 l3 : equiv l1 l2 -> equiv l2 l3 -> equiv l1 l3.
Proof. intros H1 H2 o. rewrite H1. apply H2. Qed.
Lemma equiv_app l1 l2 r1 r2 : equiv l1 l2 -> equiv r1 r2 -> equiv (l1 ++ r1) (l2 ++ r2).
Proof. intros H1 H2 o. rewrite !interp_app. rewrite H1. apply H2. Qed.

Definition piece (m : bool) (d : bytes) : sym := if m then SCap d else SLog d.
Definition toggle_syms (m : bool) : list sym := if m then [SEnd] else [].
Definition log_syms (m : bool) (d : bytes) : list sym := match d with [] => [] | _ => [piece m d] end.

Lemma piece_merge m a b : equiv [piece m a; piece m b] [piece m (a ++ b)].
Proof. intros o. destruct m; simpl; rewrite <- app_assoc; reflexivity. Qed.

Lemma piece_nil m : equiv [piece m []] [].
Proof. intros o. destruct o; destruct m; simpl; rewrite app_nil_r; reflexivity. Qed.

Lemma log_syms_piece m d : equiv (log_syms m d) [piece m d].
Proof. destruct d; [apply equiv_sym, piece_nil | apply equiv_refl]. Qed.

Definition sym_of (e : eff) : sym :=
  match e with Log d => SLog d | Cap d => SCap d | Comm _ => SEnd end.

(* ================================================================== *)
Section Spec.
  Variables btok etok : bytes.
  Hypothesis Hb : btok <> [].
  Hypothesis He : etok <> [].
  Variable capmax : Z.
  Variable tr : bytes -> bytes.

  Definition tok (m : bool) : bytes := if m then etok else btok.
  Lemma tok_len m : 1 <= length (tok m).
  Proof. destruct m; simpl; [destruct etok | destruct btok]; simpl; try congruence; lia. Qed.

  (* The reference splitter, on the whole stream: starting outside (m = false)
     or inside (m = true) a capture section, cut at the first occurrence of the
     awaited tag, alternate.  An unterminated section ends without SEnd. *)
  Fixpoint ref_fuel (n : nat) (m : bool) (s : bytes) : list sym :=
    match n with
    | O => []
    | S n' =>
      match split_tok (tok m) s with
      | Some (b, a) => piece m b :: toggle_syms m ++ ref_fuel n' (negb m) a
      | None => [piece m s]
      end
    end.
  Definition split_ref (m : bool) (s : bytes) : list sym := ref_fuel (S (length s)) m s.

  Lemma split_after_shorter m s b a : split_tok (tok m) s = Some (b, a) -> length a < length s.
  Proof.
    intros H. apply split_tok_some_inv in H. destruct H as [E _]. subst.
    rewrite !app_length. pose proof (tok_len m). lia.
  Qed.

  Lemma ref_fuel_irrel : forall n1 n2 m s, length s < n1 -> length s < n2 ->
    ref_fuel n1 m s = ref_fuel n2 m s.
  Proof.
    induction n1 as [|n1 IH]; intros n2 m s L1 L2; [lia|].
    destruct n2 as [|n2]; [lia|]. simpl.
    destruct (split_tok (tok m) s) as [[b a]|] eqn:S; auto.
    pose proof (split_after_shorter _ _ _ _ S). f_equal. f_equal. apply IH; lia.
  Qed.

  Lemma split_ref_unfold m s :
    split_ref m s = match split_tok (tok m) s with
                    | Some (b, a) => piece m b :: toggle_syms m ++ split_ref (negb m) a
                    | None => [piece m s]
                    end.
  Proof.
    unfold split_ref at 1. simpl.
    destruct (split_tok (tok m) s) as [[b a]|] eqn:S; auto.
    pose proof (split_after_shorter _ _ _ _ S). f_equal. f_equal.
    apply ref_fuel_irrel; lia.
  Qed.

  Lemma split_ref_nil m : equiv (split_ref m []) [].
  Proof.
    rewrite split_ref_unfold.
    destruct (split_tok (tok m) []) as [[b a]|] eqn:S.
    - apply split_after_shorter in S. simpl in S. lia.
    - apply piece_nil.
  Qed.

  (* logging d0 first is harmless when no tag starts inside d0 *)
  Lemma ref_prepend m d0 Y :
    split_tok (tok m) (d0 ++ Y) = lift d0 (split_tok (tok m) Y) ->
    equiv (log_syms m d0 ++ split_ref m Y) (split_ref m (d0 ++ Y)).
  Proof.
    intros H. rewrite (split_ref_unfold m (d0 ++ Y)), (split_ref_unfold m Y), H.
    destruct (split_tok (tok m) Y) as [[b a]|]; simpl lift; cbv iota beta.
    - change (piece m b :: toggle_syms m ++ split_ref (negb m) a)
        with ([piece m b] ++ toggle_syms m ++ split_ref (negb m) a).
      change (piece m (d0 ++ b) :: toggle_syms m ++ split_ref (negb m) a)
        with ([piece m (d0 ++ b)] ++ toggle_syms m ++ split_ref (negb m) a).
      rewrite app_assoc. apply equiv_app; [|apply equiv_refl].
      eapply equiv_trans; [|apply piece_merge].
      change [piece m d0; piece m b] with ([piece m d0] ++ [piece m b]).
      apply equiv_app; [apply log_syms_piece | apply equiv_refl].
    - eapply equiv_trans; [|apply piece_merge].
      change [piece m d0; piece m Y] with ([piece m d0] ++ [piece m Y]).
      apply equiv_app; [apply log_syms_piece | apply equiv_refl].
  Qed.

  (* ---------------------------------------------------------- model steps *)
  Notation do_log := (do_log capmax tr).
  Notation record_output := (record_output btok etok capmax tr).
  Notation handle_read := (handle_read btok etok capmax tr).
  Notation feed_all := (feed_all btok etok capmax tr).
  Notation finish_d := (finish_d btok etok capmax tr).
  Notation run_d := (run_d btok etok capmax tr).

  Lemma do_log_spec s d s' e : do_log s d = (s', e) ->
    buf s' = buf s /\ capmode s' = capmode s /\ closed s' = closed s /\
    map sym_of e = log_syms (capmode s) d.
  Proof.
    unfold Stream.do_log. destruct d as [|x d].
    - intros H; inversion H; subst. auto.
    - destruct (capmode s) eqn:M; intros H; inversion H; subst; simpl; auto.
  Qed.

  Lemma toggle_spec s s' e : toggle s = (s', e) ->
    buf s' = buf s /\ capmode s' = negb (capmode s) /\ closed s' = closed s /\
    map sym_of e = toggle_syms (capmode s).
  Proof.
    unfold toggle. destruct (capmode s) eqn:M; intros H; inversion H; subst; simpl; auto.
  Qed.

  Lemma record_output_eq f final s :
    record_output (S f) final s =
      if (capmax =? 0)%Z then
        let '(s1, e1) := do_log (set_buf s []) (buf s) in Ok s1 e1
      else
        let tk := if capmode s then etok else btok in
        if (length (buf s) <=? length tk)%nat && negb final then Ok s []
        else
          let data := buf s in
          match split_tok tk data with
          | None =>
            let index := find_prefix_at_end data tk in
            if (0 <? index)%nat && negb final then
              let n := (length data - index)%nat in
              let '(s1, e1) := do_log (set_buf s (skipn n data)) (firstn n data) in
              Ok s1 e1
            else
              let '(s1, e1) := do_log (set_buf s []) data in Ok s1 e1
          | Some (before, after) =>
            let '(s1, e1) := do_log (set_buf s []) before in
            let '(s2, e2) := toggle s1 in
            let s3 := set_buf s2 after in
            match after with
            | [] => Ok s3 (e1 ++ e2)
            | _ => match record_output f final s3 with
                   | Ok s4 e3 => Ok s4 (e1 ++ e2 ++ e3)
                   | Crash => Crash
                   end
            end
          end.
  Proof. reflexivity. Qed.

  (* the hold-back branch and the plain branch of the `except ValueError` arm
     are the same function of index *)
  Definition keepn (final : bool) (data tk : bytes) : nat :=
    if final then length data else length data - find_prefix_at_end data tk.

  Lemma none_branch_uniform s final data tk :
    (if (0 <? find_prefix_at_end data tk)%nat && negb final then
       let '(s1, e1) := do_log (set_buf s (skipn (length data - find_prefix_at_end data tk) data))
                               (firstn (length data - find_prefix_at_end data tk) data) in Ok s1 e1
     else let '(s1, e1) := do_log (set_buf s []) data in Ok s1 e1)
    = let '(s1, e1) := do_log (set_buf s (skipn (keepn final data tk) data))
                              (firstn (keepn final data tk) data) in Ok s1 e1.
  Proof.
    unfold keepn. destruct final; simpl negb.
    - rewrite andb_false_r. rewrite skipn_all, firstn_all. reflexivity.
    - rewrite andb_true_r. destruct (0 <? find_prefix_at_end data tk)%nat eqn:Z; auto.
      apply Nat.ltb_ge in Z. assert (E : find_prefix_at_end data tk = 0) by lia.
      rewrite E, Nat.sub_0_r, skipn_all, firstn_all. reflexivity.
  Qed.

  Hypothesis Hcap : capmax <> 0%Z.

  (* One call of record_output(final=False), whatever the child writes later (R):
     what it emitted followed by the reference division of what it kept equals
     the reference division of what it was given. *)
  Lemma record_output_refines : forall fuel s s' out R,
    record_output fuel false s = Ok s' out ->
    equiv (map sym_of out ++ split_ref (capmode s') (buf s' ++ R))
          (split_ref (capmode s) (buf s ++ R)).
  Proof.
    induction fuel as [|f IH]; intros s s' out R H; [discriminate|].
    rewrite record_output_eq in H.
    apply Z.eqb_neq in Hcap. rewrite Hcap in H. cbv zeta in H.
    change (if capmode s then etok else btok) with (tok (capmode s)) in H.
    destruct ((length (buf s) <=? length (tok (capmode s)))%nat && negb false) eqn:G.
    { inversion H; subst. simpl. apply equiv_refl. }
    destruct (split_tok (tok (capmode s)) (buf s)) as [[before after]|] eqn:S.
    - (* the tag is in the buffer *)
      destruct (do_log (set_buf s []) before) as [s1 e1] eqn:D.
      destruct (toggle s1) as [s2 e2] eqn:T.
      apply do_log_spec in D. destruct D as (D1 & D2 & D3 & D4). simpl in D1, D2, D4.
      apply toggle_spec in T. destruct T as (T1 & T2 & T3 & T4).
      rewrite D2 in T2, T4.
      rewrite (split_ref_unfold (capmode s) (buf s ++ R)).
      rewrite (split_tok_app _ _ _ _ R S).
      change (piece (capmode s) before :: toggle_syms (capmode s) ++ split_ref (negb (capmode s)) (after ++ R))
        with ([piece (capmode s) before] ++ toggle_syms (capmode s) ++ split_ref (negb (capmode s)) (after ++ R)).
      destruct after as [|y after].
      + inversion H; subst. simpl buf. simpl capmode. rewrite T2.
        rewrite map_app, D4, T4, <- app_assoc.
        apply equiv_app; [apply log_syms_piece | apply equiv_refl].
      + destruct (record_output f false (set_buf s2 (y :: after))) as [s4 e3|] eqn:Rec; try discriminate.
        inversion H; subst. apply (IH _ _ _ R) in Rec. simpl buf in Rec. simpl capmode in Rec.
        rewrite T2 in Rec.
        rewrite !map_app, D4, T4, <- !app_assoc.
        apply equiv_app; [apply log_syms_piece|].
        apply equiv_app; [apply equiv_refl | exact Rec].
    - (* no tag: log all but the longest suffix that is a prefix of the tag *)
      rewrite (none_branch_uniform s false (buf s) (tok (capmode s))) in H. unfold keepn in H.
      set (n := length (buf s) - find_prefix_at_end (buf s) (tok (capmode s))) in *.
      destruct (do_log (set_buf s (skipn n (buf s))) (firstn n (buf s))) as [s1 e1] eqn:D.
      inversion H; subst s1 out.
      apply do_log_spec in D. destruct D as (D1 & D2 & D3 & D4). simpl in D1, D2, D4.
      rewrite D1, D2, D4.
      rewrite <- (firstn_skipn n (buf s)) at 3. rewrite <- app_assoc.
      apply ref_prepend. apply (holdback_complete _ _ S).
  Qed.

  (* record_output(final=True): everything left is divided as the reference does *)
  Lemma record_output_final : forall fuel s s' out,
    record_output fuel true s = Ok s' out ->
    equiv (map sym_of out) (split_ref (capmode s) (buf s)) /\ buf s' = [].
  Proof.
    induction fuel as [|f IH]; intros s s' out H; [discriminate|].
    rewrite record_output_eq in H.
    apply Z.eqb_neq in Hcap. rewrite Hcap in H. cbv zeta in H.
    change (if capmode s then etok else btok) with (tok (capmode s)) in H.
    rewrite andb_false_r in H.
    destruct (split_tok (tok (capmode s)) (buf s)) as [[before after]|] eqn:S.
    - destruct (do_log (set_buf s []) before) as [s1 e1] eqn:D.
      destruct (toggle s1) as [s2 e2] eqn:T.
      apply do_log_spec in D. destruct D as (D1 & D2 & D3 & D4). simpl in D1, D2, D4.
      apply toggle_spec in T. destruct T as (T1 & T2 & T3 & T4).
      rewrite D2 in T2, T4.
      rewrite (split_ref_unfold (capmode s) (buf s)), S.
      change (piece (capmode s) before :: toggle_syms (capmode s) ++ split_ref (negb (capmode s)) after)
        with ([piece (capmode s) before] ++ toggle_syms (capmode s) ++ split_ref (negb (capmode s)) after).
      destruct after as [|y after].
      + inversion H; subst. split; [|reflexivity].
        rewrite map_app, D4, T4.
        apply equiv_app; [apply log_syms_piece|].
        rewrite <- (app_nil_r (toggle_syms (capmode s))) at 1.
        apply equiv_app; [apply equiv_refl | apply equiv_sym, split_ref_nil].
      + destruct (record_output f true (set_buf s2 (y :: after))) as [s4 e3|] eqn:Rec; try discriminate.
        inversion H; subst. apply IH in Rec. destruct Rec as [Rec B]. simpl buf in Rec. simpl capmode in Rec.
        rewrite T2 in Rec. split; [|exact B].
        rewrite !map_app, D4, T4.
        apply equiv_app; [apply log_syms_piece|].
        apply equiv_app; [apply equiv_refl | exact Rec].
    - simpl negb in H. rewrite andb_false_r in H.
      destruct (do_log (set_buf s []) (buf s)) as [s1 e1] eqn:D.
      inversion H; subst s1 out.
      apply do_log_spec in D. destruct D as (D1 & D2 & D3 & D4). simpl in D1, D2, D4.
      split; auto. rewrite D4, split_ref_unfold, S. apply log_syms_piece.
  Qed.

  (* the recursion fuel is sufficient: RecursionDepth is unreachable *)
  Lemma record_output_no_crash : forall fuel final s, length (buf s) < fuel ->
    record_output fuel final s <> Crash.
  Proof.
    induction fuel as [|f IH]; intros final s L; [lia|].
    rewrite record_output_eq.
    apply Z.eqb_neq in Hcap. rewrite Hcap. cbv zeta.
    change (if capmode s then etok else btok) with (tok (capmode s)).
    destruct ((length (buf s) <=? length (tok (capmode s)))%nat && negb final); [discriminate|].
    destruct (split_tok (tok (capmode s)) (buf s)) as [[before after]|] eqn:S.
    - destruct (do_log (set_buf s []) before) as [s1 e1] eqn:D.
      destruct (toggle s1) as [s2 e2] eqn:T.
      destruct after as [|y after]; [discriminate|].
      pose proof (split_after_shorter _ _ _ _ S) as Sh.
      assert (NC : record_output f final (set_buf s2 (y :: after)) <> Crash).
      { apply IH. simpl buf. lia. }
      destruct (record_output f final (set_buf s2 (y :: after))); [discriminate | congruence].
    - destruct ((0 <? find_prefix_at_end (buf s) (tok (capmode s)))%nat && negb final).
      + destruct (do_log _ _); discriminate.
      + destruct (do_log _ _); discriminate.
  Qed.

  (* ------------------------------------------------------------ whole runs *)
  Lemma handle_read_refines s c s' out R :
    handle_read s c = Ok s' out ->
    equiv (map sym_of out ++ split_ref (capmode s') (buf s' ++ R))
          (split_ref (capmode s) (buf s ++ c ++ R)).
  Proof.
    unfold Stream.handle_read. intros H.
    destruct (record_output (length (buf s ++ c) + 2) false (set_buf s (buf s ++ c))) as [s1 o1|] eqn:Rec;
      try discriminate.
    apply (record_output_refines _ _ _ _ R) in Rec. simpl buf in Rec. simpl capmode in Rec.
    rewrite <- app_assoc in Rec.
    inversion H; subst. destruct c; exact Rec.
  Qed.

  Lemma feed_all_refines : forall frags s s' out R,
    feed_all s frags = Ok s' out ->
    equiv (map sym_of out ++ split_ref (capmode s') (buf s' ++ R))
          (split_ref (capmode s) (buf s ++ concat frags ++ R)).
  Proof.
    induction frags as [|c r IH]; intros s s' out R H; simpl in H.
    - inversion H; subst. simpl. apply equiv_refl.
    - destruct (handle_read s c) as [s1 o1|] eqn:H1; try discriminate.
      destruct (feed_all s1 r) as [s2 o2|] eqn:H2; try discriminate.
      inversion H; subst.
      apply (IH _ _ _ R) in H2.
      apply (handle_read_refines _ _ _ _ (concat r ++ R)) in H1.
      simpl concat. rewrite <- app_assoc.
      eapply equiv_trans; [|exact H1].
      rewrite map_app, <- app_assoc. apply equiv_app; [apply equiv_refl | exact H2].
  Qed.

  Lemma handle_read_no_crash s c : handle_read s c <> Crash.
  Proof.
    unfold Stream.handle_read.
    pose proof (record_output_no_crash (length (buf s ++ c) + 2) false (set_buf s (buf s ++ c))) as NC.
    simpl buf in NC.
    destruct (record_output (length (buf s ++ c) + 2) false (set_buf s (buf s ++ c))); [discriminate|].
    exfalso. apply NC; [lia | reflexivity].
  Qed.

  Lemma feed_all_no_crash : forall frags s, feed_all s frags <> Crash.
  Proof.
    induction frags as [|c r IH]; intros s; simpl; [discriminate|].
    pose proof (handle_read_no_crash s c) as N1.
    destruct (handle_read s c) as [s1 o1|]; [|congruence].
    pose proof (IH s1) as N2. destruct (feed_all s1 r); [discriminate | congruence].
  Qed.

  Lemma finish_no_crash s : finish_d s <> Crash.
  Proof. unfold Stream.finish_d. apply record_output_no_crash. lia. Qed.

  (* c08_refines, continuation form *)
  Theorem refines_continuation : forall frags rest,
    exists s out, feed_all init_d frags = Ok s out /\
      equiv (map sym_of out ++ split_ref (capmode s) (buf s ++ rest))
            (split_ref false (concat frags ++ rest)).
  Proof.
    intros frags rest. pose proof (feed_all_no_crash frags init_d) as NC.
    destruct (feed_all init_d frags) as [s out|] eqn:F; [|congruence].
    exists s, out. split; auto. apply (feed_all_refines _ _ _ _ rest) in F. exact F.
  Qed.

  (* all the reads and the final flush: the observable division is the
     reference division of the unfragmented stream, and nothing is held back *)
  Theorem refines_total : forall frags,
    exists s out, run_d frags = Ok s out /\
      equiv (map sym_of out) (split_ref false (concat frags)) /\ buf s = [].
  Proof.
    intros frags. unfold Stream.run_d.
    pose proof (feed_all_no_crash frags init_d) as NC.
    destruct (feed_all init_d frags) as [s1 o1|] eqn:F; [|congruence].
    pose proof (finish_no_crash s1) as NF.
    destruct (finish_d s1) as [s2 o2|] eqn:Fi; [|congruence].
    exists s2, (o1 ++ o2). split; auto.
    apply (feed_all_refines _ _ _ _ []) in F. rewrite !app_nil_r in F. simpl in F.
    unfold Stream.finish_d in Fi. apply record_output_final in Fi. destruct Fi as [Fi B].
    split; auto. rewrite map_app. eapply equiv_trans; [|exact F].
    apply equiv_app; [apply equiv_refl | exact Fi].
  Qed.

  Definition observe (out : list eff) : obs := interp obs0 (map sym_of out).
  Definition ref_obs (stream : bytes) : obs := interp obs0 (split_ref false stream).

  Corollary run_observes : forall frags, exists s out,
    run_d frags = Ok s out /\ observe out = ref_obs (concat frags).
  Proof.
    intros frags. destruct (refines_total frags) as (s & out & R & E & _).
    exists s, out. split; auto. apply E.
  Qed.

  (* fragmentation invariance *)
  Corollary frag_invariant : forall f1 f2, concat f1 = concat f2 ->
    exists s1 o1 s2 o2, run_d f1 = Ok s1 o1 /\ run_d f2 = Ok s2 o2 /\ observe o1 = observe o2.
  Proof.
    intros f1 f2 E.
    destruct (run_observes f1) as (s1 & o1 & R1 & O1).
    destruct (run_observes f2) as (s2 & o2 & R2 & O2).
    exists s1, o1, s2, o2. repeat split; auto. rewrite O1, O2, E. reflexivity.
  Qed.
End Spec.
