(* C08: the generic theorems instantiated with the tokens that
   gen/c08_tokens.py reads from supervisor/events.py (Gen_tokens.v), plus
   Examples showing that the hypotheses are met by non-trivial values. *)
From Coq Require Import ZArith List Bool Lia Arith.
Import ListNotations.
Require Import SV.Common SV.C08.Gen_tokens SV.C08.Stream SV.C08.StreamProofs SV.C08.CaptureProofs.

(* the proofs need only this about the generated tokens; an empty token in the
   source breaks these two lines *)
Lemma begin_nonempty : begin_token <> []. Proof. discriminate. Qed.
Lemma end_nonempty : end_token <> []. Proof. discriminate. Qed.

Definition BT := begin_token.
Definition ET := end_token.

(* the real dispatcher with strip_ansi off *)
Definition feed (capmax : Z) := feed_all BT ET capmax idtr.
Definition run (capmax : Z) := run_d BT ET capmax idtr.
Definition finish (capmax : Z) := finish_d BT ET capmax idtr.
Definition ref (m : bool) (s : bytes) : list sym := split_ref BT ET m s.
Definition ref_observation (s : bytes) : obs := ref_obs BT ET s.
Definition awaited (m : bool) : bytes := tok BT ET m.

Section Inst.
  Variable capmax : Z.
  Hypothesis Hcap : capmax <> 0%Z.

  Theorem refines : forall frags rest,
    exists s out, feed capmax init_d frags = Ok s out /\
      equiv (map sym_of out ++ ref (capmode s) (buf s ++ rest)) (ref false (concat frags ++ rest)).
  Proof. exact (refines_continuation BT ET begin_nonempty end_nonempty capmax idtr Hcap). Qed.

  Theorem refines_run : forall frags,
    exists s out, run capmax frags = Ok s out /\
      observe out = ref_observation (concat frags) /\ buf s = [].
  Proof.
    intros frags.
    destruct (refines_total BT ET begin_nonempty end_nonempty capmax idtr Hcap frags) as (s & out & R & E & B).
    exists s, out. repeat split; auto. apply E.
  Qed.

  Theorem frag_inv : forall f1 f2, concat f1 = concat f2 ->
    exists s1 o1 s2 o2, run capmax f1 = Ok s1 o1 /\ run capmax f2 = Ok s2 o2 /\ observe o1 = observe o2.
  Proof. exact (frag_invariant BT ET begin_nonempty end_nonempty capmax idtr Hcap). Qed.

  Theorem held_back_short : forall frags s out,
    feed capmax init_d frags = Ok s out -> length (buf s) <= length (awaited (capmode s)).
  Proof.
    intros frags s out H.
    apply (holdback_short BT ET capmax idtr Hcap frags init_d s out); auto. simpl. lia.
  Qed.

  Theorem one_event_per_section : forall frags s out,
    run capmax frags = Ok s out ->
    length (eff_comms out) = length (o_closed (ref_observation (concat frags))).
  Proof.
    intros frags s out R.
    destruct (refines_run frags) as (s' & out' & R' & O & _).
    rewrite R in R'. inversion R'; subst. rewrite <- O. apply comms_count.
  Qed.

  Theorem excluded_from_log : forall frags s out,
    run capmax frags = Ok s out -> eff_logfile idtr out = o_log (ref_observation (concat frags)).
  Proof. exact (logfile_is_ref_log BT ET begin_nonempty end_nonempty capmax Hcap). Qed.
End Inst.

Theorem event_bound : forall capmax, (0 < capmax)%Z -> forall frags s out,
  run capmax frags = Ok s out ->
  Forall2 (event_ok capmax) (o_closed (ref_observation (concat frags))) (eff_comms out).
Proof. intros capmax H. exact (events_match_sections BT ET begin_nonempty end_nonempty capmax H). Qed.

Theorem capture_off : forall frags,
  exists s, feed 0 init_d frags = Ok s (map Log (nonempty frags)) /\ buf s = [] /\ capmode s = false.
Proof. intros frags. unfold feed. apply (capmax_zero BT ET idtr frags init_d); reflexivity. Qed.

Theorem never_crashes : forall capmax frags, run capmax frags <> Crash.
Proof.
  intros capmax frags. destruct (Z.eq_dec capmax 0) as [->|N].
  - unfold run, run_d. destruct (capture_off frags) as (s & F & B & M).
    unfold feed in F. rewrite F. unfold finish_d. destruct s as [b cm cp cl]. simpl in B. subst b. simpl. discriminate.
  - destruct (refines_run capmax N frags) as (s & out & R & _). rewrite R. discriminate.
Qed.

Theorem ref_is_leftmost_parse : forall m s, parses BT ET m s (ref m s).
Proof. exact (split_ref_parses BT ET begin_nonempty end_nonempty). Qed.

(* ------------------------------------------------------------- Examples *)
Local Open Scope Z_scope.
Definition ex_stream : bytes := [97; 98] ++ BT ++ [104; 105] ++ ET ++ [120].
(* "ab<!--XSUP" | "ERVISOR:BEGIN-->hi<!--XSUPERVISOR:END" | "-->x" *)
Definition ex_frags : list bytes :=
  [firstn 12%nat ex_stream; firstn 38%nat (skipn 12%nat ex_stream); skipn 50%nat ex_stream].

Example ex_concat : concat ex_frags = ex_stream.
Proof. vm_compute. reflexivity. Qed.

Example ex_run :
  match run 10 ex_frags with
  | Ok s out => eff_logfile idtr out = [97; 98; 120] /\ eff_comms out = [[104; 105]] /\ buf s = []
  | Crash => False
  end.
Proof. vm_compute. repeat split; reflexivity. Qed.

Example ex_ref : ref_observation ex_stream = mkO [97; 98; 120] [[104; 105]] [].
Proof. vm_compute. reflexivity. Qed.

(* a read no longer than the tag is not examined at all; a longer one is logged
   up to the longest suffix that is a prefix of the tag *)
Example ex_not_examined :
  match feed 10 init_d [firstn 12%nat ex_stream] with
  | Ok s out => buf s = firstn 12%nat ex_stream /\ out = []
  | Crash => False
  end.
Proof. vm_compute. split; reflexivity. Qed.

Example ex_heldback :
  match feed 10 init_d [repeat 120 30%nat ++ firstn 10%nat BT] with
  | Ok s out => buf s = firstn 10%nat BT /\ eff_logfile idtr out = repeat 120 30%nat
  | Crash => False
  end.
Proof. vm_compute. split; reflexivity. Qed.

(* a section longer than capture_maxbytes: the event carries a trailing part *)
Example ex_overflow :
  match run 3 [BT ++ [1; 2; 3; 4; 5]; [6; 7] ++ ET] with
  | Ok s out => eff_comms out = [[5; 6; 7]] /\ eff_logfile idtr out = []
  | Crash => False
  end.
Proof. vm_compute. split; reflexivity. Qed.

Example ex_event_ok : event_ok 3 [1; 2; 3; 4; 5; 6; 7] [5; 6; 7].
Proof.
  split; [exists [1; 2; 3; 4]; reflexivity|]. split; [vm_compute; discriminate|].
  vm_compute. intros H. exfalso. apply H. reflexivity.
Qed.

(* with capture off the tags are ordinary output *)
Example ex_capture_off :
  match feed 0 init_d ex_frags with
  | Ok s out => eff_logfile idtr out = ex_stream /\ eff_comms out = []
  | Crash => False
  end.
Proof. vm_compute. split; reflexivity. Qed.

(* holdback_complete on a concrete boundary: "x<!--" held back, and the tag
   that straddles the boundary is found once the rest arrives *)
Example ex_holdback_complete :
  let data := [120] ++ firstn 4%nat BT in
  split_tok BT data = None /\ find_prefix_at_end data BT = 4%nat /\
  split_tok BT (data ++ skipn 4%nat BT ++ [121]) = Some ([120], [121]).
Proof. vm_compute. repeat split; reflexivity. Qed.
