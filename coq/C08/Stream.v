(* C08 / C07: executable model of one output channel of one child process:
   supervisor.dispatchers.POutputDispatcher (handle_read_event, record_output,
   toggle_capturemode, _log), supervisor.medusa.asynchat_25.find_prefix_at_end,
   supervisor.loggers.BoundIO (the capture buffer).

   Bytes are `list Z` (0..255).  The definitions transcribe the Python statement
   by statement; the only addition is the explicit recursion fuel of
   record_output (out of fuel = Crash, proved unreachable in StreamProofs.v).

   The model is generic in
     btok etok : the BEGIN / END capture tokens (instantiated from Gen_tokens.v),
     capmax    : <channel>_capture_maxbytes (0 = no capture log),
     tr        : what _log does to the data before writing it
                 (identity, or stripEscapes when strip_ansi is set).
   Effects record the data *as passed to _log* (before tr); the observable
   log bytes / PROCESS_LOG payloads are `tr d` (see eff_written). *)
From Coq Require Import ZArith List Bool Lia.
Import ListNotations.
Require Import SV.Common SV.C08.Gen_tokens.

Definition bytes := list Z.
Definition zlen (b : bytes) : Z := Z.of_nat (length b).

(* s.startswith(p) *)
Fixpoint is_prefix (p s : bytes) : bool :=
  match p, s with
  | [], _ => true
  | x :: p', y :: s' => (x =? y)%Z && is_prefix p' s'
  | _ :: _, [] => false
  end.

(* data.split(tok, 1): None = ValueError from the tuple unpacking (tok absent),
   Some (before, after) = split at the first occurrence *)
Fixpoint split_tok (tok data : bytes) {struct data} : option (bytes * bytes) :=
  if is_prefix tok data then Some ([], skipn (length tok) data)
  else match data with
       | [] => None
       | x :: r => match split_tok tok r with
                   | Some (b, a) => Some (x :: b, a)
                   | None => None
                   end
       end.

(* h.endswith(p) *)
Definition ends_with (h p : bytes) : bool :=
  (length p <=? length h)%nat && zlist_eqb (skipn (length h - length p) h) p.

(* asynchat_25.find_prefix_at_end:
     l = len(needle) - 1
     while l and not haystack.endswith(needle[:l]): l -= 1
     return l *)
Fixpoint fpe_loop (h t : bytes) (l : nat) : nat :=
  match l with
  | O => O
  | S l' => if ends_with h (firstn l t) then l else fpe_loop h t l'
  end.
Definition find_prefix_at_end (h t : bytes) : nat := fpe_loop h t (length t - 1).

(* loggers.BoundIO.write (after 415ecdd: clamps a single oversized write):
     blen = len(b)
     if len(self.buf) + blen > self.maxbytes: self.buf = self.buf[blen:]
     self.buf += b
     if len(self.buf) > self.maxbytes: self.buf = self.buf[len(self.buf) - self.maxbytes:]
   The two comparison operators are read from the source by gen/c08_tokens.py
   (boundio_drop_cmp, boundio_clamp_cmp; the translator rejects any other shape
   of the method), so an edited operator changes the model and the BoundIO laws
   of CaptureProofs.v are re-checked against it. *)
Definition bound_write (maxb : Z) (buf b : bytes) : bytes :=
  let buf1 := if boundio_drop_cmp (zlen buf + zlen b) maxb then skipn (length b) buf else buf in
  let buf2 := buf1 ++ b in
  if boundio_clamp_cmp (zlen buf2) maxb
  then skipn (Z.to_nat (Z.min (zlen buf2) (zlen buf2 - maxb))) buf2
  else buf2.

(* one _log call with non-empty data (Log: childlog is the normal log, Cap:
   childlog is the capture log), one PROCESS_COMMUNICATION event *)
Inductive eff := Log (d : bytes) | Cap (d : bytes) | Comm (d : bytes).

Record dstate := mkD {
  buf : bytes;        (* output_buffer *)
  capmode : bool;     (* capturemode; childlog is capturelog iff true *)
  cap : bytes;        (* BoundIO buffer behind capturelog *)
  closed : bool       (* PDispatcher.closed *)
}.

Definition init_d : dstate := mkD [] false [] false.
Definition set_buf (s : dstate) (b : bytes) : dstate := mkD b (capmode s) (cap s) (closed s).

Inductive res := Ok (s : dstate) (out : list eff) | Crash.

Section Dispatcher.
  Variables btok etok : bytes.
  Variable capmax : Z.
  Variable tr : bytes -> bytes.

  (* POutputDispatcher._log: `if data:` ... childlog.info(tr data) ... PROCESS_LOG *)
  Definition do_log (s : dstate) (d : bytes) : dstate * list eff :=
    match d with
    | [] => (s, [])
    | _ => if capmode s
           then (mkD (buf s) true (bound_write capmax (cap s) (tr d)) (closed s), [Cap d])
           else (s, [Log d])
    end.

  (* toggle_capturemode (capturelog is not None on every path that calls it) *)
  Definition toggle (s : dstate) : dstate * list eff :=
    if capmode s
    then (mkD (buf s) false [] (closed s), [Comm (cap s)])
    else (mkD (buf s) true (cap s) (closed s), []).

  Fixpoint record_output (fuel : nat) (final : bool) (s : dstate) : res :=
    match fuel with
    | O => Crash
    | S f =>
      if (capmax =? 0)%Z then
        (* self.capturelog is None *)
        let '(s1, e1) := do_log (set_buf s []) (buf s) in Ok s1 e1
      else
        let tok := if capmode s then etok else btok in
        if (length (buf s) <=? length tok)%nat && negb final then Ok s []
        else
          let data := buf s in
          match split_tok tok data with
          | None =>
            let index := find_prefix_at_end data tok in
            if (0 <? index)%nat && negb final then
              let n := (length data - index)%nat in
              let '(s1, e1) := do_log (set_buf s (skipn n data)) (firstn n data) in
              Ok s1 e1
            else
              let '(s1, e1) := do_log (set_buf s []) data in Ok s1 e1
          | Some (before, after) =>
            let '(s1, e1) := do_log (set_buf s []) before in
            let '(s2, e2) := toggle s1 in
            let s3 := set_buf s2 after in
            match after with
            | [] => Ok s3 (e1 ++ e2)
            | _ => match record_output f final s3 with
                   | Ok s4 e3 => Ok s4 (e1 ++ e2 ++ e3)
                   | Crash => Crash
                   end
            end
          end
    end.

  (* handle_read_event: data = readfd(fd); output_buffer += data; record_output();
     if not data: close() *)
  Definition handle_read (s : dstate) (chunk : bytes) : res :=
    let b := buf s ++ chunk in
    match record_output (length b + 2) false (set_buf s b) with
    | Ok s1 out =>
      Ok (match chunk with [] => mkD (buf s1) (capmode s1) (cap s1) true | _ => s1 end) out
    | Crash => Crash
    end.

  (* Subprocess.finish: record_output(final=True) on every output dispatcher *)
  Definition finish_d (s : dstate) : res :=
    record_output (length (buf s) + 2) true s.

  Fixpoint feed_all (s : dstate) (frags : list bytes) : res :=
    match frags with
    | [] => Ok s []
    | c :: r =>
      match handle_read s c with
      | Ok s1 o1 => match feed_all s1 r with
                    | Ok s2 o2 => Ok s2 (o1 ++ o2)
                    | Crash => Crash
                    end
      | Crash => Crash
      end
    end.

  (* all the reads, then the final flush at reap time *)
  Definition run_d (frags : list bytes) : res :=
    match feed_all init_d frags with
    | Ok s1 o1 => match finish_d s1 with
                  | Ok s2 o2 => Ok s2 (o1 ++ o2)
                  | Crash => Crash
                  end
    | Crash => Crash
    end.

  (* observables *)
  (* bytes appended to the channel's log file *)
  Fixpoint eff_logfile (l : list eff) : bytes :=
    match l with
    | [] => []
    | Log d :: r => tr d ++ eff_logfile r
    | _ :: r => eff_logfile r
    end.
  (* data of the PROCESS_COMMUNICATION events *)
  Fixpoint eff_comms (l : list eff) : list bytes :=
    match l with
    | [] => []
    | Comm d :: r => d :: eff_comms r
    | _ :: r => eff_comms r
    end.
  (* data of the PROCESS_LOG events when <channel>_events_enabled: the code emits
     one per _log call *whatever the capture mode* (documented: only outside
     capture mode -- known finding C08-proclog); `incap` selects the variant *)
  Fixpoint eff_plog (incap : bool) (l : list eff) : list bytes :=
    match l with
    | [] => []
    | Log d :: r => tr d :: eff_plog incap r
    | Cap d :: r => if incap then tr d :: eff_plog incap r else eff_plog incap r
    | Comm _ :: r => eff_plog incap r
    end.
End Dispatcher.
