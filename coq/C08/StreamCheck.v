(* C08: correspondence entry points.  The harness (harness/c08_disp.py) runs the
   real POutputDispatcher and serialises what it observed after every read and
   after the final flush into a list of integers; `trace_ser` computes the same
   serialisation from the model.  Level A cases carry the whole serialisation
   (exact comparison); level B cases carry a stream as a list of symbols of a
   fixed alphabet and one weighted checksum over *all* fragmentations of that
   stream at symbol boundaries, which Coq enumerates itself. *)
From Coq Require Import ZArith List Bool Lia.
Import ListNotations.
Require Import SV.Common SV.C08.Gen_tokens SV.C08.Stream SV.C07.Strip.
Local Open Scope Z_scope.

Definition b2z (b : bool) : Z := if b then 1 else 0.
Definition ser_bytes (b : bytes) : list Z := zlen b :: b.
Definition ser_list (l : list bytes) : list Z :=
  Z.of_nat (length l) :: concat (map ser_bytes l).

(* one step of a dispatcher-level script: a read, POutputDispatcher.reopenlogs(),
   POutputDispatcher.removelogs() *)
Inductive rop := RRead (d : bytes) | RReopen | RClear.

Section Ser.
  Variables btok etok : bytes.
  Variable capmax : Z.
  Variable tr : bytes -> bytes.
  (* None: <channel>_events_enabled is off (no PROCESS_LOG events);
     Some incap: on; incap = events are also emitted for captured data *)
  Variable plog : option bool.
  (* false: the channel has no ordinary log file (<channel>_logfile = NONE);
     normallog is None (or syslog only) and nothing is written to a file *)
  Variable haslog : bool.

  Definition nplog (acc : list eff) : list Z :=
    match plog with
    | None => []
    | Some ic => [Z.of_nat (length (eff_plog tr ic acc))]
    end.

  (* the log file: everything logged since the last removelogs() *)
  Definition logf (drop : nat) (acc : list eff) : bytes :=
    if haslog then skipn drop (eff_logfile tr acc) else [].

  Definition step_ser (drop : nat) (s : dstate) (acc : list eff) : list Z :=
    [zlen (logf drop acc); Z.of_nat (length (eff_comms acc))] ++ nplog acc ++
    [zlen (buf s); b2z (capmode s); zlen (cap s); b2z (closed s)].

  Definition final_ser (drop : nat) (s : dstate) (acc : list eff) : list Z :=
    ser_bytes (logf drop acc) ++ ser_list (eff_comms acc) ++ ser_bytes (buf s) ++ ser_bytes (cap s) ++
    match plog with None => [] | Some ic => ser_list (eff_plog tr ic acc) end.

  (* the script, then the final flush; None = the model crashed (never happens: proved) *)
  Fixpoint trace_ops (drop : nat) (s : dstate) (acc : list eff) (ops : list rop) : option (list Z) :=
    match ops with
    | [] =>
      match finish_d btok etok capmax tr s with
      | Ok s' o => let acc' := acc ++ o in Some (step_ser drop s' acc' ++ final_ser drop s' acc')
      | Crash => None
      end
    | RRead c :: r =>
      match handle_read btok etok capmax tr s c with
      | Ok s' o =>
        let acc' := acc ++ o in
        match trace_ops drop s' acc' r with
        | Some t => Some (step_ser drop s' acc' ++ t)
        | None => None
        end
      | Crash => None
      end
    | RReopen :: r =>
      (* handlers reopen their files in append mode; BoundIO: nothing *)
      match trace_ops drop s acc r with
      | Some t => Some (step_ser drop s acc ++ t)
      | None => None
      end
    | RClear :: r =>
      (* handler.remove(); handler.reopen(): the file is deleted and recreated
         empty, the capture buffer (BoundIO.clear) is emptied *)
      let drop' := length (eff_logfile tr acc) in
      let s' := mkD (buf s) (capmode s) [] (closed s) in
      match trace_ops drop' s' acc r with
      | Some t => Some (step_ser drop' s' acc ++ t)
      | None => None
      end
    end.

  Definition trace_ser (s : dstate) (acc : list eff) (frags : list bytes) : option (list Z) :=
    trace_ops 0 s acc (map RRead frags).
End Ser.

Definition tr_id (b : bytes) : bytes := b.

(* ---- level A: (capmax, log file configured, script, serialised implementation trace) *)
Definition check_exact (c : Z * bool * list rop * list Z) : bool :=
  let '(capmax, haslog, ops, want) := c in
  match trace_ops begin_token end_token capmax tr_id None haslog 0 init_d [] ops with
  | Some t => zlist_eqb t want
  | None => false
  end.

(* strip_ansi on: _log strips each chunk it is given; the scanner works on the raw bytes *)
Definition check_exact_strip (c : Z * bool * list rop * list Z) : bool :=
  let '(capmax, haslog, ops, want) := c in
  match trace_ops begin_token end_token capmax strip_escapes None haslog 0 init_d [] ops with
  | Some t => zlist_eqb t want
  | None => false
  end.

(* events enabled: (capmax, log file configured, incap, script, trace) *)
Definition check_exact_plog (c : Z * bool * bool * list rop * list Z) : bool :=
  let '(capmax, haslog, incap, ops, want) := c in
  match trace_ops begin_token end_token capmax tr_id (Some incap) haslog 0 init_d [] ops with
  | Some t => zlist_eqb t want
  | None => false
  end.

(* ---- level B *)
Definition sym_bytes (k : Z) : bytes :=
  match k with
  | 0 => begin_token
  | 1 => end_token
  | 2 => firstn 19 begin_token          (* "<!--XSUPERVISOR:BEG" *)
  | 3 => skipn 19 begin_token           (* "IN-->" *)
  | 4 => firstn 16 begin_token          (* "<!--XSUPERVISOR:", common to both *)
  | 5 => skipn 16 end_token             (* "END-->" *)
  | 6 => [97]
  | 7 => [255]
  | 8 => [60]                           (* "<" *)
  | 9 => skipn 21 begin_token           (* "-->" *)
  | 10 => firstn 23 begin_token         (* BEGIN tag without its last byte *)
  | 11 => [62]                          (* ">" *)
  | 12 => skipn 16 begin_token          (* "BEGIN-->" *)
  | 13 => firstn 1 begin_token ++ begin_token  (* "<" ++ BEGIN: overlap candidate *)
  | _ => [120; 121; 122]
  end.

(* cut after symbol i iff bit i of mask is set *)
Fixpoint frag_syms (syms : list Z) (mask : Z) (cur : bytes) : list bytes :=
  match syms with
  | [] => match cur with [] => [] | _ => [cur] end
  | k :: r =>
    let cur' := cur ++ sym_bytes k in
    if Z.odd mask then cur' :: frag_syms r (Z.div2 mask) []
    else frag_syms r (Z.div2 mask) cur'
  end.

Fixpoint wsum (i : Z) (l : list Z) : Z :=
  match l with
  | [] => 0
  | x :: r => (i + 1) * (x + 1) + wsum (i + 1) r
  end.

Definition run_sum (capmax : Z) (haslog eof : bool) (syms : list Z) (mask : Z) : Z :=
  let frags := frag_syms syms mask [] ++ (if eof then [[]] else []) in
  match trace_ser begin_token end_token capmax tr_id None haslog init_d [] frags with
  | Some t => wsum 0 t
  | None => -1
  end.

Fixpoint all_masks_sum (capmax : Z) (haslog eof : bool) (syms : list Z) (n : nat) (mask : Z) : Z :=
  match n with
  | O => 0
  | S n' => (mask + 1) * run_sum capmax haslog eof syms mask + all_masks_sum capmax haslog eof syms n' (mask + 1)
  end.

(* (symbols, capmax, log file configured, eof read before the flush, checksum over all 2^(n-1) fragmentations) *)
Definition check_sum (c : list Z * Z * bool * bool * Z) : bool :=
  let '(syms, capmax, haslog, eof, want) := c in
  let nm := Nat.pow 2 (Nat.pred (length syms)) in
  all_masks_sum capmax haslog eof syms nm 0 =? want.

(* ---- BoundIO alone: (maxbytes, writes, buffer after each write) *)
Fixpoint bound_trace (mb : Z) (buf : bytes) (ws : list bytes) : list bytes :=
  match ws with
  | [] => []
  | w :: r => let b := bound_write mb buf w in b :: bound_trace mb b r
  end.
Definition check_boundio (c : Z * list bytes * list bytes) : bool :=
  let '(mb, ws, want) := c in
  list_eqb zlist_eqb (bound_trace mb [] ws) want.

(* ---- byte-level cuts of one stream: every single cut, and every pair of cuts
   at multiples of `stride`; one weighted checksum over all those runs *)
Definition cut_frags (s : bytes) (c1 c2 : nat) : list bytes :=
  if Nat.eqb c1 c2 then [firstn c1 s; skipn c1 s]
  else [firstn c1 s; firstn (c2 - c1) (skipn c1 s); skipn c2 s].

Definition cut_pairs (n stride : nat) : list (nat * nat) :=
  map (fun c => (c, c)) (seq 1 (n - 1)) ++
  flat_map (fun c1 => flat_map (fun c2 =>
      if Nat.ltb c1 c2 && Nat.eqb (Nat.modulo c1 stride) 0 && Nat.eqb (Nat.modulo c2 stride) 0
      then [(c1, c2)] else []) (seq 1 (n - 1))) (seq 1 (n - 1)).

Fixpoint cuts_sum (capmax : Z) (haslog : bool) (s : bytes) (l : list (nat * nat)) (i : Z) : Z :=
  match l with
  | [] => 0
  | (c1, c2) :: r =>
    (i + 1) * (match trace_ser begin_token end_token capmax tr_id None haslog init_d [] (cut_frags s c1 c2) with
               | Some t => wsum 0 t | None => -1 end)
    + cuts_sum capmax haslog s r (i + 1)
  end.

(* (stream, capmax, log file configured, stride, checksum) *)
Definition check_cuts (c : bytes * Z * bool * nat * Z) : bool :=
  let '(s, capmax, haslog, stride, want) := c in
  cuts_sum capmax haslog s (cut_pairs (length s) stride) 0 =? want.

(* ---- whole run observed from outside (through Subprocess.finish()):
   (capmax, log file configured, reads, log file bytes, PROCESS_COMMUNICATION data) *)
Definition check_final (c : Z * bool * list bytes * bytes * list bytes) : bool :=
  let '(capmax, haslog, frags, log, comms) := c in
  match run_d begin_token end_token capmax tr_id frags with
  | Ok _ out => zlist_eqb (if haslog then eff_logfile tr_id out else []) log && list_eqb zlist_eqb (eff_comms out) comms
  | Crash => false
  end.
