(* C08, part 2: the capture buffer (BoundIO) laws, the link between the
   PROCESS_COMMUNICATION event data and the enclosed bytes, the bound on what is
   held back, capture_maxbytes = 0, and the abstract meaning of the reference
   splitter. *)
From Coq Require Import ZArith List Bool Lia Arith.
Import ListNotations.
Require Import SV.Common SV.C08.Gen_tokens SV.C08.Stream SV.C08.StreamProofs.

Lemma zlen_app (a b : bytes) : zlen (a ++ b) = (zlen a + zlen b)%Z.
Proof. unfold zlen. rewrite app_length. lia. Qed.
Lemma zlen_nonneg (a : bytes) : (0 <= zlen a)%Z.
Proof. unfold zlen. lia. Qed.

(* ------------------------------------------------------------ BoundIO laws *)
Definition suffix_of (a b : bytes) : Prop := exists p, b = p ++ a.

Lemma suffix_refl a : suffix_of a a. Proof. exists []. reflexivity. Qed.
Lemma suffix_trans a b c : suffix_of a b -> suffix_of b c -> suffix_of a c.
Proof. intros [p ->] [q ->]. exists (q ++ p). rewrite app_assoc. reflexivity. Qed.
Lemma suffix_skipn n (l : bytes) : suffix_of (skipn n l) l.
Proof. exists (firstn n l). symmetry. apply firstn_skipn. Qed.
Lemma suffix_app a b c : suffix_of a b -> suffix_of (a ++ c) (b ++ c).
Proof. intros [p ->]. exists p. rewrite app_assoc. reflexivity. Qed.

Section Bound.
  Variable m : Z.
  Notation bw := (bound_write m).

  Lemma bw_suffix b d : suffix_of (bw b d) (b ++ d).
  Proof.
    unfold bound_write, boundio_drop_cmp, boundio_clamp_cmp.
    assert (S1 : suffix_of ((if (zlen b + zlen d >? m)%Z then skipn (length d) b else b) ++ d) (b ++ d)).
    { apply suffix_app. destruct (zlen b + zlen d >? m)%Z; [apply suffix_skipn | apply suffix_refl]. }
    destruct (zlen _ >? m)%Z; auto.
    eapply suffix_trans; [apply suffix_skipn | exact S1].
  Qed.

  Lemma bw_len b d : (0 <= m)%Z -> (zlen (bw b d) <= m)%Z.
  Proof.
    intros Hm. unfold bound_write, boundio_drop_cmp, boundio_clamp_cmp.
    set (b2 := (if (zlen b + zlen d >? m)%Z then skipn (length d) b else b) ++ d).
    destruct (Z.gtb_spec (zlen b2) m) as [G|G]; [|exact G].
    unfold zlen in *. rewrite skipn_length. lia.
  Qed.

  Lemma bw_fit b d : (zlen b + zlen d <= m)%Z -> bw b d = b ++ d.
  Proof.
    intros H. unfold bound_write, boundio_drop_cmp, boundio_clamp_cmp.
    destruct (Z.gtb_spec (zlen b + zlen d) m) as [G|G]; [lia|].
    destruct (Z.gtb_spec (zlen (b ++ d)) m) as [G2|G2]; auto.
    rewrite zlen_app in G2. lia.
  Qed.

  (* the capture buffer after the writes `chunks`, starting from b0 *)
  Definition capfold (chunks : list bytes) (b0 : bytes) : bytes := fold_left bw chunks b0.

  Lemma capfold_suffix : forall chunks b0, suffix_of (capfold chunks b0) (b0 ++ concat chunks).
  Proof.
    induction chunks as [|c r IH]; intros b0; simpl.
    - rewrite app_nil_r. apply suffix_refl.
    - eapply suffix_trans; [apply IH|]. rewrite app_assoc. apply suffix_app. apply bw_suffix.
  Qed.

  Lemma capfold_len : forall chunks b0, (0 <= m)%Z -> (zlen b0 <= m)%Z -> (zlen (capfold chunks b0) <= m)%Z.
  Proof.
    induction chunks as [|c r IH]; intros b0 Hm Hb; simpl; auto.
    apply IH; auto. apply bw_len; auto.
  Qed.

  Lemma capfold_fit : forall chunks b0, (zlen b0 + zlen (concat chunks) <= m)%Z ->
    capfold chunks b0 = b0 ++ concat chunks.
  Proof.
    induction chunks as [|c r IH]; intros b0 H; simpl in *.
    - rewrite app_nil_r. reflexivity.
    - rewrite zlen_app in H. pose proof (zlen_nonneg (concat r)).
      rewrite bw_fit by lia. rewrite IH; [rewrite app_assoc; reflexivity|].
      rewrite zlen_app. lia.
  Qed.

  (* the event data `data` for a section whose enclosed bytes are `enclosed` *)
  Definition event_ok (enclosed data : bytes) : Prop :=
    suffix_of data enclosed /\ (zlen data <= m)%Z /\ ((zlen enclosed <= m)%Z -> data = enclosed).

  Lemma capfold_event_ok chunks : (0 <= m)%Z -> event_ok (concat chunks) (capfold chunks []).
  Proof.
    intros Hm. split; [|split].
    - apply (capfold_suffix chunks []).
    - apply capfold_len; auto.
    - intros H. apply (capfold_fit chunks []). change (zlen (@nil Z)) with 0%Z. lia.
  Qed.
End Bound.

(* ------------------------------------- chunk-level view of the effect list *)
Record cobs := mkC { c_open : list bytes; c_done : list (list bytes * bytes) }.
Definition cobs0 : cobs := mkC [] [].
Definition cstep (c : cobs) (e : eff) : cobs :=
  match e with
  | Log _ => c
  | Cap d => mkC (c_open c ++ [d]) (c_done c)
  | Comm x => mkC [] (c_done c ++ [(c_open c, x)])
  end.
Definition cinterp (c : cobs) (l : list eff) : cobs := fold_left cstep l c.

Lemma cinterp_app c l1 l2 : cinterp c (l1 ++ l2) = cinterp (cinterp c l1) l2.
Proof. apply fold_left_app. Qed.

Definition linked (o : obs) (c : cobs) : Prop :=
  o_closed o = map (fun p => concat (fst p)) (c_done c) /\ o_open o = concat (c_open c).

Lemma linked_interp : forall l o c, linked o c -> linked (interp o (map sym_of l)) (cinterp c l).
Proof.
  induction l as [|e l IH]; intros o c [L1 L2]; simpl; [split; auto|].
  apply IH. destruct e; simpl; split; simpl; auto.
  - rewrite L2, concat_app. simpl. rewrite app_nil_r. reflexivity.
  - rewrite map_app, L1, L2. reflexivity.
Qed.

Lemma comms_cinterp : forall l c, map snd (c_done (cinterp c l)) = map snd (c_done c) ++ eff_comms l.
Proof.
  induction l as [|e l IH]; intros c; simpl; [rewrite app_nil_r; reflexivity|].
  rewrite IH. destruct e; simpl; auto. rewrite map_app, <- app_assoc. reflexivity.
Qed.

Lemma eff_logfile_app tr a b : eff_logfile tr (a ++ b) = eff_logfile tr a ++ eff_logfile tr b.
Proof. induction a as [|e a IH]; simpl; auto. destruct e; rewrite IH; auto. rewrite app_assoc. reflexivity. Qed.
Lemma eff_comms_app a b : eff_comms (a ++ b) = eff_comms a ++ eff_comms b.
Proof. induction a as [|e a IH]; simpl; auto. destruct e; rewrite IH; auto. Qed.

Lemma olog_interp : forall l o, o_log (interp o (map sym_of l)) = o_log o ++ eff_logfile (fun d => d) l.
Proof.
  induction l as [|e l IH]; intros o; simpl; [rewrite app_nil_r; reflexivity|].
  rewrite IH. destruct e; simpl; auto. rewrite app_assoc. reflexivity.
Qed.

(* ================================================================== *)
Section Capture.
  Variables btok etok : bytes.
  Hypothesis Hb : btok <> [].
  Hypothesis He : etok <> [].
  Variable capmax : Z.
  Variable tr : bytes -> bytes.

  Notation do_log := (do_log capmax tr).
  Notation record_output := (record_output btok etok capmax tr).
  Notation handle_read := (handle_read btok etok capmax tr).
  Notation feed_all := (feed_all btok etok capmax tr).
  Notation finish_d := (finish_d btok etok capmax tr).
  Notation run_d := (run_d btok etok capmax tr).
  Notation tok := (tok btok etok).
  Notation split_ref := (split_ref btok etok).

  (* invariant tying the capture buffer and the emitted events to the chunks
     written in each section *)
  Definition J (s : dstate) (c : cobs) : Prop :=
    cap s = capfold capmax (map tr (c_open c)) [] /\
    (capmode s = false -> c_open c = []) /\
    Forall (fun p => snd p = capfold capmax (map tr (fst p)) []) (c_done c).

  Lemma J_set_buf s c b : J s c -> J (set_buf s b) c.
  Proof. intros H. exact H. Qed.

  Lemma do_log_J s d s' e c : do_log s d = (s', e) -> J s c -> J s' (cinterp c e).
  Proof.
    unfold Stream.do_log. destruct d as [|x d].
    - intros H; inversion H; subst. auto.
    - destruct (capmode s) eqn:M; intros H (J1 & J2 & J3); inversion H; subst; simpl.
      + split; [|split]; simpl; auto; try discriminate.
        rewrite map_app. unfold capfold. rewrite fold_left_app. simpl. rewrite J1. reflexivity.
      + split; [|split]; auto.
  Qed.

  Lemma toggle_J s s' e c : toggle s = (s', e) -> J s c -> J s' (cinterp c e).
  Proof.
    unfold toggle. destruct (capmode s) eqn:M; intros H (J1 & J2 & J3); inversion H; subst; simpl.
    - split; [|split]; simpl; auto.
      apply Forall_app. split; auto.
    - split; [|split]; simpl; auto; discriminate.
  Qed.

  Lemma record_output_J : forall fuel final s s' out c,
    record_output fuel final s = Ok s' out -> J s c -> J s' (cinterp c out).
  Proof.
    induction fuel as [|f IH]; intros final s s' out c H Jc; [discriminate|].
    rewrite record_output_eq in H.
    destruct (capmax =? 0)%Z.
    { destruct (do_log (set_buf s []) (buf s)) as [s1 e1] eqn:D. inversion H; subst.
      eapply do_log_J; eauto. }
    cbv zeta in H.
    match type of H with (if ?g then _ else _) = _ => destruct g end.
    { inversion H; subst. exact Jc. }
    destruct (split_tok (if capmode s then etok else btok) (buf s)) as [[before after]|].
    - destruct (do_log (set_buf s []) before) as [s1 e1] eqn:D.
      destruct (toggle s1) as [s2 e2] eqn:T.
      pose proof (do_log_J _ _ _ _ c D (J_set_buf _ _ _ Jc)) as J1.
      pose proof (toggle_J _ _ _ _ T J1) as J2.
      destruct after as [|y after].
      + inversion H; subst. rewrite cinterp_app. exact J2.
      + destruct (record_output f final (set_buf s2 (y :: after))) as [s4 e3|] eqn:Rec; try discriminate.
        inversion H; subst. rewrite !cinterp_app. eapply IH; eauto.
    - match type of H with (if ?g then _ else _) = _ => destruct g end.
      + destruct (do_log _ _) as [s1 e1] eqn:D. inversion H; subst. eapply do_log_J; eauto.
      + destruct (do_log _ _) as [s1 e1] eqn:D. inversion H; subst. eapply do_log_J; eauto.
  Qed.

  Lemma handle_read_J s ch s' out c : handle_read s ch = Ok s' out -> J s c -> J s' (cinterp c out).
  Proof.
    unfold Stream.handle_read. intros H Jc.
    destruct (record_output (length (buf s ++ ch) + 2) false (set_buf s (buf s ++ ch))) as [s1 o1|] eqn:Rec;
      try discriminate.
    eapply record_output_J in Rec; [|apply J_set_buf; exact Jc].
    inversion H; subst. destruct ch; exact Rec.
  Qed.

  Lemma feed_all_J : forall frags s s' out c, feed_all s frags = Ok s' out -> J s c -> J s' (cinterp c out).
  Proof.
    induction frags as [|ch r IH]; intros s s' out c H Jc; simpl in H.
    - inversion H; subst. exact Jc.
    - destruct (handle_read s ch) as [s1 o1|] eqn:H1; try discriminate.
      destruct (feed_all s1 r) as [s2 o2|] eqn:H2; try discriminate.
      inversion H; subst. rewrite cinterp_app. eapply IH; eauto. eapply handle_read_J; eauto.
  Qed.

  Lemma run_J frags s out : run_d frags = Ok s out -> J s (cinterp cobs0 out).
  Proof.
    unfold Stream.run_d. intros H.
    destruct (feed_all init_d frags) as [s1 o1|] eqn:F; try discriminate.
    destruct (finish_d s1) as [s2 o2|] eqn:Fi; try discriminate.
    inversion H; subst. rewrite cinterp_app.
    unfold Stream.finish_d in Fi. eapply record_output_J; eauto.
    eapply feed_all_J; eauto. split; [|split]; simpl; auto.
  Qed.

  (* number of events = number of closed sections *)
  Lemma comms_count out :
    length (eff_comms out) = length (o_closed (observe out)).
  Proof.
    pose proof (linked_interp out obs0 cobs0 (conj eq_refl eq_refl)) as [L1 _].
    unfold observe. rewrite L1. pose proof (comms_cinterp out cobs0) as C. simpl in C.
    rewrite <- C. rewrite !map_length. reflexivity.
  Qed.

  (* what is held back between reads is never longer than the awaited tag *)
  Lemma record_output_buf_short : capmax <> 0%Z -> forall fuel s s' out,
    record_output fuel false s = Ok s' out -> length (buf s') <= length (tok (capmode s')).
  Proof.
    intros Hcap. induction fuel as [|f IH]; intros s s' out H; [discriminate|].
    rewrite record_output_eq in H.
    apply Z.eqb_neq in Hcap. rewrite Hcap in H. cbv zeta in H.
    change (if capmode s then etok else btok) with (tok (capmode s)) in H.
    destruct ((length (buf s) <=? length (tok (capmode s)))%nat && negb false) eqn:G.
    { inversion H; subst. apply andb_true_iff in G. destruct G as [G _]. apply Nat.leb_le in G. exact G. }
    destruct (split_tok (tok (capmode s)) (buf s)) as [[before after]|] eqn:S.
    - destruct (do_log (set_buf s []) before) as [s1 e1] eqn:D.
      destruct (toggle s1) as [s2 e2] eqn:T.
      destruct after as [|y after].
      + inversion H; subst. simpl. lia.
      + destruct (record_output f false (set_buf s2 (y :: after))) as [s4 e3|] eqn:Rec; try discriminate.
        inversion H; subst. eapply IH; eauto.
    - rewrite (none_branch_uniform capmax tr s false (buf s) (tok (capmode s))) in H. unfold keepn in H.
      destruct (do_log _ _) as [s1 e1] eqn:D. inversion H; subst s1 out.
      apply do_log_spec in D. destruct D as (D1 & D2 & _). simpl in D1, D2. rewrite D1, D2.
      pose proof (holdback_is_prefix (tok (capmode s)) (buf s)) as (K1 & K2 & K3). cbv zeta in K3.
      rewrite K3, firstn_length. lia.
  Qed.

  Theorem holdback_short : capmax <> 0%Z -> forall frags s0 s out,
    length (buf s0) <= length (tok (capmode s0)) ->
    feed_all s0 frags = Ok s out -> length (buf s) <= length (tok (capmode s)).
  Proof.
    intros Hcap. induction frags as [|ch r IH]; intros s0 s out B H; simpl in H.
    - inversion H; subst. exact B.
    - destruct (handle_read s0 ch) as [s1 o1|] eqn:H1; try discriminate.
      destruct (feed_all s1 r) as [s2 o2|] eqn:H2; try discriminate.
      inversion H; subst. eapply IH; [|exact H2].
      unfold Stream.handle_read in H1.
      destruct (record_output (length (buf s0 ++ ch) + 2) false (set_buf s0 (buf s0 ++ ch))) as [s3 o3|] eqn:Rec;
        try discriminate.
      apply record_output_buf_short in Rec; auto.
      inversion H1; subst. destruct ch; exact Rec.
  Qed.

  (* ------------------------------------------ abstract meaning of split_ref *)
  (* `parses m s l`: l is the division of s obtained by cutting at the leftmost
     occurrence of the awaited tag, repeatedly *)
  Inductive parses : bool -> bytes -> list sym -> Prop :=
  | P_end m s : (forall i, is_prefix (tok m) (skipn i s) = false) -> parses m s [piece m s]
  | P_tag m b a l :
      (forall i, i < length b -> is_prefix (tok m) (skipn i (b ++ tok m ++ a)) = false) ->
      parses (negb m) a l ->
      parses m (b ++ tok m ++ a) (piece m b :: toggle_syms m ++ l).

  Lemma split_ref_parses_fuel : forall n m s, length s < n -> parses m s (split_ref m s).
  Proof.
    induction n as [|n IH]; intros m s L; [lia|].
    rewrite (split_ref_unfold btok etok Hb He).
    destruct (split_tok (tok m) s) as [[b a]|] eqn:S.
    - pose proof (split_after_shorter btok etok Hb He _ _ _ _ S) as Sh.
      apply split_tok_some_inv in S. destruct S as [E N]. subst s.
      apply P_tag; auto. apply IH. lia.
    - apply P_end. apply split_tok_none_inv. exact S.
  Qed.

  Theorem split_ref_parses m s : parses m s (split_ref m s).
  Proof. apply (split_ref_parses_fuel (S (length s))). lia. Qed.
End Capture.

(* ---------------------------------------------------- tr = identity *)
Section Plain.
  Variables btok etok : bytes.
  Hypothesis Hb : btok <> [].
  Hypothesis He : etok <> [].
  Variable capmax : Z.
  Definition idtr (d : bytes) : bytes := d.

  Notation run_d := (run_d btok etok capmax idtr).
  Notation ref_obs := (ref_obs btok etok).

  Lemma map_idtr (l : list bytes) : map idtr l = l.
  Proof. induction l; simpl; auto. rewrite IHl. reflexivity. Qed.

  (* c08_bound + c08_one_event_per_section: the events of a complete run are,
     one for one, the closed sections of the reference division, each carrying
     the enclosed bytes, or a trailing part of them within capture_maxbytes *)
  Theorem events_match_sections : (0 < capmax)%Z -> forall frags s out,
    run_d frags = Ok s out ->
    Forall2 (event_ok capmax) (o_closed (ref_obs (concat frags))) (eff_comms out).
  Proof.
    intros Hc frags s out R.
    assert (Hcap : capmax <> 0%Z) by lia.
    destruct (run_observes btok etok Hb He capmax idtr Hcap frags) as (s' & out' & R' & O).
    rewrite R in R'. inversion R'; subst s' out'. rewrite <- O.
    pose proof (run_J btok etok capmax idtr frags s out R) as (_ & _ & J3).
    pose proof (linked_interp out obs0 cobs0 (conj eq_refl eq_refl)) as [L1 _].
    pose proof (comms_cinterp out cobs0) as C. simpl in C.
    unfold observe. rewrite L1, <- C.
    revert J3. generalize (c_done (cinterp cobs0 out)) as l.
    induction l as [|p l IH]; intros J3; simpl; [constructor|].
    inversion J3; subst. constructor; [|apply IH; assumption].
    match goal with E : snd p = _ |- _ => rewrite E end.
    rewrite map_idtr. apply capfold_event_ok. lia.
  Qed.

  (* c08_excluded_from_log *)
  Theorem logfile_is_ref_log : capmax <> 0%Z -> forall frags s out,
    run_d frags = Ok s out -> eff_logfile idtr out = o_log (ref_obs (concat frags)).
  Proof.
    intros Hcap frags s out R.
    destruct (run_observes btok etok Hb He capmax idtr Hcap frags) as (s' & out' & R' & O).
    rewrite R in R'. inversion R'; subst s' out'. rewrite <- O.
    unfold observe. rewrite olog_interp. reflexivity.
  Qed.
End Plain.

(* ---------------------------------------------------- capture_maxbytes = 0 *)
Section Zero.
  Variables btok etok : bytes.
  Variable tr : bytes -> bytes.
  Notation handle_read := (handle_read btok etok 0 tr).
  Notation feed_all := (feed_all btok etok 0 tr).

  Definition nonempty (l : list bytes) : list bytes :=
    filter (fun b => match b with [] => false | _ => true end) l.

  Lemma handle_read_zero s c : buf s = [] -> capmode s = false ->
    exists s', handle_read s c = Ok s' (match c with [] => [] | _ => [Log c] end) /\
               buf s' = [] /\ capmode s' = false.
  Proof.
    intros B M. unfold Stream.handle_read. rewrite B. simpl app.
    replace (length c + 2) with (S (length c + 1)) by lia.
    rewrite record_output_eq. simpl Z.eqb. cbv iota.
    unfold Stream.do_log. simpl buf. destruct c as [|x c].
    - eexists. split; [reflexivity|]. simpl. auto.
    - simpl capmode. rewrite M. eexists. split; [reflexivity|]. simpl. auto.
  Qed.

  (* with capture off every read is logged at once and completely, tags
     included, in as many _log calls as there are non-empty reads; there are no
     PROCESS_COMMUNICATION events and nothing is ever held back *)
  Theorem capmax_zero : forall frags s0, buf s0 = [] -> capmode s0 = false ->
    exists s, feed_all s0 frags = Ok s (map Log (nonempty frags)) /\ buf s = [] /\ capmode s = false.
  Proof.
    induction frags as [|c r IH]; intros s0 B M; simpl.
    - exists s0. auto.
    - destruct (handle_read_zero s0 c B M) as (s1 & H1 & B1 & M1). rewrite H1.
      destruct (IH s1 B1 M1) as (s2 & H2 & B2 & M2). rewrite H2.
      exists s2. split; auto. destruct c; reflexivity.
  Qed.

  Lemma logfile_map_log l : eff_logfile tr (map Log l) = concat (map tr l).
  Proof. induction l; simpl; auto. rewrite IHl. reflexivity. Qed.
  Lemma comms_map_log l : eff_comms (map Log l) = [].
  Proof. induction l; simpl; auto. Qed.
End Zero.
