(* C19: how each file-system operation of the model changes the directory,
   stated pointwise (for every name). *)
From Coq Require Import ZArith List Bool Lia.
Import ListNotations.
Require Import SV.C19.Rotate.
Open Scope Z_scope.

Lemma get_set {A} (m : list (Z * A)) k v j :
  get (set m k v) j = if j =? k then Some v else get m j.
Proof. reflexivity. Qed.

Lemma get_del {A} (m : list (Z * A)) k j :
  get (del m k) j = if j =? k then None else get m j.
Proof.
  induction m as [|[k' v] m IH]; simpl.
  - destruct (j =? k); reflexivity.
  - destruct (k =? k') eqn:E.
    + rewrite IH. apply Z.eqb_eq in E. subst k'. destruct (j =? k); reflexivity.
    + simpl. rewrite IH. destruct (j =? k) eqn:E2; [|reflexivity].
      apply Z.eqb_eq in E2. subst j. rewrite E. reflexivity.
Qed.

(* ---- unlink *)
Lemma unlink_names f n j : get (names (unlink f n)) j = if j =? n then None else get (names f) j.
Proof. unfold unlink. simpl. apply get_del. Qed.
Lemma unlink_inodes f n : inodes (unlink f n) = inodes f. Proof. reflexivity. Qed.
Lemma unlink_next f n : next (unlink f n) = next f. Proof. reflexivity. Qed.

(* ---- removeAndRename(src, dst), src <> dst *)
Lemma rar_names f s d j :
  s <> d ->
  get (names (remove_and_rename f s d)) j =
  match get (names f) s with
  | Some ino => if j =? d then Some ino else if j =? s then None else get (names f) j
  | None => if j =? d then None else get (names f) j
  end.
Proof.
  intro Hsd. unfold remove_and_rename, rename, exists_.
  destruct (get (names f) d) as [x|] eqn:Ed.
  - rewrite unlink_names. assert (Hs : (s =? d) = false) by lia. rewrite Hs.
    destruct (get (names f) s) as [ino|] eqn:Es; cbn [names unlink].
    + rewrite get_set. destruct (j =? d) eqn:E1; [reflexivity|].
      rewrite !get_del, E1. destruct (j =? s); reflexivity.
    + rewrite get_del. reflexivity.
  - destruct (get (names f) s) as [ino|] eqn:Es; cbn [names].
    + rewrite get_set. destruct (j =? d) eqn:E1; [reflexivity|].
      rewrite !get_del, E1. destruct (j =? s); reflexivity.
    + destruct (j =? d) eqn:E1; [|reflexivity]. apply Z.eqb_eq in E1. subst j. exact Ed.
Qed.

Lemma rar_inodes f s d : inodes (remove_and_rename f s d) = inodes f.
Proof.
  unfold remove_and_rename, rename. destruct (exists_ f d); simpl;
    destruct (get _ s); reflexivity.
Qed.

Lemma rar_next f s d : next (remove_and_rename f s d) = next f.
Proof.
  unfold remove_and_rename, rename. destruct (exists_ f d); simpl;
    destruct (get _ s); reflexivity.
Qed.

(* ---- the loop of doRollover: for i = n down to 1, .i -> .(i+1) when .i exists *)
Lemma shift_inodes : forall n f, inodes (shift_backups f n) = inodes f.
Proof.
  induction n as [|n IH]; intro f; [reflexivity|].
  cbn [shift_backups]. rewrite IH. destruct (exists_ f (Z.of_nat (S n))); [apply rar_inodes | reflexivity].
Qed.

Lemma shift_next : forall n f, next (shift_backups f n) = next f.
Proof.
  induction n as [|n IH]; intro f; [reflexivity|].
  cbn [shift_backups]. rewrite IH. destruct (exists_ f (Z.of_nat (S n))); [apply rar_next | reflexivity].
Qed.

Definition one_shift (f : fs) (i : Z) : fs :=
  if exists_ f i then remove_and_rename f i (i + 1) else f.

Lemma one_shift_names f i j :
  get (names (one_shift f i)) j =
  if j =? i then None
  else if j =? i + 1 then match get (names f) i with Some x => Some x | None => get (names f) (i + 1) end
       else get (names f) j.
Proof.
  unfold one_shift, exists_. destruct (get (names f) i) as [x|] eqn:Ei.
  - rewrite rar_names by lia. rewrite Ei.
    destruct (j =? i + 1) eqn:E1.
    + assert (E2 : (j =? i) = false) by lia. rewrite E2. reflexivity.
    + destruct (j =? i); reflexivity.
  - destruct (j =? i) eqn:E0.
    + apply Z.eqb_eq in E0. subst j. exact Ei.
    + destruct (j =? i + 1) eqn:E1; [|reflexivity]. apply Z.eqb_eq in E1. subst j. reflexivity.
Qed.

Definition shifted (g : Z -> option Z) (n j : Z) : option Z :=
  if n <=? 0 then g j
  else if j =? 1 then None
  else if (2 <=? j) && (j <=? n) then g (j - 1)
  else if j =? n + 1 then match g n with Some x => Some x | None => g (n + 1) end
  else g j.

Lemma shift_names : forall n f j,
  get (names (shift_backups f n)) j = shifted (get (names f)) (Z.of_nat n) j.
Proof.
  induction n as [|n IH]; intros f j.
  - reflexivity.
  - cbn [shift_backups]. fold (one_shift f (Z.of_nat (S n))). rewrite IH.
    unfold shifted. set (i := Z.of_nat (S n)). assert (Hi : i = Z.of_nat n + 1) by lia.
    assert (Hi1 : (i <=? 0) = false) by lia. rewrite Hi1.
    destruct (Z.of_nat n <=? 0) eqn:En.
    + (* n = 0, i = 1 *)
      assert (i = 1) by lia. rewrite one_shift_names.
      destruct (j =? 1) eqn:E1.
      * replace (j =? i) with true by lia. reflexivity.
      * replace (j =? i) with false by lia.
        replace ((2 <=? j) && (j <=? i)) with false by lia.
        destruct (j =? i + 1); reflexivity.
    + destruct (j =? 1) eqn:E1; [reflexivity|].
      destruct ((2 <=? j) && (j <=? Z.of_nat n)) eqn:E2.
      * replace ((2 <=? j) && (j <=? i)) with true by lia.
        rewrite one_shift_names.
        replace (j - 1 =? i) with false by lia. replace (j - 1 =? i + 1) with false by lia. reflexivity.
      * destruct (j =? Z.of_nat n + 1) eqn:E3.
        -- replace ((2 <=? j) && (j <=? i)) with true by lia.
           rewrite !one_shift_names.
           replace (Z.of_nat n =? i) with false by lia. replace (Z.of_nat n =? i + 1) with false by lia.
           replace (Z.of_nat n + 1 =? i) with true by lia.
           replace (j - 1) with (Z.of_nat n) by lia.
           destruct (get (names f) (Z.of_nat n)); reflexivity.
        -- replace ((2 <=? j) && (j <=? i)) with false by lia.
           rewrite one_shift_names. replace (j =? i) with false by lia.
           destruct (j =? i + 1) eqn:E4; reflexivity.
Qed.
