(* C19: entry points of the correspondence check.  The harness runs the real
   handlers on real files and records, after every operation, the directory
   listing with every file's content; Coq re-runs the model and compares. *)
From Coq Require Import ZArith List Bool Lia.
Import ListNotations.
Require Import SV.Common SV.C19.Rotate.
Open Scope Z_scope.

(* a directory snapshot: (name index, content), or the harness saw an
   exception come out of the operation *)
Inductive snap := Files (l : list (Z * bytes)) | Raised.

Definition same_dir (f : fs) (l : list (Z * bytes)) : bool :=
  (Z.of_nat (length (names f)) =? Z.of_nat (length l)) &&
  forallb (fun nc => match file f (fst nc) with
                     | Some c => zlist_eqb c (snd nc)
                     | None => false
                     end) l.

Definition snap_ok (st : outcome) (s : snap) : bool :=
  match st, s with
  | Ok f _, Files l => same_dir f l
  | Crash, Raised => true
  | _, _ => false
  end.

(* flat history: configuration, operations, snapshot after each *)
Fixpoint follow (st : outcome) (l : list (op * snap)) : bool :=
  match l with
  | [] => true
  | (o, s) :: r => let st' := step st o in snap_ok st' s && follow st' r
  end.

Definition check_history (cs : Z * Z * snap * list (op * snap)) : bool :=
  let '(mb, bk, s0, l) := cs in
  snap_ok (start mb bk) s0 && follow (start mb bk) l.

(* the same when the files are observed only after some of the operations *)
Fixpoint follow_opt (st : outcome) (l : list (op * option snap)) : bool :=
  match l with
  | [] => true
  | (o, s) :: r =>
    let st' := step st o in
    (match s with Some s => snap_ok st' s | None => true end) && follow_opt st' r
  end.

Definition check_history_opt (cs : Z * Z * list (op * option snap)) : bool :=
  let '(mb, bk, l) := cs in follow_opt (start mb bk) l.

(* all histories over an alphabet up to a depth, as a tree sharing prefixes *)
Inductive tree := Node (s : snap) (kids : list (op * tree)).

Fixpoint walk (fuel : nat) (st : outcome) (t : tree) : bool :=
  match fuel with
  | O => false
  | S fuel' =>
    match t with
    | Node s kids =>
      snap_ok st s && forallb (fun k => walk fuel' (step st (fst k)) (snd k)) kids
    end
  end.

(* the subtree below the history that writes `pre` *)
Definition check_tree (cs : Z * Z * list bytes * tree) : bool :=
  let '(mb, bk, pre, t) := cs in
  walk 64 (fold_left step (map Write pre) (start mb bk)) t.

(* several handlers on one path *)
Definition msnap_ok (st : moutcome) (s : snap) : bool :=
  match st, s with
  | MOk f _, Files l => same_dir f l
  | MCrash, Raised => true
  | _, _ => false
  end.

Fixpoint mfollow (st : moutcome) (l : list (mop * snap)) : bool :=
  match l with
  | [] => true
  | (o, s) :: r => let st' := mstep st o in msnap_ok st' s && mfollow st' r
  end.

Definition check_mhistory (cs : nat * Z * Z * list (mop * snap)) : bool :=
  let '(n, mb, bk, l) := cs in
  let '(f, hs) := mstart_from empty_fs n mb bk in
  mfollow (MOk f hs) l.

(* the same when some intermediate states cannot be observed *)
Fixpoint mfollow_opt (st : moutcome) (l : list (mop * option snap)) : bool :=
  match l with
  | [] => true
  | (o, s) :: r =>
    let st' := mstep st o in
    (match s with Some s => msnap_ok st' s | None => true end) && mfollow_opt st' r
  end.

Definition check_mhistory_opt (cs : nat * Z * Z * list (mop * option snap)) : bool :=
  let '(n, mb, bk, l) := cs in
  let '(f, hs) := mstart_from empty_fs n mb bk in
  mfollow_opt (MOk f hs) l.

(* configuration -> handler parameters: defaults, configured values (None: not
   configured), observed handler (rotating?, maxBytes, backupCount) *)
Definition check_config (cs : Z * option Z * Z * option Z * bool * Z * Z) : bool :=
  let '(dmb, cmb, dbk, cbk, rot, omb, obk) := cs in
  let mb := effective dmb cmb in
  let bk := effective dbk cbk in
  let h := snd (handle_file empty_fs mb bk) in
  Bool.eqb (h_rotating h) rot &&
  (if rot then (h_maxbytes h =? omb) && (h_backups h =? obk) else true).

(* compact notation for the case files *)
Definition W := Write.
Definition C := Clear.
Definition R := Reopen.
Definition D := ExtDelete.
Definition X := ExtReplace.
Definition RF := ReopenFails.
Definition CF := ClearFails.
Definition WB := WriteBlocked.
Definition F := Files.
Definition N := Node.
