(* C19: the property theorems about the model. *)
From Coq Require Import ZArith List Bool Lia ZifyBool.
Import ListNotations.
Require Import SV.C19.Rotate SV.C19.RotateLemmas SV.C19.RotateSpec SV.C19.RotateInv.
Open Scope Z_scope.

(* ---- the concatenation of the files, from the invariant's inode list *)
Lemma names_desc_range n j : In j (names_desc n) -> 0 <= j <= Z.of_nat n.
Proof.
  induction n as [|n IH]; simpl.
  - intros [H|H]; [lia | contradiction].
  - intros [H|H]; [lia|]. apply IH in H. lia.
Qed.

Definition fe (c : Z -> bytes) (inos : list Z) (j : Z) : bytes :=
  match dir_of inos j with Some i => c i | None => [] end.

Lemma cf_aux (c : Z -> bytes) : forall n inos,
  (length inos <= S n)%nat ->
  concat (map (fe c inos) (names_desc n)) = concat (map c (rev inos)).
Proof.
  induction n as [|n IH]; intros inos Hlen.
  - destruct inos as [|i [|i' r]]; simpl in *; try lia; reflexivity.
  - cbn [names_desc map concat].
    destruct (Nat.eq_dec (length inos) (S (S n))) as [Heq|Hne].
    + assert (Hnn : inos <> []) by (intro; subst; discriminate).
      destruct (exists_last Hnn) as (inos0 & x & Hx). subst inos.
      rewrite app_length in Heq. simpl in Heq.
      assert (Hl0 : length inos0 = S n) by lia.
      assert (F1 : fe c (inos0 ++ [x]) (Z.of_nat (S n)) = c x).
      { unfold fe, dir_of. rewrite app_length. simpl length.
        replace ((0 <=? Z.of_nat (S n)) && (Z.of_nat (S n) <? Z.of_nat (length inos0 + 1))) with true by lia.
        rewrite Nat2Z.id. rewrite nth_error_app2 by lia. rewrite Hl0, Nat.sub_diag. reflexivity. }
      rewrite F1. rewrite rev_app_distr. cbn [rev app map concat]. f_equal.
      rewrite <- (IH inos0) by lia. f_equal. apply map_ext_in. intros j Hj.
      apply names_desc_range in Hj. unfold fe, dir_of. rewrite app_length. simpl length.
      replace ((0 <=? j) && (j <? Z.of_nat (length inos0 + 1))) with true by lia.
      replace ((0 <=? j) && (j <? Z.of_nat (length inos0))) with true by lia.
      rewrite nth_error_app1 by lia. reflexivity.
    + assert (F1 : fe c inos (Z.of_nat (S n)) = []).
      { unfold fe. rewrite dir_none; [reflexivity|]. lia. }
      rewrite F1. cbn [app]. apply IH. lia.
Qed.

Lemma concat_files_inv f inos n :
  (forall j, get (names f) j = dir_of inos j) -> (length inos <= S n)%nat ->
  concat_files f n = concat (map (content f) (rev inos)).
Proof.
  intros Hn Hl. unfold concat_files. rewrite <- (cf_aux (content f) n inos Hl).
  f_equal. apply map_ext. intro j. unfold file_or_empty, file, fe. rewrite Hn. destruct (dir_of inos j); reflexivity.
Qed.

Section Positive.
  Variables mb bk : Z.
  Hypothesis mb_pos : mb > 0.

  (* c19_files: only the live log and .1 ... .N exist *)
  Theorem files_thm : forall ops f h,
    forallb internal ops = true -> run mb bk ops = Ok f h ->
    forall j c, file f j = Some c -> 0 <= j <= Nb bk.
  Proof.
    intros ops f h Hint Hrun j c Hf.
    destruct (inv_run mb bk mb_pos ops Hint) as (f' & h' & inos & D & Hr & I & _).
    rewrite <- run_eff_fst, Hr in Hrun. cbn [fst] in Hrun. inversion Hrun; subst f' h'.
    unfold file in Hf. rewrite (inv_names _ _ _ _ _ _ _ I) in Hf.
    destruct (dir_of inos j) as [i|] eqn:Ed; [|discriminate].
    apply dir_of_range in Ed. pose proof (inv_len _ _ _ _ _ _ _ I). lia.
  Qed.

  (* c19_suffix: .N ++ ... ++ .1 ++ live log is a suffix of the effective history *)
  Theorem suffix_thm : forall ops f h E,
    forallb internal ops = true -> run_eff mb bk ops = (Ok f h, E) ->
    exists D, E = D ++ concat_files f (Z.to_nat (Nb bk)).
  Proof.
    intros ops f h E Hint Hrun.
    destruct (inv_run mb bk mb_pos ops Hint) as (f' & h' & inos & D & Hr & I & _).
    rewrite Hr in Hrun. inversion Hrun; subst. exists D. f_equal. symmetry.
    apply concat_files_inv; [apply (inv_names _ _ _ _ _ _ _ I)|].
    pose proof (inv_len _ _ _ _ _ _ _ I). unfold Nb in *. lia.
  Qed.

  (* c19_sizes *)
  Theorem backup_size_thm : forall ops f h,
    forallb internal ops = true -> run mb bk ops = Ok f h ->
    forall j c, j >= 1 -> file f j = Some c -> zlen c >= mb.
  Proof.
    intros ops f h Hint Hrun j c Hj Hf.
    destruct (inv_run mb bk mb_pos ops Hint) as (f' & h' & inos & D & Hr & I & _).
    rewrite <- run_eff_fst, Hr in Hrun. cbn [fst] in Hrun. inversion Hrun; subst f' h'.
    unfold file in Hf. rewrite (inv_names _ _ _ _ _ _ _ I) in Hf.
    destruct inos as [|ino rest]; [destruct (inv_ne _ _ _ _ _ _ _ I); reflexivity|].
    rewrite dir_of_cons in Hf. replace (j =? 0) with false in Hf by lia. replace (j <? 0) with false in Hf by lia.
    destruct (dir_of rest (j - 1)) as [i|] eqn:Ed; [|discriminate]. inversion Hf; subst c.
    apply (inv_big _ _ _ _ _ _ _ I). cbn [tl]. eapply dir_of_in. exact Ed.
  Qed.

  Theorem live_size_thm : forall ops msg f h,
    forallb internal ops = true -> run mb bk (ops ++ [Write msg]) = Ok f h ->
    exists c, file f 0 = Some c /\ zlen c < mb.
  Proof.
    intros ops msg f h Hint Hrun.
    assert (Hint' : forallb internal (ops ++ [Write msg]) = true).
    { rewrite forallb_app, Hint. reflexivity. }
    destruct (inv_run mb bk mb_pos _ Hint') as (f' & h' & inos & D & Hr & I & Hlast).
    rewrite <- run_eff_fst, Hr in Hrun. cbn [fst] in Hrun. inversion Hrun; subst f' h'.
    rewrite rev_app_distr in Hlast. cbn [rev app] in Hlast.
    destruct inos as [|ino rest]; [destruct (inv_ne _ _ _ _ _ _ _ I); reflexivity|].
    exists (content f ino). split; [|exact Hlast].
    unfold file. rewrite (inv_names _ _ _ _ _ _ _ I), dir_of_cons. reflexivity.
  Qed.

  (* c19_clear_reopen, part 1: after every history the handler's open stream is
     the file that is at the configured path (so later writes land there) *)
  Theorem stream_at_path_thm : forall ops f h,
    forallb internal ops = true -> run mb bk ops = Ok f h ->
    exists ino, h_stream h = Some ino /\ get (names f) 0 = Some ino.
  Proof.
    intros ops f h Hint Hrun.
    destruct (inv_run mb bk mb_pos ops Hint) as (f' & h' & inos & D & Hr & I & _).
    rewrite <- run_eff_fst, Hr in Hrun. cbn [fst] in Hrun. inversion Hrun; subst f' h'.
    destruct inos as [|ino rest]; [destruct (inv_ne _ _ _ _ _ _ _ I); reflexivity|].
    exists ino. split; [apply (inv_stream _ _ _ _ _ _ _ I)|].
    rewrite (inv_names _ _ _ _ _ _ _ I), dir_of_cons. reflexivity.
  Qed.

  (* c19_backups_zero: with no backups the live log is emptied when it reaches maxbytes *)
  Theorem backups_zero_thm : forall ops msg f h,
    bk <= 0 -> forallb internal ops = true -> run mb bk ops = Ok f h ->
    exists f' h',
      step (Ok f h) (Write msg) = Ok f' h' /\
      let c := file_or_empty f 0 ++ msg in
      file f' 0 = Some (if zlen c >=? mb then [] else c) /\
      forall j, j <> 0 -> file f' j = None.
  Proof.
    intros ops msg f h Hbk Hint Hrun.
    destruct (inv_run mb bk mb_pos ops Hint) as (f0 & h0 & inos & D & Hr & I & _).
    rewrite <- run_eff_fst, Hr in Hrun. cbn [fst] in Hrun. inversion Hrun; subst f0 h0.
    pose proof (inv_len _ _ _ _ _ _ _ I) as HL. unfold Nb in HL. rewrite Z.max_l in HL by lia.
    destruct inos as [|ino rest]; [destruct (inv_ne _ _ _ _ _ _ _ I); reflexivity|].
    destruct rest as [|r rest]; [|cbn [length] in HL; lia].
    assert (Hfe : file_or_empty f 0 = content f ino).
    { unfold file_or_empty, file. rewrite (inv_names _ _ _ _ _ _ _ I), dir_of_cons. reflexivity. }
    destruct (inv_write mb bk f h _ [ino] D msg I) as (f1 & h1 & Hw & I1 & Hc). cbn [hd] in Hc.
    cbn [step]. unfold emit. rewrite Hw, (inv_rot _ _ _ _ _ _ _ I1).
    assert (G0 : get (names f1) 0 = Some ino).
    { rewrite (inv_names _ _ _ _ _ _ _ I1), dir_of_cons. reflexivity. }
    assert (Gj : forall j, j <> 0 -> get (names f1) j = None).
    { intros j Hj. rewrite (inv_names _ _ _ _ _ _ _ I1), dir_of_cons.
      replace (j =? 0) with false by lia. destruct (j <? 0); [reflexivity|]. apply dir_none. simpl. lia. }
    unfold do_rollover. rewrite (inv_mb _ _ _ _ _ _ _ I1), (inv_stream _ _ _ _ _ _ _ I1), (inv_bk _ _ _ _ _ _ _ I1).
    replace (mb <=? 0) with false by lia. rewrite (inv_pos _ _ _ _ _ _ _ I1). cbn [hd]. rewrite Hc, Hfe.
    cbv zeta. destruct (zlen (content f ino ++ msg) >=? mb) eqn:Ege; cbn [negb].
    - replace (bk >? 0) with false by lia. unfold open_trunc. rewrite G0.
      eexists. eexists. split; [reflexivity|]. split.
      + unfold file. cbn [names]. rewrite G0. rewrite content_set, Z.eqb_refl. reflexivity.
      + intros j Hj. unfold file. cbn [names]. rewrite Gj by exact Hj. reflexivity.
    - exists f1, h1. split; [reflexivity|]. split.
      + unfold file. rewrite G0, Hc. reflexivity.
      + intros j Hj. unfold file. rewrite Gj by exact Hj. reflexivity.
  Qed.
End Positive.
