(* C19: the invariant of one rotating handler on its own path (no external
   operations), and its preservation by write, rollover, clear and reopen. *)
From Coq Require Import ZArith List Bool Lia ZifyBool.
Import ListNotations.
Require Import SV.C19.Rotate SV.C19.RotateLemmas SV.C19.RotateSpec.
Open Scope Z_scope.

Definition Nb (bk : Z) : Z := Z.max 0 bk.

(* the directory that holds exactly inos[0] as the live log, inos[i] as .i *)
Definition dir_of (inos : list Z) (j : Z) : option Z :=
  if (0 <=? j) && (j <? Z.of_nat (length inos)) then nth_error inos (Z.to_nat j) else None.

Lemma dir_of_cons x l j :
  dir_of (x :: l) j = if j =? 0 then Some x else if j <? 0 then None else dir_of l (j - 1).
Proof.
  unfold dir_of. cbn [length]. rewrite Nat2Z.inj_succ.
  destruct (j =? 0) eqn:E0.
  - apply Z.eqb_eq in E0. subst j.
    assert (H : (0 <? Z.succ (Z.of_nat (length l))) = true) by (apply Z.ltb_lt; lia).
    rewrite H. reflexivity.
  - destruct (j <? 0) eqn:E1.
    + replace (0 <=? j) with false by lia. reflexivity.
    + replace (0 <=? j) with true by lia. replace (0 <=? j - 1) with true by lia.
      replace (j <? Z.succ (Z.of_nat (length l))) with (j - 1 <? Z.of_nat (length l)) by lia.
      destruct (j - 1 <? Z.of_nat (length l)); [|reflexivity]. simpl.
      replace (Z.to_nat j) with (S (Z.to_nat (j - 1))) by lia. reflexivity.
Qed.

Lemma dir_of_in inos j x : dir_of inos j = Some x -> In x inos.
Proof.
  unfold dir_of. destruct ((0 <=? j) && (j <? Z.of_nat (length inos))); [|discriminate].
  apply nth_error_In.
Qed.

Lemma dir_of_range inos j x : dir_of inos j = Some x -> 0 <= j < Z.of_nat (length inos).
Proof.
  unfold dir_of. destruct ((0 <=? j) && (j <? Z.of_nat (length inos))) eqn:E; [|discriminate]. lia.
Qed.

Lemma dir_of_some inos j : 0 <= j < Z.of_nat (length inos) -> exists x, dir_of inos j = Some x.
Proof.
  intro H. unfold dir_of. replace ((0 <=? j) && (j <? Z.of_nat (length inos))) with true by lia.
  destruct (nth_error inos (Z.to_nat j)) eqn:E; [eauto|].
  apply nth_error_None in E. lia.
Qed.

Lemma nth_error_firstn_lt {A} (l : list A) k i :
  (i < k)%nat -> nth_error (firstn k l) i = nth_error l i.
Proof.
  revert l i; induction k as [|k IH]; intros l i H; [lia|].
  destruct l as [|x l]; simpl; [destruct i; reflexivity|].
  destruct i as [|i]; simpl; [reflexivity | apply IH; lia].
Qed.

Lemma dir_of_firstn n inos j :
  dir_of (firstn n inos) j = if j <? Z.of_nat n then dir_of inos j else None.
Proof.
  unfold dir_of. rewrite firstn_length.
  destruct (j <? Z.of_nat n) eqn:E.
  - destruct ((0 <=? j) && (j <? Z.of_nat (length inos))) eqn:E2.
    + replace ((0 <=? j) && (j <? Z.of_nat (Nat.min n (length inos)))) with true by lia.
      apply nth_error_firstn_lt. lia.
    + replace ((0 <=? j) && (j <? Z.of_nat (Nat.min n (length inos)))) with false by lia. reflexivity.
  - replace ((0 <=? j) && (j <? Z.of_nat (Nat.min n (length inos)))) with false by lia. reflexivity.
Qed.

(* ---- contents *)
Lemma content_set f ino c i :
  content {| names := names f; inodes := set (inodes f) ino c; next := next f |} i =
  if i =? ino then c else content f i.
Proof. unfold content. cbn [inodes]. rewrite get_set. destruct (i =? ino); reflexivity. Qed.

Lemma map_content_other (c1 c2 : Z -> bytes) (l : list Z) :
  (forall i, In i l -> c1 i = c2 i) -> map c1 l = map c2 l.
Proof. intro H. apply map_ext_in. exact H. Qed.

Lemma write_at_end c msg : write_at c (zlen c) msg = c ++ msg.
Proof.
  unfold write_at, zlen. rewrite Nat2Z.id. rewrite firstn_all, Nat.sub_diag. simpl.
  rewrite skipn_all2 by lia. rewrite app_nil_r. reflexivity.
Qed.

Lemma concat_rev_firstn (c : Z -> bytes) n l :
  exists X, concat (map c (rev l)) = X ++ concat (map c (rev (firstn n l))).
Proof.
  exists (concat (map c (rev (skipn n l)))).
  rewrite <- (firstn_skipn n l) at 1. rewrite rev_app_distr, map_app, concat_app. reflexivity.
Qed.

Lemma In_firstn {A} n (l : list A) x : In x (firstn n l) -> In x l.
Proof.
  revert l. induction n as [|n IH]; intros l H; [contradiction|].
  destruct l as [|y l]; [contradiction|]. simpl in H. destruct H; [left; assumption | right; apply IH; assumption].
Qed.

Lemma NoDup_firstn {A} n (l : list A) : NoDup l -> NoDup (firstn n l).
Proof.
  revert l. induction n as [|n IH]; intros l H; [constructor|].
  destruct l as [|x l]; [constructor|]. simpl. inversion H; subst. constructor.
  - intro Hin. apply H2. eapply In_firstn. exact Hin.
  - apply IH. assumption.
Qed.

(* the directory after the rename loop, for names other than the live log *)
Lemma shifted_dir (g : Z -> option Z) (L bk j : Z) :
  bk >= 1 -> 1 <= L <= bk + 1 ->
  (forall k, k < 0 \/ k >= L -> g k = None) ->
  (forall k, 0 <= k < L -> exists x, g k = Some x) ->
  j <> 0 ->
  (if j =? 1 then g 0 else shifted g (bk - 1) j) =
  (if j <? 0 then None else if j - 1 <? bk then g (j - 1) else None).
Proof.
  intros Hbk HL Hnone Hsome Hj. unfold shifted.
  destruct (j <? 0) eqn:E0.
  - replace (j =? 1) with false by lia.
    destruct (bk - 1 <=? 0); [apply Hnone; lia|].
    replace ((2 <=? j) && (j <=? bk - 1)) with false by lia.
    replace (j =? bk - 1 + 1) with false by lia. apply Hnone. lia.
  - destruct (j =? 1) eqn:E1.
    + replace (j - 1 <? bk) with true by lia. f_equal. lia.
    + destruct (bk - 1 <=? 0) eqn:Eb.
      * replace (j - 1 <? bk) with false by lia. apply Hnone. lia.
      * destruct ((2 <=? j) && (j <=? bk - 1)) eqn:E2.
        -- replace (j - 1 <? bk) with true by lia. reflexivity.
        -- destruct (j =? bk - 1 + 1) eqn:E3.
           ++ replace (j - 1 <? bk) with true by lia. replace (j - 1) with (bk - 1) by lia.
              destruct (g (bk - 1)) as [x|] eqn:Eg; [reflexivity|].
              apply Hnone. right.
              destruct (Z_lt_ge_dec (bk - 1) L) as [Hlt|Hge]; [|lia].
              destruct (Hsome (bk - 1)) as [x Hx]; [lia|]. congruence.
           ++ replace (j - 1 <? bk) with false by lia. apply Hnone. lia.
Qed.

Section OneHandler.
  Variables mb bk : Z.
  Hypothesis mb_pos : mb > 0.

  Record Inv (f : fs) (h : handler) (E : bytes) (inos : list Z) (D : bytes) : Prop := {
    inv_ne : inos <> [];
    inv_len : Z.of_nat (length inos) <= Nb bk + 1;
    inv_names : forall j, get (names f) j = dir_of inos j;
    inv_nodup : NoDup inos;
    inv_fresh : forall i, In i inos -> i < next f;
    inv_stream : h_stream h = Some (hd 0 inos);
    inv_pos : h_pos h = zlen (content f (hd 0 inos));
    inv_hist : E = D ++ concat (map (content f) (rev inos));
    inv_big : forall i, In i (tl inos) -> zlen (content f i) >= mb;
    inv_mb : h_maxbytes h = mb;
    inv_bk : h_backups h = bk;
    inv_rot : h_rotating h = true
  }.

  (* Handler.emit's write: the live log grows by msg, nothing else changes *)
  Lemma inv_write f h E inos D msg :
    Inv f h E inos D ->
    exists f' h', emit_write f h msg = (f', h') /\ Inv f' h' (E ++ msg) inos D /\
                  content f' (hd 0 inos) = content f (hd 0 inos) ++ msg.
  Proof.
    intros [I1 I2 I3 I4 I5 I6 I7 I8 I9 I10 I11 I12].
    destruct inos as [|ino rest]; [contradiction|].
    unfold emit_write. rewrite I6. cbn [hd] in *.
    destruct msg as [|b msg'].
    - exists f, h. rewrite !app_nil_r. split; [reflexivity|]. split; [|reflexivity].
      constructor; assumption.
    - set (msg := b :: msg').
      pose proof (proj1 (NoDup_cons_iff _ _) I4) as [Hnotin ND'].
      set (c' := content f ino ++ msg).
      set (f' := {| names := names f; inodes := set (inodes f) ino c'; next := next f |}).
      assert (Hoth : forall i, In i rest -> content f' i = content f i).
      { intros i Hi. unfold f'. rewrite content_set. destruct (i =? ino) eqn:Ei; [|reflexivity].
        apply Z.eqb_eq in Ei. subst i. contradiction. }
      assert (Hown : content f' ino = c').
      { unfold f'. rewrite content_set, Z.eqb_refl. reflexivity. }
      assert (Hhist : E ++ msg = D ++ concat (map (content f') (rev (ino :: rest)))).
      { rewrite I8. cbn [rev]. rewrite !map_app, !concat_app. cbn [map concat].
        rewrite Hown. rewrite (map_content_other (content f') (content f)).
        - unfold c'. rewrite !app_nil_r, <- !app_assoc. reflexivity.
        - intros i Hi. apply Hoth. apply in_rev. exact Hi. }
      assert (Hbig : forall i, In i rest -> zlen (content f' i) >= mb).
      { intros i Hi. rewrite Hoth by exact Hi. apply I9. exact Hi. }
      destruct (h_append h) eqn:Ea.
      + exists f', (with_stream h (Some ino) true (zlen c')).
        split; [reflexivity|]. split; [|exact Hown].
        constructor; cbn [hd tl with_stream h_stream h_pos h_maxbytes h_backups h_rotating names next f'];
          try assumption; try discriminate; try reflexivity.
        rewrite Hown. reflexivity.
      + rewrite I7. rewrite write_at_end. fold c'. fold f'.
        exists f', (with_stream h (Some ino) false (zlen (content f ino) + zlen msg)).
        split; [reflexivity|]. split; [|exact Hown].
        constructor; cbn [hd tl with_stream h_stream h_pos h_maxbytes h_backups h_rotating names next f'];
          try assumption; try discriminate; try reflexivity.
        rewrite Hown. unfold c', zlen. rewrite app_length. lia.
  Qed.

  Lemma dir_none inos k : k < 0 \/ k >= Z.of_nat (length inos) -> dir_of inos k = None.
  Proof. intro H. unfold dir_of. replace ((0 <=? k) && (k <? Z.of_nat (length inos))) with false by lia. reflexivity. Qed.

  (* doRollover when the size test fires *)
  Lemma inv_rollover f h E inos D :
    Inv f h E inos D -> h_pos h >= mb ->
    exists f' h' inos' D',
      do_rollover f h = Ok f' h' /\ Inv f' h' E inos' D' /\ content f' (hd 0 inos') = [].
  Proof.
    intros [I1 I2 I3 I4 I5 I6 I7 I8 I9 I10 I11 I12] Hpos.
    destruct inos as [|ino rest]; [contradiction|]. cbn [hd tl] in *.
    unfold do_rollover. rewrite I10, I6, I11.
    replace (mb <=? 0) with false by lia. replace (negb (h_pos h >=? mb)) with false by lia.
    assert (G0 : get (names f) 0 = Some ino).
    { rewrite I3. rewrite dir_of_cons. reflexivity. }
    destruct (bk >? 0) eqn:Ebk.
    - (* backups: shift, rename, fresh live log *)
      assert (Hbk : bk >= 1) by lia. unfold Nb in I2. rewrite Z.max_r in I2 by lia.
      set (f1 := shift_backups f (Z.to_nat (bk - 1))).
      set (f2 := remove_and_rename f1 0 1).
      assert (G1 : get (names f1) 0 = Some ino).
      { unfold f1. rewrite shift_names. unfold shifted. rewrite Z2Nat.id by lia.
        destruct (bk - 1 <=? 0); [exact G0|].
        replace (0 =? 1) with false by lia. replace ((2 <=? 0) && (0 <=? bk - 1)) with false by lia.
        replace (0 =? bk - 1 + 1) with false by lia. exact G0. }
      assert (G2 : forall j, get (names f2) j =
                             if j =? 1 then Some ino else if j =? 0 then None
                             else shifted (get (names f)) (bk - 1) j).
      { intro j. unfold f2. rewrite rar_names by lia. rewrite G1.
        destruct (j =? 1); [reflexivity|]. destruct (j =? 0); [reflexivity|].
        unfold f1. rewrite shift_names. rewrite Z2Nat.id by lia. reflexivity. }
      assert (N2 : next f2 = next f).
      { unfold f2. rewrite rar_next. unfold f1. apply shift_next. }
      assert (C2 : inodes f2 = inodes f).
      { unfold f2. rewrite rar_inodes. unfold f1. apply shift_inodes. }
      unfold open_trunc. fold f1. fold f2. rewrite (G2 0). cbn [Z.eqb].
      set (fresh := next f2).
      set (f' := {| names := set (names f2) 0 fresh; inodes := set (inodes f2) fresh []; next := fresh + 1 |}).
      set (inos' := fresh :: firstn (Z.to_nat bk) (ino :: rest)).
      destruct (concat_rev_firstn (content f) (Z.to_nat bk) (ino :: rest)) as [X HX].
      assert (Hfresh_notin : ~ In fresh (ino :: rest)).
      { intro Hin. apply I5 in Hin. unfold fresh in Hin. lia. }
      assert (Hc : forall i, In i (ino :: rest) -> content f' i = content f i).
      { intros i Hi. unfold f', content. cbn [inodes]. rewrite get_set, C2.
        destruct (i =? fresh) eqn:Ei; [|reflexivity]. apply Z.eqb_eq in Ei. subst i. contradiction. }
      assert (Hcf : content f' fresh = []).
      { unfold f', content. cbn [inodes]. rewrite get_set, Z.eqb_refl. reflexivity. }
      exists f', (with_stream h (Some fresh) false 0), inos', (D ++ X).
      split; [reflexivity|]. split; [|exact Hcf].
      constructor; cbn [hd tl with_stream h_stream h_pos h_maxbytes h_backups h_rotating]; try assumption.
      + discriminate.
      + unfold inos'. cbn [length]. rewrite firstn_length. unfold Nb. lia.
      + intro j. unfold f'. cbn [names]. rewrite get_set. unfold inos'. rewrite dir_of_cons.
        destruct (j =? 0) eqn:Ej0; [reflexivity|].
        rewrite G2, Ej0. rewrite dir_of_firstn. rewrite Z2Nat.id by lia.
        rewrite <- G0. rewrite <- I3.
        apply (shifted_dir (get (names f)) (Z.of_nat (length (ino :: rest))) bk j); try lia.
        * cbn [length] in *. lia.
        * intros k Hk. rewrite I3. apply dir_none. exact Hk.
        * intros k Hk. rewrite I3. apply dir_of_some. exact Hk.
      + unfold inos'. constructor.
        * intro Hin. apply In_firstn in Hin. contradiction.
        * apply NoDup_firstn. assumption.
      + intros i Hi. unfold f'. cbn [next]. unfold inos' in Hi. destruct Hi as [Hi|Hi]; [lia|].
        apply In_firstn in Hi. apply I5 in Hi. unfold fresh. lia.
      + reflexivity.
      + unfold inos'. cbn [hd]. rewrite Hcf. reflexivity.
      + rewrite I8, HX. unfold inos'. cbn [rev]. rewrite map_app, concat_app. cbn [map concat].
        rewrite Hcf, !app_nil_r. rewrite <- app_assoc. f_equal. f_equal. f_equal.
        apply map_content_other. intros i Hi. symmetry. apply Hc. apply in_rev in Hi. apply In_firstn in Hi. exact Hi.
      + intros i Hi. unfold inos' in Hi. cbn [tl] in Hi. pose proof (In_firstn _ _ _ Hi) as Hi'.
        rewrite Hc by exact Hi'. destruct Hi' as [Hi'|Hi'].
        * subst i. rewrite <- I7. lia.
        * apply I9. exact Hi'.
    - (* no backups: the live log is truncated in place *)
      unfold Nb in I2. rewrite Z.max_l in I2 by lia. cbn [length] in I2.
      destruct rest as [|r rest']; [|cbn [length] in I2; lia].
      unfold open_trunc. rewrite G0.
      set (f' := {| names := names f; inodes := set (inodes f) ino []; next := next f |}).
      assert (Hcf : content f' ino = []).
      { unfold f'. rewrite content_set, Z.eqb_refl. reflexivity. }
      exists f', (with_stream h (Some ino) false 0), [ino], (D ++ content f ino).
      split; [reflexivity|]. split; [|exact Hcf].
      constructor; cbn [hd tl with_stream h_stream h_pos h_maxbytes h_backups h_rotating names next f'];
        try assumption; try discriminate; try reflexivity.
      + unfold Nb. rewrite Z.max_l by lia. cbn [length]. lia.
      + rewrite Hcf. reflexivity.
      + rewrite I8. cbn [rev app map concat]. rewrite Hcf, !app_nil_r. reflexivity.
      + intros i Hi. contradiction.
  Qed.

  (* handler.emit: write, then the size test *)
  Lemma inv_emit f h E inos D msg :
    Inv f h E inos D ->
    exists f' h' inos' D',
      emit f h msg = Ok f' h' /\ Inv f' h' (E ++ msg) inos' D' /\ zlen (content f' (hd 0 inos')) < mb.
  Proof.
    intro I. destruct (inv_write f h E inos D msg I) as (f1 & h1 & Hw & I1 & Hc).
    unfold emit. rewrite Hw. rewrite (inv_rot _ _ _ _ _ I1).
    destruct (Z_lt_ge_dec (h_pos h1) mb) as [Hlt|Hge].
    - exists f1, h1, inos, D. split; [|split; [exact I1|]].
      + unfold do_rollover. rewrite (inv_mb _ _ _ _ _ I1), (inv_stream _ _ _ _ _ I1).
        replace (mb <=? 0) with false by lia. replace (negb (h_pos h1 >=? mb)) with true by lia. reflexivity.
      + rewrite <- (inv_pos _ _ _ _ _ I1). exact Hlt.
    - destruct (inv_rollover f1 h1 (E ++ msg) inos D I1 Hge) as (f' & h' & inos' & D' & Hr & I' & Hc').
      exists f', h', inos', D'. split; [exact Hr|]. split; [exact I'|]. rewrite Hc'. unfold zlen. simpl. lia.
  Qed.

  Lemma inv_reopen f h E inos D :
    Inv f h E inos D -> exists h', reopen f h = (f, h') /\ Inv f h' E inos D.
  Proof.
    intros [I1 I2 I3 I4 I5 I6 I7 I8 I9 I10 I11 I12].
    destruct inos as [|ino rest]; [contradiction|]. cbn [hd tl] in *.
    assert (G0 : get (names f) 0 = Some ino) by (rewrite I3, dir_of_cons; reflexivity).
    unfold reopen, open_append. rewrite G0.
    eexists. split; [reflexivity|].
    constructor; cbn [hd tl with_stream h_stream h_pos h_maxbytes h_backups h_rotating];
      try assumption; try discriminate; reflexivity.
  Qed.

  Lemma firstn_app_exact {A} (a b : list A) : firstn (length (a ++ b) - length b) (a ++ b) = a.
  Proof.
    rewrite app_length. replace (length a + length b - length b)%nat with (length a) by lia.
    rewrite firstn_app, Nat.sub_diag, firstn_all. simpl. apply app_nil_r.
  Qed.

  (* removelogs: remove() then reopen() *)
  Lemma inv_clear f h E inos D :
    Inv f h E inos D ->
    exists f' h' inos',
      clear f h = (f', h') /\
      Inv f' h' (firstn (length E - length (content f (hd 0 inos))) E) inos' D /\
      content f' (hd 0 inos') = [].
  Proof.
    intros [I1 I2 I3 I4 I5 I6 I7 I8 I9 I10 I11 I12].
    destruct inos as [|ino rest]; [contradiction|]. cbn [hd tl] in *.
    unfold clear, remove, reopen, open_append.
    rewrite unlink_names, Z.eqb_refl. cbn [next unlink names inodes].
    set (fresh := next f).
    set (f' := {| names := set (del (names f) 0) 0 fresh; inodes := set (inodes f) fresh []; next := fresh + 1 |}).
    pose proof (proj1 (NoDup_cons_iff _ _) I4) as [Hnotin ND'].
    assert (Hfresh_notin : ~ In fresh (ino :: rest)).
    { intro Hin. apply I5 in Hin. unfold fresh in Hin. lia. }
    assert (Hc : forall i, In i rest -> content f' i = content f i).
    { intros i Hi. unfold f', content. cbn [inodes]. rewrite get_set.
      destruct (i =? fresh) eqn:Ei; [|reflexivity]. apply Z.eqb_eq in Ei. subst i.
      exfalso. apply Hfresh_notin. right. exact Hi. }
    assert (Hcf : content f' fresh = []).
    { unfold f', content. cbn [inodes]. rewrite get_set, Z.eqb_refl. reflexivity. }
    exists f', (with_stream (with_stream h None (h_append h) (h_pos h)) (Some fresh) true (zlen (content f' fresh))),
           (fresh :: rest).
    split; [reflexivity|]. split; [|exact Hcf].
    constructor; cbn [hd tl with_stream h_stream h_pos h_maxbytes h_backups h_rotating]; try assumption.
    - discriminate.
    - intro j. unfold f'. cbn [names]. rewrite get_set, get_del, I3, !dir_of_cons.
      destruct (j =? 0); reflexivity.
    - constructor; [|exact ND']. intro Hin. apply Hfresh_notin. right. exact Hin.
    - intros i Hi. unfold f'. cbn [next]. destruct Hi as [Hi|Hi]; [lia|].
      assert (i < next f) by (apply I5; right; exact Hi). unfold fresh. lia.
    - reflexivity.
    - reflexivity.
    - rewrite I8. cbn [rev]. rewrite !map_app, !concat_app. cbn [map concat].
      rewrite Hcf, !app_nil_r. rewrite app_assoc. rewrite firstn_app_exact.
      f_equal. f_equal. apply map_content_other. intros i Hi. symmetry. apply Hc. apply in_rev in Hi. exact Hi.
    - intros i Hi. rewrite Hc by exact Hi. apply I9. exact Hi.
  Qed.

  Lemma inv_start : exists f h, start mb bk = Ok f h /\ Inv f h [] [1] [].
  Proof.
    unfold start, handle_file, open_append, empty_fs. cbn [get names next inodes].
    eexists. eexists. split; [reflexivity|].
    constructor; cbn [hd tl h_stream h_pos h_maxbytes h_backups h_rotating names next inodes length]; try reflexivity.
    - discriminate.
    - unfold Nb. lia.
    - intro j. rewrite get_set. rewrite dir_of_cons. destruct (j =? 0); [reflexivity|].
      destruct (j <? 0); [reflexivity|]. unfold dir_of. simpl. destruct ((0 <=? j - 1) && (j - 1 <? 0)) eqn:E; [lia|reflexivity].
    - constructor; [intro H; contradiction | constructor].
    - intros i [Hi|Hi]; [lia | contradiction].
    - intros i Hi. contradiction.
    - replace (mb =? 0) with false by lia. reflexivity.
  Qed.

  (* the invariant along every history of internal operations *)
  Theorem inv_run : forall ops,
    forallb internal ops = true ->
    exists f h inos D,
      run_eff mb bk ops = (Ok f h, D ++ concat (map (content f) (rev inos))) /\
      Inv f h (D ++ concat (map (content f) (rev inos))) inos D /\
      (match rev ops with Write _ :: _ => zlen (content f (hd 0 inos)) < mb | _ => True end).
  Proof.
    induction ops as [|o ops IH] using rev_ind; intro Hint.
    - destruct inv_start as (f & h & Hs & I). exists f, h, [1], [].
      unfold run_eff. cbn [fold_left]. rewrite Hs. rewrite <- (inv_hist _ _ _ _ _ I).
      split; [reflexivity|]. split; [exact I | exact Logic.I].
    - rewrite forallb_app in Hint. apply andb_true_iff in Hint. destruct Hint as [H1 H2].
      cbn [forallb] in H2. rewrite andb_true_r in H2.
      destruct (IH H1) as (f & h & inos & D & Hr & I & _).
      unfold run_eff in *. rewrite fold_left_app, Hr. cbn [fold_left]. rewrite rev_app_distr. cbn [rev app].
      set (E := D ++ concat (map (content f) (rev inos))) in *.
      destruct o as [msg| | |n|n c| | |msg2]; try discriminate; unfold eff_step; cbn [step].
      + destruct (inv_emit f h E inos D msg I) as (f' & h' & inos' & D' & He & I' & Hlt).
        rewrite He. exists f', h', inos', D'. rewrite <- (inv_hist _ _ _ _ _ I').
        split; [reflexivity|]. split; assumption.
      + destruct (inv_clear f h E inos D I) as (f' & h' & inos' & Hc & I' & _).
        rewrite Hc. exists f', h', inos', D.
        assert (Hfe : file_or_empty f 0 = content f (hd 0 inos)).
        { unfold file_or_empty, file. rewrite (inv_names _ _ _ _ _ I).
          destruct inos as [|ino rest]; [destruct (inv_ne _ _ _ _ _ I); reflexivity|].
          rewrite dir_of_cons. reflexivity. }
        rewrite Hfe. rewrite <- (inv_hist _ _ _ _ _ I'). split; [reflexivity|]. split; [exact I' | exact Logic.I].
      + destruct (inv_reopen f h E inos D I) as (h' & Hc & I').
        rewrite Hc. exists f, h', inos, D. split; [reflexivity|]. split; [exact I' | exact Logic.I].
  Qed.
End OneHandler.
