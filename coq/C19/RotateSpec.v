(* C19: the vocabulary of the property statements. *)
From Coq Require Import ZArith List Bool Lia.
Import ListNotations.
Require Import SV.C19.Rotate.
Open Scope Z_scope.

(* operations of the handler's owner only: no external interference *)
Definition internal (o : op) : bool :=
  match o with Write _ | Clear | Reopen => true | _ => false end.

Definition is_write (o : op) : bool := match o with Write _ => true | _ => false end.

(* names N, N-1, ..., 0 *)
Fixpoint names_desc (n : nat) : list Z :=
  match n with O => [0] | S n' => Z.of_nat n :: names_desc n' end.

Definition file_or_empty (f : fs) (j : Z) : bytes :=
  match file f j with Some c => c | None => [] end.

(* .N ++ ... ++ .1 ++ live log *)
Definition concat_files (f : fs) (n : nat) : bytes :=
  concat (map (file_or_empty f) (names_desc n)).

(* Everything written, minus what was in the live log when it was cleared
   (clearing is asked to discard exactly that).  Computed along the run. *)
Definition eff_step (acc : outcome * bytes) (o : op) : outcome * bytes :=
  let '(st, E) := acc in
  (step st o,
   match o with
   | Write msg => E ++ msg
   | Clear =>
     match st with
     | Ok f _ => firstn (length E - length (file_or_empty f 0)) E
     | Crash => E
     end
   | _ => E
   end).

Definition run_eff (mb bk : Z) (ops : list op) : outcome * bytes :=
  fold_left eff_step ops (start mb bk, []).

Lemma run_eff_fst mb bk ops : fst (run_eff mb bk ops) = run mb bk ops.
Proof.
  unfold run_eff, run. generalize (start mb bk) ([] : bytes).
  induction ops as [|o ops IH]; intros st E; [reflexivity|].
  cbn [fold_left]. unfold eff_step at 2. apply IH.
Qed.

(* without Clear, the effective history is simply everything written *)
Fixpoint written (ops : list op) : bytes :=
  match ops with
  | [] => []
  | Write msg :: r => msg ++ written r
  | _ :: r => written r
  end.

Definition no_clear (o : op) : bool := match o with Clear => false | _ => true end.

Lemma run_eff_no_clear mb bk ops :
  forallb no_clear ops = true -> snd (run_eff mb bk ops) = written ops.
Proof.
  unfold run_eff. intro H.
  assert (G : forall st E, snd (fold_left eff_step ops (st, E)) = E ++ written ops).
  { induction ops as [|o ops IH]; intros st E; [simpl; rewrite app_nil_r; reflexivity|].
    cbn [forallb] in H. apply andb_true_iff in H. destruct H as [H1 H2].
    cbn [fold_left]. unfold eff_step at 2. rewrite IH by exact H2.
    destruct o; cbn [written]; try reflexivity.
    - rewrite <- app_assoc. reflexivity.
    - discriminate. }
  rewrite G. reflexivity.
Qed.
