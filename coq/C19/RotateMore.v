(* C19: maxbytes = 0 (plain FileHandler), tolerance of external interference,
   the refutation for several handlers on one path, examples. *)
From Coq Require Import ZArith List Bool Lia ZifyBool.
Import ListNotations.
Require Import SV.C19.Rotate SV.C19.RotateLemmas SV.C19.RotateSpec SV.C19.RotateInv.
Open Scope Z_scope.

(* ------------------------------------------------------------ maxbytes = 0 *)
Section Plain.
  Variable bk : Z.

  Record Inv0 (f : fs) (h : handler) (E : bytes) (ino : Z) : Prop := {
    p_names : forall j, get (names f) j = if j =? 0 then Some ino else None;
    p_stream : h_stream h = Some ino;
    p_append : h_append h = true;
    p_plain : h_rotating h = false;
    p_content : content f ino = E;
    p_fresh : ino < next f
  }.

  Theorem plain_run : forall ops,
    forallb internal ops = true ->
    exists f h E ino, run_eff 0 bk ops = (Ok f h, E) /\ Inv0 f h E ino.
  Proof.
    induction ops as [|o ops IH] using rev_ind; intro Hint.
    - unfold run_eff, start, handle_file, open_append, empty_fs. cbn [fold_left get names next inodes].
      do 4 eexists. split; [reflexivity|].
      constructor; cbn [names h_stream h_append h_rotating next]; try reflexivity; try lia.
    - rewrite forallb_app in Hint. apply andb_true_iff in Hint. destruct Hint as [H1 H2].
      cbn [forallb] in H2. rewrite andb_true_r in H2.
      destruct (IH H1) as (f & h & E & ino & Hr & [P1 P2 P3 P4 P5 P6]).
      unfold run_eff in *. rewrite fold_left_app, Hr. cbn [fold_left].
      assert (G0 : get (names f) 0 = Some ino) by (rewrite P1; reflexivity).
      destruct o as [msg| | |n|n c| | |msg2]; try discriminate; unfold eff_step; cbn [step].
      + unfold emit, emit_write. rewrite P2, P3.
        destruct msg as [|b msg'].
        * rewrite P4. exists f, h, (E ++ []), ino. split; [reflexivity|]. rewrite app_nil_r.
          constructor; assumption.
        * cbn [h_rotating with_stream]. rewrite P4.
          do 3 eexists. exists ino. split; [reflexivity|].
          constructor; cbn [names h_stream h_append h_rotating next with_stream]; try assumption; try reflexivity.
          rewrite content_set, Z.eqb_refl, P5. reflexivity.
      + assert (Hfe : file_or_empty f 0 = E).
        { unfold file_or_empty, file. rewrite G0. exact P5. }
        rewrite Hfe, Nat.sub_diag. cbn [firstn].
        unfold clear, remove, reopen, open_append. rewrite unlink_names, Z.eqb_refl.
        cbn [next unlink names inodes].
        do 3 eexists. exists (next f). split; [reflexivity|].
        constructor; cbn [names h_stream h_append h_rotating next with_stream]; try assumption; try reflexivity.
        * intro j. rewrite get_set, get_del, P1. destruct (j =? 0); reflexivity.
        * unfold content. cbn [inodes]. rewrite get_set, Z.eqb_refl. reflexivity.
        * lia.
      + unfold reopen, open_append. rewrite G0.
        do 3 eexists. exists ino. split; [reflexivity|].
        constructor; cbn [names h_stream h_append h_rotating next with_stream]; try assumption; reflexivity.
  Qed.

  (* c19_maxbytes_zero: one file, holding everything written (since the last clear) *)
  Theorem maxbytes_zero_thm : forall ops f h E,
    forallb internal ops = true -> run_eff 0 bk ops = (Ok f h, E) ->
    forall j, file f j = if j =? 0 then Some E else None.
  Proof.
    intros ops f h E Hint Hrun j.
    destruct (plain_run ops Hint) as (f' & h' & E' & ino & Hr & [P1 P2 P3 P4 P5 P6]).
    rewrite Hr in Hrun. injection Hrun as Ef Eh EE. subst f h E. unfold file. rewrite P1.
    destruct (j =? 0); [rewrite P5|]; reflexivity.
  Qed.
End Plain.

(* ------------------------------------------- external interference tolerated *)
Section External.
  Variables mb bk : Z.

  Definition in_range (f : fs) : Prop :=
    forall j, get (names f) j <> None -> 0 <= j <= Nb bk.

  Definition ext_ok (o : op) : Prop :=
    match o with ExtReplace n _ => 0 <= n <= Nb bk | ReopenFails | ClearFails | WriteBlocked _ => False | _ => True end.

  Record InvX (f : fs) (h : handler) : Prop := {
    x_range : in_range f;
    x_open : h_stream h <> None;
    x_mb : h_maxbytes h = mb;
    x_bk : h_backups h = bk
  }.

  Lemma shifted_range (g : Z -> option Z) n j :
    (forall k, g k <> None -> 0 <= k <= Nb bk) -> n = bk - 1 ->
    shifted g n j <> None -> 0 <= j <= Nb bk.
  Proof.
    intros Hg Hn. unfold shifted, Nb in *.
    destruct (n <=? 0) eqn:E0; [apply Hg|].
    destruct (j =? 1) eqn:E1; [congruence|].
    destruct ((2 <=? j) && (j <=? n)) eqn:E2; [intros _; lia|].
    destruct (j =? n + 1) eqn:E3; [intros _; lia|]. apply Hg.
  Qed.

  Lemma rollover_range f h :
    InvX f h -> exists f' h', do_rollover f h = Ok f' h' /\ InvX f' h'.
  Proof.
    intros [X1 X2 X3 X4]. unfold do_rollover. rewrite X3, X4.
    destruct (mb <=? 0); [exists f, h; split; [reflexivity | constructor; assumption]|].
    destruct (h_stream h) as [s|] eqn:Es; [|congruence].
    destruct (negb (h_pos h >=? mb)); [exists f, h; split; [reflexivity | constructor; try assumption; rewrite Es; discriminate]|].
    set (f2 := if bk >? 0 then remove_and_rename (shift_backups f (Z.to_nat (bk - 1))) 0 1 else f).
    assert (R2 : in_range f2).
    { unfold f2. destruct (bk >? 0) eqn:Eb; [|exact X1].
      intros j Hj. rewrite rar_names in Hj by lia.
      assert (Hs : forall k, get (names (shift_backups f (Z.to_nat (bk - 1)))) k <> None -> 0 <= k <= Nb bk).
      { intros k Hk. rewrite shift_names in Hk. rewrite Z2Nat.id in Hk by lia.
        eapply shifted_range; [exact X1 | reflexivity | exact Hk]. }
      destruct (get (names (shift_backups f (Z.to_nat (bk - 1)))) 0).
      - destruct (j =? 1) eqn:E1; [unfold Nb; lia|]. destruct (j =? 0) eqn:E0; [congruence|]. apply Hs. exact Hj.
      - destruct (j =? 1) eqn:E1; [congruence|]. apply Hs. exact Hj. }
    fold f2. unfold open_trunc.
    destruct (get (names f2) 0) as [ino|] eqn:E0.
    - do 2 eexists. split; [reflexivity|].
      constructor; cbn [h_stream h_maxbytes h_backups with_stream]; try assumption; try discriminate.
    - do 2 eexists. split; [reflexivity|].
      constructor; cbn [h_stream h_maxbytes h_backups with_stream]; try assumption; try discriminate.
      intros j Hj. cbn [names] in Hj. rewrite get_set in Hj. destruct (j =? 0) eqn:Ej; [unfold Nb; lia|].
      apply R2. exact Hj.
  Qed.

  Lemma emit_write_X f h msg :
    InvX f h -> let '(f', h') := emit_write f h msg in InvX f' h'.
  Proof.
    intros [X1 X2 X3 X4]. unfold emit_write.
    destruct (h_stream h) as [s|] eqn:Es; [|congruence].
    destruct msg as [|b m]; [constructor; try assumption; rewrite Es; discriminate|].
    destruct (h_append h); constructor; cbn [names h_stream h_maxbytes h_backups with_stream];
      try assumption; discriminate.
  Qed.

  Lemma start_X : exists f h, start mb bk = Ok f h /\ InvX f h.
  Proof.
    unfold start, handle_file, open_append, empty_fs. cbn [get names next].
    do 2 eexists. split; [reflexivity|].
    constructor; cbn [h_stream h_maxbytes h_backups]; try reflexivity; try discriminate.
    intros j Hj. cbn [names] in Hj. rewrite get_set in Hj. destruct (j =? 0) eqn:E; [unfold Nb; lia|].
    simpl in Hj. congruence.
  Qed.

  Lemma open_append_X f h app pos :
    in_range f -> h_maxbytes h = mb -> h_backups h = bk ->
    let '(f', ino) := open_append f 0 in InvX f' (with_stream h (Some ino) app pos).
  Proof.
    intros X1 X3 X4. unfold open_append.
    destruct (get (names f) 0) as [ino|] eqn:E0.
    - constructor; cbn [h_stream h_maxbytes h_backups with_stream]; try assumption. discriminate.
    - constructor; cbn [h_stream h_maxbytes h_backups with_stream]; try assumption; try discriminate.
      intros j Hj. cbn [names] in Hj. rewrite get_set in Hj. destruct (j =? 0) eqn:Ej; [unfold Nb; lia|].
      apply X1. exact Hj.
  Qed.

  (* c19_external_tolerated: no exception, and no file outside log, .1 ... .N *)
  Theorem external_thm : forall ops,
    Forall ext_ok ops ->
    exists f h, run mb bk ops = Ok f h /\ InvX f h.
  Proof.
    induction ops as [|o ops IH] using rev_ind; intro Hok.
    - exact start_X.
    - apply Forall_app in Hok. destruct Hok as [Hok1 Hok2]. inversion Hok2 as [|? ? Ho _]; subst.
      destruct (IH Hok1) as (f & h & Hr & X).
      unfold run in *. rewrite fold_left_app, Hr. cbn [fold_left step].
      destruct o as [msg| | |n|n c| | |msg2];
        [ | | | | | simpl in Ho; contradiction | simpl in Ho; contradiction | simpl in Ho; contradiction].
      + unfold emit. pose proof (emit_write_X f h msg X) as X1.
        destruct (emit_write f h msg) as [f1 h1].
        destruct (h_rotating h1); [apply rollover_range; exact X1 | exists f1, h1; auto].
      + unfold clear, remove, reopen. destruct X as [X1 X2 X3 X4].
        assert (R : in_range (unlink f 0)).
        { intros j Hj. rewrite unlink_names in Hj. destruct (j =? 0); [congruence|]. apply X1. exact Hj. }
        pose proof (open_append_X (unlink f 0) (with_stream h None (h_append h) (h_pos h)) true
                                  (zlen (content (fst (open_append (unlink f 0) 0)) (snd (open_append (unlink f 0) 0))))
                                  R X3 X4) as X'.
        destruct (open_append (unlink f 0) 0) as [f' ino] eqn:Eo. cbn [fst snd] in X'.
        eexists. eexists. split; [reflexivity|]. exact X'.
      + unfold reopen. destruct X as [X1 X2 X3 X4].
        pose proof (open_append_X f h true
                                  (zlen (content (fst (open_append f 0)) (snd (open_append f 0)))) X1 X3 X4) as X'.
        destruct (open_append f 0) as [f' ino] eqn:Eo. cbn [fst snd] in X'.
        eexists. eexists. split; [reflexivity|]. exact X'.
      + exists (unlink f n), h. split; [reflexivity|]. destruct X as [X1 X2 X3 X4]. constructor; try assumption.
        intros j Hj. rewrite unlink_names in Hj. destruct (j =? n); [congruence|]. apply X1. exact Hj.
      + exists (ext_replace f n c), h. split; [reflexivity|]. destruct X as [X1 X2 X3 X4]. constructor; try assumption.
        intros j Hj. unfold ext_replace in Hj. cbn [names] in Hj. rewrite get_set, get_del in Hj.
        destruct (j =? n) eqn:Ej; [|apply X1; exact Hj]. simpl in Ho. lia.
  Qed.

  Theorem external_tolerated_thm : forall ops,
    Forall ext_ok ops ->
    exists f h, run mb bk ops = Ok f h /\ forall j c, file f j = Some c -> 0 <= j <= Nb bk.
  Proof.
    intros ops Hok. destruct (external_thm ops Hok) as (f & h & Hr & [X1 _ _ _]).
    exists f, h. split; [exact Hr|]. intros j c Hf. apply X1. unfold file in Hf.
    destruct (get (names f) j); [discriminate | discriminate].
  Qed.
End External.

(* ------------------------------------- reopening works from any handler state *)
(* whatever happened before (also a reopen that failed and left the handler
   closed): reopen() and remove()+reopen() leave the handler open on the file
   that is then at the configured path *)
Theorem reopen_any_state : forall f h,
  let '(f', h') := reopen f h in
  exists ino, h_stream h' = Some ino /\ get (names f') 0 = Some ino.
Proof.
  intros f h. unfold reopen, open_append.
  destruct (get (names f) 0) as [ino|] eqn:E.
  - exists ino. split; [reflexivity | exact E].
  - exists (next f). split; [reflexivity|]. cbn [names]. rewrite get_set. reflexivity.
Qed.

Theorem clear_any_state : forall f h,
  let '(f', h') := clear f h in
  exists ino, h_stream h' = Some ino /\ get (names f') 0 = Some ino /\ file f' 0 = Some [].
Proof.
  intros f h. unfold clear, remove, reopen, open_append.
  rewrite unlink_names, Z.eqb_refl. cbn [next unlink names inodes].
  exists (next f). split; [reflexivity|]. split.
  - cbn [names]. rewrite get_set. reflexivity.
  - unfold file, content. cbn [names inodes]. rewrite get_set. cbn [Z.eqb]. rewrite get_set, Z.eqb_refl. reflexivity.
Qed.

Example reopen_after_failure :
  match run 10 1 [Write [1; 2; 3]; ReopenFails; Reopen; Write [4; 5]] with
  | Ok f h => (file f 0, h_stream h)
  | Crash => (None, None)
  end = (Some [1; 2; 3; 4; 5], Some 1).
Proof. vm_compute. reflexivity. Qed.

(* ------------------------------------------ configured values reach the handler *)
Theorem config_params : forall f mb bk,
  let h := snd (handle_file f mb bk) in
  h_maxbytes h = mb /\ h_backups h = bk /\ h_rotating h = negb (mb =? 0).
Proof. intros f mb bk. unfold handle_file. destruct (open_append f 0). cbn. auto. Qed.

Theorem config_zero_stays_zero : forall dflt, effective dflt (Some 0) = 0.
Proof. reflexivity. Qed.

(* ------------------------------------ a rotation that cannot be done (a811a35) *)
(* the write itself is never lost, no exception comes out, and the handler stays
   open on the file at the configured path *)
Theorem blocked_write_kept : forall f h msg ino,
  h_stream h = Some ino -> get (names f) 0 = Some ino -> h_append h = true ->
  exists f' h',
    step (Ok f h) (WriteBlocked msg) = Ok f' h' /\
    h_stream h' = Some ino /\ get (names f') 0 = Some ino /\
    content f' ino = content f ino ++ msg.
Proof.
  intros f h msg ino Hs Hn Ha. cbn [step]. unfold emit_write. rewrite Hs, Ha.
  destruct msg as [|b m].
  - rewrite app_nil_r.
    destruct (h_rotating h && (0 <? h_maxbytes h) && true && (h_pos h >=? h_maxbytes h)) eqn:E;
      rewrite Hs, E.
    + unfold open_append. rewrite Hn. do 2 eexists. repeat split; try reflexivity. exact Hn.
    + do 2 eexists. repeat split; try reflexivity; assumption.
  - cbn [h_rotating h_maxbytes h_stream h_pos with_stream].
    set (f1 := {| names := names f; inodes := set (inodes f) ino (content f ino ++ b :: m); next := next f |}).
    assert (C1 : content f1 ino = content f ino ++ b :: m).
    { unfold f1. rewrite content_set, Z.eqb_refl. reflexivity. }
    destruct (h_rotating h && (0 <? h_maxbytes h) && true && (zlen (content f ino ++ b :: m) >=? h_maxbytes h)).
    + unfold open_append. cbn [names f1]. rewrite Hn. do 2 eexists. repeat split; try reflexivity; assumption.
    + do 2 eexists. repeat split; try reflexivity; assumption.
Qed.

Example blocked_rotation_example :
  match run 10 1 [Write [1;2;3;4;5;6]; Write [7;8;9;10;11;12]; ExtDelete 1;
                  WriteBlocked [13;14;15;16;17;18;19;20;21;22;23]; WriteBlocked [24;25]; Write [26]] with
  | Ok f h => (file f 1, file f 0)
  | Crash => (None, None)
  end = (Some [13;14;15;16;17;18;19;20;21;22;23;24;25;26], Some []).
Proof. vm_compute. reflexivity. Qed.
