(* C19: executable model of supervisor.loggers.FileHandler / RotatingFileHandler
   on a small file system.

   Transcribed from supervisor/loggers.py (current tree):
     handle_file            rotating = (maxbytes != 0) chooses RotatingFileHandler(filename,'a',
                            maxbytes, backups) or the plain FileHandler(filename) (mode 'ab')
     Handler.emit           stream.write(msg); flush()           (every exception swallowed)
     RotatingFileHandler    emit = Handler.emit; try: doRollover() except: handleError()   (a811a35)
       doRollover           if maxBytes <= 0: return
                            if not (stream.tell() >= maxBytes): return      (test AFTER the write)
                            stream.close()
                            if backupCount > 0:
                              for i in range(backupCount - 1, 0, -1):
                                 if exists(base.i): removeAndRename(base.i, base.(i+1))
                              removeAndRename(base, base.1)
                            stream = open(base, 'wb')                       (NOT append; since a811a35
                              in a finally, with mode 'ab' when a rename raised - a rename failing with
                              anything but ENOENT is not modelled)
       removeAndRename      if exists(dfn): remove(dfn)   ; rename(sfn, dfn)  (ENOENT tolerated)
     FileHandler.reopen     close(); stream = open(base, self.mode)         (mode 'ab')
     FileHandler.remove     close(); os.remove(base)                        (ENOENT tolerated)
     dispatchers.removelogs handler.remove(); handler.reopen()              (= clear)

   File names are integers: 0 is the configured path, i > 0 is "<path>.i".
   A directory maps names to inodes, inodes hold bytes; an open stream refers
   to an inode, so renaming or unlinking a name does not affect it.
   A stream has a position: in append mode ('ab', O_APPEND) every write goes
   to the end of the file and leaves the position there; in 'wb' mode the
   write goes to the stream's own position.  tell() is the position. *)
From Coq Require Import ZArith List Bool Lia.
Import ListNotations.
Open Scope Z_scope.

Definition bytes := list Z.
Definition zlen (b : bytes) : Z := Z.of_nat (length b).

(* finite maps as association lists, newest binding first *)
Fixpoint get {A} (m : list (Z * A)) (k : Z) : option A :=
  match m with
  | [] => None
  | (k', v) :: r => if k =? k' then Some v else get r k
  end.
Definition set {A} (m : list (Z * A)) (k : Z) (v : A) : list (Z * A) := (k, v) :: m.
Fixpoint del {A} (m : list (Z * A)) (k : Z) : list (Z * A) :=
  match m with
  | [] => []
  | (k', v) :: r => if k =? k' then del r k else (k', v) :: del r k
  end.

Record fs := {
  names : list (Z * Z);         (* name -> inode *)
  inodes : list (Z * bytes);    (* inode -> content *)
  next : Z                      (* next unused inode number *)
}.

Definition content (f : fs) (ino : Z) : bytes :=
  match get (inodes f) ino with Some c => c | None => [] end.

Definition file (f : fs) (name : Z) : option bytes :=
  match get (names f) name with Some ino => Some (content f ino) | None => None end.

Definition exists_ (f : fs) (name : Z) : bool :=
  match get (names f) name with Some _ => true | None => false end.

(* os.remove(name); ENOENT tolerated by every caller that is modelled *)
Definition unlink (f : fs) (name : Z) : fs :=
  {| names := del (names f) name; inodes := inodes f; next := next f |}.

(* os.rename(src, dst) when src exists; otherwise ENOENT, tolerated, no effect *)
Definition rename (f : fs) (src dst : Z) : fs :=
  match get (names f) src with
  | Some ino => {| names := set (del (del (names f) dst) src) dst ino; inodes := inodes f; next := next f |}
  | None => f
  end.

(* open(name, 'ab'): create if missing; returns the inode *)
Definition open_append (f : fs) (name : Z) : fs * Z :=
  match get (names f) name with
  | Some ino => (f, ino)
  | None =>
    let ino := next f in
    ({| names := set (names f) name ino; inodes := set (inodes f) ino []; next := ino + 1 |}, ino)
  end.

(* open(name, 'wb'): create if missing, truncate if present *)
Definition open_trunc (f : fs) (name : Z) : fs * Z :=
  match get (names f) name with
  | Some ino => ({| names := names f; inodes := set (inodes f) ino []; next := next f |}, ino)
  | None =>
    let ino := next f in
    ({| names := set (names f) name ino; inodes := set (inodes f) ino []; next := ino + 1 |}, ino)
  end.

(* pwrite at a position, zero-filling a hole *)
Fixpoint zeros (n : nat) : bytes := match n with O => [] | S n' => 0 :: zeros n' end.
Definition write_at (c : bytes) (pos : Z) (msg : bytes) : bytes :=
  let p := Z.to_nat pos in
  firstn p c ++ zeros (p - length c) ++ msg ++ skipn (p + length msg) c.

Record handler := {
  h_rotating : bool;        (* RotatingFileHandler (handle_file: maxbytes != 0) or FileHandler *)
  h_maxbytes : Z;
  h_backups : Z;
  h_stream : option Z;      (* inode of the open stream; None when closed *)
  h_append : bool;          (* opened 'ab' (true) or 'wb' (false) *)
  h_pos : Z                 (* what tell() reports *)
}.

Definition with_stream (h : handler) (s : option Z) (app : bool) (pos : Z) : handler :=
  {| h_rotating := h_rotating h; h_maxbytes := h_maxbytes h; h_backups := h_backups h;
     h_stream := s; h_append := app; h_pos := pos |}.

(* loggers.handle_file(logger, path, fmt, rotating=not not maxbytes, maxbytes, backups) *)
Definition handle_file (f : fs) (maxbytes backups : Z) : fs * handler :=
  let '(f', ino) := open_append f 0 in
  (f', {| h_rotating := negb (maxbytes =? 0); h_maxbytes := maxbytes; h_backups := backups;
          h_stream := Some ino; h_append := true; h_pos := zlen (content f' ino) |}).

(* Handler.emit: stream.write(msg); flush().  A closed stream raises
   ValueError, which emit swallows: nothing is written. *)
Definition emit_write (f : fs) (h : handler) (msg : bytes) : fs * handler :=
  match h_stream h with
  | None => (f, h)
  | Some ino =>
    match msg with
    | [] => (f, h)          (* nothing reaches the kernel, the position is not refreshed *)
    | _ =>
      let c := content f ino in
      if h_append h then
        let c' := c ++ msg in
        ({| names := names f; inodes := set (inodes f) ino c'; next := next f |},
         with_stream h (Some ino) true (zlen c'))
      else
        let c' := write_at c (h_pos h) msg in
        ({| names := names f; inodes := set (inodes f) ino c'; next := next f |},
         with_stream h (Some ino) false (h_pos h + zlen msg))
    end
  end.

(* removeAndRename(sfn, dfn) *)
Definition remove_and_rename (f : fs) (sfn dfn : Z) : fs :=
  let f := if exists_ f dfn then unlink f dfn else f in
  rename f sfn dfn.

(* for i in range(n, 0, -1): if exists(base.i): removeAndRename(base.i, base.(i+1)) *)
Fixpoint shift_backups (f : fs) (n : nat) : fs :=
  match n with
  | O => f
  | S n' =>
    let i := Z.of_nat n in
    let f := if exists_ f i then remove_and_rename f i (i + 1) else f in
    shift_backups f n'
  end.

Inductive outcome := Ok (f : fs) (h : handler) | Crash.

(* RotatingFileHandler.doRollover *)
Definition do_rollover (f : fs) (h : handler) : outcome :=
  if h_maxbytes h <=? 0 then Ok f h
  else
    match h_stream h with
    | None => Ok f h              (* tell() on a closed file raises ValueError; since a811a35 emit()
                                     handles it like a failed write (handleError), nothing changes *)
    | Some _ =>
      if negb (h_pos h >=? h_maxbytes h) then Ok f h
      else
        let f :=
          if h_backups h >? 0 then
            let f := shift_backups f (Z.to_nat (h_backups h - 1)) in
            remove_and_rename f 0 1
          else f in
        let '(f, ino) := open_trunc f 0 in
        Ok f (with_stream h (Some ino) false 0)
    end.

(* handler.emit(record) *)
Definition emit (f : fs) (h : handler) (msg : bytes) : outcome :=
  let '(f, h) := emit_write f h msg in
  if h_rotating h then do_rollover f h else Ok f h.

(* FileHandler.reopen: close(); open(base, mode).  mode is 'ab' for both
   kinds when created through handle_file *)
Definition reopen (f : fs) (h : handler) : fs * handler :=
  let '(f, ino) := open_append f 0 in
  (f, with_stream h (Some ino) true (zlen (content f ino))).

(* FileHandler.remove: close(); os.remove(base) tolerating ENOENT *)
Definition remove (f : fs) (h : handler) : fs * handler :=
  (unlink f 0, with_stream h None (h_append h) (h_pos h)).

(* removelogs: handler.remove(); handler.reopen() *)
Definition clear (f : fs) (h : handler) : fs * handler :=
  let '(f, h) := remove f h in reopen f h.

(* ---- operations on one handler *)
Inductive op :=
| Write (msg : bytes)
| Clear                          (* clearProcessLogs / removelogs *)
| Reopen                         (* SIGUSR2 / reopenlogs *)
| ExtDelete (name : Z)           (* somebody unlinks <path>.name (0: the live log) *)
| ExtReplace (name : Z) (c : bytes)    (* somebody puts a new file there *)
| ReopenFails                    (* reopen() while open() fails (log directory missing): close(); open raises *)
| ClearFails                     (* remove(); reopen() in the same situation: close(); ENOENT tolerated; open raises *)
| WriteBlocked (msg : bytes).    (* a write while the rotation cannot be done: the first remove/rename of
                                    doRollover raises something other than ENOENT (e.g. <path>.N is a directory) *)

Definition ext_replace (f : fs) (name : Z) (c : bytes) : fs :=
  let ino := next f in
  {| names := set (del (names f) name) name ino; inodes := set (inodes f) ino c; next := ino + 1 |}.

Definition step (st : outcome) (o : op) : outcome :=
  match st with
  | Crash => Crash
  | Ok f h =>
    match o with
    | Write msg => emit f h msg
    | Clear => let '(f, h) := clear f h in Ok f h
    | Reopen => let '(f, h) := reopen f h in Ok f h
    | ExtDelete n => Ok (unlink f n) h
    | ExtReplace n c => Ok (ext_replace f n c) h
    (* the handler is left closed (self.closed stays True), nothing else changes; the
       exception goes to the caller of reopen()/removelogs(), not out of a later emit *)
    | ReopenFails => Ok f (with_stream h None (h_append h) (h_pos h))
    | ClearFails => Ok f (with_stream h None (h_append h) (h_pos h))
    (* a811a35: doRollover closes the stream, the rename raises before anything was moved, the
       `finally` reopens the live log in append mode, emit() swallows the error *)
    | WriteBlocked msg =>
      let '(f, h) := emit_write f h msg in
      if h_rotating h && (0 <? h_maxbytes h) &&
         (match h_stream h with Some _ => true | None => false end) && (h_pos h >=? h_maxbytes h)
      then let '(f, ino) := open_append f 0 in Ok f (with_stream h (Some ino) true (zlen (content f ino)))
      else Ok f h
    end
  end.

(* which values reach the handler: a configured value (0 included) is used as
   it is, the default only when nothing was configured (Options.process_config:
   `if getattr(self, name) is None`; options.py 647-648 and 996-999 for programs) *)
Definition effective (dflt : Z) (configured : option Z) : Z :=
  match configured with Some v => v | None => dflt end.

Definition empty_fs : fs := {| names := []; inodes := []; next := 1 |}.

Definition start (maxbytes backups : Z) : outcome :=
  let '(f, h) := handle_file empty_fs maxbytes backups in Ok f h.

Definition run (maxbytes backups : Z) (ops : list op) : outcome :=
  fold_left step ops (start maxbytes backups).

(* ---- several handlers on one file system (stdout and stderr of one program
   configured to the same path, or the activity log and a child log) *)
Inductive mop :=
| MWrite (who : nat) (msg : bytes)
| MClear (who : nat)
| MReopen (who : nat).

Inductive moutcome := MOk (f : fs) (hs : list handler) | MCrash.

Fixpoint replace_nth {A} (l : list A) (n : nat) (x : A) : list A :=
  match l, n with
  | [], _ => []
  | _ :: r, O => x :: r
  | y :: r, S n' => y :: replace_nth r n' x
  end.

Definition mstep (st : moutcome) (o : mop) : moutcome :=
  match st with
  | MCrash => MCrash
  | MOk f hs =>
    let who := match o with MWrite w _ | MClear w | MReopen w => w end in
    match nth_error hs who with
    | None => st
    | Some h =>
      match o with
      | MWrite _ msg =>
        match emit f h msg with
        | Ok f' h' => MOk f' (replace_nth hs who h')
        | Crash => MCrash
        end
      | MClear _ => let '(f', h') := clear f h in MOk f' (replace_nth hs who h')
      | MReopen _ => let '(f', h') := reopen f h in MOk f' (replace_nth hs who h')
      end
    end
  end.

(* n handlers created one after the other on the same path *)
Fixpoint mstart_from (f : fs) (n : nat) (maxbytes backups : Z) : fs * list handler :=
  match n with
  | O => (f, [])
  | S n' =>
    let '(f, h) := handle_file f maxbytes backups in
    let '(f, hs) := mstart_from f n' maxbytes backups in
    (f, h :: hs)
  end.

Definition mrun (n : nat) (maxbytes backups : Z) (ops : list mop) : moutcome :=
  let '(f, hs) := mstart_from empty_fs n maxbytes backups in
  fold_left mstep ops (MOk f hs).
