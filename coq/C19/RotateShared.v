(* C19: two handlers on one path break the size and suffix laws (known finding
   C19-shared); non-vacuity examples for the positive theorems. *)
From Coq Require Import ZArith List Bool Lia.
Import ListNotations.
Require Import SV.C19.Rotate SV.C19.RotateSpec.
Open Scope Z_scope.

Fixpoint bytes_eqb (a b : bytes) : bool :=
  match a, b with
  | [], [] => true
  | x :: a', y :: b' => (x =? y) && bytes_eqb a' b'
  | _, _ => false
  end.

Lemma bytes_eqb_refl a : bytes_eqb a a = true.
Proof. induction a as [|x a IH]; simpl; [reflexivity|]. rewrite Z.eqb_refl, IH. reflexivity. Qed.

Definition is_suffixb (s w : bytes) : bool :=
  bytes_eqb s (skipn (length w - length s) w).

Lemma is_suffixb_complete s w : (exists D, w = D ++ s) -> is_suffixb s w = true.
Proof.
  intros [D H]. subst w. unfold is_suffixb. rewrite app_length.
  replace (length D + length s - length s)%nat with (length D) by lia.
  rewrite skipn_app, skipn_all, Nat.sub_diag. simpl. apply bytes_eqb_refl.
Qed.

(* the bytes 4k+1 .. 4k+4 *)
Definition chunk (k : Z) : bytes := [4 * k + 1; 4 * k + 2; 4 * k + 3; 4 * k + 4].

(* stdout and stderr of one program configured to the same file, maxbytes 10,
   backups 2: nine alternating 4-byte writes *)
Definition shared_ops : list mop :=
  [MWrite 0 (chunk 0); MWrite 1 (chunk 1); MWrite 0 (chunk 2); MWrite 1 (chunk 3); MWrite 0 (chunk 4);
   MWrite 1 (chunk 5); MWrite 0 (chunk 6); MWrite 1 (chunk 7); MWrite 0 (chunk 8)].

Definition mwritten (ops : list mop) : bytes :=
  concat (map (fun o => match o with MWrite _ m => m | _ => [] end) ops).

Definition shared_bad (mb : Z) (n : nat) (st : moutcome) (w : bytes) : bool :=
  match st with
  | MCrash => false
  | MOk f _ =>
    (match file f 1 with Some c => zlen c <? mb | None => false end) &&
    negb (is_suffixb (concat_files f n) w)
  end.

(* c19_shared_refuted: a backup shorter than maxbytes AND the concatenation of
   the files is not a suffix of what was written (bytes from the middle are
   gone, the order is broken) *)
Theorem shared_refuted :
  exists ops,
    shared_bad 10 2 (mrun 2 10 2 ops) (mwritten ops) = true.
Proof. exists shared_ops. vm_compute. reflexivity. Qed.

Example shared_files :
  match mrun 2 10 2 shared_ops with
  | MOk f _ => (file f 2, file f 1, file f 0)
  | MCrash => (None, None, None)
  end =
  (Some (chunk 4 ++ chunk 6 ++ chunk 8), Some (chunk 5 ++ chunk 7), Some []).
Proof. vm_compute. reflexivity. Qed.

Theorem shared_not_suffix :
  forall f hs, mrun 2 10 2 shared_ops = MOk f hs ->
  ~ exists D, mwritten shared_ops = D ++ concat_files f 2.
Proof.
  intros f hs H Hex. apply is_suffixb_complete in Hex.
  assert (G : shared_bad 10 2 (mrun 2 10 2 shared_ops) (mwritten shared_ops) = true) by (vm_compute; reflexivity).
  rewrite H in G. unfold shared_bad in G. rewrite Hex in G.
  destruct (file f 1) as [c|]; [destruct (zlen c <? 10)|]; discriminate.
Qed.

(* ---- non-vacuity of the positive theorems: a single handler, maxbytes 10, backups 2 *)
Definition single_ops : list op :=
  [Write (chunk 0); Write (chunk 1); Write (chunk 2); Reopen; Write (chunk 3); Write (chunk 4);
   Write (chunk 5); Write (chunk 6); Write (chunk 7); Write (chunk 8); Write (chunk 9)].

Example single_files :
  match run_eff 10 2 single_ops with
  | (Ok f _, E) => (file f 3, file f 2, file f 1, file f 0, length E)
  | _ => (None, None, None, None, O)
  end =
  (None, Some (chunk 3 ++ chunk 4 ++ chunk 5), Some (chunk 6 ++ chunk 7 ++ chunk 8), Some (chunk 9), 40%nat).
Proof. vm_compute. reflexivity. Qed.

Example clear_example :
  match run_eff 10 1 [Write (chunk 0); Write (chunk 1); Write (chunk 2); Write (chunk 3); Clear; Write (chunk 4)] with
  | (Ok f _, E) => (file f 1, file f 0, E)
  | _ => (None, None, [])
  end =
  (Some (chunk 0 ++ chunk 1 ++ chunk 2), Some (chunk 4), chunk 0 ++ chunk 1 ++ chunk 2 ++ chunk 4).
Proof. vm_compute. reflexivity. Qed.

Example backups_zero_example :
  match run 10 0 [Write (chunk 0); Write (chunk 1); Write (chunk 2); Write (chunk 3)] with
  | Ok f _ => (file f 1, file f 0)
  | Crash => (None, None)
  end = (None, Some (chunk 3)).
Proof. vm_compute. reflexivity. Qed.

Example external_example :
  match run 10 2 [Write (chunk 0); Write (chunk 1); Write (chunk 2); ExtDelete 0; Write (chunk 3);
                  ExtReplace 1 [9; 9]; Write (chunk 4); Write (chunk 5); Write (chunk 6)] with
  | Ok f _ => (file f 3, file f 2, file f 1, file f 0)
  | Crash => (None, None, None, None)
  end = (None, Some [9; 9], None, Some (chunk 6)).   (* output written to the unlinked live log is gone *)
Proof. vm_compute. reflexivity. Qed.
