(* C17 theorems: with a username configured, the inner handler of no request
   runs unless the request carries an Authorization line whose Basic cookie
   decodes to exactly the configured user and a password that equals the
   stored one (or hashes to the stored {SHA} digest) - for every request block,
   every header list, every answer of the handlers' match(), and every decoder
   and hash function. *)
From Coq Require Import ZArith List Bool Lia.
Import ListNotations.
Require Import SV.C17.Gen_http SV.C17.Auth.
Open Scope Z_scope.

(* ------------------------------------------------------------ basic lemmas *)

Lemma str_eqb_eq a b : str_eqb a b = true <-> a = b.
Proof.
  revert b; induction a as [|x a IH]; destruct b as [|y b]; simpl; split; intro H;
    try reflexivity; try discriminate.
  - apply andb_true_iff in H. destruct H as [H1 H2]. apply Z.eqb_eq in H1. apply IH in H2. congruence.
  - inversion H; subst. apply andb_true_iff. split; [apply Z.eqb_refl | apply IH; reflexivity].
Qed.

Lemma str_eqb_refl a : str_eqb a a = true.
Proof. apply str_eqb_eq. reflexivity. Qed.

Lemma starts_with_app p s : starts_with p s = true -> s = p ++ skipn (length p) s.
Proof.
  revert s; induction p as [|x p IH]; intros s H; simpl in *; [reflexivity|].
  destruct s as [|y s]; [discriminate|].
  apply andb_true_iff in H. destruct H as [H1 H2]. apply Z.eqb_eq in H1. subst.
  simpl. f_equal. apply IH. exact H2.
Qed.

Lemma starts_with_prefix p t : starts_with p (p ++ t) = true.
Proof. induction p as [|x p IH]; simpl; [reflexivity|]. rewrite Z.eqb_refl. exact IH. Qed.

Lemma mem_In x l : mem x l = true <-> In x l.
Proof.
  unfold mem. rewrite existsb_exists. split.
  - intros [y [Hy E]]. apply Z.eqb_eq in E. subst. exact Hy.
  - intros H. exists x. split; [exact H | apply Z.eqb_refl].
Qed.

Lemma mem_false x l : mem x l = false <-> ~ In x l.
Proof.
  split; intro H.
  - intro Hin. apply mem_In in Hin. congruence.
  - destruct (mem x l) eqn:E; [|reflexivity]. apply mem_In in E. contradiction.
Qed.

(* span_not stop s acc: the longest stop-free prefix *)
Lemma span_not_spec stop s : forall acc u rest,
  span_not stop s acc = (u, rest) ->
  exists v, u = rev acc ++ v /\ s = v ++ rest /\ ~ In stop v /\
            (rest = [] \/ exists r', rest = stop :: r').
Proof.
  induction s as [|c s IH]; intros acc u rest H; simpl in H.
  - inversion H; subst. exists []. rewrite app_nil_r. repeat split; auto.
  - destruct (c =? stop) eqn:E.
    + inversion H; subst. apply Z.eqb_eq in E. subst. exists []. rewrite app_nil_r.
      repeat split; auto. right. eexists; reflexivity.
    + apply IH in H. destruct H as [v [Hu [Hs [Hn Hr]]]].
      exists (c :: v). simpl in Hu. rewrite <- app_assoc in Hu. simpl in Hu.
      repeat split; auto.
      * simpl. congruence.
      * intros [Hc | Hin]; [apply Z.eqb_neq in E; congruence | contradiction].
Qed.

Lemma span_not_app stop v rest : ~ In stop v ->
  forall acc, span_not stop (v ++ stop :: rest) acc = (rev acc ++ v, stop :: rest).
Proof.
  induction v as [|c v IH]; intros Hn acc; simpl.
  - rewrite Z.eqb_refl. rewrite app_nil_r. reflexivity.
  - destruct (c =? stop) eqn:E.
    + apply Z.eqb_eq in E. exfalso. apply Hn. left. exact E.
    + rewrite IH by (intro; apply Hn; right; assumption).
      simpl. rewrite <- app_assoc. reflexivity.
Qed.

Lemma span_not_none stop v : ~ In stop v ->
  forall acc, span_not stop v acc = (rev acc ++ v, []).
Proof.
  induction v as [|c v IH]; intros Hn acc; simpl.
  - rewrite app_nil_r. reflexivity.
  - destruct (c =? stop) eqn:E.
    + apply Z.eqb_eq in E. exfalso. apply Hn. left. exact E.
    + rewrite IH by (intro; apply Hn; right; assumption).
      simpl. rewrite <- app_assoc. reflexivity.
Qed.

Lemma split_colon_pair d u p : split_colon d = [u; p] -> d = u ++ 58 :: p /\ ~ In 58 u.
Proof.
  unfold split_colon. destruct (span_not 58 d []) as [u' rest] eqn:E.
  apply span_not_spec in E. destruct E as [v [Hu [Hs [Hn Hr]]]]. simpl in Hu. subst u'.
  destruct rest as [|c r]; intro H; [discriminate|]. inversion H; subst.
  destruct Hr as [Hr | [r' Hr]]; [discriminate|]. inversion Hr; subst. split; auto.
Qed.

Lemma split_colon_of u p : ~ In 58 u -> split_colon (u ++ 58 :: p) = [u; p].
Proof. intros Hn. unfold split_colon. rewrite span_not_app by exact Hn. reflexivity. Qed.

Lemma split_colon_nocolon d : ~ In 58 d -> split_colon d = [d].
Proof. intros Hn. unfold split_colon. rewrite span_not_none by exact Hn. reflexivity. Qed.

Lemma ci_strip_spec lit : forall s rest,
  ci_strip lit s = Some rest -> exists pre, s = pre ++ rest /\ ci_equal lit pre = true.
Proof.
  induction lit as [|alts lit IH]; intros s rest H; simpl in H.
  - inversion H; subst. exists []. split; reflexivity.
  - destruct s as [|x s]; [discriminate|]. destruct (mem x alts) eqn:E; [|discriminate].
    apply IH in H. destruct H as [pre [Hs Hc]]. exists (x :: pre). split.
    + simpl. congruence.
    + simpl. rewrite E. exact Hc.
Qed.

(* --------------------------------------------------------------- the spec *)

Section Spec.
  Variable b64decode : str -> option str.
  Variable sha1hex : str -> str.
  Variable user stored : str.

  (* the password p is acceptable for the stored entry *)
  Definition password_ok (p : str) : Prop :=
    if starts_with sha_prefix stored then stored = sha_prefix ++ sha1hex p else p = stored.

  (* Independent of the decision procedure: some header line consists of a
     spelling of the literal `Authorization: `, a non-empty space-free scheme
     that is a spelling of `basic`, one space and a cookie, and the cookie
     decodes to u, a colon, p with no colon in u. *)
  Definition presents (hdr : list str) (u p : str) : Prop :=
    exists line pre scheme cookie,
      In line hdr /\ line = pre ++ scheme ++ 32 :: cookie /\
      ci_equal auth_literal pre = true /\ scheme <> [] /\ ~ In 32 scheme /\
      ci_equal scheme_literal scheme = true /\
      b64decode cookie = Some (u ++ 58 :: p) /\ ~ In 58 u.

  Notation authorize := (authorize sha1hex user stored).
  Notation auth_handle := (auth_handle b64decode sha1hex user stored).
  Notation handle := (handle b64decode sha1hex user stored).
  Notation dispatch := (dispatch b64decode sha1hex user stored).
  Notation channel := (channel b64decode sha1hex user stored).

  Lemma sha_skip_len : Z.to_nat sha_skip = length sha_prefix.
  Proof. reflexivity. Qed.

  Lemma authorize_true u p : authorize [u; p] = Some true <-> u = user /\ password_ok p.
  Proof.
    unfold authorize, password_ok. destruct (str_eqb u user) eqn:Eu.
    - apply str_eqb_eq in Eu. subst u. destruct (starts_with sha_prefix stored) eqn:Es.
      + rewrite sha_skip_len. split.
        * intro H. inversion H as [H1]. apply str_eqb_eq in H1. split; [reflexivity|].
          rewrite <- H1. apply starts_with_app. exact Es.
        * intros [_ H]. f_equal. apply str_eqb_eq. rewrite H at 1.
          rewrite skipn_app, skipn_all, Nat.sub_diag. reflexivity.
      + split.
        * intro H. inversion H as [H1]. apply str_eqb_eq in H1. auto.
        * intros [_ H]. subst. rewrite str_eqb_refl. reflexivity.
    - split; [discriminate|]. intros [H _]. subst. rewrite str_eqb_refl in Eu. discriminate.
  Qed.

  Lemma authorize_shape ai : authorize ai <> None <-> exists u p, ai = [u; p].
  Proof.
    unfold authorize. split.
    - intro H. destruct ai as [|u [|p [|q r]]]; try congruence. eauto.
    - intros [u [p ->]]. destruct (str_eqb u user); [destruct (starts_with sha_prefix stored)|]; discriminate.
  Qed.

  Lemma match_auth_line_shape line scheme cookie :
    match_auth_line line = Some (scheme, cookie) ->
    exists pre, line = pre ++ scheme ++ 32 :: cookie /\ ci_equal auth_literal pre = true /\
                scheme <> [] /\ ~ In 32 scheme /\ ~ In 10 cookie.
  Proof.
    unfold match_auth_line. destruct (ci_strip auth_literal line) as [rest|] eqn:E; [|discriminate].
    apply ci_strip_spec in E. destruct E as [pre [Hl Hc]].
    destruct (span_not 32 rest []) as [sch tl] eqn:Es.
    apply span_not_spec in Es. destruct Es as [v [Hu [Hs [Hn Hr]]]]. simpl in Hu. subst sch.
    destruct tl as [|sp ck]; [discriminate|].
    destruct (nonempty v && negb (mem 10 ck)) eqn:Eb; [|discriminate].
    intro H. inversion H; subst. apply andb_true_iff in Eb. destruct Eb as [E1 E2].
    destruct Hr as [Hr|[r' Hr]]; [discriminate|]. inversion Hr; subst.
    exists pre. repeat split; auto.
    - destruct scheme; [discriminate | congruence].
    - apply negb_true_iff in E2. apply mem_false in E2. exact E2.
  Qed.

  Lemma first_auth_in hdr x : first_auth hdr = Some x -> exists line, In line hdr /\ match_auth_line line = Some x.
  Proof.
    induction hdr as [|l r IH]; simpl; [discriminate|].
    destruct (match_auth_line l) eqn:E.
    - intro H. inversion H; subst. exists l. auto.
    - intro H. apply IH in H. destruct H as [line [Hin Hm]]. exists line. auto.
  Qed.

  (* the heart: what the wrapper does, for every header list *)
  Lemma auth_handle_inv h hdr :
    (exists u p, presents hdr u p /\ u = user /\ password_ok p /\
                 auth_handle h hdr = (HDone, [Invoked h]))
    \/ (snd (auth_handle h hdr) = [] /\ fst (auth_handle h hdr) <> HDone).
  Proof.
    unfold Auth.auth_handle. destruct (first_auth hdr) as [[scheme cookie]|] eqn:Ef.
    2:{ right. split; [reflexivity | discriminate]. }
    destruct (ci_equal scheme_literal scheme) eqn:Eb.
    2:{ right. split; [reflexivity | discriminate]. }
    destruct (b64decode cookie) as [d|] eqn:Ed.
    2:{ right. split; [reflexivity | discriminate]. }
    destruct (authorize (split_colon d)) as [[|]|] eqn:Ea.
    - left. assert (Hs : exists u p, split_colon d = [u; p]).
      { apply authorize_shape. congruence. }
      destruct Hs as [u [p Hs]]. rewrite Hs in Ea. apply authorize_true in Ea. destruct Ea as [Hu Hp].
      apply split_colon_pair in Hs. destruct Hs as [Hd Hn].
      apply first_auth_in in Ef. destruct Ef as [line [Hin Hm]].
      apply match_auth_line_shape in Hm. destruct Hm as [pre [Hl [Hc [Hne [Hns _]]]]].
      exists u, p. split; [|auto].
      exists line, pre, scheme, cookie. subst d. repeat split; auto.
    - right. split; [reflexivity | discriminate].
    - right. split; [reflexivity | discriminate].
  Qed.

  Definition all_wrapped (chain : list (nat * bool)) : Prop := Forall (fun hw => snd hw = true) chain.

  Lemma dispatch_inv chain : all_wrapped chain -> forall ms hdr,
    (exists h u p, presents hdr u p /\ u = user /\ password_ok p /\
                   dispatch chain ms hdr = (Serve h, [Invoked h]))
    \/ (snd (dispatch chain ms hdr) = [] /\ forall h, fst (dispatch chain ms hdr) <> Serve h).
  Proof.
    induction 1 as [|[h w] chain Hw Hall IH]; intros ms hdr; simpl.
    - right. split; [reflexivity | discriminate].
    - simpl in Hw. subst w. destruct ms as [|[| |] ms'].
      + apply IH.
      + unfold Auth.handle. destruct (auth_handle_inv h hdr) as [[u [p [Hp [Hu [Hok He]]]]] | [Hs Hf]].
        * left. exists h, u, p. rewrite He. simpl. auto.
        * right. destruct (auth_handle h hdr) as [r eff]. simpl in *. subst eff. split; [reflexivity|].
          intros h'. destruct r; simpl; congruence.
      + apply IH.
      + right. split; [reflexivity | discriminate].
  Qed.

  Lemma number_from_wrapped n l : Forall (fun w => w = true) l -> all_wrapped (number_from n l).
  Proof.
    intro H. revert n. unfold all_wrapped.
    induction H as [|w l Hw Hl IH]; intro n; simpl; constructor; [exact Hw | apply IH].
  Qed.

  (* --- c17_all_wrapped: over the generated table *)
  Lemma installed_all_wrapped : Forall (fun nw => snd nw = true) installed_handlers.
  Proof. repeat constructor. Qed.

  Lemma chain_wrapped : user <> [] -> all_wrapped (chain_for user).
  Proof.
    intro Hu. unfold chain_for. destruct user as [|c r]; [congruence|]. simpl nonempty. cbv iota.
    apply number_from_wrapped. apply Forall_map. exact installed_all_wrapped.
  Qed.

  (* --- c17_no_serve_without_auth *)
  Theorem no_serve_without_auth :
    user <> [] ->
    forall text ms h,
      fst (channel text ms) = Serve h ->
      exists r u p, parse_block text = PReq r /\ presents (r_header r) u p /\
                    u = user /\ password_ok p.
  Proof.
    intros Hu text ms h. unfold Auth.channel. destruct (parse_block text) as [| |r] eqn:Ep; simpl;
      try discriminate.
    intro H. destruct (dispatch_inv _ (chain_wrapped Hu) ms (r_header r))
      as [[h' [u [p [Hp [Hu' [Hok He]]]]]] | [_ Hf]].
    - exists r, u, p. auto.
    - exfalso. apply (Hf h). exact H.
  Qed.

  (* the statement in the form of the property text *)
  Corollary no_serve_without_auth_plain :
    user <> [] ->
    forall text ms h,
      fst (channel text ms) = Serve h ->
      exists r u p, parse_block text = PReq r /\ presents (r_header r) u p /\
                    u = user /\ (p = stored \/ stored = sha_prefix ++ sha1hex p).
  Proof.
    intros Hu text ms h H. destruct (no_serve_without_auth Hu text ms h H) as [r [u [p [Hp [Hpr [Hu' Hok]]]]]].
    exists r, u, p. repeat split; auto. unfold password_ok in Hok.
    destruct (starts_with sha_prefix stored); auto.
  Qed.

  (* --- c17_refusal_has_no_effect: the inner handler runs only in a Serve
         decision; and whenever it runs valid credentials were presented *)
  Theorem refusal_has_no_effect :
    user <> [] ->
    forall text ms,
      match fst (channel text ms) with
      | Serve h => snd (channel text ms) = [Invoked h]
      | _ => snd (channel text ms) = []
      end.
  Proof.
    intros Hu text ms. unfold Auth.channel. destruct (parse_block text) as [| |r]; simpl; try reflexivity.
    destruct (dispatch_inv _ (chain_wrapped Hu) ms (r_header r))
      as [[h' [u [p [_ [_ [_ He]]]]]] | [Hs Hf]].
    - rewrite He. reflexivity.
    - destruct (dispatch (chain_for user) ms (r_header r)) as [d eff]. simpl in *. subst eff.
      destruct d; try reflexivity. exfalso. apply (Hf h). reflexivity.
  Qed.

  Theorem effect_requires_auth :
    user <> [] ->
    forall text ms e,
      In e (snd (channel text ms)) ->
      exists r u p, parse_block text = PReq r /\ presents (r_header r) u p /\
                    u = user /\ password_ok p.
  Proof.
    intros Hu text ms e Hin. pose proof (refusal_has_no_effect Hu text ms) as H.
    destruct (fst (channel text ms)) eqn:Ed; try (rewrite H in Hin; contradiction).
    eapply no_serve_without_auth; eauto.
  Qed.

  (* --- c17_good_credentials_served *)
  Lemma dispatch_first chain hdr : forall k rest,
    (k < length chain)%nat ->
    dispatch chain (repeat MFalse k ++ MTrue :: rest) hdr =
    let '(h, w) := nth k chain (O, false) in
    let '(r, eff) := handle h w hdr in (decision_of h r, eff).
  Proof.
    induction chain as [|[h w] chain IH]; intros k rest Hk; simpl in Hk; [lia|].
    destruct k as [|k]; simpl.
    - reflexivity.
    - apply IH. lia.
  Qed.

  Lemma nth_number_from l : forall n k, (k < length l)%nat ->
    nth k (number_from n l) (O, false) = ((n + k)%nat, nth k l false).
  Proof.
    induction l as [|w l IH]; intros n k Hk; simpl in Hk; [lia|].
    destruct k as [|k]; simpl.
    - f_equal. lia.
    - rewrite IH by lia. f_equal. lia.
  Qed.

  Lemma nth_chain k : user <> [] -> (k < length installed_handlers)%nat ->
    nth k (chain_for user) (O, false) = (k, true).
  Proof.
    intros Hu Hk. unfold chain_for. destruct user as [|c r]; [congruence|]. simpl nonempty. cbv iota.
    rewrite nth_number_from by (rewrite map_length; exact Hk). change (0 + k)%nat with k. f_equal.
    pose proof installed_all_wrapped as Hall. rewrite Forall_forall in Hall.
    rewrite <- (map_length snd) in Hk.
    assert (Hin : In (nth k (map snd installed_handlers) false) (map snd installed_handlers))
      by (apply nth_In; exact Hk).
    apply in_map_iff in Hin. destruct Hin as [x [Hx Hin]]. rewrite <- Hx. apply Hall. exact Hin.
  Qed.

  Lemma chain_length : length (chain_for user) = length installed_handlers.
  Proof.
    unfold chain_for.
    assert (L : forall l n, length (number_from n l) = length l).
    { induction l as [|w l IH]; intro n; simpl; [reflexivity | rewrite IH; reflexivity]. }
    rewrite L. destruct (nonempty user); apply map_length.
  Qed.

  Theorem good_credentials_served :
    user <> [] -> ~ In 58 user ->
    forall text r scheme cookie p k rest,
      parse_block text = PReq r ->
      first_auth (r_header r) = Some (scheme, cookie) ->
      ci_equal scheme_literal scheme = true ->
      b64decode cookie = Some (user ++ 58 :: p) ->
      password_ok p ->
      (k < length installed_handlers)%nat ->
      channel text (repeat MFalse k ++ MTrue :: rest) = (Serve k, [Invoked k]).
  Proof.
    intros Hu Hn text r scheme cookie p k rest Hp Hf Hb Hd Hok Hk.
    unfold Auth.channel. rewrite Hp. rewrite dispatch_first by (rewrite chain_length; exact Hk).
    rewrite nth_chain by assumption. unfold Auth.handle, Auth.auth_handle.
    rewrite Hf, Hb, Hd, split_colon_of by exact Hn.
    assert (Ha : authorize [user; p] = Some true) by (apply authorize_true; auto).
    unfold str in *. rewrite Ha. reflexivity.
  Qed.

  (* --- a dispatched request never falls through to the bare 404 once some
         handler claims it; the handler consulted last claims everything
         (Gen_http.catch_all_last, from the AST of default_handler.match) *)
  Lemma dispatch_not_404 chain hdr : forall ms k,
    (k < length chain)%nat -> nth k ms MFalse = MTrue ->
    fst (dispatch chain ms hdr) <> Error404.
  Proof.
    induction chain as [|[h w] chain IH]; intros ms k Hk Hn; simpl in Hk; [lia|].
    simpl. destruct ms as [|m ms'].
    - destruct k; discriminate.
    - destruct m.
      + destruct (handle h w hdr) as [r eff]. simpl. destruct r; discriminate.
      + destruct k as [|k']; [discriminate|]. simpl in Hn. apply (IH ms' k'); [lia | exact Hn].
      + discriminate.
  Qed.

  Theorem never_404_behind_catch_all text r ms :
    parse_block text = PReq r ->
    nth (length installed_handlers - 1) ms MFalse = MTrue ->
    fst (channel text ms) <> Error404.
  Proof.
    intros Hp Hn. unfold Auth.channel. rewrite Hp.
    apply (dispatch_not_404 _ _ ms (length installed_handlers - 1)%nat); [|exact Hn].
    rewrite chain_length. assert (0 < length installed_handlers)%nat by (simpl; lia). lia.
  Qed.

  (* --- c17_malformed_refused: each class of malformed / wrong credentials and
         the refusal it lands in (never Serve, never an effect) *)
  Inductive malformed (hdr : list str) : decision -> Prop :=
  | M_absent : first_auth hdr = None -> malformed hdr Refuse401
  | M_other_scheme scheme cookie :
      first_auth hdr = Some (scheme, cookie) -> ci_equal scheme_literal scheme = false ->
      malformed hdr Refuse401
  | M_bad_base64 scheme cookie :
      first_auth hdr = Some (scheme, cookie) -> ci_equal scheme_literal scheme = true ->
      b64decode cookie = None -> malformed hdr Error400
  | M_no_colon scheme cookie d :
      first_auth hdr = Some (scheme, cookie) -> ci_equal scheme_literal scheme = true ->
      b64decode cookie = Some d -> ~ In 58 d -> malformed hdr Error500
  | M_empty_user scheme cookie p :
      first_auth hdr = Some (scheme, cookie) -> ci_equal scheme_literal scheme = true ->
      b64decode cookie = Some (58 :: p) -> malformed hdr Refuse401
  | M_wrong scheme cookie u p :
      first_auth hdr = Some (scheme, cookie) -> ci_equal scheme_literal scheme = true ->
      b64decode cookie = Some (u ++ 58 :: p) -> ~ In 58 u -> ~ (u = user /\ password_ok p) ->
      malformed hdr Refuse401.

  Lemma authorize_false u p : ~ (u = user /\ password_ok p) -> authorize [u; p] = Some false.
  Proof.
    intro H. destruct (authorize [u; p]) as [[|]|] eqn:E.
    - apply authorize_true in E. contradiction.
    - reflexivity.
    - exfalso. revert E. apply authorize_shape. eauto.
  Qed.

  Theorem malformed_refused :
    user <> [] ->
    forall text r d k rest,
      parse_block text = PReq r -> malformed (r_header r) d ->
      (k < length installed_handlers)%nat ->
      channel text (repeat MFalse k ++ MTrue :: rest) = (d, []) /\
      (d = Refuse401 \/ d = Error400 \/ d = Error500).
  Proof.
    intros Hu text r d k rest Hp Hm Hk.
    unfold Auth.channel. rewrite Hp. rewrite dispatch_first by (rewrite chain_length; exact Hk).
    rewrite nth_chain by assumption. unfold Auth.handle, Auth.auth_handle.
    destruct Hm as [Hf | s c Hf Hb | s c Hf Hb Hd | s c d Hf Hb Hd Hn | s c p Hf Hb Hd | s c u p Hf Hb Hd Hn Hw];
      rewrite Hf; try rewrite Hb; try rewrite Hd; auto.
    - rewrite split_colon_nocolon by exact Hn. auto.
    - change (58 :: p) with ([] ++ 58 :: p). rewrite split_colon_of by (intros []).
      rewrite authorize_false; auto. intros [He _]. apply Hu. symmetry. exact He.
    - rewrite split_colon_of by exact Hn. rewrite authorize_false by exact Hw. auto.
  Qed.

  (* a prefix or an extension of the right password is a wrong password *)
  Lemma prefix_or_extension_wrong p : starts_with sha_prefix stored = false -> p <> stored ->
    ~ (user = user /\ password_ok p).
  Proof. intros Hs Hne [_ H]. unfold password_ok in H. rewrite Hs in H. contradiction. Qed.
End Spec.

(* ----------------------------------------------------------------- examples
   hypotheses are satisfiable on non-trivial values; the toy decoder is the
   identity, the toy hash prefixes `#` *)
Definition ex_user : str := [97; 108].                      (* al *)
Definition ex_stored : str := [112; 119].                   (* pw *)
Definition ex_b64 : str -> option str := fun s => match s with [33] => None | _ => Some s end.
Definition ex_sha : str -> str := fun s => 35 :: s.
(* GET / HTTP/1.0 CRLF X: y CRLF authorIzation: BaSiC al:pw *)
Definition ex_block (cookie : str) : str :=
  [71; 69; 84; 32; 47; 32; 72; 84; 84; 80; 47; 49; 46; 48; 13; 10; 88; 58; 32; 121; 13; 10;
   97; 117; 116; 104; 111; 114; 73; 122; 97; 116; 105; 111; 110; 58; 32; 66; 97; 83; 105; 67; 32] ++ cookie.

Example ex_served :
  channel ex_b64 ex_sha ex_user ex_stored (ex_block [97; 108; 58; 112; 119]) [MFalse; MFalse; MTrue]
  = (Serve 2, [Invoked 2%nat]).
Proof. vm_compute. reflexivity. Qed.

Example ex_prefix_refused :
  channel ex_b64 ex_sha ex_user ex_stored (ex_block [97; 108; 58; 112]) [MTrue] = (Refuse401, []).
Proof. vm_compute. reflexivity. Qed.

Example ex_extension_refused :
  channel ex_b64 ex_sha ex_user ex_stored (ex_block [97; 108; 58; 112; 119; 119]) [MTrue] = (Refuse401, []).
Proof. vm_compute. reflexivity. Qed.

Example ex_bad_base64 :
  channel ex_b64 ex_sha ex_user ex_stored (ex_block [33]) [MTrue] = (Error400, []).
Proof. vm_compute. reflexivity. Qed.

Example ex_no_colon :
  channel ex_b64 ex_sha ex_user ex_stored (ex_block [97; 108]) [MTrue] = (Error500, []).
Proof. vm_compute. reflexivity. Qed.

Example ex_sha_served :
  channel ex_b64 ex_sha ex_user (sha_prefix ++ [35; 112; 119]) (ex_block [97; 108; 58; 112; 119]) [MTrue]
  = (Serve 0, [Invoked 0%nat]).
Proof. vm_compute. reflexivity. Qed.

(* sending the stored {SHA} string itself as the password does not authenticate *)
Example ex_sha_literal_refused :
  channel ex_b64 ex_sha ex_user (sha_prefix ++ [35; 112; 119])
          (ex_block ([97; 108; 58] ++ sha_prefix ++ [35; 112; 119])) [MTrue]
  = (Refuse401, []).
Proof. vm_compute. reflexivity. Qed.

Example ex_bad_request_line :
  channel ex_b64 ex_sha ex_user ex_stored [66; 65; 68] [MTrue] = (Closed, []).
Proof. vm_compute. reflexivity. Qed.

(* Note (design, not a violation): an EMPTY configured username disables the
   wrapper altogether (`if username:`), so everything is served. *)
Example ex_empty_username_serves_everything :
  channel ex_b64 ex_sha [] ex_stored (ex_block [120]) [MTrue] = (Serve 0, [Invoked 0%nat]).
Proof. vm_compute. reflexivity. Qed.

(* Known finding C17-colon-user: a configured username that contains a colon can
   never authenticate, because the decoded credential is split at its FIRST
   colon; `good_credentials_served` therefore carries the hypothesis
   ~ In 58 user.  Witness: user a:b, password pw, credential a:b:pw. *)
Lemma colon_user_refuted :
  exists user stored p cookie,
    user <> [] /\ In 58 user /\ password_ok ex_sha stored p /\
    ex_b64 cookie = Some (user ++ 58 :: p) /\
    first_auth [[97; 117; 116; 104; 111; 114; 73; 122; 97; 116; 105; 111; 110; 58; 32; 66; 97; 83; 105; 67; 32] ++ cookie]
      = Some ([66; 97; 83; 105; 67], cookie) /\
    channel ex_b64 ex_sha user stored (ex_block cookie) [MTrue] = (Refuse401, []).
Proof.
  exists [97; 58; 98], [112; 119], [112; 119], [97; 58; 98; 58; 112; 119].
  split; [discriminate|]. split; [simpl; auto|]. split; [reflexivity|].
  split; [reflexivity|]. split; vm_compute; reflexivity.
Qed.

Example ex_presents :
  presents ex_b64 (r_header {| r_command := []; r_uri := []; r_version := None;
                               r_header := [[65; 85; 84; 72; 79; 82; 73; 90; 65; 84; 73; 79; 78; 58; 32;
                                             98; 97; 115; 105; 99; 32; 97; 58; 98]] |}) [97] [98].
Proof.
  exists [65; 85; 84; 72; 79; 82; 73; 90; 65; 84; 73; 79; 78; 58; 32; 98; 97; 115; 105; 99; 32; 97; 58; 98],
         [65; 85; 84; 72; 79; 82; 73; 90; 65; 84; 73; 79; 78; 58; 32], [98; 97; 115; 105; 99], [97; 58; 98].
  simpl. repeat split; auto; try discriminate.
  - intros [H|[H|[H|[H|[H|[]]]]]]; discriminate.
  - intros [H|[]]; discriminate.
Qed.
