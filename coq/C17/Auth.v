(* C17: model of HTTP authentication in supervisor 4.3.0.dev0.

   Transcribed from (current working tree):
     supervisor/http.py            deferring_http_channel.found_terminator (391-469),
                                   make_http_servers (797-868),
                                   encrypted_dictionary_authorizer.authorize (891-901),
                                   supervisor_auth_handler (903-907)
     supervisor/medusa/auth_handler.py   auth_handler.handle_request / handle_unauthorized,
                                   AUTHORIZATION regex
     supervisor/medusa/http_server.py    crack_request, join_headers, get_header

   Strings are lists of Z: the code points of the request block after
   `as_string(self.in_buffer)` (UTF-8 decoding is done outside the model; a block
   that is not valid UTF-8 makes found_terminator raise, i.e. the connection is
   closed without a reply - see `channel_undecodable`).

   Environment decisions are explicit:
     b64decode : cookie -> option text     as_string(decodestring(as_bytes(cookie))),
                                           None = any exception (binascii.Error,
                                           UnicodeDecodeError)
     sha1hex   : text -> text              sha1(as_bytes(p)).hexdigest()
     matches   : list mres                 what h.match(request) answers for each
                                           element of the handler chain, in
                                           dispatch order (true / false / raises)
   The tables (handler chain, regex literal with its case-insensitive
   alternatives, scheme word, {SHA} prefix) come from Gen_http.v, regenerated
   from /repo's AST on every run. *)
From Coq Require Import ZArith List Bool Lia.
Import ListNotations.
Require Import SV.C17.Gen_http.
Open Scope Z_scope.

Definition str := list Z.

Fixpoint str_eqb (a b : str) : bool :=
  match a, b with
  | [], [] => true
  | x :: a', y :: b' => (x =? y) && str_eqb a' b'
  | _, _ => false
  end.

Fixpoint starts_with (p s : str) : bool :=
  match p, s with
  | [], _ => true
  | x :: p', y :: s' => (x =? y) && starts_with p' s'
  | _ :: _, [] => false
  end.

Definition mem (x : Z) (l : list Z) : bool := existsb (Z.eqb x) l.

(* ------------------------------------------------------------------ parsing *)

(* header.split('\r\n') *)
Fixpoint split_crlf (s cur : str) : list str :=
  match s with
  | [] => [rev cur]
  | c :: r =>
    match r with
    | d :: r' => if (c =? 13) && (d =? 10) then rev cur :: split_crlf r' []
                 else split_crlf r (c :: cur)
    | [] => split_crlf r (c :: cur)
    end
  end.

(* while lines and not lines[0]: lines = lines[1:] *)
Fixpoint drop_empty (l : list str) : list str :=
  match l with
  | [] :: r => drop_empty r
  | _ => l
  end.

Fixpoint split_on (sep : Z) (s cur : str) : list str :=
  match s with
  | [] => [rev cur]
  | c :: r => if c =? sep then rev cur :: split_on sep r [] else split_on sep r (c :: cur)
  end.

Definition nonempty (s : str) : bool := match s with [] => false | _ => true end.

Definition is_version_char (c : Z) : bool := ((48 <=? c) && (c <=? 57)) || (c =? 46).

(* "HTTP/" *)
Definition http_slash : str := [72; 84; 84; 80; 47].

(* http_server.crack_request: two or three space-separated non-empty words, the third being HTTP/ followed by digits and dots,
   accepted only when the match covers the whole line *)
Definition crack_request (r : str) : option (str * str * option str) :=
  match split_on 32 r [] with
  | [a; b] => if nonempty a && nonempty b then Some (a, b, None) else None
  | [a; b; c] =>
    if nonempty a && nonempty b && starts_with http_slash c then
      let v := skipn 5 c in
      if nonempty v && forallb is_version_char v then Some (a, b, Some v) else None
    else None
  | _ => None
  end.

(* http_server.join_headers; None = IndexError (headers[i][0] on an empty line,
   or r[-1] when the first header line is a continuation) *)
Fixpoint join_headers (hs : list str) (acc : list str) : option (list str) :=
  match hs with
  | [] => Some (rev acc)
  | h :: r =>
    match h with
    | [] => None
    | c :: t =>
      if (c =? 32) || (c =? 9) then
        match acc with
        | [] => None
        | last :: acc' => join_headers r ((last ++ t) :: acc')
        end
      else join_headers r (h :: acc)
    end
  end.

Record request := { r_command : str; r_uri : str; r_version : option str; r_header : list str }.

Inductive parse_result :=
| PNoLines                       (* only blank lines: close_when_done, no reply *)
| PCrash                         (* an exception escapes found_terminator: asyncore closes the channel *)
| PReq (r : request).

(* found_terminator up to the construction of the request object.  With
   command None (request line not of the expected shape) the code reaches
   `splitquery(uri)` with uri = None, which raises AttributeError on this
   Python: the intended `r.error(400)` is never reached. *)
Definition parse_block (text : str) : parse_result :=
  match drop_empty (split_crlf text []) with
  | [] => PNoLines
  | reqline :: rest =>
    match join_headers rest [] with
    | None => PCrash
    | Some hdr =>
      match crack_request reqline with
      | None => PCrash
      | Some (c, u, v) => PReq {| r_command := c; r_uri := u; r_version := v; r_header := hdr |}
      end
    end
  end.

(* ------------------------------------------------- the Authorization header *)

(* case-insensitive literal: position i of the line must be one of the code
   points the regex engine accepts for position i of the literal *)
Fixpoint ci_strip (lit : list (list Z)) (s : str) : option str :=
  match lit with
  | [] => Some s
  | alts :: lit' =>
    match s with
    | [] => None
    | x :: s' => if mem x alts then ci_strip lit' s' else None
    end
  end.

Fixpoint ci_equal (lit : list (list Z)) (s : str) : bool :=
  match lit, s with
  | [], [] => true
  | alts :: lit', x :: s' => mem x alts && ci_equal lit' s'
  | _, _ => false
  end.

(* maximal run of characters other than `stop` *)
Fixpoint span_not (stop : Z) (s acc : str) : str * str :=
  match s with
  | [] => (rev acc, [])
  | c :: r => if c =? stop then (rev acc, s) else span_not stop r (c :: acc)
  end.

(* AUTHORIZATION.match(line) with m.end() == len(line):
   the pattern is the literal `Authorization: `, a non-empty run of
   non-space characters, one space, then any characters except newline to the
   end of the line  ->  Some (scheme, cookie) *)
Definition match_auth_line (line : str) : option (str * str) :=
  match ci_strip auth_literal line with
  | None => None
  | Some rest =>
    match span_not 32 rest [] with
    | (scheme, sp :: cookie) =>           (* sp is the space that ended the run *)
      if nonempty scheme && negb (mem 10 cookie) then Some (scheme, cookie) else None
    | (_, []) => None
    end
  end.

(* get_header(AUTHORIZATION, header, group): the first line that matches *)
Fixpoint first_auth (hdr : list str) : option (str * str) :=
  match hdr with
  | [] => None
  | l :: r => match match_auth_line l with Some x => Some x | None => first_auth r end
  end.

(* decoded.split(':', 1) *)
Definition split_colon (d : str) : list str :=
  match span_not 58 d [] with
  | (u, c :: p) => [u; p]
  | (u, []) => [u]
  end.

(* ---------------------------------------------------------------- handlers *)

Inductive mres := MTrue | MFalse | MRaise.

Inductive decision :=
| Serve (h : nat)         (* the inner handler number h (dispatch order) ran *)
| Refuse401               (* 401 + WWW-Authenticate: Basic *)
| Error400
| Error404
| Error500
| Closed.                 (* connection closed without any reply *)

Inductive effect := Invoked (h : nat).

Inductive hres := HDone | H401 | H400 | HRaise.

Section Auth.
  Variable b64decode : str -> option str.
  Variable sha1hex : str -> str.
  Variable user stored : str.

  (* encrypted_dictionary_authorizer.authorize; None = the unpacking
     `username, password = auth_info` raises ValueError *)
  Definition authorize (auth_info : list str) : option bool :=
    match auth_info with
    | [u; p] =>
      if str_eqb u user then
        if starts_with sha_prefix stored then
          Some (str_eqb (skipn (Z.to_nat sha_skip) stored) (sha1hex p))
        else Some (str_eqb stored p)
      else Some false
    | _ => None
    end.

  (* the inner handler's handle_request: all we record is that it ran *)
  Definition invoke_inner (h : nat) : hres * list effect := (HDone, [Invoked h]).

  (* auth_handler.handle_request *)
  Definition auth_handle (h : nat) (hdr : list str) : hres * list effect :=
    match first_auth hdr with
    | None => (H401, [])                           (* scheme == '' *)
    | Some (scheme, cookie) =>
      if ci_equal scheme_literal scheme then
        match b64decode cookie with
        | None => (H400, [])
        | Some decoded =>
          match authorize (split_colon decoded) with
          | None => (HRaise, [])
          | Some true => invoke_inner h
          | Some false => (H401, [])
          end
        end
      else (H401, [])
    end.

  Definition handle (h : nat) (wrapped : bool) (hdr : list str) : hres * list effect :=
    if wrapped then auth_handle h hdr else invoke_inner h.

  Definition decision_of (h : nat) (r : hres) : decision :=
    match r with
    | HDone => Serve h
    | H401 => Refuse401
    | H400 => Error400
    | HRaise => Error500
    end.

  (* for h in self.server.handlers: if h.match(r): try h.handle_request(r)
     except: r.error(500); return   /   r.error(404) *)
  Fixpoint dispatch (chain : list (nat * bool)) (ms : list mres) (hdr : list str)
    : decision * list effect :=
    match chain with
    | [] => (Error404, [])
    | (h, w) :: chain' =>
      match ms with
      | MRaise :: _ => (Closed, [])
      | MTrue :: _ => let '(r, eff) := handle h w hdr in (decision_of h r, eff)
      | MFalse :: ms' => dispatch chain' ms' hdr
      | [] => dispatch chain' [] hdr
      end
    end.

  (* make_http_servers: `if username:` selects the wrapped chain *)
  Fixpoint number_from (n : nat) (l : list bool) : list (nat * bool) :=
    match l with
    | [] => []
    | w :: r => (n, w) :: number_from (S n) r
    end.

  Definition chain_for (username : str) : list (nat * bool) :=
    number_from 0 (if nonempty username then map snd installed_handlers
                   else map (fun _ => false) installed_handlers).

  Definition channel (text : str) (ms : list mres) : decision * list effect :=
    match parse_block text with
    | PNoLines => (Closed, [])
    | PCrash => (Closed, [])
    | PReq r => dispatch (chain_for user) ms (r_header r)
    end.
End Auth.

(* a request block that is not valid UTF-8: as_string raises *)
Definition channel_undecodable : decision * list effect := (Closed, []).

(* ------------------------------------------------ correspondence interface *)

(* the harness writes a request block as its lines (shared string constants)
   joined with CRLF *)
Fixpoint join_crlf (ls : list str) : str :=
  match ls with
  | [] => []
  | [l] => l
  | l :: r => l ++ 13 :: 10 :: join_crlf r
  end.

Definition decision_eqb (a b : decision) : bool :=
  match a, b with
  | Serve x, Serve y => Nat.eqb x y
  | Refuse401, Refuse401 | Error400, Error400 | Error404, Error404
  | Error500, Error500 | Closed, Closed => true
  | _, _ => false
  end.

Definition effect_eqb (a b : effect) : bool :=
  match a, b with Invoked x, Invoked y => Nat.eqb x y end.

Fixpoint effects_eqb (a b : list effect) : bool :=
  match a, b with
  | [], [] => true
  | x :: a', y :: b' => effect_eqb x y && effects_eqb a' b'
  | _, _ => false
  end.

(* one observed exchange:
   (user, stored, text, match vector,
    (cookie the implementation decoded, result of decoding it),
    (password the implementation hashed, its sha1 hex digest),
    observed decision, observed inner-handler invocations) *)
Definition case : Type :=
  str * str * str * list mres * (str * option str) * (str * str) * decision * list effect.

Definition check_case (c : case) : bool :=
  let '(user, stored, text, ms, (ck, ckres), (pw, pwhex), d, eff) := c in
  let b64 := fun x => if str_eqb x ck then ckres else None in
  let sha := fun x => if str_eqb x pw then pwhex else [] in
  let '(d', eff') := channel b64 sha user stored text ms in
  decision_eqb d d' && effects_eqb eff eff'.

(* the parser alone, against an independent reading of the same block *)
Definition parse_case : Type := str * option (option (str * str * option str * list str)).

Definition opt_str_eqb (a b : option str) : bool :=
  match a, b with
  | None, None => true
  | Some x, Some y => str_eqb x y
  | _, _ => false
  end.

Fixpoint strs_eqb (a b : list str) : bool :=
  match a, b with
  | [], [] => true
  | x :: a', y :: b' => str_eqb x y && strs_eqb a' b'
  | _, _ => false
  end.

(* expected: None = crash, Some None = no lines, Some (Some req) *)
Definition check_parse (c : parse_case) : bool :=
  let '(text, expected) := c in
  match parse_block text, expected with
  | PCrash, None => true
  | PNoLines, Some None => true
  | PReq r, Some (Some (cmd, uri, v, hdr)) =>
    str_eqb (r_command r) cmd && str_eqb (r_uri r) uri && opt_str_eqb (r_version r) v
    && strs_eqb (r_header r) hdr
  | _, _ => false
  end.

(* get_header on one line, against the real regex *)
Definition check_authline (c : str * option (str * str)) : bool :=
  let '(line, expected) := c in
  match match_auth_line line, expected with
  | None, None => true
  | Some (s, k), Some (s', k') => str_eqb s s' && str_eqb k k'
  | _, _ => false
  end.
