(* C14: flat dump of a parsed configuration, used by the correspondence run:
   the harness dumps the real config objects in the same order and Coq
   compares the two atom lists. *)
From Coq Require Import ZArith List Bool String Ascii.
Require Import SV.Common SV.C14.Strs SV.C14.Gen_defaults SV.C14.Config.
Import ListNotations.
Open Scope string_scope.
Open Scope Z_scope.

Inductive atom := AZ (z : Z) | AS (s : string) | AB (b : bool) | AN | AT (tag : string).

Definition atom_eqb (a b : atom) : bool :=
  match a, b with
  | AZ x, AZ y => Z.eqb x y
  | AS x, AS y => String.eqb x y
  | AB x, AB y => Bool.eqb x y
  | AN, AN => true
  | AT x, AT y => String.eqb x y
  | _, _ => false
  end.

Definition err_name (e : err) : string :=
  match e with
  | EName => "name" | ENumprocs => "numprocs" | EStopKill => "stopkill" | ENoCommand => "nocommand"
  | EUnknownEvent => "unknown_event" | ENoEvents => "no_events" | EBufferSize => "buffer_size"
  | ERedirectListener => "redirect_listener" | EResultHandler => "result_handler"
  | EUnknownProgram => "unknown_program" | EAmbiguousProgram => "ambiguous_program"
  | EInt => "int" | EBool => "bool" | EAutorestart => "autorestart" | ESignal => "signal"
  | EByteSize => "int" | EExitcodes => "exitcodes" | EOctal => "octal" | ELogLevel => "loglevel"
  | EExpandName => "expand_name" | EExpandFormat => "expand_format" | EExpandBare => "expand_bare"
  | EEnvSyntax => "env_syntax" | EQuote => "quote"
  | ENoSupervisord => "no_supervisord" | EDirpath => "dirpath" | EDirectory => "directory" | EUser => "user"
  | ESocket => "socket" | ENoSocket => "no_socket" | ESocketBacklog => "socket_backlog"
  | ESocketMode => "socket_mode" | ESocketOwner => "socket_owner"
  | EIncludeNoFiles => "include_no_files"
  | EGenTable => "MODEL_gen_table" | ETypeError => "MODEL_type_error"
  end.

Definition aopt {A} (f : A -> atom) (o : option A) : atom := match o with Some x => f x | None => AN end.
Definition adict (d : list (string * string)) : list atom :=
  AZ (Z.of_nat (List.length d)) :: flat_map (fun '(k, v) => [AS k; AS v]) d.
Definition alogfile (l : logfile) : atom :=
  match l with LNone => AN | LAuto => AT "auto" | LSyslog => AT "syslog" | LPath s => AS s end.
Definition aautorestart (a : autorestart) : atom :=
  match a with ARUnexpected => AT "unexpected" | ARAlways => AT "always" | ARNever => AB false end.
Definition aclass (k : pclass) : atom :=
  match k with PCProcess => AT "ProcessConfig" | PCListener => AT "EventListenerConfig"
             | PCFcgi => AT "FastCGIProcessConfig" end.

(* one entry per ProcessConfig parameter, in the order of
   req_param_names + optional_param_names (checked against the generated
   lists by dump_fields_cover in Proofs.v) *)
Definition dump_fields (p : proc) : list (string * list atom) :=
  [ ("name", [AS (p_name p)]); ("uid", [aopt AZ (p_uid p)]); ("command", [AS (p_command p)]);
    ("directory", [aopt AS (p_directory p)]); ("umask", [aopt AZ (p_umask p)]);
    ("priority", [AZ (p_priority p)]); ("autostart", [AB (p_autostart p)]);
    ("autorestart", [aautorestart (p_autorestart p)]);
    ("startsecs", [AZ (p_startsecs p)]); ("startretries", [AZ (p_startretries p)]);
    ("stdout_logfile", [alogfile (l_file (p_stdout p))]);
    ("stdout_capture_maxbytes", [AZ (l_capture (p_stdout p))]);
    ("stdout_events_enabled", [AB (l_events (p_stdout p))]);
    ("stdout_syslog", [AB (l_syslog (p_stdout p))]);
    ("stdout_logfile_backups", [AZ (l_backups (p_stdout p))]);
    ("stdout_logfile_maxbytes", [AZ (l_maxbytes (p_stdout p))]);
    ("stderr_logfile", [alogfile (l_file (p_stderr p))]);
    ("stderr_capture_maxbytes", [AZ (l_capture (p_stderr p))]);
    ("stderr_logfile_backups", [AZ (l_backups (p_stderr p))]);
    ("stderr_logfile_maxbytes", [AZ (l_maxbytes (p_stderr p))]);
    ("stderr_events_enabled", [AB (l_events (p_stderr p))]);
    ("stderr_syslog", [AB (l_syslog (p_stderr p))]);
    ("stopsignal", [AZ (p_stopsignal p)]); ("stopwaitsecs", [AZ (p_stopwaitsecs p)]);
    ("stopasgroup", [AB (p_stopasgroup p)]); ("killasgroup", [AB (p_killasgroup p)]);
    ("exitcodes", AZ (Z.of_nat (List.length (p_exitcodes p))) :: map AZ (p_exitcodes p));
    ("redirect_stderr", [AB (p_redirect_stderr p)]);
    ("environment", adict (p_environment p));
    ("serverurl", [aopt AS (p_serverurl p)]) ].

Definition dump_proc (p : proc) : list atom := aclass (p_class p) :: flat_map snd (dump_fields p).

Fixpoint sinsert (x : string) (l : list string) : list string :=
  match l with
  | [] => [x]
  | y :: r => if String.ltb y x then y :: sinsert x r else x :: y :: r
  end.
Definition ssort (l : list string) : list string := fold_right sinsert [] l.

Definition dump_kind (k : gkind) : list atom :=
  match k with
  | GHet | GHom => [AT "ProcessGroupConfig"]
  | GPool b evs h =>
    [AT "EventListenerPoolConfig"; AZ b; AZ (Z.of_nat (List.length evs))] ++ map AS (ssort evs) ++ [AS h]
  | GFcgi url backlog mode owner =>
    [AT "FastCGIGroupConfig"; AS url; aopt AZ backlog; aopt AZ mode;
     aopt AZ (option_map fst owner); aopt AZ (option_map snd owner)]
  end%list.

Definition dump_group (g : group) : list atom :=
  ([AT "group"; AS (g_name g); AZ (g_priority g)] ++ dump_kind (g_kind g)
   ++ [AZ (Z.of_nat (List.length (g_procs g)))] ++ flat_map dump_proc (g_procs g))%list.

Definition dump_sup (s : supcfg) : list atom :=
  ([AZ (s_minfds s); AZ (s_minprocs s); aopt AS (s_directory s); aopt AS (s_user s); AZ (s_umask s);
    AS (s_logfile s); AZ (s_logfile_maxbytes s); AZ (s_logfile_backups s); AZ (s_loglevel s);
    AS (s_pidfile s); AS (s_identifier s); AB (s_nodaemon s); AB (s_silent s); AS (s_childlogdir s);
    AB (s_nocleanup s); AB (s_strip_ansi s)] ++ adict (s_environment s))%list.

(* the attributes of the ServerOptions object itself after process_config:
   the configured [supervisord] value wins over the add(...) default whenever
   the section has a value (the section never leaves these None except user,
   directory, profile_options).  One entry per generated effective_options row
   (dump_effective_cover in Proofs.v). *)
Definition dump_effective (s : supcfg) : list (string * atom) :=
  [ ("nodaemon", AB (s_nodaemon s)); ("user", aopt AS (s_user s)); ("umask", AZ (s_umask s));
    ("directory", aopt AS (s_directory s)); ("logfile", AS (s_logfile s));
    ("logfile_maxbytes", AZ (s_logfile_maxbytes s)); ("logfile_backups", AZ (s_logfile_backups s));
    ("loglevel", AZ (s_loglevel s)); ("pidfile", AS (s_pidfile s)); ("identifier", AS (s_identifier s));
    ("childlogdir", AS (s_childlogdir s)); ("minfds", AZ (s_minfds s)); ("minprocs", AZ (s_minprocs s));
    ("nocleanup", AB (s_nocleanup s)); ("strip_ansi", AB (s_strip_ansi s)); ("profile_options", AN);
    ("silent", AB (s_silent s)) ].

Definition dump (r : result config) : list atom :=
  match r with
  | Ok cf => (AT "ok" :: dump_sup (cf_sup cf) ++ AT "effective" :: map snd (dump_effective (cf_sup cf))
              ++ flat_map dump_group (cf_groups cf))%list
  | Err e => [AT "err"; AT (err_name e)]
  end.

(* ---- the correspondence case: oracle context, tokenised files, resolvable
   result_handler specs; and what the real ServerOptions produced *)
Record input := {
  i_ctx : ctx; i_main : sections; i_incs : list (string * sections); i_handlers : list string }.

Definition run (i : input) : list atom :=
  dump (parse (i_ctx i) (i_main i) (i_incs i) (fun h => in_strs h (i_handlers i))).

Definition check_case (x : input * list atom) : bool := list_eqb atom_eqb (run (fst x)) (snd x).

(* the expander alone against CPython's `s % dict` *)
Definition dump_expand (r : result string) : list atom :=
  match r with Ok s => [AT "ok"; AS s] | Err e => [AT "err"; AT (err_name e)] end.
Definition check_expand (x : string * exps * list atom) : bool :=
  let '(s, d, want) := x in list_eqb atom_eqb (dump_expand (py_expand s d)) want.

(* dict_of_key_value_pairs alone against the real function *)
Definition check_kv (x : string * list atom) : bool :=
  list_eqb atom_eqb
    (match dict_of_key_value_pairs (fst x) with
     | Ok d => AT "ok" :: adict d
     | Err e => [AT "err"; AT (err_name e)] end) (snd x).

(* the integer / size / boolean ... converters alone *)
Definition check_conv (x : string * string * list atom) : bool :=
  let '(conv, s, want) := x in
  let az := fun r : result Z => match r with Ok z => [AT "ok"; AZ z] | Err e => [AT "err"; AT (err_name e)] end in
  let got :=
    if String.eqb conv "integer" then az (conv_integer (GStr s))
    else if String.eqb conv "byte_size" then az (conv_byte_size (GStr s))
    else if String.eqb conv "octal_type" then az (conv_octal (GStr s))
    else if String.eqb conv "signal_number" then az (conv_signal (GStr s))
    else if String.eqb conv "logging_level" then az (conv_loglevel (GStr s))
    else if String.eqb conv "boolean" then
      match conv_boolean (GStr s) with Ok b => [AT "ok"; AB b] | Err e => [AT "err"; AT (err_name e)] end
    else if String.eqb conv "auto_restart" then
      match conv_autorestart (GStr s) with Ok a => [AT "ok"; aautorestart a] | Err e => [AT "err"; AT (err_name e)] end
    else if String.eqb conv "list_of_exitcodes" then
      match conv_exitcodes (GStr s) with
      | Ok l => AT "ok" :: map AZ l | Err e => [AT "err"; AT (err_name e)] end
    else if String.eqb conv "process_or_group_name" then
      match conv_name (GStr s) with Ok n => [AT "ok"; AS n] | Err e => [AT "err"; AT (err_name e)] end
    else if String.eqb conv "list_of_strings" then AT "ok" :: map AS (conv_list_of_strings (GStr s))
    else [AT "unknown converter"] in
  list_eqb atom_eqb got want.
